(* C05, the last step: in normal form the fold of `step` over the abstract frames of the two
   directions yields exactly the specification's report (AmqpReport.step_report_agree), hence
   the full statement C05_statement. *)
Require Import V.Base.Prelude V.Amqp.AmqpTypes V.Amqp.AmqpModel V.Amqp.AmqpSpec V.Amqp.AmqpLemmas V.Amqp.AmqpProofs.
Require Import V.Amqp.AmqpArgs V.Amqp.AmqpMethods V.Amqp.AmqpReport.
Local Open Scope N_scope.

(* ------------------------------------------------------------------ the matcher as a finite map *)
Definition entry := (ident * (bool * mview))%type.
Fixpoint assoc (k : ident) (l : list entry) : option (bool * mview) :=
  match l with [] => None | (k', v) :: l' => if ident_eqb k k' then Some v else assoc k l' end.

Lemma ident_eqb_eq a b : ident_eqb a b = true <-> a = b.
Proof.
  destruct a as [[a1 a2] a3], b as [[b1 b2] b3]. cbn [ident_eqb]. rewrite !andb_true_iff, !N.eqb_eq.
  split; [intros [[-> ->] ->]; reflexivity|intros H; inversion H; auto].
Qed.
Lemma ident_eqb_refl a : ident_eqb a a = true.
Proof. apply ident_eqb_eq. reflexivity. Qed.
Lemma ident_eqb_neq a b : a <> b -> ident_eqb a b = false.
Proof. intros H. destruct (ident_eqb a b) eqn:E; [apply ident_eqb_eq in E; contradiction|reflexivity]. Qed.

Lemma lookup_del_none k l : assoc k l = None -> lookup_del k l = (None, l).
Proof.
  induction l as [|[k' v] l IH]; cbn [assoc lookup_del]; [reflexivity|].
  destruct (ident_eqb k k'); [discriminate|]. intros H. rewrite (IH H). reflexivity.
Qed.

Lemma assoc_app k l1 l2 : assoc k (l1 ++ l2) = match assoc k l1 with Some x => Some x | None => assoc k l2 end.
Proof. induction l1 as [|[k' v] l1 IH]; cbn [assoc app]; [reflexivity|]. destruct (ident_eqb k k'); [reflexivity|exact IH]. Qed.

Lemma lookup_del_last k l x : assoc k l = None -> lookup_del k (l ++ [(k, x)]) = (Some x, l).
Proof.
  induction l as [|[k' v] l IH]; cbn [assoc lookup_del app].
  - intros _. rewrite ident_eqb_refl. reflexivity.
  - destruct (ident_eqb k k'); [discriminate|]. intros H. rewrite (IH H). reflexivity.
Qed.

Lemma lookup_del_some k l x : assoc k l = Some x ->
  exists l', lookup_del k l = (Some x, l') /\ forall k', k' <> k -> assoc k' l' = assoc k' l.
Proof.
  induction l as [|[k1 v] l IH]; cbn [assoc lookup_del]; [discriminate|].
  destruct (ident_eqb k k1) eqn:E.
  - intros H. inversion H; subst. exists l. split; [reflexivity|]. intros k' Hk. apply ident_eqb_eq in E. subst k1.
    rewrite (ident_eqb_neq k' k Hk). reflexivity.
  - intros H. destruct (IH H) as (l' & Hl & Ha). rewrite Hl. exists ((k1, v) :: l'). split; [reflexivity|].
    intros k' Hk. cbn [assoc]. destruct (ident_eqb k' k1); [reflexivity|]. apply Ha. exact Hk.
Qed.

(* emit on the finite-map view *)
Lemma emit_store by_c rq id m ms : assoc id (open_msgs ms) = None ->
  emit by_c rq id m ms = {| open_msgs := open_msgs ms ++ [(id, (rq, m))]; items := items ms |}.
Proof. intros H. unfold emit. rewrite (lookup_del_none _ _ H). reflexivity. Qed.

(* a request immediately answered by an empty response (publish / deliver) *)
Lemma emit_self_pair by_c id m ms : assoc id (open_msgs ms) = None ->
  emit by_c false id empty_view (emit by_c true id m ms) =
  {| open_msgs := open_msgs ms;
     items := items ms ++ [{| it_by_client := by_c; it_req := m; it_res := empty_view; it_swapped := false |}] |}.
Proof.
  intros H. rewrite (emit_store by_c true id m ms H). unfold emit. cbn [open_msgs items].
  rewrite (lookup_del_last _ _ _ H). reflexivity.
Qed.

Lemma emit_reply_found by_c id m ms rq : assoc id (open_msgs ms) = Some (true, rq) ->
  exists l', emit by_c false id m ms =
    {| open_msgs := l'; items := items ms ++ [{| it_by_client := by_c; it_req := rq; it_res := m; it_swapped := false |}] |}
    /\ forall k', k' <> id -> assoc k' l' = assoc k' (open_msgs ms).
Proof.
  intros H. destruct (lookup_del_some _ _ _ H) as (l' & Hl & Ha). exists l'. split; [|exact Ha].
  unfold emit. rewrite Hl. reflexivity.
Qed.

(* ------------------------------------------------------------------ facts about the methods of the table *)
Definition emit_class_ok (e : N * N * list (akind * bool)) : bool :=
  let '(c, m, _) := e in
  Bool.eqb (plain_emit c m) (spec_request c m || spec_reply c m || ((c =? 10) && ((m =? 11) || (m =? 31)))).
Lemma emit_class_table : forallb emit_class_ok sig_table = true.
Proof. vm_compute. reflexivity. Qed.
Lemma emit_class cls meth sig : method_sig cls meth = Some sig ->
  plain_emit cls meth = (spec_request cls meth || spec_reply cls meth || ((cls =? 10) && ((meth =? 11) || (meth =? 31)))).
Proof.
  intros H. apply lookup_sig_in in H. pose proof emit_class_table as Ht. rewrite forallb_forall in Ht.
  specialize (Ht _ H). cbn in Ht. apply Bool.eqb_prop in Ht. exact Ht.
Qed.

(* which arguments are reported: the exported-field flags of the table against the reserved
   arguments of the specification *)
Definition is_reported (c m : N) : bool := plain_emit c m || ((c =? 60) && ((m =? 40) || (m =? 60))).
Definition shape_ok (e : N * N * list (akind * bool)) : bool :=
  let '(c, m, sig) := e in
  let fl := map snd sig in
  if negb (is_reported c m) then true else
  if (c =? 10) && (m =? 40) then list_eqb Bool.eqb fl [true; false; false]
  else if ((c =? 10) && (m =? 41)) || ((c =? 20) && ((m =? 10) || (m =? 11))) then forallb negb fl
  else if ((c =? 40) && (m =? 10)) || ((c =? 50) && ((m =? 10) || (m =? 20))) || ((c =? 60) && ((m =? 20) || (m =? 40)))
       then match fl with false :: r => forallb (fun b => b) r | _ => false end
  else forallb (fun b => b) fl.
Lemma shape_table : forallb shape_ok sig_table = true.
Proof. vm_compute. reflexivity. Qed.

Lemma reported_all sig : forall args, length args = length sig -> forallb (fun b => b) (map snd sig) = true -> reported sig args = args.
Proof.
  induction sig as [|[k b] sig IH]; intros args Hl Hf; destruct args as [|a args]; try discriminate; [reflexivity|].
  cbn [map snd forallb] in Hf. apply andb_prop in Hf. destruct Hf as [Hb Hf]. cbn [snd] in Hb. subst b. cbn [reported]. f_equal. apply IH; [cbn in Hl; lia|exact Hf].
Qed.
Lemma reported_none sig : forall args, forallb negb (map snd sig) = true -> reported sig args = [].
Proof.
  induction sig as [|[k b] sig IH]; intros args Hf; [destruct args; reflexivity|].
  cbn [map snd forallb] in Hf. apply andb_prop in Hf. destruct Hf as [Hb Hf]. destruct b; [discriminate|].
  destruct args as [|a args]; [reflexivity|]. cbn [reported]. apply IH. exact Hf.
Qed.

Lemma kinds_match_length ks args : kinds_match ks args -> length args = length ks.
Proof. induction 1; cbn; congruence. Qed.

Lemma reported_spec cls meth sig args : method_sig cls meth = Some sig -> kinds_match (map fst sig) args ->
  is_reported cls meth = true -> reported sig args = spec_reported cls meth args.
Proof.
  intros Hs Hk Hrep. apply kinds_match_length in Hk. rewrite map_length in Hk.
  apply lookup_sig_in in Hs. pose proof shape_table as Ht. rewrite forallb_forall in Ht. specialize (Ht _ Hs). cbn [shape_ok] in Ht.
  rewrite Hrep in Ht. cbn [negb] in Ht.
  unfold spec_reported.
  destruct ((cls =? 10) && (meth =? 40)).
  - destruct sig as [|[k1 b1] sig]; [discriminate|]. destruct sig as [|[k2 b2] sig]; [destruct b1; discriminate|].
    destruct sig as [|[k3 b3] sig]; [destruct b1, b2; discriminate|]. destruct sig as [|[k4 b4] sig]; [|destruct b1, b2, b3; discriminate].
    destruct b1, b2, b3; try discriminate.
    destruct args as [|a1 args]; [cbn in Hk; lia|]. destruct args as [|a2 args]; [cbn in Hk; lia|].
    destruct args as [|a3 args]; [cbn in Hk; lia|]. destruct args as [|a4 args]; [reflexivity|cbn in Hk; lia].
  - destruct (((cls =? 10) && (meth =? 41)) || ((cls =? 20) && ((meth =? 10) || (meth =? 11)))).
    + apply reported_none. exact Ht.
    + destruct (((cls =? 40) && (meth =? 10)) || ((cls =? 50) && ((meth =? 10) || (meth =? 20))) || ((cls =? 60) && ((meth =? 20) || (meth =? 40)))).
      * destruct sig as [|[k1 b1] sig]; cbn [map snd] in Ht; [discriminate|]. destruct b1; [discriminate|].
        destruct args as [|a args]; [cbn in Hk; lia|]. cbn [reported tl]. apply reported_all; [cbn in Hk; lia|exact Ht].
      * apply reported_all; assumption.
Qed.

(* pairing keys *)
Lemma request_cases cls meth : spec_request cls meth = true ->
  In (cls, meth) [(10, 40); (10, 50); (20, 10); (40, 10); (50, 10); (50, 20); (60, 20); (60, 30)].
Proof.
  intros H. unfold spec_request in H.
  repeat match goal with
         | H : (_ || _) = true |- _ => apply orb_prop in H; destruct H as [H|H]
         | H : (_ && _) = true |- _ => apply andb_prop in H; let H1 := fresh in destruct H as [H1 H]
         | H : (_ =? _) = true |- _ => apply N.eqb_eq in H; subst
         end; cbn [In]; auto 12.
Qed.
Ltac request_split H :=
  apply request_cases in H; cbn [In] in H;
  repeat (destruct H as [H|H]; [inversion H; subst; clear H|]); try contradiction.

Lemma request_mod cls meth : spec_request cls meth = true -> meth mod 10 = 0.
Proof. intros H. request_split H; reflexivity. Qed.
Lemma request_not_content cls meth : spec_request cls meth = true -> spec_content cls meth = false /\ spec_handshake cls meth = false /\ spec_reply cls meth = false.
Proof. intros H. request_split H; repeat split; reflexivity. Qed.
Lemma request_key_not_msg (ch cls meth ch' w : N) : spec_request cls meth = true -> (w = 40 \/ w = 60) ->
  (ch, cls, meth - meth mod 10) <> (ch', 60, w).
Proof. intros H Hw E. request_split H; destruct Hw as [-> | ->]; inversion E. Qed.
Lemma request_plain cls meth : spec_request cls meth = true -> plain_emit cls meth = true.
Proof. intros H. request_split H; reflexivity. Qed.

(* ------------------------------------------------------------------ properties, keys *)
Lemma props_of_spec slots : (forall z, In (Some (ATime z)) slots -> time_ok z) ->
  forall dflt, props_of slots dflt = spec_props slots dflt.
Proof.
  induction slots as [|s slots IH]; intros Ht dflt; [destruct dflt; reflexivity|].
  destruct dflt as [|d dflt]; [reflexivity|]. cbn [props_of spec_props]. f_equal.
  - destruct s as [a|]; [|reflexivity]. destruct a; try reflexivity.
    specialize (Ht z (or_introl eq_refl)). unfold time_ok in Ht. unfold year_gt_9999.
    destruct (Z.leb_spec 253402300800 z); [lia|reflexivity].
  - apply IH. intros z Hz. apply Ht. right. exact Hz.
Qed.

Lemma header_props ch cls weight size flags slots : wf_frame (FrHeader ch cls weight size flags slots) ->
  props_of slots zero_props = spec_props slots spec_zero_props.
Proof.
  intros (_ & _ & _ & _ & _ & Hsl & _). change zero_props with spec_zero_props. apply props_of_spec.
  clear -Hsl. induction Hsl as [|k s ks sl Hk Hr IH]; intros z Hin; [contradiction|].
  destruct Hin as [->|Hin]; [destruct Hk as [_ Hw]; exact Hw|apply IH; exact Hin].
Qed.

Definition req_view (cls meth : N) (args : list arg) : mview := (cls * 1000 + meth, spec_reported cls meth args).
Definition key_of (ch cls meth : N) : ident := (ch, cls, meth - meth mod 10).

Fixpoint req_assoc (k : ident) (fs : list frame) : option (bool * mview) :=
  match fs with
  | [] => None
  | FrMethod ch cls meth args :: rest =>
      if spec_request cls meth && ident_eqb k (key_of ch cls meth) then Some (true, req_view cls meth args) else req_assoc k rest
  | _ :: rest => req_assoc k rest
  end.

Lemma req_assoc_app k l1 l2 : req_assoc k (l1 ++ l2) = match req_assoc k l1 with Some x => Some x | None => req_assoc k l2 end.
Proof.
  induction l1 as [|f l1 IH]; [reflexivity|]. destruct f; cbn [req_assoc app]; try exact IH.
  destruct (spec_request cls meth && ident_eqb k (key_of ch cls meth)); [reflexivity|exact IH].
Qed.

Lemma keys_app pick l1 l2 : keys pick (l1 ++ l2) = keys pick l1 ++ keys pick l2.
Proof.
  induction l1 as [|f l1 IH]; [reflexivity|]. destruct f; cbn [keys app]; try exact IH.
  destruct (pick cls meth); [cbn [app]; f_equal; exact IH|exact IH].
Qed.

Lemma key_eqb_ident a b : key_eqb a b = ident_eqb a b.
Proof. destruct a as [[? ?] ?], b as [[? ?] ?]. reflexivity. Qed.
Lemma ident_eqb_sym a b : ident_eqb a b = ident_eqb b a.
Proof.
  destruct (ident_eqb a b) eqn:E.
  - apply ident_eqb_eq in E. subst. symmetry. apply ident_eqb_refl.
  - destruct (ident_eqb b a) eqn:E2; [|reflexivity]. apply ident_eqb_eq in E2. subst. rewrite ident_eqb_refl in E. discriminate.
Qed.

Lemma distinct_mid l1 k l2 : distinct (l1 ++ k :: l2) = true -> existsb (key_eqb k) l1 = false /\ distinct (l1 ++ [k] ++ l2) = true.
Proof.
  intros H. split; [|exact H]. induction l1 as [|a l1 IH]; [reflexivity|].
  cbn [app distinct] in H. apply andb_prop in H. destruct H as [H1 H2]. cbn [existsb]. rewrite (IH H2), orb_false_r.
  apply negb_true_iff in H1. rewrite existsb_app in H1. apply orb_false_iff in H1. destruct H1 as [_ H1]. cbn [existsb] in H1.
  apply orb_false_iff in H1. destruct H1 as [H1 _]. rewrite key_eqb_ident in *. rewrite ident_eqb_sym. exact H1.
Qed.

Lemma req_assoc_key k fs x : req_assoc k fs = Some x -> existsb (key_eqb k) (keys spec_request fs) = true.
Proof.
  induction fs as [|f fs IH]; [discriminate|]. destruct f; cbn [req_assoc keys]; try exact IH.
  destruct (spec_request cls meth) eqn:Er; cbn [andb].
  - destruct (ident_eqb k (key_of ch cls meth)) eqn:Ek.
    + intros _. cbn [existsb]. rewrite key_eqb_ident. unfold key_of in Ek. rewrite Ek. reflexivity.
    + intros H. cbn [existsb]. rewrite (IH H). apply orb_true_r.
  - exact IH.
Qed.

Lemma req_assoc_none_msg fs ch w : (w = 40 \/ w = 60) -> req_assoc (ch, 60, w) fs = None.
Proof.
  intros Hw. induction fs as [|f fs IH]; [reflexivity|]. destruct f; cbn [req_assoc]; try exact IH.
  destruct (spec_request cls meth) eqn:Er; cbn [andb]; [|exact IH].
  rewrite ident_eqb_neq; [exact IH|]. intros E. symmetry in E. revert E. unfold key_of. apply request_key_not_msg; assumption.
Qed.

(* ------------------------------------------------------------------ one step on a method frame *)
Lemma step_method c ch cls meth args d ms sig : method_sig cls meth = Some sig ->
  (cls =? 10) && ((meth =? 10) || (meth =? 30)) = false ->
  step c (FrMethod ch cls meth args) d ms =
  ({| last := (if (cls =? 60) && (meth =? 40) then LPublish else if (cls =? 60) && (meth =? 60) then LDeliver else LOther);
      cur := (ch, cls, meth - meth mod 10);
      pub_args := (if (cls =? 60) && (meth =? 40) then reported sig args else pub_args d); pub_props := pub_props d;
      del_args := (if (cls =? 60) && (meth =? 60) then reported sig args else del_args d); del_props := del_props d |},
   if plain_emit cls meth then emit c c (ch, cls, meth - meth mod 10) (mid cls meth, reported sig args) ms else ms).
Proof. intros Hs Hh. cbn [step]. rewrite Hs, Hh. destruct (plain_emit cls meth); reflexivity. Qed.

Lemma content_cases cls meth : spec_content cls meth = true -> cls = 60 /\ (meth = 40 \/ meth = 50 \/ meth = 60 \/ meth = 71).
Proof.
  unfold spec_content. intros H. apply andb_prop in H. destruct H as [Hc H]. apply N.eqb_eq in Hc. split; [exact Hc|].
  repeat (apply orb_prop in H; destruct H as [H|H]); apply N.eqb_eq in H; auto.
Qed.

Lemma handshake_false cls meth : spec_handshake cls meth = false ->
  (cls =? 10) && ((meth =? 10) || (meth =? 30)) = false /\ (cls =? 10) && ((meth =? 11) || (meth =? 31)) = false.
Proof.
  unfold spec_handshake. destruct (cls =? 10); [|split; reflexivity]. cbn [andb].
  destruct (meth =? 10), (meth =? 11), (meth =? 30), (meth =? 31); cbn; intros H; try discriminate; split; reflexivity.
Qed.

(* ------------------------------------------------------------------ the client half *)
Definition client_allowed (c m : N) : bool := negb (spec_reply c m) && negb ((c =? 60) && (m =? 60)).

Definition dmatch_c (m ch : N) (a : list arg) (d : dstate) : Prop :=
  if m =? 40 then last d = LPublish /\ cur d = (ch, 60, 40) /\ pub_args d = a else last d = LOther.

Definition cinv (cst : cstate) (cu : option (N * N * list arg)) (pr : option (list arg)) (d : dstate) : Prop :=
  match cst with
  | CIdle => cu = None /\ pr = None
  | CWantHeader ch => exists m a, cu = Some (ch, m, a) /\ pr = None /\ dmatch_c m ch a d
  | CWantBody ch size => exists m a p, cu = Some (ch, m, a) /\ pr = Some p /\ dmatch_c m ch a d /\ (m = 40 -> pub_props d = p)
  end.

Lemma run_frames_cons c f fs d ms : run_frames c (f :: fs) (d, ms) = run_frames c fs (step c f d ms).
Proof. unfold run_frames. cbn [fold_left fst snd]. destruct (step c f d ms). reflexivity. Qed.

Lemma client_sim : forall fs pre cst cu pr d ms,
  Forall wf_frame fs -> content_ok fs cst = true -> methods_ok client_allowed fs = true ->
  distinct (keys spec_request pre ++ keys spec_request fs) = true ->
  cinv cst cu pr d -> (forall k, assoc k (open_msgs ms) = req_assoc k pre) ->
  map item_view (items (snd (run_frames true fs (d, ms)))) = map item_view (items ms) ++ spec_messages 40 fs cu pr /\
  (forall k, assoc k (open_msgs (snd (run_frames true fs (d, ms)))) = req_assoc k (pre ++ fs)).
Proof.
  induction fs as [|f fs IH]; intros pre cst cu pr d ms Hwf Hcont Hmeth Hdist Hinv Hopen.
  - cbn. rewrite !app_nil_r. split; [reflexivity|exact Hopen].
  - inversion Hwf as [|? ? Hwf1 Hwfs]; subst. rewrite run_frames_cons.
    unfold methods_ok in Hmeth. cbn [forallb] in Hmeth. apply andb_prop in Hmeth. destruct Hmeth as [Hm1 Hms]. fold (methods_ok client_allowed fs) in Hms.
    destruct f as [|hch|ch cls meth args|ch cls weight size flags slots|ch body].
    + (* protocol header *)
      cbn [step content_ok] in *. destruct (IH pre cst cu pr d ms Hwfs Hcont Hms Hdist Hinv Hopen) as [I1 I2].
      split; [exact I1|]. intros k. rewrite I2, !req_assoc_app. reflexivity.
    + (* heartbeat *)
      cbn [step content_ok] in *. destruct (IH pre cst cu pr d ms Hwfs Hcont Hms Hdist Hinv Hopen) as [I1 I2].
      split; [exact I1|]. intros k. rewrite I2, !req_assoc_app. reflexivity.
    + (* method *)
      destruct Hwf1 as (Hch & (Hc & Hm & sig & Hsig & Hk & Hwfa) & Hlen).
      cbn [content_ok] in Hcont. destruct cst; try discriminate. destruct Hinv as [-> ->].
      apply andb_prop in Hm1. destruct Hm1 as [Hh Hal]. apply negb_true_iff in Hh.
      unfold client_allowed in Hal. apply andb_prop in Hal. destruct Hal as [Hr Hd]. apply negb_true_iff in Hr, Hd.
      destruct (handshake_false cls meth Hh) as [Hh1 Hh2].
      rewrite (step_method true ch cls meth args d ms sig Hsig Hh1).
      pose proof (emit_class cls meth sig Hsig) as Hpe. rewrite Hr, Hh2, !orb_false_r in Hpe.
      cbn [spec_messages]. cbn [keys] in Hdist.
      destruct (spec_request cls meth) eqn:Ereq.
      * (* a request: stored *)
        rewrite Hpe. destruct (request_not_content cls meth Ereq) as (Hnc & _ & _). rewrite Hnc in *.
        assert (Hrep : reported sig args = spec_reported cls meth args).
        { apply (reported_spec cls meth sig args Hsig Hk). unfold is_reported. rewrite Hpe. reflexivity. }
        rewrite Hrep.
        destruct (distinct_mid _ _ _ Hdist) as [Hnot Hdist'].
        assert (Hnone : assoc (ch, cls, meth - meth mod 10) (open_msgs ms) = None).
        { rewrite Hopen. destruct (req_assoc (ch, cls, meth - meth mod 10) pre) eqn:E; [|reflexivity].
          apply req_assoc_key in E. rewrite E in Hnot. discriminate. }
        rewrite (emit_store true true _ _ ms Hnone).
        match goal with |- context [run_frames true fs (?d1, ?m1)] =>
          destruct (IH (pre ++ [FrMethod ch cls meth args]) CIdle None None d1 m1 Hwfs Hcont Hms) as [I1 I2] end.
        { rewrite keys_app. cbn [keys]. rewrite Ereq. rewrite <- app_assoc. exact Hdist'. }
        { split; reflexivity. }
        { intros k. cbn [open_msgs]. rewrite assoc_app, req_assoc_app, Hopen. destruct (req_assoc k pre); [reflexivity|].
          cbn [assoc req_assoc]. rewrite Ereq. cbn [andb]. unfold key_of. destruct (ident_eqb k (ch, cls, meth - meth mod 10)); reflexivity. }
        cbn [items] in I1. split; [exact I1|]. intros k. rewrite I2. rewrite <- app_assoc. reflexivity.
      * (* not a request: nothing emitted *)
        rewrite Hpe.
        match goal with |- context [run_frames true fs (?d1, ms)] => set (d1' := d1) end.
        assert (Hinv' : cinv (if spec_content cls meth then CWantHeader ch else CIdle)
                             (if spec_content cls meth then Some (ch, meth, spec_reported cls meth args) else None) None d1').
        { destruct (spec_content cls meth) eqn:Ec; [|split; reflexivity].
          destruct (content_cases cls meth Ec) as [-> Hcases]. exists meth, (spec_reported 60 meth args). repeat split.
          destruct Hcases as [ -> | [ -> | [ -> | -> ]]]; try discriminate Hd; unfold dmatch_c, d1'; cbn; [|reflexivity|reflexivity].
          repeat split. apply (reported_spec 60 40 sig args Hsig Hk). reflexivity. }
        destruct (IH pre _ _ None d1' ms Hwfs Hcont Hms Hdist Hinv' Hopen) as [I1 I2].
        split; [exact I1|]. intros k. rewrite I2, !req_assoc_app. cbn [req_assoc]. rewrite Ereq. reflexivity.
    + (* content header *)
      cbn [content_ok] in Hcont. destruct cst as [|ch'|]; try discriminate.
      apply andb_prop in Hcont. destruct Hcont as [Hc1 Hcont]. apply andb_prop in Hc1. destruct Hc1 as [Hc1 Hsz2]. apply andb_prop in Hc1. destruct Hc1 as [Hce Hsz1].
      apply N.eqb_eq in Hce. subst ch'.
      destruct Hinv as (m & a & -> & -> & Hdm).
      cbn [spec_messages]. rewrite N.eqb_refl.
      cbn [step]. rewrite (header_props _ _ _ _ _ _ Hwf1).
      unfold dmatch_c in Hdm. destruct (m =? 40) eqn:Em.
      * destruct Hdm as (Hl & Hcur & Hpa). rewrite Hl.
        match goal with |- context [run_frames true fs (?d1, ms)] => set (d1' := d1) end.
        assert (Hinv' : cinv (CWantBody ch size) (Some (ch, m, a)) (Some (spec_props slots spec_zero_props)) d1').
        { exists m, a, (spec_props slots spec_zero_props). repeat split. unfold dmatch_c. rewrite Em. repeat split; assumption. }
        destruct (IH pre _ _ _ d1' ms Hwfs Hcont Hms Hdist Hinv' Hopen) as [I1 I2].
        split; [exact I1|]. intros k. rewrite I2, !req_assoc_app. reflexivity.
      * rewrite Hdm.
        assert (Hinv' : cinv (CWantBody ch size) (Some (ch, m, a)) (Some (spec_props slots spec_zero_props)) d).
        { exists m, a, (spec_props slots spec_zero_props). repeat split; [unfold dmatch_c; rewrite Em; exact Hdm|]. intros ->. discriminate. }
        destruct (IH pre _ _ _ d ms Hwfs Hcont Hms Hdist Hinv' Hopen) as [I1 I2].
        split; [exact I1|]. intros k. rewrite I2, !req_assoc_app. reflexivity.
    + (* body *)
      cbn [content_ok] in Hcont. destruct cst as [| |ch' size]; try discriminate.
      apply andb_prop in Hcont. destruct Hcont as [Hc1 Hcont]. apply andb_prop in Hc1. destruct Hc1 as [Hce Hsz].
      apply N.eqb_eq in Hce. subst ch'.
      destruct Hinv as (m & a & p & -> & -> & Hdm & Hpp).
      cbn [spec_messages]. rewrite N.eqb_refl. cbn [andb].
      unfold dmatch_c in Hdm. cbn [step]. destruct (m =? 40) eqn:Em.
      * apply N.eqb_eq in Em. subst m. destruct Hdm as (Hl & Hcur & Hpa). rewrite Hl, Hcur, Hpa, (Hpp eq_refl).
        assert (Hnone : assoc (ch, 60, 40) (open_msgs ms) = None) by (rewrite Hopen; apply req_assoc_none_msg; left; reflexivity).
        rewrite (emit_self_pair true (ch, 60, 40) _ ms Hnone).
        match goal with |- context [run_frames true fs (d, ?m1)] =>
          destruct (IH pre CIdle None None d m1 Hwfs Hcont Hms Hdist (conj eq_refl eq_refl)) as [I1 I2] end.
        { intros k. cbn [open_msgs]. apply Hopen. }
        cbn [items] in I1. rewrite map_app in I1. cbn [map] in I1. rewrite <- app_assoc in I1.
        split; [exact I1|]. intros k. rewrite I2, !req_assoc_app. reflexivity.
      * rewrite Hdm.
        destruct (IH pre CIdle None None d ms Hwfs Hcont Hms Hdist (conj eq_refl eq_refl) Hopen) as [I1 I2].
        split; [exact I1|]. intros k. rewrite I2, !req_assoc_app. reflexivity.
Qed.

(* ------------------------------------------------------------------ the server half *)
Lemma reply_cases cls meth : spec_reply cls meth = true ->
  In (cls, meth) [(10, 41); (10, 51); (20, 11); (40, 11); (50, 11); (50, 21); (60, 21); (60, 31)].
Proof.
  unfold spec_reply. intros H. apply andb_prop in H. destruct H as [H1 H]. apply N.leb_le in H1.
  apply request_cases in H. cbn [In] in H |- *.
  repeat (destruct H as [H|H]; [inversion H; subst; clear H|]); try contradiction;
    match goal with Hm : _ = meth - 1 |- _ => assert (Hx : meth = N.succ (meth - 1)) by lia; rewrite <- Hm in Hx; cbn in Hx; subst meth end; auto 12.
Qed.
Ltac reply_split H :=
  apply reply_cases in H; cbn [In] in H;
  repeat (destruct H as [H|H]; [inversion H; subst; clear H|]); try contradiction.

Lemma reply_facts cls meth : spec_reply cls meth = true ->
  spec_content cls meth = false /\ spec_request cls (meth - 1) = true /\ meth - meth mod 10 = meth - 1 /\ plain_emit cls meth = true.
Proof. intros H. reply_split H; repeat split; reflexivity. Qed.
Lemma reply_key_not_msg (ch cls meth ch' w : N) : spec_reply cls meth = true -> (w = 40 \/ w = 60) ->
  (ch, cls, meth - meth mod 10) <> (ch', 60, w).
Proof. intros H Hw E. reply_split H; destruct Hw as [-> | ->]; inversion E. Qed.

Lemma req_assoc_find ch cls m0 cfs : spec_request cls m0 = true ->
  req_assoc (ch, cls, m0) cfs = option_map (fun rq => (true, req_view cls m0 rq)) (find_request ch cls m0 cfs).
Proof.
  intros Hr. induction cfs as [|f cfs IH]; [reflexivity|]. destruct f; cbn [req_assoc find_request]; try exact IH.
  destruct (spec_request cls0 meth) eqn:Er0; cbn [andb].
  - pose proof (request_mod cls0 meth Er0) as Hmod. unfold key_of. rewrite Hmod, N.sub_0_r. cbn [ident_eqb].
    destruct ((ch =? ch0) && (cls =? cls0) && (m0 =? meth)) eqn:E; [|exact IH].
    apply andb_prop in E. destruct E as [E E3]. apply andb_prop in E. destruct E as [E1 E2].
    apply N.eqb_eq in E1, E2, E3. subst. reflexivity.
  - destruct ((ch =? ch0) && (cls =? cls0) && (m0 =? meth)) eqn:E; [|exact IH].
    apply andb_prop in E. destruct E as [E E3]. apply andb_prop in E. destruct E as [E1 E2].
    apply N.eqb_eq in E1, E2, E3. subst. rewrite Hr in Er0. discriminate.
Qed.

Definition server_allowed (c m : N) : bool := negb (spec_request c m) && negb ((c =? 60) && (m =? 40)).

Definition dmatch_s (m ch : N) (a : list arg) (d : dstate) : Prop :=
  if m =? 60 then last d = LDeliver /\ cur d = (ch, 60, 60) /\ del_args d = a else last d = LOther.

Definition sinv (cst : cstate) (cu : option (N * N * list arg)) (pr : option (list arg)) (d : dstate) : Prop :=
  match cst with
  | CIdle => cu = None /\ pr = None
  | CWantHeader ch => exists m a, cu = Some (ch, m, a) /\ pr = None /\ dmatch_s m ch a d
  | CWantBody ch size => exists m a p, cu = Some (ch, m, a) /\ pr = Some p /\ dmatch_s m ch a d /\ (m = 60 -> del_props d = p)
  end.

Lemma server_sim cfs : forall fs done cst cu pr d ms,
  Forall wf_frame fs -> content_ok fs cst = true -> methods_ok server_allowed fs = true ->
  distinct (done ++ keys spec_reply fs) = true ->
  sinv cst cu pr d ->
  (forall k, existsb (key_eqb k) done = false -> assoc k (open_msgs ms) = req_assoc k cfs) ->
  (forall ch, assoc (ch, 60, 60) (open_msgs ms) = None) ->
  map item_view (items (snd (run_frames false fs (d, ms)))) = map item_view (items ms) ++ spec_server fs cfs cu pr.
Proof.
  induction fs as [|f fs IH]; intros done cst cu pr d ms Hwf Hcont Hmeth Hdist Hinv Hopen Hmsg.
  - cbn. rewrite app_nil_r. reflexivity.
  - inversion Hwf as [|? ? Hwf1 Hwfs]; subst. rewrite run_frames_cons.
    unfold methods_ok in Hmeth. cbn [forallb] in Hmeth. apply andb_prop in Hmeth. destruct Hmeth as [Hm1 Hms]. fold (methods_ok server_allowed fs) in Hms.
    destruct f as [|hch|ch cls meth args|ch cls weight size flags slots|ch body].
    + cbn [step content_ok spec_server keys] in *. exact (IH done cst cu pr d ms Hwfs Hcont Hms Hdist Hinv Hopen Hmsg).
    + cbn [step content_ok spec_server keys] in *. exact (IH done cst cu pr d ms Hwfs Hcont Hms Hdist Hinv Hopen Hmsg).
    + (* method *)
      destruct Hwf1 as (Hch & (Hc & Hm & sig & Hsig & Hk & Hwfa) & Hlen).
      cbn [content_ok] in Hcont. destruct cst; try discriminate. destruct Hinv as [-> ->].
      apply andb_prop in Hm1. destruct Hm1 as [Hh Hal]. apply negb_true_iff in Hh.
      unfold server_allowed in Hal. apply andb_prop in Hal. destruct Hal as [Hr Hd]. apply negb_true_iff in Hr, Hd.
      destruct (handshake_false cls meth Hh) as [Hh1 Hh2].
      rewrite (step_method false ch cls meth args d ms sig Hsig Hh1).
      pose proof (emit_class cls meth sig Hsig) as Hpe. rewrite Hr, Hh2, orb_false_r in Hpe. cbn [orb] in Hpe.
      cbn [spec_server]. cbn [keys] in Hdist. fold (spec_reply cls meth).
      destruct (spec_reply cls meth) eqn:Erep.
      * (* a reply *)
        rewrite Hpe. destruct (reply_facts cls meth Erep) as (Hnc & Hrq & Hfam & _). rewrite Hnc in *. rewrite Hfam in *.
        assert (Hrepd : reported sig args = spec_reported cls meth args).
        { apply (reported_spec cls meth sig args Hsig Hk). unfold is_reported. rewrite Hpe. reflexivity. }
        rewrite Hrepd.
        destruct (distinct_mid _ _ _ Hdist) as [Hnot Hdist'].
        pose proof (Hopen _ Hnot) as Hlook. rewrite (req_assoc_find ch cls (meth - 1) cfs Hrq) in Hlook.
        assert (Hnm : forall ch', (ch', 60, 60) <> (ch, cls, meth - 1)).
        { intros ch' E. symmetry in E. rewrite <- Hfam in E. revert E. apply reply_key_not_msg; [exact Erep|right; reflexivity]. }
        destruct (find_request ch cls (meth - 1) cfs) as [rq|] eqn:Efind; cbn [option_map] in Hlook.
        -- destruct (emit_reply_found false (ch, cls, meth - 1) (mid cls meth, spec_reported cls meth args) ms _ Hlook) as (l' & He & Hl').
           rewrite He.
           match goal with |- context [run_frames false fs (?d1, ?m1)] =>
             pose proof (IH (done ++ [(ch, cls, meth - 1)]) CIdle None None d1 m1 Hwfs Hcont Hms) as I1 end.
           rewrite <- app_assoc in I1. specialize (I1 Hdist' (conj eq_refl eq_refl)).
           rewrite I1.
           ++ cbn [items]. rewrite map_app. cbn [map]. rewrite <- app_assoc. reflexivity.
           ++ intros k Hk'. cbn [open_msgs]. rewrite existsb_app in Hk'. apply orb_false_iff in Hk'. destruct Hk' as [Hk1 Hk2].
              cbn [existsb] in Hk2. rewrite orb_false_r, key_eqb_ident in Hk2.
              rewrite Hl'; [apply Hopen; exact Hk1|]. intros ->. rewrite ident_eqb_refl in Hk2. discriminate.
           ++ intros ch'. cbn [open_msgs]. rewrite Hl'; [apply Hmsg|apply Hnm].
        -- rewrite (emit_store false false _ _ ms Hlook).
           match goal with |- context [run_frames false fs (?d1, ?m1)] =>
             pose proof (IH (done ++ [(ch, cls, meth - 1)]) CIdle None None d1 m1 Hwfs Hcont Hms) as I1 end.
           rewrite <- app_assoc in I1. specialize (I1 Hdist' (conj eq_refl eq_refl)).
           rewrite I1; [reflexivity| |].
           ++ intros k Hk'. cbn [open_msgs]. rewrite existsb_app in Hk'. apply orb_false_iff in Hk'. destruct Hk' as [Hk1 Hk2].
              cbn [existsb] in Hk2. rewrite orb_false_r, key_eqb_ident in Hk2.
              rewrite assoc_app, (Hopen k Hk1). destruct (req_assoc k cfs); [reflexivity|]. cbn [assoc]. rewrite Hk2. reflexivity.
           ++ intros ch'. cbn [open_msgs]. rewrite assoc_app, Hmsg. cbn [assoc]. rewrite ident_eqb_neq by apply Hnm. reflexivity.
      * (* not a reply: nothing emitted *)
        rewrite Hpe.
        match goal with |- context [run_frames false fs (?d1, ms)] => set (d1' := d1) end.
        assert (Hinv' : sinv (if spec_content cls meth then CWantHeader ch else CIdle)
                             (if spec_content cls meth then Some (ch, meth, spec_reported cls meth args) else None) None d1').
        { destruct (spec_content cls meth) eqn:Ec; [|split; reflexivity].
          destruct (content_cases cls meth Ec) as [-> Hcases]. exists meth, (spec_reported 60 meth args). repeat split.
          destruct Hcases as [ -> | [ -> | [ -> | -> ]]]; try discriminate Hd; unfold dmatch_s, d1'; cbn; [reflexivity| |reflexivity].
          repeat split. apply (reported_spec 60 60 sig args Hsig Hk). reflexivity. }
        exact (IH done _ _ None d1' ms Hwfs Hcont Hms Hdist Hinv' Hopen Hmsg).
    + (* content header *)
      cbn [content_ok] in Hcont. destruct cst as [|ch'|]; try discriminate.
      apply andb_prop in Hcont. destruct Hcont as [Hc1 Hcont]. apply andb_prop in Hc1. destruct Hc1 as [Hc1 Hsz2]. apply andb_prop in Hc1. destruct Hc1 as [Hce Hsz1].
      apply N.eqb_eq in Hce. subst ch'.
      destruct Hinv as (m & a & -> & -> & Hdm).
      cbn [spec_server keys] in *. rewrite N.eqb_refl.
      cbn [step]. rewrite (header_props _ _ _ _ _ _ Hwf1).
      unfold dmatch_s in Hdm. destruct (m =? 60) eqn:Em.
      * destruct Hdm as (Hl & Hcur & Hpa). rewrite Hl.
        match goal with |- context [run_frames false fs (?d1, ms)] => set (d1' := d1) end.
        assert (Hinv' : sinv (CWantBody ch size) (Some (ch, m, a)) (Some (spec_props slots spec_zero_props)) d1').
        { exists m, a, (spec_props slots spec_zero_props). repeat split. unfold dmatch_s. rewrite Em. repeat split; assumption. }
        exact (IH done _ _ _ d1' ms Hwfs Hcont Hms Hdist Hinv' Hopen Hmsg).
      * rewrite Hdm.
        assert (Hinv' : sinv (CWantBody ch size) (Some (ch, m, a)) (Some (spec_props slots spec_zero_props)) d).
        { exists m, a, (spec_props slots spec_zero_props). repeat split; [unfold dmatch_s; rewrite Em; exact Hdm|]. intros ->. discriminate. }
        exact (IH done _ _ _ d ms Hwfs Hcont Hms Hdist Hinv' Hopen Hmsg).
    + (* body *)
      cbn [content_ok] in Hcont. destruct cst as [| |ch' size]; try discriminate.
      apply andb_prop in Hcont. destruct Hcont as [Hc1 Hcont]. apply andb_prop in Hc1. destruct Hc1 as [Hce Hsz].
      apply N.eqb_eq in Hce. subst ch'.
      destruct Hinv as (m & a & p & -> & -> & Hdm & Hpp).
      cbn [spec_server keys] in *. rewrite N.eqb_refl. cbn [andb].
      unfold dmatch_s in Hdm. cbn [step]. destruct (m =? 60) eqn:Em.
      * apply N.eqb_eq in Em. subst m. destruct Hdm as (Hl & Hcur & Hpa). rewrite Hl, Hcur, Hpa, (Hpp eq_refl).
        cbn [negb]. rewrite (emit_self_pair false (ch, 60, 60) _ ms (Hmsg ch)).
        match goal with |- context [run_frames false fs (d, ?m1)] =>
          pose proof (IH done CIdle None None d m1 Hwfs Hcont Hms Hdist (conj eq_refl eq_refl)) as I1 end.
        rewrite I1; [|exact Hopen|exact Hmsg].
        cbn [items]. rewrite map_app. cbn [map]. rewrite <- app_assoc. reflexivity.
      * rewrite Hdm. exact (IH done CIdle None None d ms Hwfs Hcont Hms Hdist (conj eq_refl eq_refl) Hopen Hmsg).
Qed.

(* ------------------------------------------------------------------ both halves *)
Theorem step_report : step_report_agree.
Proof.
  intros cfs sfs Hc Hs Hn. unfold normal in Hn.
  apply andb_prop in Hn. destruct Hn as [Hn Hds]. apply andb_prop in Hn. destruct Hn as [Hn Hdc].
  apply andb_prop in Hn. destruct Hn as [Hn Hms]. apply andb_prop in Hn. destruct Hn as [Hn Hmc].
  apply andb_prop in Hn. destruct Hn as [Hcc Hcs].
  destruct (client_sim cfs [] CIdle None None init_dstate init_mstate Hc Hcc Hmc Hdc (conj eq_refl eq_refl) (fun k => eq_refl)) as [I1 I2].
  cbn [app] in I2. cbn [init_mstate items map app] in I1.
  set (ms1 := snd (run_frames true cfs (init_dstate, init_mstate))) in *.
  rewrite (server_sim cfs sfs [] CIdle None None init_dstate ms1 Hs Hcs Hms Hds (conj eq_refl eq_refl)).
  - rewrite I1. reflexivity.
  - intros k _. apply I2.
  - intros ch. rewrite I2. apply req_assoc_none_msg. right. reflexivity.
Qed.

(* C05 at full strength on the model *)
Theorem C05_statement_holds : C05_statement.
Proof. exact (statement_from_step step_report). Qed.
