(* C05, frames: whatever its payload holds, a frame of a known type takes exactly its declared
   size + 8 octets off the stream and yields a frame or a protocol error (which Dissect skips):
   the frames that follow are read from the right place.  The protocol header takes 8. *)
Require Import V.Base.Prelude V.Amqp.AmqpTypes V.Amqp.AmqpModel V.Amqp.AmqpSpec V.Amqp.AmqpLemmas V.Amqp.AmqpC01.
Local Open Scope N_scope.

Lemma rd_full_app n a r tl : n = Blen a ->
  rd_full n {| sdata := a ++ r; stail := tl |} = (Ok a, {| sdata := r; stail := tl |}).
Proof.
  intros ->. unfold rd_full. cbn [sdata stail]. rewrite Blen_app.
  assert (H : (Blen a <=? Blen a + Blen r) = true) by (apply N.leb_le; lia).
  rewrite H. unfold Blen. rewrite Nat2N.id.
  rewrite firstn_app, Nat.sub_diag, firstn_all, firstn_O, app_nil_r.
  rewrite skipn_app, Nat.sub_diag, skipn_all, skipn_O. reflexivity.
Qed.

Definition frame_or_protocol_error (r : res frame) : Prop :=
  match r with Ok _ | Err EProto => True | _ => False end.

Theorem frame_exact : forall t c1 c2 s1 s2 s3 s4 p e r tl,
  (b2n t = 1 \/ b2n t = 2 \/ b2n t = 3 \/ b2n t = 8) ->
  be [s1; s2; s3; s4] <= max_frame -> Blen p = be [s1; s2; s3; s4] ->
  let st := {| sdata := [t; c1; c2; s1; s2; s3; s4] ++ p ++ e :: r; stail := tl |} in
  snd (read_frame st) = {| sdata := r; stail := tl |} /\ frame_or_protocol_error (fst (read_frame st)).
Proof.
  intros t c1 c2 s1 s2 s3 s4 p e r tl Ht Hmax Hlen st. subst st.
  unfold read_frame. rewrite rd_full_app by reflexivity.
  assert (Hmagic : list_eqb Byte.eqb (firstn 4 [t; c1; c2; s1; s2; s3; s4]) amqp_magic = false).
  { cbn [firstn]. unfold amqp_magic, bs. cbn [map list_eqb].
    destruct (Byte.eqb t (b_of_N 65)) eqn:E; [|reflexivity].
    apply Byte.byte_dec_bl in E. subst t. exfalso. change (b2n (b_of_N 65)) with 65 in Ht. lia. }
  rewrite Hmagic. cbn [firstn skipn].
  assert (Hsz : (max_frame <? be [s1; s2; s3; s4]) = false) by (apply N.ltb_ge; exact Hmax).
  rewrite Hsz.
  assert (Htyp : be [t] = b2n t) by (unfold be; cbn [fold_left]; lia).
  rewrite Htyp.
  assert (Hknown : negb ((b2n t =? 1) || (b2n t =? 2) || (b2n t =? 3) || (b2n t =? 8)) = false).
  { destruct Ht as [ -> | [ -> | [ -> | -> ]]]; reflexivity. }
  rewrite Hknown.
  replace (p ++ e :: r) with ((p ++ [e]) ++ r) by (rewrite <- app_assoc; reflexivity).
  rewrite rd_full_app by (rewrite Blen_app; unfold Blen at 2; cbn [length]; lia).
  assert (Hnth : nth_error (p ++ [e]) (N.to_nat (be [s1; s2; s3; s4])) = Some e).
  { rewrite <- Hlen. unfold Blen. rewrite Nat2N.id. rewrite nth_error_app2 by lia. rewrite Nat.sub_diag. reflexivity. }
  rewrite Hnth.
  destruct (negb (b2n e =? 206)); [split; [reflexivity|exact I]|].
  set (pl := firstn (N.to_nat (be [s1; s2; s3; s4])) (p ++ [e])).
  set (ch := be [c1; c2]).
  assert (Hp : nofail (if b2n t =? 1 then parse_method ch pl else if b2n t =? 2 then parse_header ch pl
                       else if b2n t =? 3 then parse_body ch pl else parse_heartbeat ch pl)).
  { destruct (b2n t =? 1); [apply parse_method_total|]. destruct (b2n t =? 2); [apply parse_header_total|].
    destruct (b2n t =? 3); [exact I|]. unfold parse_heartbeat. destruct pl; exact I. }
  destruct (if b2n t =? 1 then _ else _) as [fr rr|er rr| |]; cbn in Hp; try contradiction; split; (reflexivity || exact I).
Qed.

Theorem proto_header_exact : forall r tl,
  read_frame {| sdata := proto_header ++ r; stail := tl |} = (Ok FrProto, {| sdata := r; stail := tl |}).
Proof.
  intros r tl. unfold read_frame, proto_header.
  change (["A"; "M"; "Q"; "P"; x00; x00; x09; x01]%byte ++ r) with (["A"; "M"; "Q"; "P"; x00; x00; x09]%byte ++ (x01 :: r)).
  rewrite rd_full_app by reflexivity.
  change (list_eqb Byte.eqb (firstn 4 ["A"; "M"; "Q"; "P"; x00; x00; x09]%byte) amqp_magic) with true. cbv iota.
  change (x01 :: r) with ([x01] ++ r). rewrite rd_full_app by reflexivity. reflexivity.
Qed.

(* a frame the specification's encoder wrote, with any payload *)
Corollary C05_frame_exact_enc : forall typ ch p r tl,
  (typ = 1 \/ typ = 2 \/ typ = 3 \/ typ = 8) -> ch < 2 ^ 16 -> Blen p <= max_frame ->
  let st := {| sdata := enc_frame_raw typ ch p ++ r; stail := tl |} in
  snd (read_frame st) = {| sdata := r; stail := tl |} /\ frame_or_protocol_error (fst (read_frame st)).
Proof.
  intros typ ch p r tl Ht Hch Hp. cbv zeta.
  assert (H1 : exists t, enc_be 1 typ = [t] /\ b2n t = typ).
  { exists (b_of_N (typ mod 256)). split; [reflexivity|]. rewrite b2n_b_of_N by (apply N.mod_lt; lia).
    destruct Ht as [ -> | [ -> | [ -> | -> ]]]; reflexivity. }
  destruct H1 as (t & Et & Ht').
  assert (H2 : exists c1 c2, enc_be 2 ch = [c1; c2]) by (eexists; eexists; reflexivity).
  destruct H2 as (c1 & c2 & Ec).
  assert (H4 : exists s1 s2 s3 s4, enc_be 4 (Blen p) = [s1; s2; s3; s4]) by (do 4 eexists; reflexivity).
  destruct H4 as (s1 & s2 & s3 & s4 & Es).
  assert (Hbe : be [s1; s2; s3; s4] = Blen p).
  { rewrite <- Es. apply be_enc_be. unfold max_frame in Hp. change (256 ^ N.of_nat 4) with 4294967296. lia. }
  unfold enc_frame_raw. rewrite Et, Ec, Es. unfold frame_end.
  match goal with |- context [read_frame {| sdata := ?d; stail := _ |}] =>
    replace d with ([t; c1; c2; s1; s2; s3; s4] ++ p ++ xce :: r) by (cbn [app]; rewrite <- app_assoc; reflexivity) end.
  assert (Hx : b2n t = 1 \/ b2n t = 2 \/ b2n t = 3 \/ b2n t = 8) by (rewrite Ht'; exact Ht).
  assert (Hy : be [s1; s2; s3; s4] <= max_frame) by (rewrite Hbe; exact Hp).
  pose proof (frame_exact t c1 c2 s1 s2 s3 s4 p xce r tl Hx Hy (eq_sym Hbe)) as H. cbv zeta in H.
  exact H.
Qed.
