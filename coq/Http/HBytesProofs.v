(* Proofs about the byte helpers: base64 round trip, comparison lemmas. *)
Require Import V.Base.Prelude V.Http.HBytes.
Local Open Scope N_scope.

Lemma b2n_lt (a : byte) : b2n a < 256.
Proof. unfold b2n. pose proof (Byte.to_N_bounded a). lia. Qed.

Lemma b_of_b2n (a : byte) : b_of_N (b2n a) = a.
Proof. unfold b_of_N, b2n. rewrite Byte.of_to_N. reflexivity. Qed.

Lemma b2n_b_of_N n : n < 256 -> b2n (b_of_N n) = n.
Proof.
  intros H. unfold b_of_N, b2n. destruct (Byte.of_N n) as [b|] eqn:E.
  - apply Byte.to_of_N in E. exact E.
  - apply Byte.of_N_None_iff in E. lia.
Qed.

Lemma byte_eqb_eq a b : byte_eqb a b = true <-> a = b.
Proof.
  unfold byte_eqb. rewrite N.eqb_eq. split; [|intros ->; reflexivity].
  intros H. rewrite <- (b_of_b2n a), <- (b_of_b2n b), H. reflexivity.
Qed.

Lemma byte_eqb_refl a : byte_eqb a a = true.
Proof. apply byte_eqb_eq. reflexivity. Qed.

Lemma bytes_eqb_eq : forall a b, bytes_eqb a b = true <-> a = b.
Proof.
  induction a as [|x a IH]; destruct b as [|y b]; cbn [bytes_eqb list_eqb]; try (split; congruence).
  rewrite andb_true_iff, byte_eqb_eq. fold (bytes_eqb a b). rewrite IH. split; [intros [-> ->]; reflexivity| intros H; inversion H; auto].
Qed.

Lemma bytes_eqb_refl a : bytes_eqb a a = true.
Proof. apply bytes_eqb_eq. reflexivity. Qed.

Lemma bytes_eqb_sym a b : bytes_eqb a b = bytes_eqb b a.
Proof.
  destruct (bytes_eqb a b) eqn:E1; destruct (bytes_eqb b a) eqn:E2; try reflexivity.
  - apply bytes_eqb_eq in E1. subst. rewrite bytes_eqb_refl in E2. discriminate.
  - apply bytes_eqb_eq in E2. subst. rewrite bytes_eqb_refl in E1. discriminate.
Qed.

(* ------------------------------------------------------------------ base64 *)
Lemma b64_alphabet_ok :
  forallb (fun n => match b64val (b64char n) with Some m => (m =? n) && negb (byte_eqb (b64char n) pad) | None => false end)
          (map N.of_nat (seq 0 64)) = true.
Proof. vm_compute. reflexivity. Qed.

Lemma b64val_char n : n < 64 -> b64val (b64char n) = Some n /\ byte_eqb (b64char n) pad = false.
Proof.
  intros H. pose proof b64_alphabet_ok as A. rewrite forallb_forall in A.
  specialize (A n). assert (I : In n (map N.of_nat (seq 0 64))).
  { apply in_map_iff. exists (N.to_nat n). split; [lia|]. apply in_seq. lia. }
  specialize (A I). destruct (b64val (b64char n)) as [m|]; [|discriminate].
  apply andb_true_iff in A. destruct A as [A1 A2]. apply N.eqb_eq in A1. subst m.
  split; [reflexivity|]. destruct (byte_eqb (b64char n) pad); [discriminate|reflexivity].
Qed.

Lemma list_ind3 (P : bytes -> Prop) :
  P [] -> (forall a, P [a]) -> (forall a b, P [a; b]) -> (forall a b c l, P l -> P (a :: b :: c :: l)) ->
  forall l, P l.
Proof.
  intros H0 H1 H2 H3.
  fix IH 1. intros [|a [|b [|c l]]]; [exact H0|apply H1|apply H2|apply H3; apply IH].
Qed.

Ltac divmod x k :=
  let H1 := fresh "Hdm" in let H2 := fresh "Hml" in
  pose proof (N.div_mod x k ltac:(lia)) as H1; pose proof (N.mod_lt x k ltac:(lia)) as H2.

Theorem b64_roundtrip : forall l, b64dec (b64enc l) = Some l.
Proof.
  induction l as [|a|a b|a b c l IH] using list_ind3.
  - reflexivity.
  - cbn [b64enc]. pose proof (b2n_lt a) as Ha. set (x := b2n a) in *.
    divmod x 4.
    destruct (b64val_char (x / 4)) as [E1 _]; [lia|].
    destruct (b64val_char ((x mod 4) * 16)) as [E2 _]; [lia|].
    cbn [b64dec]. rewrite E1, E2. rewrite byte_eqb_refl. cbn [andb is_nil].
    set (v2 := (x mod 4) * 16).
    assert (Hv : v2 mod 16 = 0). { subst v2. apply N.mod_mul. lia. }
    rewrite Hv. cbn [N.eqb]. 
    assert (Hq : v2 / 16 = x mod 4). { subst v2. apply N.div_mul. lia. }
    rewrite Hq. replace (x / 4 * 4 + x mod 4) with x by lia. subst x. rewrite b_of_b2n. reflexivity.
  - cbn [b64enc]. pose proof (b2n_lt a) as Ha. pose proof (b2n_lt b) as Hb.
    set (x := b2n a) in *. set (y := b2n b) in *.
    divmod x 4. divmod y 16.
    set (v2 := (x mod 4) * 16 + y / 16). set (v3 := (y mod 16) * 4).
    destruct (b64val_char (x / 4)) as [E1 _]; [lia|].
    destruct (b64val_char v2) as [E2 _]; [subst v2; lia|].
    destruct (b64val_char v3) as [E3 P3]; [subst v3; lia|].
    cbn [b64dec]. rewrite E1, E2, P3, E3. rewrite byte_eqb_refl. cbn [is_nil andb].
    assert (Hq2 : v2 / 16 = x mod 4).
    { subst v2. symmetry. apply (N.div_unique _ 16 _ (y / 16)); lia. }
    assert (Hm2 : v2 mod 16 = y / 16).
    { subst v2. symmetry. apply (N.mod_unique _ 16 (x mod 4) _); lia. }
    assert (Hq3 : v3 / 4 = y mod 16). { subst v3. apply N.div_mul. lia. }
    assert (Hm3 : v3 mod 4 = 0). { subst v3. apply N.mod_mul. lia. }
    rewrite Hm3, Hq2, Hm2, Hq3. cbn [N.eqb].
    replace (x / 4 * 4 + x mod 4) with x by lia. replace (y / 16 * 16 + y mod 16) with y by lia.
    subst x y. rewrite !b_of_b2n. reflexivity.
  - cbn [b64enc]. pose proof (b2n_lt a) as Ha. pose proof (b2n_lt b) as Hb. pose proof (b2n_lt c) as Hc.
    set (x := b2n a) in *. set (y := b2n b) in *. set (z := b2n c) in *.
    divmod x 4. divmod y 16. divmod z 64.
    set (v2 := (x mod 4) * 16 + y / 16). set (v3 := (y mod 16) * 4 + z / 64).
    destruct (b64val_char (x / 4)) as [E1 _]; [lia|].
    destruct (b64val_char v2) as [E2 _]; [subst v2; lia|].
    destruct (b64val_char v3) as [E3 P3]; [subst v3; lia|].
    destruct (b64val_char (z mod 64)) as [E4 P4]; [lia|].
    cbn [b64dec]. rewrite E1, E2, P3, E3, P4, E4, IH.
    assert (Hq2 : v2 / 16 = x mod 4).
    { subst v2. symmetry. apply (N.div_unique _ 16 _ (y / 16)); lia. }
    assert (Hm2 : v2 mod 16 = y / 16).
    { subst v2. symmetry. apply (N.mod_unique _ 16 (x mod 4) _); lia. }
    assert (Hq3 : v3 / 4 = y mod 16).
    { subst v3. symmetry. apply (N.div_unique _ 4 _ (z / 64)); lia. }
    assert (Hm3 : v3 mod 4 = z / 64).
    { subst v3. symmetry. apply (N.mod_unique _ 4 (y mod 16) _); lia. }
    rewrite Hq2, Hm2, Hq3, Hm3.
    replace (x / 4 * 4 + x mod 4) with x by lia. replace (y / 16 * 16 + y mod 16) with y by lia.
    replace (z / 64 * 64 + z mod 64) with z by lia.
    subst x y z. rewrite !b_of_b2n. reflexivity.
Qed.

(* the encoded text is four characters per started group of three bytes *)
Lemma b64enc_length : forall l, length (b64enc l) = (4 * ((length l + 2) / 3))%nat.
Proof.
  induction l as [|a|a b|a b c l IH] using list_ind3; try reflexivity.
  cbn [b64enc length]. rewrite IH.
  replace (S (S (S (length l))) + 2)%nat with (length l + 2 + 1 * 3)%nat by lia.
  rewrite Nat.div_add by lia. lia.
Qed.
