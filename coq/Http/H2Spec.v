(* What C04 says about one half of an HTTP/2 connection, stated without the assembler: streams as
   scripts (frame lists), their projections out of the frame sequence, and the message a completed
   stream must yield.  Does not mention append_frame / pop / read_message / run_asm. *)
Require Import V.Base.Prelude V.Http.HBytes V.Http.H2Asm.
Local Open Scope N_scope.

(* frames that belong to stream s (HEADERS incl. CONTINUATION, DATA) *)
Definition relevant (s : N) (f : frame) : bool :=
  match f with FOther _ => false | _ => frame_sid f =? s end.
Definition proj (s : N) (fs : list frame) : list frame := filter (relevant s) fs.

Definition fields_of (fs : list frame) : list field :=
  flat_map (fun f => match f with FHeaders _ hs _ => hs | _ => [] end) fs.
Definition data_of (fs : list frame) : bytes :=
  flat_map (fun f => match f with FData _ d _ => d | _ => [] end) fs.

Record script := mkScript { ss_sid : N; ss_frames : list frame }.

(* a well-formed completed half stream: HEADERS first, every frame on this stream, END_STREAM on
   the last frame and only there *)
Definition wf_script (sc : script) : Prop :=
  exists hs0 es0 mid last,
    ss_frames sc = (FHeaders (ss_sid sc) hs0 es0 :: mid) ++ [last] /\
    Forall (fun f => relevant (ss_sid sc) f = true /\ is_stream_end f = false) (FHeaders (ss_sid sc) hs0 es0 :: mid) /\
    relevant (ss_sid sc) last = true /\ is_stream_end last = true.

(* the report of a completed half stream: all its header fields (headers + trailers) in order,
   the first 2^20 bytes of its data *)
Definition capped (d : bytes) : bytes := firstn (N.to_nat max_data) d.
Definition message_of (sc : script) : rm_out :=
  assemble (ss_sid sc) (fields_of (ss_frames sc)) (capped (data_of (ss_frames sc))).

(* interleaving of per-stream frame lists (g s = what is still to come on stream s), with frames
   of other types anywhere in between *)
Inductive interleaving (g : N -> list frame) : list frame -> Prop :=
| il_nil : (forall s, g s = []) -> interleaving g []
| il_other : forall s σ, interleaving g σ -> interleaving g (FOther s :: σ)
| il_take : forall s f l σ, g s = f :: l -> relevant s f = true ->
    interleaving (fun s' => if s' =? s then l else g s') σ -> interleaving g (f :: σ).
