(* Proofs about the HTTP/1 glue: the header sort is the sorted permutation, the merged maps are
   exact, path segments never panic, and the counter pairing joins the k-th request with the k-th
   response for every merge of the two directions. *)
Require Import V.Base.Prelude V.Http.HBytes V.Http.HBytesProofs V.Http.H2Asm V.Http.H1Glue.
From Coq Require Import Permutation.
Local Open Scope N_scope.

(* ------------------------------------------------------------------ the order on byte strings *)
Lemma bytes_ltb_irrefl a : bytes_ltb a a = false.
Proof. induction a as [|x a IH]; cbn [bytes_ltb]; [reflexivity|]. rewrite N.ltb_irrefl. exact IH. Qed.

Lemma bytes_ltb_asym : forall a b, bytes_ltb a b = true -> bytes_ltb b a = false.
Proof.
  induction a as [|x a IH]; destruct b as [|y b]; cbn [bytes_ltb]; intros H; try discriminate; try reflexivity.
  destruct (b2n x <? b2n y) eqn:E1.
  - destruct (b2n y <? b2n x) eqn:E2; [apply N.ltb_lt in E1; apply N.ltb_lt in E2; lia|reflexivity].
  - destruct (b2n y <? b2n x) eqn:E2; [discriminate|]. apply IH. exact H.
Qed.

Lemma b2n_inj x y : b2n x = b2n y -> x = y.
Proof. intros H. rewrite <- (b_of_b2n x), <- (b_of_b2n y), H. reflexivity. Qed.

Lemma bytes_ltb_tri : forall a b, bytes_ltb a b = false -> bytes_ltb b a = false -> a = b.
Proof.
  induction a as [|x a IH]; destruct b as [|y b]; cbn [bytes_ltb]; intros H1 H2; try discriminate; try reflexivity.
  destruct (b2n x <? b2n y) eqn:E1; [discriminate|]. destruct (b2n y <? b2n x) eqn:E2; [discriminate|].
  apply N.ltb_ge in E1. apply N.ltb_ge in E2.
  assert (b2n x = b2n y) by lia. rewrite (b2n_inj x y H). f_equal. apply IH; assumption.
Qed.

Lemma bytes_ltb_trans : forall a b c, bytes_ltb a b = true -> bytes_ltb b c = true -> bytes_ltb a c = true.
Proof.
  induction a as [|x a IH]; destruct b as [|y b]; destruct c as [|z c]; cbn [bytes_ltb]; intros H1 H2; try discriminate; try reflexivity.
  destruct (b2n x <? b2n y) eqn:E1; destruct (b2n y <? b2n x) eqn:E1'; destruct (b2n y <? b2n z) eqn:E2;
    destruct (b2n z <? b2n y) eqn:E2'; destruct (b2n x <? b2n z) eqn:E3; destruct (b2n z <? b2n x) eqn:E3';
    try discriminate; try reflexivity;
    rewrite ?N.ltb_lt, ?N.ltb_ge in *; try lia; eauto.
Qed.

(* the comparator of MarshalJSON is a strict total order on (name, value) pairs *)
Lemma nv_ltb_asym a b : nv_ltb a b = true -> nv_ltb b a = false.
Proof.
  unfold nv_ltb. destruct (bytes_ltb (fst a) (fst b)) eqn:E1.
  - intros _. rewrite (bytes_ltb_asym _ _ E1). reflexivity.
  - destruct (bytes_ltb (fst b) (fst a)) eqn:E2; [discriminate|]. intros H. apply bytes_ltb_asym. exact H.
Qed.

Lemma nv_leb_total a b : nv_leb a b = false -> nv_leb b a = true.
Proof.
  unfold nv_leb. intros H. apply negb_false_iff in H. apply negb_true_iff. apply nv_ltb_asym. exact H.
Qed.

Lemma nv_leb_antisym a b : nv_leb a b = true -> nv_leb b a = true -> a = b.
Proof.
  unfold nv_leb, nv_ltb. intros H1 H2. apply negb_true_iff in H1. apply negb_true_iff in H2.
  destruct (bytes_ltb (fst b) (fst a)) eqn:E1; [discriminate|].
  destruct (bytes_ltb (fst a) (fst b)) eqn:E2; [discriminate|].
  destruct a as [a1 a2], b as [b1 b2]. cbn [fst snd] in *.
  rewrite (bytes_ltb_tri _ _ E2 E1). f_equal. apply bytes_ltb_tri; assumption.
Qed.

(* ------------------------------------------------------------------ the sort *)
Lemma nv_insert_perm x l : Permutation (nv_insert x l) (x :: l).
Proof.
  induction l as [|y t IH]; cbn [nv_insert]; [apply Permutation_refl|].
  destruct (nv_leb x y); [apply Permutation_refl|].
  apply Permutation_trans with (y :: x :: t); [apply perm_skip; exact IH|apply perm_swap].
Qed.

Lemma har_sort_perm l : Permutation (har_sort l) l.
Proof.
  induction l as [|x t IH]; cbn [har_sort fold_right]; [apply Permutation_refl|].
  fold (har_sort t). apply Permutation_trans with (x :: har_sort t); [apply nv_insert_perm|apply perm_skip; exact IH].
Qed.

Lemma nv_insert_sorted x l : nv_sorted l = true -> nv_sorted (nv_insert x l) = true.
Proof.
  induction l as [|y t IH]; intros S; cbn [nv_insert]; [reflexivity|].
  destruct (nv_leb x y) eqn:E.
  - cbn [nv_sorted]. rewrite E. exact S.
  - pose proof (nv_leb_total _ _ E) as Eyx.
    assert (St : nv_sorted t = true).
    { cbn [nv_sorted] in S. destruct t; [reflexivity|]. apply andb_true_iff in S. exact (proj2 S). }
    specialize (IH St). destruct t as [|z t'].
    + cbn [nv_insert nv_sorted]. rewrite Eyx. reflexivity.
    + cbn [nv_sorted] in S. apply andb_true_iff in S. destruct S as [Eyz _].
      cbn [nv_insert] in *. destruct (nv_leb x z); cbn [nv_sorted] in *.
      * rewrite Eyx. exact IH.
      * rewrite Eyz. exact IH.
Qed.

Lemma har_sort_sorted l : nv_sorted (har_sort l) = true.
Proof.
  induction l as [|x t IH]; [reflexivity|]. cbn [har_sort fold_right]. fold (har_sort t). apply nv_insert_sorted. exact IH.
Qed.

Theorem sort_sorted_perm : forall hs, Permutation (har_sort hs) hs /\ nv_sorted (har_sort hs) = true.
Proof. intros hs. split; [apply har_sort_perm|apply har_sort_sorted]. Qed.

(* ------------------------------------------------------------------ merged maps *)
Lemma alookup_group_add k k' v g :
  alookup k (group_add k' v g) =
  if bytes_eqb k k' then Some (match alookup k g with Some a => a ++ [v] | None => [v] end) else alookup k g.
Proof.
  induction g as [|[k0 vs] t IH]; cbn [group_add alookup].
  - destruct (bytes_eqb k k'); reflexivity.
  - destruct (bytes_eqb k' k0) eqn:E0.
    + apply bytes_eqb_eq in E0. subst k0. cbn [alookup]. destruct (bytes_eqb k k'); reflexivity.
    + cbn [alookup]. destruct (bytes_eqb k k0) eqn:E1.
      * apply bytes_eqb_eq in E1. subst k0. rewrite bytes_eqb_sym in E0. rewrite E0. reflexivity.
      * exact IH.
Qed.

Definition some_if_nonempty (vs : list bytes) : option (list bytes) :=
  match vs with [] => None | _ => Some vs end.

Lemma alookup_group k l : alookup k (group l) = some_if_nonempty (values_of k l).
Proof.
  unfold group.
  assert (G : forall g, alookup k (fold_left (fun g x => group_add (fst x) (snd x) g) l g) =
                        match alookup k g with
                        | Some a => Some (a ++ values_of k l)
                        | None => some_if_nonempty (values_of k l)
                        end).
  { induction l as [|[k' v] t IH]; intros g; cbn [fold_left values_of filter map fst snd].
    - destruct (alookup k g); [rewrite app_nil_r|]; reflexivity.
    - rewrite IH, alookup_group_add. fold (values_of k t).
      destruct (bytes_eqb k k'); [|reflexivity].
      cbn [map snd]. destruct (alookup k g); [rewrite <- app_assoc|]; reflexivity. }
  rewrite G. reflexivity.
Qed.

Lemma alookup_key_insert k x l :
  alookup k (key_insert x l) = if bytes_eqb k (fst x) then Some (snd x) else alookup k l.
Proof.
  induction l as [|y t IH]; cbn [key_insert].
  - destruct x as [kx vx]. cbn [alookup fst snd]. reflexivity.
  - destruct (bytes_ltb (fst y) (fst x)) eqn:E.
    + destruct y as [ky vy]. cbn [alookup fst snd] in *. rewrite IH.
      destruct (bytes_eqb k ky) eqn:E1; [|reflexivity].
      apply bytes_eqb_eq in E1. subst ky.
      destruct (bytes_eqb k (fst x)) eqn:E2; [|reflexivity].
      apply bytes_eqb_eq in E2. subst k. rewrite bytes_ltb_irrefl in E. discriminate.
    + destruct x as [kx vx]. cbn [alookup fst snd]. reflexivity.
Qed.

Lemma alookup_merge_repeated k l : alookup k (merge_repeated l) = some_if_nonempty (values_of k l).
Proof.
  unfold merge_repeated. rewrite <- alookup_group.
  induction (group l) as [|[k0 vs] t IH]; cbn [fold_right]; [reflexivity|].
  rewrite alookup_key_insert. cbn [fst snd alookup]. destruct (bytes_eqb k k0); [reflexivity|exact IH].
Qed.

Lemma alookup_map {B C} (f : B -> C) k (l : list (bytes * B)) :
  alookup k (map (fun kv => (fst kv, f (snd kv))) l) = option_map f (alookup k l).
Proof.
  induction l as [|[k0 v] t IH]; cbn [map alookup fst snd]; [reflexivity|].
  destruct (bytes_eqb k k0); [reflexivity|exact IH].
Qed.

(* mapSliceRebuildAsMergedMap: a name maps to its values joined with ",", in slice order;
   a name that does not occur is absent; nothing else *)
Theorem merged_exact : forall hs k,
  alookup k (rebuild_merged hs) =
  match values_of k hs with [] => None | [v] => Some v | vs => Some (join_comma vs) end.
Proof.
  intros hs k. unfold rebuild_merged. rewrite alookup_map, alookup_merge_repeated.
  destruct (values_of k hs) as [|v [|w t]]; reflexivity.
Qed.

(* mapSliceRebuildAsMap: single value as a string, repeated values as the list *)
Theorem map_exact : forall hs k,
  alookup k (rebuild_as_map hs) =
  match values_of k hs with [] => None | [v] => Some (JStr v) | vs => Some (JArr vs) end.
Proof.
  intros hs k. unfold rebuild_as_map. rewrite alookup_map, alookup_merge_repeated.
  destruct (values_of k hs) as [|v [|w t]]; reflexivity.
Qed.

(* ------------------------------------------------------------------ path segments *)
Lemma split_slash_nonempty s : forall cur, split_slash cur s <> [].
Proof.
  induction s as [|c t IH]; intros cur; cbn [split_slash]; [discriminate|].
  destruct (b2n c =? 47); [discriminate|apply IH].
Qed.

Theorem path_segments_total path : exists segs, path_segments path = Ok segs.
Proof.
  unfold path_segments. destruct (split_slash [] path) eqn:E; [exfalso; exact (split_slash_nonempty _ _ E)|eauto].
Qed.

(* ------------------------------------------------------------------ pairing *)
Inductive h1merge : list payload -> list payload -> list h1ev -> Prop :=
| hm_nil : h1merge [] [] []
| hm_req : forall p a b c, h1merge a b c -> h1merge (p :: a) b (HReq p :: c)
| hm_resp : forall p a b c, h1merge a b c -> h1merge a (p :: b) (HResp p :: c).

Definition pdefault : payload := mkPayload false 0 [] 0%Z [] [].

(* what the matcher must hold after ra requests and rb responses *)
Definition expected_open (ra rb : list payload) (k : N) : option (bool * payload) :=
  if (nlen rb <? k) && (k <=? nlen ra) then Some (true, nth (N.to_nat (k - 1)) ra pdefault)
  else if (nlen ra <? k) && (k <=? nlen rb) then Some (false, nth (N.to_nat (k - 1)) rb pdefault)
  else None.

Definition Inv (ra rb : list payload) (st : h1st) : Prop :=
  h_req st = nlen ra /\ h_resp st = nlen rb /\
  Permutation (h_items st) (combine ra rb) /\
  (forall k, mlookup (k, false) (h_m st) = expected_open ra rb k) /\
  (forall k, mlookup (k, true) (h_m st) = None).

Lemma mkey_eqb_eq a b : mkey_eqb a b = true <-> a = b.
Proof.
  destruct a as [a1 a2], b as [b1 b2]. unfold mkey_eqb. cbn [fst snd].
  rewrite andb_true_iff, N.eqb_eq, Bool.eqb_true_iff. split; [intros [-> ->]; reflexivity|intros H; inversion H; auto].
Qed.

Lemma mlookup_mremove_same k m : mlookup k (mremove k m) = None.
Proof.
  induction m as [|[k' e] t IH]; cbn [mremove mlookup]; [reflexivity|].
  destruct (mkey_eqb k k') eqn:E; [exact IH|]. cbn [mlookup]. rewrite E. exact IH.
Qed.

Lemma mlookup_mremove_other k k' m : k <> k' -> mlookup k' (mremove k m) = mlookup k' m.
Proof.
  intros Hne. induction m as [|[k0 e] t IH]; cbn [mremove mlookup]; [reflexivity|].
  destruct (mkey_eqb k k0) eqn:E.
  - apply mkey_eqb_eq in E. subst k0. destruct (mkey_eqb k' k) eqn:E2; [apply mkey_eqb_eq in E2; congruence|exact IH].
  - cbn [mlookup]. destruct (mkey_eqb k' k0); [reflexivity|exact IH].
Qed.

Lemma ltb_SS n m : (S n <? S m)%nat = (n <? m)%nat.
Proof. reflexivity. Qed.

Lemma combine_snoc_l : forall (a b : list payload) p,
  combine (a ++ [p]) b = if (length a <? length b)%nat then combine a b ++ [(p, nth (length a) b pdefault)] else combine a b.
Proof.
  induction a as [|x a IH]; intros b p; destruct b as [|y b].
  - reflexivity.
  - cbn [app combine length nth]. destruct b; reflexivity.
  - reflexivity.
  - cbn [app combine length nth]. rewrite IH, ltb_SS. destruct (length a <? length b)%nat; reflexivity.
Qed.

Lemma combine_snoc_r : forall (a b : list payload) q,
  combine a (b ++ [q]) = if (length b <? length a)%nat then combine a b ++ [(nth (length b) a pdefault, q)] else combine a b.
Proof.
  induction a as [|x a IH]; intros b q; destruct b as [|y b].
  - reflexivity.
  - reflexivity.
  - cbn [app combine length nth]. destruct a; reflexivity.
  - cbn [app combine length nth]. rewrite IH, ltb_SS. destruct (length b <? length a)%nat; reflexivity.
Qed.

Lemma nlen_snoc {A} (l : list A) x : nlen (l ++ [x]) = nlen l + 1.
Proof. unfold nlen. rewrite app_length. cbn [length]. lia. Qed.

Lemma nth_snoc_old (l : list payload) x k : (k < length l)%nat -> nth k (l ++ [x]) pdefault = nth k l pdefault.
Proof. intros H. apply app_nth1. exact H. Qed.

Lemma nth_snoc_new (l : list payload) x : nth (length l) (l ++ [x]) pdefault = x.
Proof. rewrite app_nth2 by lia. rewrite Nat.sub_diag. reflexivity. Qed.

Lemma Inv_req ra rb st p : Inv ra rb st -> Inv (ra ++ [p]) rb (h1_step st (HReq p)).
Proof.
  intros (Hq & Hs & HP & HL & HT). unfold h1_step, register.
  set (n := h_req st + 1). pose proof (HL n) as Ln. unfold expected_open in Ln.
  assert (Hn : n = nlen ra + 1) by (subst n; rewrite Hq; reflexivity).
  destruct ((nlen ra <? n) && (n <=? nlen rb)) eqn:C2.
  - (* the response is waiting: pair *)
    apply andb_true_iff in C2. destruct C2 as [_ C2]. apply N.leb_le in C2.
    assert (C1 : (nlen rb <? n) && (n <=? nlen ra) = false).
    { apply andb_false_iff. right. apply N.leb_gt. lia. }
    rewrite C1 in Ln. rewrite Ln. cbn [Bool.eqb].
    unfold Inv. cbn [h_req h_resp h_items h_m]. rewrite nlen_snoc. repeat split; try assumption; try lia.
    + rewrite combine_snoc_l. assert (E : (length ra <? length rb)%nat = true) by (apply Nat.ltb_lt; unfold nlen in *; lia).
      rewrite E. apply Permutation_app; [exact HP|].
      replace (N.to_nat (n - 1)) with (length ra) by (unfold nlen in *; lia). apply Permutation_refl.
    + intros k. destruct (N.eq_dec k n) as [->|Hne].
      * rewrite mlookup_mremove_same. unfold expected_open. rewrite nlen_snoc.
        assert (X1 : (nlen rb <? n) && (n <=? nlen ra + 1) = false) by (apply andb_false_iff; left; apply N.ltb_ge; lia).
        assert (X2 : (nlen ra + 1 <? n) && (n <=? nlen rb) = false) by (apply andb_false_iff; left; apply N.ltb_ge; lia).
        rewrite X1, X2. reflexivity.
      * rewrite mlookup_mremove_other by congruence. rewrite HL. unfold expected_open. rewrite nlen_snoc.
        assert (Y1 : (nlen rb <? k) && (k <=? nlen ra) = false) by (apply andb_false_iff; destruct (N.le_gt_cases k (nlen rb)); [left; apply N.ltb_ge; lia|right; apply N.leb_gt; lia]).
        assert (Y1' : (nlen rb <? k) && (k <=? nlen ra + 1) = false) by (apply andb_false_iff; destruct (N.le_gt_cases k (nlen rb)); [left; apply N.ltb_ge; lia|right; apply N.leb_gt; lia]).
        rewrite Y1, Y1'.
        destruct (N.le_gt_cases k (nlen rb)) as [Hk|Hk].
        -- destruct (N.le_gt_cases k (nlen ra)) as [Hk2|Hk2].
           ++ assert (Z1 : (nlen ra <? k) && (k <=? nlen rb) = false) by (apply andb_false_iff; left; apply N.ltb_ge; lia).
              assert (Z2 : (nlen ra + 1 <? k) && (k <=? nlen rb) = false) by (apply andb_false_iff; left; apply N.ltb_ge; lia).
              rewrite Z1, Z2. reflexivity.
           ++ assert (Z1 : (nlen ra <? k) && (k <=? nlen rb) = true) by (apply andb_true_iff; split; [apply N.ltb_lt|apply N.leb_le]; lia).
              assert (Z2 : (nlen ra + 1 <? k) && (k <=? nlen rb) = true) by (apply andb_true_iff; split; [apply N.ltb_lt|apply N.leb_le]; lia).
              rewrite Z1, Z2. reflexivity.
        -- assert (Z1 : (nlen ra <? k) && (k <=? nlen rb) = false) by (apply andb_false_iff; right; apply N.leb_gt; lia).
           assert (Z2 : (nlen ra + 1 <? k) && (k <=? nlen rb) = false) by (apply andb_false_iff; right; apply N.leb_gt; lia).
           rewrite Z1, Z2. reflexivity.
    + intros k. rewrite mlookup_mremove_other by congruence. apply HT.
  - (* no response yet: stored *)
    assert (C1 : (nlen rb <? n) && (n <=? nlen ra) = false) by (apply andb_false_iff; right; apply N.leb_gt; lia).
    rewrite C1 in Ln. rewrite Ln.
    assert (Hge : nlen rb <= nlen ra).
    { apply andb_false_iff in C2. destruct C2 as [C2|C2]; [apply N.ltb_ge in C2; lia|apply N.leb_gt in C2; lia]. }
    unfold Inv. cbn [h_req h_resp h_items h_m]. rewrite nlen_snoc, app_nil_r. repeat split; try assumption; try lia.
    + rewrite combine_snoc_l. assert (E : (length ra <? length rb)%nat = false) by (apply Nat.ltb_ge; unfold nlen in *; lia).
      rewrite E. exact HP.
    + intros k. cbn [mlookup]. destruct (mkey_eqb (k, false) (n, false)) eqn:E.
      * apply mkey_eqb_eq in E. inversion E; subst k. unfold expected_open. rewrite nlen_snoc.
        assert (X1 : (nlen rb <? n) && (n <=? nlen ra + 1) = true) by (apply andb_true_iff; split; [apply N.ltb_lt|apply N.leb_le]; lia).
        rewrite X1. replace (N.to_nat (n - 1)) with (length ra) by (unfold nlen in *; lia). rewrite nth_snoc_new. reflexivity.
      * assert (Hne : k <> n) by (intros ->; rewrite (proj2 (mkey_eqb_eq (n, false) (n, false)) eq_refl) in E; discriminate).
        rewrite HL. unfold expected_open. rewrite nlen_snoc.
        destruct ((nlen rb <? k) && (k <=? nlen ra)) eqn:A1.
        -- apply andb_true_iff in A1. destruct A1 as [A1 A2]. apply N.ltb_lt in A1. apply N.leb_le in A2.
           assert (A3 : (nlen rb <? k) && (k <=? nlen ra + 1) = true) by (apply andb_true_iff; split; [apply N.ltb_lt|apply N.leb_le]; lia).
           rewrite A3. rewrite nth_snoc_old by (unfold nlen in *; lia). reflexivity.
        -- assert (A3 : (nlen rb <? k) && (k <=? nlen ra + 1) = false).
           { apply andb_false_iff. apply andb_false_iff in A1. destruct A1 as [A1|A1]; [left; exact A1|right].
             apply N.leb_gt in A1. apply N.leb_gt. lia. }
           rewrite A3.
           assert (B1 : (nlen ra <? k) && (k <=? nlen rb) = false) by (apply andb_false_iff; destruct (N.le_gt_cases k (nlen ra)); [left; apply N.ltb_ge; lia|right; apply N.leb_gt; lia]).
           assert (B2 : (nlen ra + 1 <? k) && (k <=? nlen rb) = false) by (apply andb_false_iff; destruct (N.le_gt_cases k (nlen ra + 1)); [left; apply N.ltb_ge; lia|right; apply N.leb_gt; lia]).
           rewrite B1, B2. reflexivity.
    + intros k. cbn [mlookup]. assert (E : mkey_eqb (k, true) (n, false) = false).
      { destruct (mkey_eqb (k, true) (n, false)) eqn:E; [apply mkey_eqb_eq in E; discriminate|reflexivity]. }
      rewrite E. apply HT.
Qed.

Lemma Inv_resp ra rb st p : Inv ra rb st -> Inv ra (rb ++ [p]) (h1_step st (HResp p)).
Proof.
  intros (Hq & Hs & HP & HL & HT). unfold h1_step, register.
  set (n := h_resp st + 1). pose proof (HL n) as Ln. unfold expected_open in Ln.
  assert (Hn : n = nlen rb + 1) by (subst n; rewrite Hs; reflexivity).
  destruct ((nlen rb <? n) && (n <=? nlen ra)) eqn:C1.
  - (* the request is waiting: pair *)
    apply andb_true_iff in C1. destruct C1 as [_ C1]. apply N.leb_le in C1.
    rewrite Ln. cbn [Bool.eqb].
    unfold Inv. cbn [h_req h_resp h_items h_m]. rewrite nlen_snoc. repeat split; try assumption; try lia.
    + rewrite combine_snoc_r. assert (E : (length rb <? length ra)%nat = true) by (apply Nat.ltb_lt; unfold nlen in *; lia).
      rewrite E. apply Permutation_app; [exact HP|].
      replace (N.to_nat (n - 1)) with (length rb) by (unfold nlen in *; lia). apply Permutation_refl.
    + intros k. destruct (N.eq_dec k n) as [->|Hne].
      * rewrite mlookup_mremove_same. unfold expected_open. rewrite nlen_snoc.
        assert (X1 : (nlen rb + 1 <? n) && (n <=? nlen ra) = false) by (apply andb_false_iff; left; apply N.ltb_ge; lia).
        assert (X2 : (nlen ra <? n) && (n <=? nlen rb + 1) = false) by (apply andb_false_iff; left; apply N.ltb_ge; lia).
        rewrite X1, X2. reflexivity.
      * rewrite mlookup_mremove_other by congruence. rewrite HL. unfold expected_open. rewrite nlen_snoc.
        assert (Y1 : (nlen ra <? k) && (k <=? nlen rb) = false) by (apply andb_false_iff; destruct (N.le_gt_cases k (nlen ra)); [left; apply N.ltb_ge; lia|right; apply N.leb_gt; lia]).
        assert (Y1' : (nlen ra <? k) && (k <=? nlen rb + 1) = false) by (apply andb_false_iff; destruct (N.le_gt_cases k (nlen ra)); [left; apply N.ltb_ge; lia|right; apply N.leb_gt; lia]).
        rewrite Y1, Y1'.
        destruct (N.le_gt_cases k (nlen ra)) as [Hk|Hk].
        -- destruct (N.le_gt_cases k (nlen rb)) as [Hk2|Hk2].
           ++ assert (Z1 : (nlen rb <? k) && (k <=? nlen ra) = false) by (apply andb_false_iff; left; apply N.ltb_ge; lia).
              assert (Z2 : (nlen rb + 1 <? k) && (k <=? nlen ra) = false) by (apply andb_false_iff; left; apply N.ltb_ge; lia).
              rewrite Z1, Z2. reflexivity.
           ++ assert (Z1 : (nlen rb <? k) && (k <=? nlen ra) = true) by (apply andb_true_iff; split; [apply N.ltb_lt|apply N.leb_le]; lia).
              assert (Z2 : (nlen rb + 1 <? k) && (k <=? nlen ra) = true) by (apply andb_true_iff; split; [apply N.ltb_lt|apply N.leb_le]; lia).
              rewrite Z1, Z2. reflexivity.
        -- assert (Z1 : (nlen rb <? k) && (k <=? nlen ra) = false) by (apply andb_false_iff; right; apply N.leb_gt; lia).
           assert (Z2 : (nlen rb + 1 <? k) && (k <=? nlen ra) = false) by (apply andb_false_iff; right; apply N.leb_gt; lia).
           rewrite Z1, Z2. reflexivity.
    + intros k. rewrite mlookup_mremove_other by congruence. apply HT.
  - (* no request yet: stored *)
    assert (C2 : (nlen ra <? n) && (n <=? nlen rb) = false) by (apply andb_false_iff; right; apply N.leb_gt; lia).
    rewrite C2 in Ln. rewrite Ln.
    assert (Hge : nlen ra <= nlen rb).
    { apply andb_false_iff in C1. destruct C1 as [C1|C1]; [apply N.ltb_ge in C1; lia|apply N.leb_gt in C1; lia]. }
    unfold Inv. cbn [h_req h_resp h_items h_m]. rewrite nlen_snoc, app_nil_r. repeat split; try assumption; try lia.
    + rewrite combine_snoc_r. assert (E : (length rb <? length ra)%nat = false) by (apply Nat.ltb_ge; unfold nlen in *; lia).
      rewrite E. exact HP.
    + intros k. cbn [mlookup]. destruct (mkey_eqb (k, false) (n, false)) eqn:E.
      * apply mkey_eqb_eq in E. inversion E; subst k. unfold expected_open. rewrite nlen_snoc.
        assert (X0 : (nlen rb + 1 <? n) && (n <=? nlen ra) = false) by (apply andb_false_iff; left; apply N.ltb_ge; lia).
        assert (X1 : (nlen ra <? n) && (n <=? nlen rb + 1) = true) by (apply andb_true_iff; split; [apply N.ltb_lt|apply N.leb_le]; lia).
        rewrite X0, X1. replace (N.to_nat (n - 1)) with (length rb) by (unfold nlen in *; lia). rewrite nth_snoc_new. reflexivity.
      * assert (Hne : k <> n) by (intros ->; rewrite (proj2 (mkey_eqb_eq (n, false) (n, false)) eq_refl) in E; discriminate).
        rewrite HL. unfold expected_open. rewrite nlen_snoc.
        assert (B1 : (nlen rb <? k) && (k <=? nlen ra) = false) by (apply andb_false_iff; destruct (N.le_gt_cases k (nlen rb)); [left; apply N.ltb_ge; lia|right; apply N.leb_gt; lia]).
        assert (B2 : (nlen rb + 1 <? k) && (k <=? nlen ra) = false) by (apply andb_false_iff; destruct (N.le_gt_cases k (nlen rb + 1)); [left; apply N.ltb_ge; lia|right; apply N.leb_gt; lia]).
        rewrite B1, B2.
        destruct ((nlen ra <? k) && (k <=? nlen rb)) eqn:A1.
        -- apply andb_true_iff in A1. destruct A1 as [A1 A2]. apply N.ltb_lt in A1. apply N.leb_le in A2.
           assert (A3 : (nlen ra <? k) && (k <=? nlen rb + 1) = true) by (apply andb_true_iff; split; [apply N.ltb_lt|apply N.leb_le]; lia).
           rewrite A3. rewrite nth_snoc_old by (unfold nlen in *; lia). reflexivity.
        -- assert (A3 : (nlen ra <? k) && (k <=? nlen rb + 1) = false).
           { apply andb_false_iff. apply andb_false_iff in A1. destruct A1 as [A1|A1]; [left; exact A1|right].
             apply N.leb_gt in A1. apply N.leb_gt. lia. }
           rewrite A3. reflexivity.
    + intros k. cbn [mlookup]. assert (E : mkey_eqb (k, true) (n, false) = false).
      { destruct (mkey_eqb (k, true) (n, false)) eqn:E; [apply mkey_eqb_eq in E; discriminate|reflexivity]. }
      rewrite E. apply HT.
Qed.

Lemma Inv_init : Inv [] [] h1st0.
Proof.
  unfold Inv, h1st0. cbn [h_req h_resp h_items h_m combine]. repeat split; try reflexivity.
  intros k. unfold expected_open. change (nlen (@nil payload)) with 0.
    assert (X : (k <=? 0) = true -> (0 <? k) = false) by (intros H; apply N.leb_le in H; apply N.ltb_ge; lia).
    destruct (k <=? 0) eqn:E; [rewrite (X eq_refl)|rewrite andb_false_r]; reflexivity.
Qed.

Lemma Inv_merge a b σ : h1merge a b σ -> forall ra rb st, Inv ra rb st -> Inv (ra ++ a) (rb ++ b) (fold_left h1_step σ st).
Proof.
  induction 1 as [|p a b c H IH|p a b c H IH]; intros ra rb st I; cbn [fold_left].
  - rewrite !app_nil_r. exact I.
  - replace (ra ++ p :: a) with ((ra ++ [p]) ++ a) by (rewrite <- app_assoc; reflexivity).
    apply IH. apply Inv_req. exact I.
  - replace (rb ++ p :: b) with ((rb ++ [p]) ++ b) by (rewrite <- app_assoc; reflexivity).
    apply IH. apply Inv_resp. exact I.
Qed.

(* for every merge of the two directions: exactly the pairs (k-th request, k-th response), and the
   matcher keeps exactly the unanswered tail *)
Theorem h1_pairing : forall reqs resps σ, h1merge reqs resps σ ->
  let st := run_h1 σ in
  Permutation (h_items st) (combine reqs resps) /\
  (forall k, mlookup (k, false) (h_m st) = expected_open reqs resps k) /\
  (forall k, mlookup (k, true) (h_m st) = None).
Proof.
  intros reqs resps σ H. pose proof (Inv_merge _ _ _ H [] [] h1st0 Inv_init) as (_ & _ & HP & HL & HT).
  cbn [app] in *. unfold run_h1. auto.
Qed.

(* sort.Slice is not stable; any sorted permutation is the same list, so the model's insertion sort
   is what Go computes *)
Lemma nv_leb_refl a : nv_leb a a = true.
Proof. unfold nv_leb. apply negb_true_iff. destruct (nv_ltb a a) eqn:E; [|reflexivity]. pose proof (nv_ltb_asym _ _ E). congruence. Qed.

Lemma nv_ltb_spec a b :
  nv_ltb a b = true <-> bytes_ltb (fst a) (fst b) = true \/ (fst a = fst b /\ bytes_ltb (snd a) (snd b) = true).
Proof.
  unfold nv_ltb. destruct (bytes_ltb (fst a) (fst b)) eqn:E1.
  - split; auto.
  - destruct (bytes_ltb (fst b) (fst a)) eqn:E2.
    + split; [discriminate|]. intros [H|[H _]]; [discriminate|]. rewrite H, bytes_ltb_irrefl in E2. discriminate.
    + split; [intros H; right; split; [apply bytes_ltb_tri; assumption|exact H]|]. intros [H|[_ H]]; [discriminate|exact H].
Qed.

Lemma nv_ltb_trans a b c : nv_ltb a b = true -> nv_ltb b c = true -> nv_ltb a c = true.
Proof.
  rewrite !nv_ltb_spec. intros [H1|[E1 H1]] [H2|[E2 H2]].
  - left. eapply bytes_ltb_trans; eassumption.
  - left. rewrite <- E2. exact H1.
  - left. rewrite E1. exact H2.
  - right. split; [congruence|eapply bytes_ltb_trans; eassumption].
Qed.

Lemma nv_leb_trans a b c : nv_leb a b = true -> nv_leb b c = true -> nv_leb a c = true.
Proof.
  intros H1 H2. destruct (nv_leb a c) eqn:E; [reflexivity|exfalso].
  unfold nv_leb in *. apply negb_true_iff in H1. apply negb_true_iff in H2. apply negb_false_iff in E.
  destruct (nv_ltb a b) eqn:Eab.
  - pose proof (nv_ltb_trans _ _ _ E Eab). congruence.
  - assert (a = b) by (apply nv_leb_antisym; unfold nv_leb; apply negb_true_iff; assumption). subst b. congruence.
Qed.

Lemma sorted_tail x t : nv_sorted (x :: t) = true -> nv_sorted t = true.
Proof. cbn [nv_sorted]. destruct t; [reflexivity|]. intros H. apply andb_true_iff in H. exact (proj2 H). Qed.

Lemma sorted_head_min x t : nv_sorted (x :: t) = true -> forall y, In y t -> nv_leb x y = true.
Proof.
  revert x. induction t as [|z t IH]; intros x S y Hin; [contradiction|].
  cbn [nv_sorted] in S. apply andb_true_iff in S. destruct S as [Hxz St].
  destruct Hin as [<-|Hin]; [exact Hxz|]. eapply nv_leb_trans; [exact Hxz|]. apply IH; assumption.
Qed.

(* sort.Slice is not stable, but any sorted permutation of the input is this list: the comparator is
   a total order whose equal elements are identical *)
Theorem har_sort_unique : forall l1 l2, nv_sorted l1 = true -> nv_sorted l2 = true -> Permutation l1 l2 -> l1 = l2.
Proof.
  induction l1 as [|x t1 IH]; intros l2 S1 S2 P.
  - apply Permutation_nil in P. subst. reflexivity.
  - destruct l2 as [|y t2]; [apply Permutation_sym, Permutation_nil in P; discriminate|].
    assert (Hxy : nv_leb x y = true).
    { assert (I : In y (x :: t1)) by (eapply Permutation_in; [apply Permutation_sym; exact P|left; reflexivity]).
      destruct I as [<-|I]; [apply nv_leb_refl|apply (sorted_head_min _ _ S1 _ I)]. }
    assert (Hyx : nv_leb y x = true).
    { assert (I : In x (y :: t2)) by (eapply Permutation_in; [exact P|left; reflexivity]).
      destruct I as [<-|I]; [apply nv_leb_refl|apply (sorted_head_min _ _ S2 _ I)]. }
    pose proof (nv_leb_antisym _ _ Hxy Hyx). subst y. f_equal.
    apply IH; [exact (sorted_tail _ _ S1)|exact (sorted_tail _ _ S2)|exact (Permutation_cons_inv P)].
Qed.

Corollary go_sort_is_har_sort : forall hs out, Permutation out hs -> nv_sorted out = true -> out = har_sort hs.
Proof.
  intros hs out P S. apply har_sort_unique; [exact S|apply har_sort_sorted|].
  eapply Permutation_trans; [exact P|apply Permutation_sym, har_sort_perm].
Qed.
