(* Proofs about the HTTP/2 assembler model: no panic, per-stream isolation, reassembly for every
   interleaving, the 1 MiB cap, classification, recoverable body encoding. *)
Require Import V.Base.Prelude V.Http.HBytes V.Http.HBytesProofs V.Http.H2Asm V.Http.H2Spec.
Local Open Scope N_scope.
(* the cap is a large numeral: proofs never unfold it *)
Local Opaque max_data.

(* ------------------------------------------------------------------ the fragment map *)
Lemma flookup_fremove_same s m : flookup s (fremove s m) = None.
Proof.
  induction m as [|[s' fr] t IH]; cbn [fremove flookup]; [reflexivity|].
  destruct (s =? s') eqn:E; [exact IH|]. cbn [flookup]. rewrite E. exact IH.
Qed.

Lemma flookup_fremove_other s s' m : s <> s' -> flookup s' (fremove s m) = flookup s' m.
Proof.
  intros Hne. induction m as [|[s'' fr] t IH]; cbn [fremove flookup]; [reflexivity|].
  destruct (s =? s'') eqn:E.
  - apply N.eqb_eq in E. subst s''. destruct (s' =? s) eqn:E2; [apply N.eqb_eq in E2; congruence|exact IH].
  - cbn [flookup]. destruct (s' =? s''); [reflexivity|exact IH].
Qed.

Lemma flookup_fset_same s fr m : flookup s (fset s fr m) = Some fr.
Proof. unfold fset. cbn [flookup]. rewrite N.eqb_refl. reflexivity. Qed.

Lemma flookup_fset_other s s' fr m : s <> s' -> flookup s' (fset s fr m) = flookup s' m.
Proof.
  intros Hne. unfold fset. cbn [flookup]. destruct (s' =? s) eqn:E; [apply N.eqb_eq in E; congruence|].
  apply flookup_fremove_other. exact Hne.
Qed.

(* every stored body is within the cap *)
Definition wf_fbs (m : fbs) : Prop :=
  forall s fr, flookup s m = Some fr -> (length (fr_data fr) <= N.to_nat max_data)%nat.

Lemma wf_nil : wf_fbs [].
Proof. intros s fr H. discriminate. Qed.

Lemma wf_fset s fr m : wf_fbs m -> (length (fr_data fr) <= N.to_nat max_data)%nat -> wf_fbs (fset s fr m).
Proof.
  intros W L s' fr' H. destruct (N.eq_dec s s') as [->|Hne].
  - rewrite flookup_fset_same in H. inversion H. subst. exact L.
  - rewrite flookup_fset_other in H by exact Hne. exact (W _ _ H).
Qed.

Lemma wf_fremove s m : wf_fbs m -> wf_fbs (fremove s m).
Proof.
  intros W s' fr' H. destruct (N.eq_dec s s') as [->|Hne].
  - rewrite flookup_fremove_same in H. discriminate.
  - rewrite flookup_fremove_other in H by exact Hne. exact (W _ _ H).
Qed.

(* one fragment in isolation *)
Definition frag_app (fr : fragment) (f : frame) : fragment :=
  match f with
  | FHeaders _ hs _ => mkFrag (fr_headers fr ++ hs) (fr_data fr)
  | FData _ d _ => mkFrag (fr_headers fr) (fr_data fr ++ firstn (N.to_nat max_data - length (fr_data fr)) d)
  | FOther _ => fr
  end.
Definition frag_of (o : option fragment) : fragment :=
  match o with Some fr => fr | None => mkFrag [] [] end.

Lemma firstn_min_len {A} n (l : list A) : firstn (Nat.min n (length l)) l = firstn n l.
Proof.
  destruct (Nat.le_ge_cases n (length l)) as [H|H].
  - rewrite Nat.min_l by exact H. reflexivity.
  - rewrite Nat.min_r by exact H. rewrite firstn_all. symmetry. apply firstn_all2. exact H.
Qed.

Lemma nlen_nat {A} (l : list A) : nlen l = N.of_nat (length l).
Proof. reflexivity. Qed.

Lemma cap_k_existing (a d : bytes) :
  (length a <= N.to_nat max_data)%nat ->
  let k := Z.min (Z.of_N max_data - Z.of_N (nlen a)) (Z.of_N (nlen d)) in
  (k <? 0)%Z = false /\ firstn (Z.to_nat k) d = firstn (N.to_nat max_data - length a) d.
Proof.
  intros L k. subst k. rewrite !nlen_nat. split.
  - apply Z.ltb_ge. lia.
  - rewrite <- (firstn_min_len (N.to_nat max_data - length a) d). f_equal. lia.
Qed.

(* appendFrame never panics on a well-formed map, keeps it well-formed, touches only its stream *)
Lemma append_frame_ok m f : wf_fbs m ->
  exists m', append_frame m f = Ok m' /\ wf_fbs m' /\
    (forall s, relevant s f = false -> flookup s m' = flookup s m) /\
    (forall s, relevant s f = true -> flookup s m' = Some (frag_app (frag_of (flookup s m)) f)).
Proof.
  intros W. destruct f as [sid hs es|sid d es|sid]; cbn [append_frame].
  - destruct (flookup sid m) as [fr|] eqn:E.
    + eexists. split; [reflexivity|]. split; [|split].
      * apply wf_fset; [exact W|]. cbn [fr_data]. exact (W _ _ E).
      * intros s R. cbn [relevant frame_sid] in R. apply N.eqb_neq in R. apply flookup_fset_other. exact R.
      * intros s R. cbn [relevant frame_sid] in R. apply N.eqb_eq in R. subst s.
        rewrite flookup_fset_same, E. reflexivity.
    + eexists. split; [reflexivity|]. split; [|split].
      * apply wf_fset; [exact W|]. cbn [fr_data length]. lia.
      * intros s R. cbn [relevant frame_sid] in R. apply N.eqb_neq in R. apply flookup_fset_other. exact R.
      * intros s R. cbn [relevant frame_sid] in R. apply N.eqb_eq in R. subst s.
        rewrite flookup_fset_same, E. reflexivity.
  - destruct (flookup sid m) as [fr|] eqn:E.
    + destruct (cap_k_existing (fr_data fr) d (W _ _ E)) as [K1 K2]. cbv zeta in K1, K2.
      rewrite K1, K2. eexists. split; [reflexivity|]. split; [|split].
      * apply wf_fset; [exact W|]. cbn [fr_data]. rewrite app_length, firstn_length. pose proof (W _ _ E). lia.
      * intros s R. cbn [relevant frame_sid] in R. apply N.eqb_neq in R. apply flookup_fset_other. exact R.
      * intros s R. cbn [relevant frame_sid] in R. apply N.eqb_eq in R. subst s.
        rewrite flookup_fset_same, E. reflexivity.
    + assert (L0 : (length (@nil byte) <= N.to_nat max_data)%nat) by (cbn [length]; lia).
      destruct (cap_k_existing [] d L0) as [_ K2]. cbv zeta in K2.
      change (Z.of_N (nlen (@nil byte))) with 0%Z in K2. rewrite Z.sub_0_r in K2. rewrite K2.
      eexists. split; [reflexivity|]. split; [|split].
      * apply wf_fset; [exact W|]. cbn [fr_data]. rewrite firstn_length. cbn [length]. lia.
      * intros s R. cbn [relevant frame_sid] in R. apply N.eqb_neq in R. apply flookup_fset_other. exact R.
      * intros s R. cbn [relevant frame_sid] in R. apply N.eqb_eq in R. subst s.
        rewrite flookup_fset_same, E. reflexivity.
  - exists m. split; [reflexivity|]. split; [exact W|]. split; [reflexivity|]. intros s R. discriminate.
Qed.

(* one stream in isolation: what readMessage returns for its frames *)
Fixpoint run1 (s : N) (o : option fragment) (fs : list frame) : list rm_out :=
  match fs with
  | [] => []
  | f :: t =>
      let fr := frag_app (frag_of o) f in
      if is_stream_end f then assemble s (fr_headers fr) (fr_data fr) :: run1 s None t
      else run1 s (Some fr) t
  end.

Lemma relevant_sid s f : relevant s f = true -> frame_sid f = s.
Proof. destruct f; cbn [relevant frame_sid]; intros H; try discriminate; apply N.eqb_eq in H; exact H. Qed.

Lemma assemble_not_none s hs d : assemble s hs d <> RNone.
Proof.
  unfold assemble. destruct (negb (is_nil (hget s_method (headers_of hs)))); [discriminate|].
  destruct (negb (is_nil (hget s_status (headers_of hs)))); [|discriminate].
  destruct (atoi (hget s_status (headers_of hs))); discriminate.
Qed.

(* readMessage: never panics on a well-formed map; effect on stream s *)
Lemma read_message_ok m f : wf_fbs m ->
  exists m' o, read_message m f = Ok (m', o) /\ wf_fbs m' /\
    (forall s, relevant s f = false -> flookup s m' = flookup s m /\ (o = RNone \/ frame_sid f <> s)) /\
    (forall s, relevant s f = true ->
       let fr := frag_app (frag_of (flookup s m)) f in
       if is_stream_end f then flookup s m' = None /\ o = assemble s (fr_headers fr) (fr_data fr)
       else flookup s m' = Some fr /\ o = RNone).
Proof.
  intros W. unfold read_message. destruct (append_frame_ok m f W) as (m1 & E1 & W1 & Hoth & Hsame).
  rewrite E1. cbn [bind]. destruct (is_stream_end f) eqn:Ees; cbn [negb].
  - (* the frame ends its stream: it is a HEADERS or DATA frame, its fragment exists *)
    assert (R : relevant (frame_sid f) f = true).
    { destruct f; cbn [is_stream_end] in Ees; try discriminate; cbn [relevant frame_sid]; apply N.eqb_refl. }
    unfold pop. rewrite (Hsame _ R). cbn [bind].
    eexists. eexists. split; [reflexivity|]. split; [apply wf_fremove; exact W1|]. split.
    + intros s Rs. assert (Hne : frame_sid f <> s).
      { intros Heq. subst s. rewrite R in Rs. discriminate. }
      split; [|right; exact Hne]. rewrite flookup_fremove_other by exact Hne. apply Hoth. exact Rs.
    + intros s Rs. pose proof (relevant_sid _ _ Rs) as Hs. subst s. cbv zeta.
      split; [apply flookup_fremove_same|reflexivity].
  - eexists. eexists. split; [reflexivity|]. split; [exact W1|]. split.
    + intros s Rs. split; [apply Hoth; exact Rs|left; reflexivity].
    + intros s Rs. cbv zeta. split; [apply Hsame; exact Rs|reflexivity].
Qed.

(* the assembler over any frame sequence: total, and what it returns for stream s is what the
   frames of s alone produce *)
Lemma run_asm_proj s : forall σ m, wf_fbs m ->
  exists m' os, run_asm m σ = Ok (m', os) /\ wf_fbs m' /\
    results_of s os = run1 s (flookup s m) (proj s σ).
Proof.
  induction σ as [|f t IH]; intros m W; cbn [run_asm proj filter].
  - exists m, []. split; [reflexivity|]. split; [exact W|reflexivity].
  - destruct (read_message_ok m f W) as (m1 & o & E & W1 & Hoth & Hsame).
    rewrite E. cbn [bind]. destruct (IH m1 W1) as (m2 & os & E2 & W2 & R2). rewrite E2. cbn [bind].
    eexists. eexists. split; [reflexivity|]. split; [exact W2|].
    fold (proj s t). destruct (relevant s f) eqn:Rf.
    + specialize (Hsame s Rf). cbv zeta in Hsame. cbn [run1]. pose proof (relevant_sid _ _ Rf) as Hs.
      destruct (is_stream_end f).
      * destruct Hsame as [L ->]. rewrite L in R2.
        destruct (assemble s _ _) eqn:EA; [exfalso; exact (assemble_not_none _ _ _ EA)| |];
          unfold results_of; cbn [filter fst snd map]; rewrite Hs, N.eqb_refl; cbn [map snd];
          f_equal; exact R2.
      * destruct Hsame as [L ->]. rewrite L in R2. exact R2.
    + destruct (Hoth s Rf) as [L [->|Hne]].
      * rewrite L in R2. exact R2.
      * rewrite L in R2. destruct o; [exact R2| |];
          unfold results_of; cbn [filter fst]; (destruct (frame_sid f =? s) eqn:E3; [apply N.eqb_eq in E3; congruence|]); exact R2.
Qed.

(* ------------------------------------------------------------------ a completed stream *)
Lemma firstn_cap_app (C : nat) (D d : bytes) :
  firstn C D ++ firstn (C - length (firstn C D)) d = firstn C (D ++ d).
Proof.
  rewrite firstn_app. f_equal. rewrite firstn_length.
  destruct (Nat.le_ge_cases C (length D)) as [H|H].
  - rewrite Nat.min_l by exact H. replace (C - C)%nat with 0%nat by lia. replace (C - length D)%nat with 0%nat by lia. reflexivity.
  - rewrite Nat.min_r by exact H. reflexivity.
Qed.

Lemma frag_fold fs : forall fr D,
  fr_data fr = firstn (N.to_nat max_data) D ->
  let fr' := fold_left frag_app fs fr in
  fr_headers fr' = fr_headers fr ++ fields_of fs /\ fr_data fr' = firstn (N.to_nat max_data) (D ++ data_of fs).
Proof.
  induction fs as [|f t IH]; intros fr D HD; cbn [fold_left fields_of data_of flat_map].
  - rewrite !app_nil_r. split; [reflexivity|exact HD].
  - fold (fields_of t). fold (data_of t). destruct f as [sid hs es|sid d es|sid]; cbn [frag_app].
    + destruct (IH (mkFrag (fr_headers fr ++ hs) (fr_data fr)) D HD) as [H1 H2]. cbv zeta in H1, H2.
      cbn [fr_headers fr_data] in H1, H2. rewrite H1, H2. cbn [app]. rewrite <- app_assoc. split; reflexivity.
    + assert (HD' : fr_data (mkFrag (fr_headers fr) (fr_data fr ++ firstn (N.to_nat max_data - length (fr_data fr)) d))
                   = firstn (N.to_nat max_data) (D ++ d)).
      { cbn [fr_data]. rewrite HD. apply firstn_cap_app. }
      destruct (IH _ (D ++ d) HD') as [H1 H2]. cbv zeta in H1, H2. cbn [fr_headers] in H1.
      rewrite H1, H2. cbn [app]. rewrite <- app_assoc. split; reflexivity.
    + destruct (IH fr D HD) as [H1 H2]. cbv zeta in H1, H2. rewrite H1, H2. split; reflexivity.
Qed.

Lemma run1_prefix s : forall pre o rest,
  Forall (fun f => relevant s f = true /\ is_stream_end f = false) pre ->
  pre <> [] ->
  run1 s o (pre ++ rest) = run1 s (Some (fold_left frag_app pre (frag_of o))) rest.
Proof.
  induction pre as [|f t IH]; intros o rest HF Hne; [congruence|].
  inversion HF as [|? ? [_ Hes] HF']; subst. cbn [app run1 fold_left]. rewrite Hes.
  destruct t as [|g t'].
  - reflexivity.
  - rewrite (IH (Some (frag_app (frag_of o) f)) rest HF' ltac:(discriminate)). reflexivity.
Qed.

(* a well-formed completed stream yields exactly its message *)
Lemma run1_script sc : wf_script sc -> run1 (ss_sid sc) None (ss_frames sc) = [message_of sc].
Proof.
  intros (hs0 & es0 & mid & last & Hfr & HF & Rl & El).
  unfold message_of. rewrite Hfr.
  assert (Hne : FHeaders (ss_sid sc) hs0 es0 :: mid <> []) by discriminate.
  remember (FHeaders (ss_sid sc) hs0 es0 :: mid) as pre eqn:Epre. clear Epre.
  rewrite run1_prefix by assumption.
  cbn [run1]. rewrite El. f_equal. cbn [frag_of].
  pose proof (frag_fold (pre ++ [last]) (mkFrag [] []) [] eq_refl) as H.
  cbv zeta in H. rewrite fold_left_app in H. cbn [fold_left] in H. destruct H as [H1 H2].
  change (fr_headers (mkFrag [] [])) with (@nil field) in H1. rewrite app_nil_l in H1, H2.
  unfold capped. rewrite <- H1, <- H2. reflexivity.
Qed.

(* ------------------------------------------------------------------ interleavings and projections *)
Lemma relevant_inj s s' f : relevant s f = true -> relevant s' f = true -> s = s'.
Proof. intros H1 H2. apply relevant_sid in H1. apply relevant_sid in H2. congruence. Qed.

Lemma interleaving_proj g σ : interleaving g σ ->
  (forall s f, In f (g s) -> relevant s f = true) -> forall s, proj s σ = g s.
Proof.
  induction 1 as [g H0|g s0 σ H IH|g s0 f l σ Hg Rf H IH]; intros Hrel s.
  - rewrite H0. reflexivity.
  - cbn [proj filter relevant]. apply IH. exact Hrel.
  - assert (Hrel' : forall s1 f1, In f1 (if s1 =? s0 then l else g s1) -> relevant s1 f1 = true).
    { intros s1 f1 Hin. destruct (s1 =? s0) eqn:E.
      - apply N.eqb_eq in E. subst s1. apply Hrel. rewrite Hg. right. exact Hin.
      - apply Hrel. exact Hin. }
    specialize (IH Hrel' s). cbn [proj filter]. fold (proj s σ). rewrite IH.
    destruct (s =? s0) eqn:E.
    + apply N.eqb_eq in E. subst s. rewrite Rf, Hg. reflexivity.
    + destruct (relevant s f) eqn:R; [|reflexivity].
      pose proof (relevant_inj _ _ _ R Rf). subst s. rewrite N.eqb_refl in E. discriminate.
Qed.

Lemma wf_script_relevant sc : wf_script sc -> forall f, In f (ss_frames sc) -> relevant (ss_sid sc) f = true.
Proof.
  intros (hs0 & es0 & mid & last & Hfr & HF & Rl & El) f Hin. rewrite Hfr in Hin.
  apply in_app_or in Hin. destruct Hin as [Hin|[<-|[]]]; [|exact Rl].
  rewrite Forall_forall in HF. exact (proj1 (HF _ Hin)).
Qed.

(* ------------------------------------------------------------------ the theorems *)
(* the assembler returns for every frame sequence (no panic), and what it reports for stream s is
   determined by the frames of s alone *)
Theorem asm_total σ : exists m' os, run_asm [] σ = Ok (m', os).
Proof. destruct (run_asm_proj 0 σ [] wf_nil) as (m' & os & E & _). eauto. Qed.

Theorem asm_isolation s σ σ' m1 os1 m2 os2 :
  run_asm [] σ = Ok (m1, os1) -> run_asm [] σ' = Ok (m2, os2) ->
  proj s σ = proj s σ' -> results_of s os1 = results_of s os2.
Proof.
  intros E1 E2 HP.
  destruct (run_asm_proj s σ [] wf_nil) as (m1' & os1' & E1' & _ & R1).
  destruct (run_asm_proj s σ' [] wf_nil) as (m2' & os2' & E2' & _ & R2).
  rewrite E1 in E1'. rewrite E2 in E2'. inversion E1'; inversion E2'; subst. rewrite R1, R2, HP. reflexivity.
Qed.

(* projection form: whatever else is on the connection, a stream whose frames are a well-formed
   completed script yields exactly its message, a stream without frames yields nothing *)
Theorem asm_assembly_proj σ m' os : run_asm [] σ = Ok (m', os) ->
  (forall sc, wf_script sc -> proj (ss_sid sc) σ = ss_frames sc -> results_of (ss_sid sc) os = [message_of sc]) /\
  (forall s, proj s σ = [] -> results_of s os = []).
Proof.
  intros E. split.
  - intros sc W HP. destruct (run_asm_proj (ss_sid sc) σ [] wf_nil) as (m1 & os1 & E1 & _ & R1).
    rewrite E in E1. inversion E1; subst. rewrite R1, HP. cbn [flookup]. apply run1_script. exact W.
  - intros s HP. destruct (run_asm_proj s σ [] wf_nil) as (m1 & os1 & E1 & _ & R1).
    rewrite E in E1. inversion E1; subst. rewrite R1, HP. reflexivity.
Qed.

(* interleaving form *)
Theorem asm_assembly (g : N -> list frame) σ :
  (forall s, g s = [] \/ wf_script (mkScript s (g s))) ->
  interleaving g σ ->
  exists m' os, run_asm [] σ = Ok (m', os) /\
    forall s, results_of s os = match g s with [] => [] | _ => [message_of (mkScript s (g s))] end.
Proof.
  intros Hg HI. destruct (asm_total σ) as (m' & os & E). exists m', os. split; [exact E|].
  assert (Hrel : forall s f, In f (g s) -> relevant s f = true).
  { intros s f Hin. destruct (Hg s) as [H0|W]; [rewrite H0 in Hin; contradiction|].
    exact (wf_script_relevant _ W f Hin). }
  pose proof (interleaving_proj g σ HI Hrel) as HP.
  destruct (asm_assembly_proj σ m' os E) as [A B]. intros s.
  destruct (Hg s) as [H0|W].
  - rewrite H0. apply B. rewrite HP. exact H0.
  - specialize (A (mkScript s (g s)) W). cbn [ss_sid ss_frames] in A. rewrite (A (HP s)).
    destruct (g s) eqn:Eg; [|reflexivity].
    destruct W as (hs0 & es0 & mid & last & Hfr & _). cbn [ss_frames app] in Hfr. discriminate.
Qed.

(* the cap: the reported body is the first min(2^20, total) bytes of the data *)
Lemma capped_spec d : exists rest, d = capped d ++ rest /\ length (capped d) = Nat.min (N.to_nat max_data) (length d).
Proof. exists (skipn (N.to_nat max_data) d). unfold capped. rewrite firstn_skipn, firstn_length. split; reflexivity. Qed.

Lemma assemble_msg s hs d r p g : assemble s hs d = RMsg r p g ->
  p_h2 p = true /\ p_tag p = s /\ p_hdr p = headers_of hs /\ p_text p = b64enc d /\ g = is_grpc_header (headers_of hs) /\
  r = negb (is_nil (hget s_method (headers_of hs))).
Proof.
  unfold assemble. destruct (negb (is_nil (hget s_method (headers_of hs)))) eqn:EM.
  - intros H. inversion H; subst. cbn. repeat split; reflexivity.
  - destruct (negb (is_nil (hget s_status (headers_of hs)))); [|discriminate].
    destruct (atoi (hget s_status (headers_of hs))); [|discriminate].
    intros H. inversion H; subst. cbn. repeat split; reflexivity.
Qed.

Theorem asm_cap_b64 sc r p g : message_of sc = RMsg r p g ->
  b64dec (p_text p) = Some (capped (data_of (ss_frames sc))) /\ p_hdr p = headers_of (fields_of (ss_frames sc)) /\
  p_tag p = ss_sid sc.
Proof.
  unfold message_of. intros H. apply assemble_msg in H. destruct H as (_ & Ht & Hh & Hx & _ & _).
  rewrite Hx, b64_roundtrip. auto.
Qed.

(* every reported message of the assembler carries a body text that decodes *)
Theorem asm_b64 s hs d r p g : assemble s hs d = RMsg r p g -> b64dec (p_text p) = Some d.
Proof. intros H. apply assemble_msg in H. destruct H as (_ & _ & _ & Hx & _). rewrite Hx. apply b64_roundtrip. Qed.

(* classification of a completed pair *)
Theorem h2_classification is_req p m m' it :
  handle_h2 is_req p (is_grpc_header (p_hdr p)) m = (m', [it]) ->
  it_variant it = (if is_grpc_header (p_hdr (it_req it)) || is_grpc_header (p_hdr (it_resp it)) then VGrpc else VHttp2)
  /\ (if is_req then it_req it = p else it_resp it = p).
Proof.
  unfold handle_h2, register. destruct (mlookup (p_tag p, true) m) as [[r' p']|]; [|intros H; inversion H].
  destruct (Bool.eqb is_req r'); [intros H; inversion H|].
  destruct is_req; intros H; inversion H; subst; cbn [it_variant it_req it_resp]; split; try reflexivity.
  - destruct (is_grpc_header (p_hdr p)), (is_grpc_header (p_hdr p')); reflexivity.
  - destruct (is_grpc_header (p_hdr p)), (is_grpc_header (p_hdr p')); reflexivity.
Qed.

(* ------------------------------------------------------------------ the header map keeps every field *)
Lemma hvalues_hadd_c k' k v h :
  hvalues k' (hadd_c k v h) = if bytes_eqb k' k then hvalues k' h ++ [v] else hvalues k' h.
Proof.
  induction h as [|[k0 vs] t IH]; cbn [hadd_c hvalues].
  - destruct (bytes_eqb k' k); reflexivity.
  - destruct (bytes_eqb k k0) eqn:E0.
    + apply bytes_eqb_eq in E0. subst k0. cbn [hvalues]. destruct (bytes_eqb k' k); reflexivity.
    + cbn [hvalues]. destruct (bytes_eqb k' k0) eqn:E1.
      * apply bytes_eqb_eq in E1. subst k0. rewrite bytes_eqb_sym, E0. reflexivity.
      * exact IH.
Qed.

(* all values sent under a (canonical) name, in the order sent; nothing else *)
Theorem headers_of_exact fs k :
  hvalues (canon_key k) (headers_of fs) =
  map snd (filter (fun f => bytes_eqb (canon_key k) (canon_key (fst f))) fs).
Proof.
  unfold headers_of.
  assert (G : forall h, hvalues (canon_key k) (fold_left (fun h f => hadd (fst f) (snd f) h) fs h) =
                        hvalues (canon_key k) h ++ map snd (filter (fun f => bytes_eqb (canon_key k) (canon_key (fst f))) fs)).
  { induction fs as [|f t IH]; intros h; cbn [fold_left filter map].
    - rewrite app_nil_r. reflexivity.
    - rewrite IH. unfold hadd. rewrite hvalues_hadd_c.
      destruct (bytes_eqb (canon_key k) (canon_key (fst f))); cbn [map]; [rewrite <- app_assoc|]; reflexivity. }
  rewrite G. reflexivity.
Qed.
