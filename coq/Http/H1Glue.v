(* base's own glue around net/http and HAR for HTTP/1.x: the sort of HTTPPayload.MarshalJSON
   (structs.go), mapSliceMergeRepeatedKeys / mapSliceRebuildAsMap / mapSliceRebuildAsMergedMap
   (helpers.go), path segments (main.go Analyze), and the counter pairing of the two HTTP/1 handlers
   seen as one history of messages.  Model only. *)
Require Import V.Base.Prelude V.Http.HBytes V.Http.H2Asm.
Local Open Scope N_scope.

Definition nv := (bytes * bytes)%type.

(* the comparator passed to sort.Slice for headers, query string, cookies, params:
   name <, then name >, then value < *)
Definition nv_ltb (a b : nv) : bool :=
  if bytes_ltb (fst a) (fst b) then true
  else if bytes_ltb (fst b) (fst a) then false
  else bytes_ltb (snd a) (snd b).
Definition nv_leb (a b : nv) : bool := negb (nv_ltb b a).

Fixpoint nv_insert (x : nv) (l : list nv) : list nv :=
  match l with
  | [] => [x]
  | y :: t => if nv_leb x y then x :: l else y :: nv_insert x t
  end.
(* sort.Slice with that comparator: elements equal under it are identical, so the result is the
   unique sorted permutation (H1Proofs.har_sort_unique); insertion sort computes it *)
Definition har_sort (l : list nv) : list nv := fold_right nv_insert [] l.

Fixpoint nv_sorted (l : list nv) : bool :=
  match l with
  | [] => true
  | x :: t => match t with [] => true | y :: _ => nv_leb x y && nv_sorted t end
  end.

(* ---- mapSliceMergeRepeatedKeys: values grouped by name in slice order, then sorted by name *)
Fixpoint group_add (k v : bytes) (g : list (bytes * list bytes)) : list (bytes * list bytes) :=
  match g with
  | [] => [(k, [v])]
  | (k', vs) :: t => if bytes_eqb k k' then (k', vs ++ [v]) :: t else (k', vs) :: group_add k v t
  end.
Definition group (l : list nv) : list (bytes * list bytes) :=
  fold_left (fun g x => group_add (fst x) (snd x) g) l [].
Fixpoint key_insert (x : bytes * list bytes) (l : list (bytes * list bytes)) :=
  match l with
  | [] => [x]
  | y :: t => if bytes_ltb (fst y) (fst x) then y :: key_insert x t else x :: l
  end.
Definition merge_repeated (l : list nv) : list (bytes * list bytes) :=
  fold_right key_insert [] (group l).

(* JSON value of one rebuilt entry *)
Inductive jval := JStr (s : bytes) | JArr (l : list bytes).
Definition merged_value (vs : list bytes) : jval :=
  match vs with [v] => JStr v | _ => JArr vs end.
(* mapSliceRebuildAsMap: name -> value | [values] *)
Definition rebuild_as_map (l : list nv) : list (bytes * jval) :=
  map (fun kv => (fst kv, merged_value (snd kv))) (merge_repeated l).

Fixpoint join_comma (vs : list bytes) : bytes :=
  match vs with
  | [] => []
  | [v] => v
  | v :: t => v ++ b_of_N 44 :: join_comma t
  end.
(* mapSliceRebuildAsMergedMap: name -> value | values joined with "," *)
Definition rebuild_merged (l : list nv) : list (bytes * bytes) :=
  map (fun kv => (fst kv, join_comma (snd kv))) (merge_repeated l).

Fixpoint alookup {B} (k : bytes) (m : list (bytes * B)) : option B :=
  match m with
  | [] => None
  | (k', v) :: t => if bytes_eqb k k' then Some v else alookup k t
  end.
Definition values_of (k : bytes) (l : list nv) : list bytes :=
  map snd (filter (fun x => bytes_eqb k (fst x)) l).

(* ---- path segments: strings.Split(path, "/")[1:] *)
Fixpoint split_slash (cur : bytes) (s : bytes) : list bytes :=
  match s with
  | [] => [rev cur]
  | c :: t => if b2n c =? 47 then rev cur :: split_slash [] t else split_slash (c :: cur) t
  end.
Definition path_segments (path : bytes) : res (list bytes) :=
  match split_slash [] path with
  | [] => Panic 262          (* [1:] of an empty slice *)
  | _ :: t => Ok t
  end.

(* ---- the two HTTP/1 handlers as one history: requests and responses of one connection in the
   order in which the two goroutines get to register them *)
Inductive h1ev := HReq (p : payload) | HResp (p : payload).

Record h1st := mkH1 { h_m : mstate; h_req : N; h_resp : N; h_items : list (payload * payload) }.
Definition h1st0 := mkH1 [] 0 0 [].

Definition h1_step (st : h1st) (e : h1ev) : h1st :=
  match e with
  | HReq p => let n := h_req st + 1 in
              let (m', pr) := register true (n, false) p (h_m st) in
              mkH1 m' n (h_resp st) (h_items st ++ match pr with Some x => [x] | None => [] end)
  | HResp p => let n := h_resp st + 1 in
               let (m', pr) := register false (n, false) p (h_m st) in
               mkH1 m' (h_req st) n (h_items st ++ match pr with Some x => [x] | None => [] end)
  end.
Definition run_h1 (evs : list h1ev) : h1st := fold_left h1_step evs h1st0.
