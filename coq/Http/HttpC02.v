(* HTTP share of C02: the Dissect loop makes progress or stops, and its own buffers are bounded by
   the caps.  The loop model is structurally recursive over the list of library results: one
   iteration per result, so the number of iterations is at most the number of library calls, and
   each successful library call (ReadRequest / ReadResponse / ReadFrame) consumes at least one byte
   of the half connection (library contract; Framer.ReadFrame >= 9 bytes).  What is proved here is
   the part that is base's own: the stop conditions and the buffer caps. *)
Require Import V.Base.Prelude V.Http.HBytes V.Http.HBytesProofs V.Http.H2Asm V.Http.H2Spec V.Http.H2Proofs
  V.Http.HttpLoop V.Http.HttpC01.
Local Open Scope N_scope.
Local Opaque max_data.

(* a reader that fails on every read: ReadRequest / ReadResponse / ReadFrame return its error and
   Peek(1) fails too (more = false).  The loop stops at this result whatever would follow -
   the defect repaired by moreInput (before, the loop retried the same failing call forever). *)
Theorem http_C02_failing_reader_stops is_client md e rest st :
  dissect_loop is_client md (EvErr e false :: rest) st = Ok (Stopped, st).
Proof. cbn [dissect_loop]. destruct (is_eof e); reflexivity. Qed.

(* end of stream, clean or unexpected, stops the loop *)
Theorem http_C02_eof_stops is_client md more rest st :
  dissect_loop is_client md (EvErr EEOF more :: rest) st = Ok (Stopped, st) /\
  dissect_loop is_client md (EvErr EUnexpectedEOF more :: rest) st = Ok (Stopped, st).
Proof. split; reflexivity. Qed.

(* an error of the assembler's own (bad :status, neither request nor response) with no more input stops *)
Theorem http_C02_own_error_stops is_client a f rest st a' :
  read_message a f = Ok (a', RErr) ->
  dissect_loop is_client (MH2 a) (EvFrame f false :: rest) st = Ok (Stopped, st).
Proof. intros E. cbn [dissect_loop]. rewrite E. reflexivity. Qed.

(* the loop never looks past the library result at which it stops: whatever a longer run of the
   libraries would have returned afterwards is irrelevant (one iteration per result, no re-reading) *)
Ltac break_in H :=
  repeat match type of H with
         | context [match ?x with _ => _ end] =>
             lazymatch x with
             | dissect_loop _ _ _ _ => fail
             | _ => destruct x eqn:?
             end
         end.

Theorem http_C02_stop_is_final is_client : forall evs md st st' extra,
  dissect_loop is_client md evs st = Ok (Stopped, st') ->
  dissect_loop is_client md (evs ++ extra) st = Ok (Stopped, st').
Proof.
  induction evs as [|ev rest IH]; intros md st st' extra H; cbn [dissect_loop app] in *; [discriminate|].
  unfold bind in *. break_in H; try discriminate; try exact H; try (apply IH; exact H).
Qed.

(* the per-stream buffers never exceed the cap, after any frame sequence *)
Theorem http_C02_buffers σ : exists m' os, run_asm [] σ = Ok (m', os) /\
  forall s fr, flookup s m' = Some fr -> (length (fr_data fr) <= N.to_nat max_data)%nat.
Proof. destruct (run_asm_proj 0 σ [] wf_nil) as (m' & os & E & W & _). exists m', os. split; [exact E|exact W]. Qed.

(* what is stored for a stream is a prefix of what the stream sent: allocation follows the bytes
   present, never a declared length *)
Theorem http_C02_stored_is_prefix fs : forall fr D,
  fr_data fr = firstn (N.to_nat max_data) D ->
  fr_data (fold_left frag_app fs fr) = firstn (N.to_nat max_data) (D ++ data_of fs).
Proof. intros fr D H. exact (proj2 (frag_fold fs fr D H)). Qed.
