(* Correspondence checkers: a case = library results of both halves (from the harness' own
   net/http / Framer calls) + what the real Dissect emitted.  Evaluated by vm_compute on case files
   written by tools/props/C04.py and C03.py.  No proofs. *)
Require Import V.Base.Prelude V.Http.HBytes V.Http.H2Asm V.Http.HttpLoop V.Http.H1Glue.
Local Open Scope N_scope.

(* observed message of an item: for HTTP/2 payloads method/status, the header list as reported
   (sorted), the body after un-base64; for HTTP/1 payloads the harness tag only *)
Record pobs := mkPobs { o_h2 : bool; o_tag : N; o_method : bytes; o_status : Z; o_headers : list nv;
                        o_body : list piece; o_text : option bytes }.
Record iobs := mkIobs { io_variant : N; io_out : bool; io_req : pobs; io_resp : pobs }.

Definition variant_code (v : variant) : N :=
  match v with VHttp10 => 0 | VHttp11 => 1 | VHttp2 => 2 | VGrpc => 3 end.

Definition s_cl := bs [67; 111; 110; 116; 101; 110; 116; 45; 76; 101; 110; 103; 116; 104].  (* "Content-Length" *)

(* martian/har + proxyutil (library, modelled for the comparison only): every (name, value) of the
   header map, Content-Length replaced by the length of the stored body when that is positive *)
Definition har_headers (h : hmap) (cl : N) : list nv :=
  let flat := flat_map (fun kv => map (fun v => (fst kv, v)) (snd kv)) h in
  let flat' := if 0 <? cl then filter (fun x => negb (bytes_eqb (fst x) s_cl)) flat ++ [(s_cl, dec_of_N cl)]
               else flat in
  har_sort flat'.

Definition nv_eqb (a b : nv) : bool := bytes_eqb (fst a) (fst b) && bytes_eqb (snd a) (snd b).

Definition chk_payload (is_req : bool) (p : payload) (o : pobs) : bool :=
  Bool.eqb (p_h2 p) (o_h2 o) &&
  if p_h2 p then
    (if is_req then bytes_eqb (p_method p) (o_method o) else (p_status p =? o_status o)%Z) &&
    list_eqb nv_eqb (har_headers (p_hdr p) (nlen (p_text p))) (o_headers o) &&
    bytes_eqb (p_text p) (b64enc (unp (o_body o))) &&
    match o_text o with Some t => bytes_eqb (p_text p) t | None => true end
  else p_tag p =? o_tag o.

Definition chk_item (it : item) (o : iobs) : bool :=
  (variant_code (it_variant it) =? io_variant o) && Bool.eqb (it_outgoing it) (io_out o) &&
  chk_payload true (it_req it) (io_req o) && chk_payload false (it_resp it) (io_resp o).

Fixpoint chk_items (its : list item) (os : list iobs) : bool :=
  match its, os with
  | [], [] => true
  | i :: its', o :: os' => chk_item i o && chk_items its' os'
  | _, _ => false
  end.

Definition chk_residue (m : mstate) (keys : list mkey) : bool :=
  (nlen m =? nlen keys) && forallb (fun e => existsb (mkey_eqb (fst e)) keys) m.

Record conn_case := mkCase {
  c_client_first : bool; c_cfirst : pk; c_sfirst : pk; c_cev : list libev; c_sev : list libev;
  c_items : list iobs; c_residue : list mkey; c_cpanic : bool; c_spanic : bool }.

Definition chk_conn (c : conn_case) : bool :=
  match run_conn (c_client_first c) (c_cfirst c) (c_sfirst c) (c_cev c) (c_sev c) with
  | Ok (Stopped, Stopped, s) =>
      negb (c_cpanic c) && negb (c_spanic c) && chk_items (sh_items s) (c_items c) && chk_residue (sh_m s) (c_residue c)
  | Panic _ => c_cpanic c || c_spanic c
  | _ => false
  end.

(* ---- HTTP/1 glue cases: the header list of an emitted item and what Analyze made of it *)
Definition chk_sorted_perm (reported : list nv) : bool :=
  nv_sorted reported && list_eqb nv_eqb (har_sort reported) reported.

Definition pair_eqb (a b : bytes * bytes) := nv_eqb a b.
Definition chk_merged (reported : list nv) (analyzed : list (bytes * bytes)) : bool :=
  list_eqb pair_eqb (rebuild_merged reported) analyzed.

Definition jval_eqb (a b : jval) : bool :=
  match a, b with
  | JStr x, JStr y => bytes_eqb x y
  | JArr x, JArr y => list_eqb bytes_eqb x y
  | _, _ => false
  end.
Definition chk_map (reported : list nv) (analyzed : list (bytes * jval)) : bool :=
  list_eqb (fun a b => bytes_eqb (fst a) (fst b) && jval_eqb (snd a) (snd b)) (rebuild_as_map reported) analyzed.

Definition chk_segments (path : bytes) (segs : list bytes) : bool :=
  match path_segments path with Ok s => list_eqb bytes_eqb s segs | _ => false end.

(* HTTP/1 pairing: the history of tagged messages and the (request tag, response tag) pairs emitted *)
Definition chk_h1_history (evs : list h1ev) (pairs : list (N * N)) (residue : list mkey) : bool :=
  let s := run_h1 evs in
  list_eqb (fun a b => (fst a =? fst b) && (snd a =? snd b))
           (map (fun pr => (p_tag (fst pr), p_tag (snd pr))) (h_items s)) pairs
  && chk_residue (h_m s) residue.
