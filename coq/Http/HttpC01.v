(* HTTP share of C01: base's own code around the libraries never panics, whatever the libraries
   return.  The own panic sites are: pop on an absent stream (http2_assembler.go:69), the slice
   expression of appendFrame (:53), buf[0..4] / buf[5:] after Peek(9) (:218), strings.Split(..)[1:]
   in Analyze (main.go:262).  strconv.Atoi returns an error value (no panic site).
   Library contract used: Peek(n) returns exactly n bytes or an error. *)
Require Import V.Base.Prelude V.Http.HBytes V.Http.HBytesProofs V.Http.H2Asm V.Http.H2Spec V.Http.H2Proofs
  V.Http.HttpLoop V.Http.H1Glue V.Http.H1Proofs.
Local Open Scope N_scope.
Local Opaque max_data.

(* appendFrame: the slice bound is never negative; pop: the stream is always present *)
Theorem http_C01_append m f : wf_fbs m -> exists m', append_frame m f = Ok m' /\ wf_fbs m'.
Proof. intros W. destruct (append_frame_ok m f W) as (m' & E & W' & _). eauto. Qed.

Theorem http_C01_read_message m f : wf_fbs m -> exists m' o, read_message m f = Ok (m', o) /\ wf_fbs m'.
Proof. intros W. destruct (read_message_ok m f W) as (m' & o & E & W' & _). eauto. Qed.

(* the whole frame sequence of a half connection *)
Theorem http_C01_assembler σ : exists m' os, run_asm [] σ = Ok (m', os).
Proof. exact (asm_total σ). Qed.

(* Peek contract *)
Definition pk_ok (n : N) (p : pk) : Prop :=
  match p with PkErr => True | PkBytes b => nlen b = n end.

Theorem http_C01_peek9 p : pk_ok 9 p -> exists r, check_server_stream p = Ok r.
Proof.
  destruct p as [b|]; cbn [pk_ok check_server_stream]; [|eauto]. intros H.
  destruct (is_prefix s_http1 b); [eauto|]. rewrite H. cbn. eauto.
Qed.

(* Atoi is a total function returning a value or an error *)
Theorem http_C01_atoi s : atoi s = None \/ exists v, atoi s = Some v.
Proof. destruct (atoi s); eauto. Qed.

Theorem http_C01_path_segments path : exists segs, path_segments path = Ok segs.
Proof. exact (path_segments_total path). Qed.

(* ---- the Dissect loop: for any sequence of library results that respects the Peek contract the
   loop returns (no Panic); in HTTP/2 mode the fragment map stays within the cap *)
Definition peek_len (is_client : bool) : N := if is_client then 24 else 9.
Definition ev_ok (is_client : bool) (e : libev) : Prop :=
  match e with EvMsg _ _ _ _ next => pk_ok (peek_len is_client) next | _ => True end.
Definition mode_ok (md : mode) : Prop := match md with MH1 => True | MH2 a => wf_fbs a end.

Lemma switch_mode_ok is_client next : pk_ok (peek_len is_client) next ->
  exists r, switch_mode is_client next = Ok r /\ match r with Some md => mode_ok md | None => True end.
Proof.
  intros H. unfold switch_mode. destruct is_client.
  - destruct (check_client_preface next) as [[|]|]; eexists; (split; [reflexivity|]); cbn [mode_ok]; auto using wf_nil.
  - cbn [peek_len] in H. destruct (http_C01_peek9 next H) as (r & E). rewrite E. cbn [bind].
    destruct r as [[|]|]; eexists; (split; [reflexivity|]); cbn [mode_ok]; auto using wf_nil.
Qed.

Theorem http_C01_loop is_client : forall evs md st,
  Forall (ev_ok is_client) evs -> mode_ok md ->
  exists o st', dissect_loop is_client md evs st = Ok (o, st').
Proof.
  induction evs as [|ev rest IH]; intros md st HF Hmd; cbn [dissect_loop]; [eauto|].
  inversion HF as [|? ? Hev HF']; subst.
  destruct ev as [p minor berr more next|f more|e more].
  - (* a message *)
    destruct md as [|a]; [|eauto].
    cbn [ev_ok] in Hev. destruct (switch_mode_ok is_client next Hev) as (sw & Esw & Hsw).
    destruct (register is_client _ p (sh_m st)) as [m1 pr].
    set (up := if is_client then is_upgrade (p_hdr p) else ((p_status p =? 101)%Z && is_upgrade (p_hdr p))%bool).
    assert (CONT : forall st2, exists o st',
               (if up then let* sw0 := switch_mode is_client next in
                           match sw0 with None => Ok (Stopped, st2) | Some md' => dissect_loop is_client md' rest st2 end
                else dissect_loop is_client MH1 rest st2) = Ok (o, st')).
    { intros st2. destruct up.
      - rewrite Esw. cbn [bind]. destruct sw as [md'|]; [apply IH; assumption|eauto].
      - apply IH; [assumption|exact I]. }
    destruct berr as [e|].
    + destruct (is_eof e); [eauto|]. destruct more; [apply CONT|eauto].
    + destruct (is_client && up)%bool.
      * destruct (register true (1, true) p _) as [m2 pr2]. apply CONT.
      * apply CONT.
  - (* a frame *)
    destruct md as [|a]; [eauto|]. cbn [mode_ok] in Hmd.
    destruct (read_message_ok a f Hmd) as (a' & o & E & W' & _). rewrite E. cbn [bind].
    destruct o as [|r p g|].
    + apply IH; assumption.
    + destruct (handle_h2 r p g (sh_m st)) as [m' its]. apply IH; assumption.
    + destruct more; [apply IH; assumption|eauto].
  - (* an error *)
    destruct (is_eof e); [eauto|]. destruct more; [apply IH; assumption|eauto].
Qed.

Theorem http_C01_dissect is_client first evs st :
  pk_ok (peek_len is_client) first -> Forall (ev_ok is_client) evs ->
  exists o st', dissect is_client first evs st = Ok (o, st').
Proof.
  intros Hf HF. unfold dissect. destruct is_client.
  - cbn [bind]. apply http_C01_loop; [exact HF|]. destruct (check_client_preface first) as [[|]|]; cbn [mode_ok]; auto using wf_nil.
  - cbn [peek_len] in Hf. destruct (http_C01_peek9 first Hf) as (r & E). rewrite E. cbn [bind].
    apply http_C01_loop; [exact HF|]. destruct r as [[|]|]; cbn [mode_ok]; auto using wf_nil.
Qed.

Example http_C01_example : pk_ok 9 (PkBytes (bs [0;0;0;4;0;0;0;0;0])) /\ Forall (ev_ok false) [EvErr EEOF false].
Proof. split; [reflexivity|repeat constructor]. Qed.
