(* Byte-string helpers of the HTTP family: lengths in N, comparison, search, decimal text, base64
   (encoding/base64 StdEncoding, modelled exactly).  Model only; proofs are in HBytesProofs.v. *)
Require Import V.Base.Prelude.
Local Open Scope N_scope.

Definition nlen {A} (l : list A) : N := N.of_nat (length l).

(* run-length pieces: how the harness writes long bodies *)
Inductive piece := PLit (b : bytes) | PRep (b : N) (n : N).
Definition nrepeat {A} (x : A) (n : N) : list A := N.iter n (cons x) [].
Definition unp1 (p : piece) : bytes :=
  match p with PLit b => b | PRep b n => nrepeat (b_of_N b) n end.
Definition unp (ps : list piece) : bytes := concat (map unp1 ps).

Definition byte_eqb (a b : byte) : bool := N.eqb (b2n a) (b2n b).
Definition bytes_eqb : bytes -> bytes -> bool := list_eqb byte_eqb.

(* Go string comparison a < b : lexicographic on bytes *)
Fixpoint bytes_ltb (a b : bytes) : bool :=
  match a, b with
  | _, [] => false
  | [], _ :: _ => true
  | x :: a', y :: b' => if b2n x <? b2n y then true else if b2n y <? b2n x then false else bytes_ltb a' b'
  end.

Fixpoint is_prefix (p l : bytes) : bool :=
  match p, l with
  | [], _ => true
  | _ :: _, [] => false
  | x :: p', y :: l' => byte_eqb x y && is_prefix p' l'
  end.
(* strings.Contains *)
Fixpoint contains (p l : bytes) : bool :=
  is_prefix p l || match l with [] => false | _ :: l' => contains p l' end.

Definition is_nil {A} (l : list A) : bool := match l with [] => true | _ => false end.

(* ------------------------------------------------------------------ base64 (StdEncoding, padded) *)
Definition b64char (n : N) : byte :=
  if n <? 26 then b_of_N (65 + n)
  else if n <? 52 then b_of_N (97 + (n - 26))
  else if n <? 62 then b_of_N (48 + (n - 52))
  else if n =? 62 then b_of_N 43 else b_of_N 47.

Definition pad : byte := b_of_N 61.

Fixpoint b64enc (l : bytes) : bytes :=
  match l with
  | [] => []
  | [a] => let x := b2n a in [b64char (x / 4); b64char ((x mod 4) * 16); pad; pad]
  | [a; b] => let x := b2n a in let y := b2n b in
      [b64char (x / 4); b64char ((x mod 4) * 16 + y / 16); b64char ((y mod 16) * 4); pad]
  | a :: b :: c :: rest => let x := b2n a in let y := b2n b in let z := b2n c in
      b64char (x / 4) :: b64char ((x mod 4) * 16 + y / 16) :: b64char ((y mod 16) * 4 + z / 64) :: b64char (z mod 64)
      :: b64enc rest
  end.

Definition b64val (c : byte) : option N :=
  let n := b2n c in
  if (65 <=? n) && (n <=? 90) then Some (n - 65)
  else if (97 <=? n) && (n <=? 122) then Some (n - 97 + 26)
  else if (48 <=? n) && (n <=? 57) then Some (n - 48 + 52)
  else if n =? 43 then Some 62 else if n =? 47 then Some 63 else None.

(* strict decoder: groups of four, padding only in the last group *)
Fixpoint b64dec (l : bytes) : option bytes :=
  match l with
  | [] => Some []
  | c1 :: c2 :: c3 :: c4 :: rest =>
      match b64val c1, b64val c2 with
      | Some v1, Some v2 =>
          let o1 := b_of_N (v1 * 4 + v2 / 16) in
          if byte_eqb c3 pad then
            if byte_eqb c4 pad && is_nil rest && (v2 mod 16 =? 0) then Some [o1] else None
          else match b64val c3 with
               | None => None
               | Some v3 =>
                   let o2 := b_of_N ((v2 mod 16) * 16 + v3 / 4) in
                   if byte_eqb c4 pad then
                     if is_nil rest && (v3 mod 4 =? 0) then Some [o1; o2] else None
                   else match b64val c4 with
                        | None => None
                        | Some v4 =>
                            match b64dec rest with
                            | Some t => Some (o1 :: o2 :: b_of_N ((v3 mod 4) * 64 + v4) :: t)
                            | None => None
                            end
                        end
               end
      | _, _ => None
      end
  | _ => None
  end.

(* ------------------------------------------------------------------ decimal text *)
Definition digit (n : N) : byte := b_of_N (48 + n).
Fixpoint dec_fuel (fuel : nat) (n : N) (acc : bytes) : bytes :=
  match fuel with
  | O => acc
  | S f => let acc' := digit (n mod 10) :: acc in
           if n / 10 =? 0 then acc' else dec_fuel f (n / 10) acc'
  end.
(* strconv.FormatInt(n, 10) for n >= 0 *)
Definition dec_of_N (n : N) : bytes := dec_fuel (S (N.to_nat (N.log2 n))) n [].

(* strconv.Atoi: optional sign, then one or more decimal digits; value must fit int64 *)
Fixpoint digits_val (l : bytes) (acc : Z) : option Z :=
  match l with
  | [] => Some acc
  | c :: l' => let n := b2n c in
               if (48 <=? n) && (n <=? 57) then digits_val l' (acc * 10 + Z.of_N (n - 48))%Z else None
  end.
Definition atoi (s : bytes) : option Z :=
  let go (neg : bool) (ds : bytes) :=
    match ds with
    | [] => None
    | _ => match digits_val ds 0%Z with
           | Some v => let v' := if neg then (- v)%Z else v in
                       if ((-9223372036854775808 <=? v') && (v' <=? 9223372036854775807))%Z then Some v' else None
           | None => None
           end
    end in
  match s with
  | [] => None
  | c :: rest => if b2n c =? 43 then go false rest else if b2n c =? 45 then go true rest else go false s
  end.
