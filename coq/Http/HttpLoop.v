(* Control of dissecting.Dissect (pkg/extensions/http/main.go) and the HTTP/1 handlers
   (handlers.go) over the results of the library calls (net/http ReadRequest / ReadResponse,
   Framer.ReadFrame, bufio Peek).  The libraries are not modelled: their results are the input.
   Written against the repaired code (moreInput after a non-EOF error; classification over both
   halves).  Model only. *)
Require Import V.Base.Prelude V.Http.HBytes V.Http.H2Asm.
Local Open Scope N_scope.

(* "PRI * HTTP/2.0\r\n\r\nSM\r\n\r\n" *)
Definition client_preface : bytes :=
  bs [80; 82; 73; 32; 42; 32; 72; 84; 84; 80; 47; 50; 46; 48; 13; 10; 13; 10; 83; 77; 13; 10; 13; 10].
Definition s_http1 : bytes := bs [72; 84; 84; 80; 47; 49; 46].   (* "HTTP/1." *)

(* result of b.Peek(n) *)
Inductive pk := PkBytes (b : bytes) | PkErr.

(* checkClientPreface (http2_assembler.go:232): Some true / Some false, None = error *)
Definition check_client_preface (p : pk) : option bool :=
  match p with
  | PkErr => None
  | PkBytes b => if negb (nlen b =? 24) then None else Some (bytes_eqb b client_preface)
  end.

(* checkIsHTTP2ServerStream (http2_assembler.go:205): buf[0..4], buf[5:] and Uint32 need 9 bytes *)
Definition check_server_stream (p : pk) : res (option bool) :=
  match p with
  | PkErr => Ok None
  | PkBytes b =>
      if is_prefix s_http1 b then Ok (Some false)
      else if nlen b <? 9 then Panic 218
      else Ok (Some (b2n (nth 3 b Byte.x00) =? 4))     (* http2.FrameSettings *)
  end.

Fixpoint lower (s : bytes) : bytes :=
  match s with
  | [] => []
  | c :: t => let n := b2n c in (if (65 <=? n) && (n <=? 90) then b_of_N (n + 32) else c) :: lower t
  end.
Definition s_connection := bs [67; 111; 110; 110; 101; 99; 116; 105; 111; 110].
Definition s_upgrade_h := bs [85; 112; 103; 114; 97; 100; 101].
Definition s_upgrade := bs [117; 112; 103; 114; 97; 100; 101].
Definition s_h2c := bs [104; 50; 99].
(* the h2c upgrade condition of the handlers *)
Definition is_upgrade (h : hmap) : bool :=
  contains s_upgrade (lower (hget s_connection h)) && bytes_eqb (lower (hget s_upgrade_h h)) s_h2c.

Inductive libev :=
| EvMsg (p : payload) (minor : N) (berr : option errclass) (more : bool) (next : pk)
    (* ReadRequest / ReadResponse returned a message; berr: error of draining the body;
       more: would Peek(1) succeed now; next: what the preface check after an upgrade would peek *)
| EvFrame (f : frame) (more : bool)
| EvErr (e : errclass) (more : bool).

Record shared := mkShared { sh_m : mstate; sh_req : N; sh_resp : N; sh_items : list item }.

Inductive outcome := Stopped | TraceShort | TraceMismatch.
Inductive mode := MH1 | MH2 (a : fbs).

Definition is_eof (e : errclass) : bool :=
  match e with EEOF | EUnexpectedEOF => true | _ => false end.

Definition h1_item (minor : N) (out : bool) (pr : option (payload * payload)) : list item :=
  match pr with
  | None => []
  | Some (rq, rs) => [mkItem (if minor =? 0 then VHttp10 else VHttp11) rq rs out]
  end.

(* a pair completed on an HTTP/2 key: HTTP/2 or gRPC by the markers of either half *)
Definition h2_pair_item (out : bool) (pr : option (payload * payload)) : list item :=
  match pr with
  | None => []
  | Some (rq, rs) =>
      [mkItem (if is_grpc_header (p_hdr rq) || is_grpc_header (p_hdr rs) then VGrpc else VHttp2) rq rs out]
  end.

(* the switch at the top of the loop after an upgrade: new mode, or stop *)
Definition switch_mode (is_client : bool) (next : pk) : res (option mode) :=
  if is_client then
    match check_client_preface next with
    | None => Ok None                      (* err: break *)
    | Some true => Ok (Some (MH2 []))      (* preface discarded *)
    | Some false => Ok None                (* discardClientPreface fails: break *)
    end
  else
    let* r := check_server_stream next in
    match r with
    | None => Ok None
    | Some true => Ok (Some (MH2 []))
    | Some false => Ok (Some MH1)          (* isHTTP2 = false: the loop goes on with HTTP/1 *)
    end.

Fixpoint dissect_loop (is_client : bool) (md : mode) (evs : list libev) (st : shared) : res (outcome * shared) :=
  match evs with
  | [] => Ok (TraceShort, st)
  | ev :: rest =>
      match ev with
      | EvErr e more =>
          if is_eof e then Ok (Stopped, st)
          else if more then dissect_loop is_client md rest st else Ok (Stopped, st)
      | EvFrame f more =>
          match md with
          | MH1 => Ok (TraceMismatch, st)
          | MH2 a =>
              let* (a', o) := read_message a f in
              match o with
              | RNone => dissect_loop is_client (MH2 a') rest st
              | RMsg r p g =>
                  let (m', its) := handle_h2 r p g (sh_m st) in
                  dissect_loop is_client (MH2 a') rest (mkShared m' (sh_req st) (sh_resp st) (sh_items st ++ its))
              | RErr => if more then dissect_loop is_client (MH2 a') rest st else Ok (Stopped, st)
              end
          end
      | EvMsg p minor berr more next =>
          match md with
          | MH2 _ => Ok (TraceMismatch, st)
          | MH1 =>
              let up := if is_client then is_upgrade (p_hdr p)
                        else (p_status p =? 101)%Z && is_upgrade (p_hdr p) in
              let n := if is_client then sh_req st + 1 else sh_resp st + 1 in
              let (m1, pr) := register is_client (n, false) p (sh_m st) in
              let st1 := mkShared m1 (if is_client then n else sh_req st) (if is_client then sh_resp st else n)
                                  (sh_items st ++ h1_item minor is_client pr) in
              let continue_ (st2 : shared) :=
                if up then
                  let* sw := switch_mode is_client next in
                  match sw with
                  | None => Ok (Stopped, st2)
                  | Some md' => dissect_loop is_client md' rest st2
                  end
                else dissect_loop is_client MH1 rest st2 in
              match berr with
              | Some e => if is_eof e then Ok (Stopped, st1)
                          else if more then continue_ st1 else Ok (Stopped, st1)
              | None =>
                  if is_client && up then
                    (* the upgrade request is also registered as HTTP/2 stream 1 *)
                    let (m2, pr2) := register true (1, true) p (sh_m st1) in
                    continue_ (mkShared m2 (sh_req st1) (sh_resp st1) (sh_items st1 ++ h2_pair_item true pr2))
                  else continue_ st1
              end
          end
      end
  end.

(* Dissect: the check at the start ignores the error *)
Definition dissect (is_client : bool) (first : pk) (evs : list libev) (st : shared) : res (outcome * shared) :=
  let* h2 := if is_client then Ok (match check_client_preface first with Some b => b | None => false end)
             else let* r := check_server_stream first in Ok (match r with Some b => b | None => false end) in
  dissect_loop is_client (if h2 then MH2 [] else MH1) evs st.

Definition shared0 : shared := mkShared [] 0 0 [].

(* the two halves one after the other, as the test suite and the harness drive them *)
Definition run_conn (client_first : bool) (cf sf : pk) (cev sev : list libev) : res (outcome * outcome * shared) :=
  if client_first then
    let* (oc, s1) := dissect true cf cev shared0 in
    let* (os, s2) := dissect false sf sev s1 in Ok (oc, os, s2)
  else
    let* (os, s1) := dissect false sf sev shared0 in
    let* (oc, s2) := dissect true cf cev s1 in Ok (oc, os, s2).
