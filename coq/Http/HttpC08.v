(* HTTP share of C08: the dissector reaches the connection only through bufio.Reader.Peek / Discard,
   http.ReadRequest / ReadResponse (+ io.ReadAll of the body) and Framer.ReadFrame, all of which loop
   until satisfied; their results are a function of the bytes of the half, not of the segmentation.
   With that library contract as the premise, the model's outcome is the same for every chunking. *)
Require Import V.Base.Prelude V.Http.HBytes V.Http.H2Asm V.Http.HttpLoop.

Section Chunking.
  (* the libraries over a chunked reader: first peek and the sequence of call results *)
  Variable lib : list bytes -> pk * list libev.
  (* contract: results depend on the concatenation of the chunks only *)
  Hypothesis lib_flat : forall cs1 cs2, concat cs1 = concat cs2 -> lib cs1 = lib cs2.

  Theorem http_C08_chunking : forall is_client cs1 cs2 st,
    concat cs1 = concat cs2 ->
    dissect is_client (fst (lib cs1)) (snd (lib cs1)) st = dissect is_client (fst (lib cs2)) (snd (lib cs2)) st.
  Proof. intros is_client cs1 cs2 st H. rewrite (lib_flat cs1 cs2 H). reflexivity. Qed.
End Chunking.

(* the contract is satisfiable: any function of the flat stream *)
Example http_C08_example : forall f : bytes -> pk * list libev,
  forall cs1 cs2, concat cs1 = concat cs2 -> (fun cs => f (concat cs)) cs1 = (fun cs => f (concat cs)) cs2.
Proof. intros f cs1 cs2 H. cbv beta. rewrite H. reflexivity. Qed.
