(* HTTP/2 assembler of pkg/extensions/http/http2_assembler.go and handleHTTP2Stream of handlers.go,
   over abstract frames (what Framer.ReadFrame with ReadMetaHeaders returns).  Model only.
   Panic n: n is the line of the Go expression that would panic. *)
Require Import V.Base.Prelude V.Http.HBytes.
Local Open Scope N_scope.

Definition field := (bytes * bytes)%type.

Inductive frame :=
| FHeaders (sid : N) (fs : list field) (es : bool)   (* *http2.MetaHeadersFrame *)
| FData (sid : N) (d : bytes) (es : bool)            (* *http2.DataFrame, d = frame.Data() *)
| FOther (sid : N).                                  (* any other frame type *)

Definition frame_sid (f : frame) : N :=
  match f with FHeaders s _ _ => s | FData s _ _ => s | FOther s => s end.

Record fragment := mkFrag { fr_headers : list field; fr_data : bytes }.

(* fragmentsByStream: map[uint32]*messageFragment *)
Definition fbs := list (N * fragment).

Fixpoint flookup (s : N) (m : fbs) : option fragment :=
  match m with
  | [] => None
  | (s', fr) :: t => if s =? s' then Some fr else flookup s t
  end.
Fixpoint fremove (s : N) (m : fbs) : fbs :=
  match m with
  | [] => []
  | (s', fr) :: t => if s =? s' then fremove s t else (s', fr) :: fremove s t
  end.
Definition fset (s : N) (fr : fragment) (m : fbs) : fbs := (s, fr) :: fremove s m.

Definition max_data : N := 1048576.   (* maxHTTP2DataLen *)

(* appendFrame, http2_assembler.go:38 *)
Definition append_frame (m : fbs) (f : frame) : res fbs :=
  match f with
  | FHeaders sid fs _ =>
      match flookup sid m with
      | Some fr => Ok (fset sid (mkFrag (fr_headers fr ++ fs) (fr_data fr)) m)
      | None => Ok (fset sid (mkFrag fs []) m)
      end
  | FData sid d _ =>
      let newlen := Z.of_N (nlen d) in
      match flookup sid m with
      | Some fr =>
          (* int(math.Min(float64(maxHTTP2DataLen-existingDataLen), float64(newDataLen))) *)
          let k := Z.min (Z.of_N max_data - Z.of_N (nlen (fr_data fr))) newlen in
          if (k <? 0)%Z then Panic 53   (* frame.Data()[:k] with k < 0 *)
          else Ok (fset sid (mkFrag (fr_headers fr) (fr_data fr ++ firstn (Z.to_nat k) d)) m)
      | None =>
          let k := Z.min (Z.of_N max_data) newlen in
          Ok (fset sid (mkFrag [] (firstn (Z.to_nat k) d)) m)
      end
  | FOther _ => Ok m
  end.

(* pop, http2_assembler.go:68: fbs[streamID].headers on an absent stream is a nil dereference *)
Definition pop (sid : N) (m : fbs) : res (list field * bytes * fbs) :=
  match flookup sid m with
  | None => Panic 69
  | Some fr => Ok (fr_headers fr, fr_data fr, fremove sid m)
  end.

Definition is_stream_end (f : frame) : bool :=
  match f with FHeaders _ _ es => es | FData _ _ es => es | FOther _ => false end.

(* ------------------------------------------------------------------ http.Header *)
(* textproto: token bytes *)
Definition is_token_byte (c : byte) : bool :=
  let n := b2n c in
  ((48 <=? n) && (n <=? 57)) || ((65 <=? n) && (n <=? 90)) || ((97 <=? n) && (n <=? 122)) ||
  existsb (N.eqb n) [33; 35; 36; 37; 38; 39; 42; 43; 45; 46; 94; 95; 96; 124; 126].

Fixpoint canon_go (upper : bool) (k : bytes) : bytes :=
  match k with
  | [] => []
  | c :: t =>
      let n := b2n c in
      let c' := if upper && (97 <=? n) && (n <=? 122) then b_of_N (n - 32)
                else if negb upper && (65 <=? n) && (n <=? 90) then b_of_N (n + 32) else c in
      c' :: canon_go (b2n c' =? 45) t
  end.
(* textproto.CanonicalMIMEHeaderKey: a key with a non-token byte is returned unchanged *)
Definition canon_key (k : bytes) : bytes :=
  if forallb is_token_byte k then canon_go true k else k.

Definition hmap := list (bytes * list bytes).
Fixpoint hadd_c (k v : bytes) (h : hmap) : hmap :=
  match h with
  | [] => [(k, [v])]
  | (k', vs) :: t => if bytes_eqb k k' then (k', vs ++ [v]) :: t else (k', vs) :: hadd_c k v t
  end.
Definition hadd (k v : bytes) (h : hmap) : hmap := hadd_c (canon_key k) v h.
Fixpoint hvalues (k : bytes) (h : hmap) : list bytes :=
  match h with
  | [] => []
  | (k', vs) :: t => if bytes_eqb k k' then vs else hvalues k t
  end.
Definition hget (k : bytes) (h : hmap) : bytes :=
  match hvalues (canon_key k) h with v :: _ => v | [] => [] end.
Definition headers_of (fs : list field) : hmap :=
  fold_left (fun h f => hadd (fst f) (snd f) h) fs [].

Definition s_method := bs [58; 109; 101; 116; 104; 111; 100].            (* ":method" *)
Definition s_status := bs [58; 115; 116; 97; 116; 117; 115].             (* ":status" *)
Definition s_grpc_status := bs [71; 114; 112; 99; 45; 83; 116; 97; 116; 117; 115].   (* "Grpc-Status" *)
Definition s_content_type := bs [67; 111; 110; 116; 101; 110; 116; 45; 84; 121; 112; 101].  (* "Content-Type" *)
Definition s_app_grpc := bs [97; 112; 112; 108; 105; 99; 97; 116; 105; 111; 110; 47; 103; 114; 112; 99]. (* "application/grpc" *)

(* isGrpcHeader *)
Definition is_grpc_header (h : hmap) : bool :=
  negb (is_nil (hget s_grpc_status h)) || contains s_app_grpc (hget s_content_type h).

(* the http.Request / http.Response value readMessage builds (HTTP/2) or net/http returned (HTTP/1) *)
Record payload := mkPayload {
  p_h2 : bool;          (* ProtoMajor = 2 *)
  p_tag : N;            (* stream id (HTTP/2) or the harness' message tag (HTTP/1) *)
  p_method : bytes;     (* Method, requests *)
  p_status : Z;         (* StatusCode, responses *)
  p_hdr : hmap;
  p_text : bytes        (* body as stored: base64 text for HTTP/2 *)
}.

Inductive rm_out :=
| RNone                                  (* frame consumed, no message yet *)
| RMsg (is_req : bool) (p : payload) (grpc : bool)
| RErr.                                  (* strconv.Atoi failed / neither :method nor :status *)

(* the second half of readMessage (http2_assembler.go:109): from the popped header fields and data *)
Definition assemble (sid : N) (hs : list field) (data : bytes) : rm_out :=
  let h := headers_of hs in
  let text := b64enc data in
  let method := hget s_method h in
  let status := hget s_status h in
  let grpc := is_grpc_header h in
  if negb (is_nil method) then RMsg true (mkPayload true sid method 0%Z h text) grpc
  else if negb (is_nil status) then
    match atoi status with
    | Some code => RMsg false (mkPayload true sid [] code h text) grpc
    | None => RErr
    end
  else RErr.

(* readMessage after a successful ReadFrame, http2_assembler.go:91 *)
Definition read_message (m : fbs) (f : frame) : res (fbs * rm_out) :=
  let* m1 := append_frame m f in
  if negb (is_stream_end f) then Ok (m1, RNone) else
  let sid := frame_sid f in
  let* (hs, data, m2) := pop sid m1 in
  Ok (m2, assemble sid hs data).

(* ------------------------------------------------------------------ matcher (matcher.go) *)
(* key: pairing number (request/response counter or stream id) and the proto ident HTTP1 / HTTP2;
   the 4-tuple part of the Go key is the same string on both halves of one connection *)
Definition mkey := (N * bool)%type.
Definition mkey_eqb (a b : mkey) : bool := (fst a =? fst b) && Bool.eqb (snd a) (snd b).
Definition mstate := list (mkey * (bool * payload)).    (* openMessagesMap: key -> (IsRequest, message) *)

Fixpoint mlookup (k : mkey) (m : mstate) : option (bool * payload) :=
  match m with
  | [] => None
  | (k', e) :: t => if mkey_eqb k k' then Some e else mlookup k t
  end.
Fixpoint mremove (k : mkey) (m : mstate) : mstate :=
  match m with
  | [] => []
  | (k', e) :: t => if mkey_eqb k k' then mremove k t else (k', e) :: mremove k t
  end.

(* registerRequest / registerResponse: LoadAndDelete; same direction: dropped; else pair; else Store *)
Definition register (is_req : bool) (k : mkey) (p : payload) (m : mstate) : mstate * option (payload * payload) :=
  match mlookup k m with
  | Some (is_req', p') =>
      if Bool.eqb is_req is_req' then (mremove k m, None)
      else (mremove k m, Some (if is_req then (p, p') else (p', p)))
  | None => ((k, (is_req, p)) :: m, None)
  end.

Inductive variant := VHttp10 | VHttp11 | VHttp2 | VGrpc.
Record item := mkItem { it_variant : variant; it_req : payload; it_resp : payload; it_outgoing : bool }.

(* handleHTTP2Stream after readMessage returned a message (handlers.go:15), with the classification
   over both halves (isGrpc || isGrpcPair) *)
Definition handle_h2 (is_req : bool) (p : payload) (grpc : bool) (m : mstate) : mstate * list item :=
  let '(m', pr) := register is_req (p_tag p, true) p m in
  match pr with
  | None => (m', [])
  | Some (rq, rs) =>
      let g := grpc || is_grpc_header (p_hdr rq) || is_grpc_header (p_hdr rs) in
      (m', [mkItem (if g then VGrpc else VHttp2) rq rs is_req])
  end.

(* assembler run over a frame list (one half, every ReadFrame succeeds): results in order *)
Fixpoint run_asm (m : fbs) (fs : list frame) : res (fbs * list (N * rm_out)) :=
  match fs with
  | [] => Ok (m, [])
  | f :: t =>
      let* (m1, o) := read_message m f in
      let* (m2, os) := run_asm m1 t in
      Ok (m2, match o with RNone => os | _ => (frame_sid f, o) :: os end)
  end.
(* what readMessage returned for stream s, in order *)
Definition results_of (s : N) (os : list (N * rm_out)) : list rm_out :=
  map snd (filter (fun x => fst x =? s) os).
