(* C11 — Every emitted item survives the analyse/summarise/represent stages (DESIGN.md 5.C11).
   Proved part: the DNS extension's stages over the dynamic-type skeleton of JSON values; the
   other dissectors' later stages are explored on the implementation (see the evidence). *)
From Coq Require Import List Bool String.
Require Import V.Base.Prelude V.Shape.Dns V.Shape.DnsProofs.

(* every DNS entry of the stated shape (any number >= 1 of questions, any number of records of
   any type in each section, absent or null sections) passes Analyze's assertions, Summarize and
   Represent without a panic *)
Theorem C11_dns_no_panic : forall reqv respv, dns_ok reqv respv = true ->
  exists n, dns_stages reqv respv = Ok n.
Proof. exact dns_ok_no_panic. Qed.

(* the shape's "at least one question" is necessary: recorded boundary of the quantifier *)
Theorem C11_dns_no_question_panics : forall resp,
  dns_stages (JO [("opCode", JS); ("questions", JA [])]%string) (JO resp) = Panic 62.
Proof. exact dns_no_question_panics. Qed.
