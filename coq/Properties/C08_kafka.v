(* C08 — Kafka share (read-site whitelist regenerated from the source) (statements restated from coq/Kafka/KafkaC08.v; each closed by exact) *)
Require Import V.Base.Prelude V.Kafka.KafkaTy V.Kafka.KafkaModel V.gen.KafkaReadSites.
Require Import Coq.Strings.String.
Local Open Scope string_scope.
Require Import V.Kafka.KafkaC08.

Theorem C08_kafka_C08  :
  forall T (cs1 cs2 ss1 ss2 : list bytes) t,
  List.concat cs1 = List.concat cs2 -> List.concat ss1 = List.concat ss2 ->
  dissect T (List.concat cs1) (List.concat ss1) t = dissect T (List.concat cs2) (List.concat ss2) t.
Proof. exact (kafka_C08 ). Qed.

