(* C19 — Emitting assigns unique item identities and counts exactly (DESIGN.md 5.C19). *)
Require Import V.Base.Prelude V.Api.Emit V.Api.EmitProofs V.Api.EmitTie V.gen.EmitSrc V.Api.EmitMulti.
Local Open Scope Z_scope.

(* the model's Emit is the atom sequence found in the source *)
Theorem C19_model_is_source : emit_src = emit_atoms.
Proof. exact emit_src_is_model. Qed.

(* any number of emitters (thread k emits ns[k] items) on one stream, any interleaving of their
   atomic steps, any initial index i0 and matched-pairs count m0: when all have finished,
   exactly N items were delivered, their indices are pairwise distinct and are exactly
   i0 .. i0+N-1, and the matched-pairs statistic grew by exactly N *)
Theorem C19_emit_exact : forall (i0 m0 : Z) (ns : list nat) (sched : list nat),
  let s := eexec true (einit i0 m0 ns) sched in
  let N := total ns in
  efinished s = true ->
  length (out s) = N /\ NoDup (out s)
  /\ (forall x, In x (out s) <-> i0 <= x < i0 + Z.of_nat N)
  /\ matched s = m0 + Z.of_nat N /\ idx s = i0 + Z.of_nat N.
Proof. exact emit_exact. Qed.

(* at every point of every run, the indices delivered or already assigned are distinct *)
Theorem C19_always_distinct : forall (i0 m0 : Z) (ns : list nat) (sched : list nat),
  NoDup (allidx (eexec true (einit i0 m0 ns) sched)).
Proof. exact emit_always_distinct. Qed.

(* the code before the repair (index read and increment not under a lock) is refuted *)
Theorem C19_nolock_refuted :
  exists sched, let s := eexec false (einit 0 0 [1%nat; 1%nat]) sched in
                efinished s = true /\ ~ NoDup (out s).
Proof. exact emit_nolock_refuted. Qed.

(* several streams sharing the statistics: stream j has its own emitters (cfgs[j] = initial index
   and emits per emitter), index lock and output; all share the matched-pairs counter.  For
   every interleaving of all emitters of all streams: every stream is exact, and the shared
   statistic grew by the total number of emits *)
Theorem C19_several_streams : forall (m0 : Z) (cfgs : list (Z * list nat)) (sched : list (nat * nat)),
  let ms := meexec (minit_multi m0 cfgs) sched in
  all_finished ms = true ->
  fst ms = m0 + Z.of_nat (fold_right Nat.add O (map (fun c => total (snd c)) cfgs))
  /\ forall j c, nth_error cfgs j = Some c ->
       exists s, nth_error (snd ms) j = Some s /\ length (out s) = total (snd c) /\ NoDup (out s)
                 /\ (forall x, In x (out s) <-> fst c <= x < fst c + Z.of_nat (total (snd c))).
Proof. exact emit_multi_exact. Qed.

Require Import Coq.Strings.String.
Theorem C19_inc_matched_is_source : inc_matched_src = ["AAdd 1"%string].
Proof. exact inc_matched_is_one_atomic_add. Qed.
