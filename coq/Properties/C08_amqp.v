(* C08 — AMQP share (statements restated from coq/Amqp/AmqpC08.v; each closed by exact) *)
Require Import V.Base.Prelude V.Amqp.AmqpTypes V.Amqp.AmqpModel.
Require Import V.Amqp.AmqpC08.

Theorem C08_amqp_C08_chunking  :
  forall cs1 cs2 t is_client d ms, concat cs1 = concat cs2 ->
  dissect_chunked is_client {| chunks := cs1; ctail := t |} d ms = dissect_chunked is_client {| chunks := cs2; ctail := t |} d ms.
Proof. exact (amqp_C08_chunking ). Qed.

Theorem C08_amqp_C08_both  :
  forall c1 c2 s1 s2 tc ts client_first, concat c1 = concat c2 -> concat s1 = concat s2 ->
  dissect_both client_first (flat {| chunks := c1; ctail := tc |}) (flat {| chunks := s1; ctail := ts |}) =
  dissect_both client_first (flat {| chunks := c2; ctail := tc |}) (flat {| chunks := s2; ctail := ts |}).
Proof. exact (amqp_C08_both ). Qed.

