(* C01 — Dissecting any byte stream never panics.
   The theorems are stated per dissector in Properties/C01_resp.v, C01_amqp.v, C01_amqp_prefix.v,
   C01_kafka.v and C01_http.v (the four models define functions of the same names, so each share
   is stated in its own file); this file ties them into one build target. *)
Require V.Properties.C01_resp V.Properties.C01_amqp V.Properties.C01_amqp_prefix V.Properties.C01_kafka V.Properties.C01_http.
