(* C20 — Byte and event accounting neither loses nor double-counts.
   Only statements, each closed by `exact`, with Print Assumptions (DESIGN.md 5.C20). *)
Require Import V.Base.Prelude V.Api.Progress V.Api.ProgressSpec V.Api.ProgressProofs.
Require Import V.Api.Stats V.Api.StatsProofs V.Api.StatsTie V.gen.StatsSrc.

(* every reading returns the bytes fed since the previous reading (or reset), for every
   history of feed / read / reset operations *)
Theorem C20_progress : forall ops, currents ops = spec_currents ops.
Proof. exact currents_spec. Qed.

(* the capture sizes reported for successive messages add up to the bytes consumed *)
Theorem C20_progress_sum : forall ops, no_reset ops = true ->
  (sumZ (currents ops) + pending_from 0 ops = total_fed ops)%Z.
Proof. exact currents_sum. Qed.

(* dumps partition the counted events: for every interleaving of any number of incrementing
   threads (any sequence of the Inc methods of the source) with any number of dumps (the
   source's reset function), every increment is in exactly one dump or in the residue *)
Theorem C20_stats : forall (incthreads : list (list nat)) (dumpthreads : list nat) (sched : list nat),
  let progs := map inc_thread incthreads ++ map (dumps reset_src) dumpthreads in
  let s := exec (init progs) sched in
  (finished s = true -> added s = dumped s + ctr s)%N
  /\ (added s = dumped s + ctr s + held (thrs s))%N.
Proof. exact stats_conserved. Qed.

(* the reset used before the repair (load, then store 0) loses an increment *)
Theorem C20_stats_loadstore_refuted :
  exists sched, let s := exec (init [incs [1%N]; dumps [ALoad; AStore0] 1]) sched in
                finished s = true /\ added s <> (dumped s + ctr s)%N.
Proof. exact loadstore_refuted. Qed.
