(* C02 — AMQP share: termination within linear fuel, allocations bounded by bytes present or the frame cap (statements restated from coq/Amqp/AmqpC02.v; each closed by exact) *)
Require Import V.Base.Prelude V.Amqp.AmqpTypes V.Amqp.AmqpModel V.Amqp.AmqpLemmas V.Amqp.AmqpC01.
Local Open Scope N_scope.
Require Import V.Amqp.AmqpC02.

Theorem C02_amqp_C02_terminates  :
  forall is_client data tl d ms,
  let st := {| sdata := data; stail := tl |} in
  fst (dissect (length data + 2) is_client st d ms) <> ONoTerm /\
  (forall p, fst (dissect (length data + 2) is_client st d ms) <> OPanic p).
Proof. exact (amqp_C02_terminates ). Qed.

Theorem C02_amqp_C02_progress  :
  forall st,
  match fst (read_frame st) with
  | Ok _ | Err EProto => (length (sdata (snd (read_frame st))) + 7 <= length (sdata st))%nat
  | _ => True
  end.
Proof. exact (amqp_C02_progress ). Qed.

Theorem C02_amqp_C02_take_bounded  :
  forall n s a r, ptake n s = POk a r -> Blen a = n /\ n <= Blen s.
Proof. exact (amqp_C02_take_bounded ). Qed.

Theorem C02_amqp_C02_read_bounded  :
  forall n st a st1, rd_full n st = (Ok a, st1) -> Blen a = n /\ n <= Blen (sdata st).
Proof. exact (amqp_C02_read_bounded ). Qed.

Theorem C02_amqp_C02_frame_cap  :
  forall st f, fst (read_frame st) = Ok f ->
  (length (sdata st) - length (sdata (snd (read_frame st))) <= N.to_nat max_frame + 8)%nat.
Proof. exact (amqp_C02_frame_cap ). Qed.

