(* C01 — AMQP share: no panic, no out-of-fuel (statements restated from coq/Amqp/AmqpC01.v; each closed by exact) *)
Require Import V.Base.Prelude V.Amqp.AmqpTypes V.Amqp.AmqpModel V.Amqp.AmqpLemmas.
Local Open Scope N_scope.
Require Import V.Amqp.AmqpC01.

Theorem C01_amqp_C01_dissect  :
  forall is_client st d ms,
  good_outcome (fst (dissect (dissect_fuel st) is_client st d ms)).
Proof. exact (amqp_C01_dissect ). Qed.

Theorem C01_amqp_C01_both  :
  forall client_first c s,
  let '(oc, os, _) := dissect_both client_first c s in good_outcome oc /\ good_outcome os.
Proof. exact (amqp_C01_both ). Qed.

Theorem C01_amqp_C01_field  :
  forall s, nofail (read_field (length s + 1) s).
Proof. exact (amqp_C01_field ). Qed.

