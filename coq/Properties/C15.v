(* C15 — Redaction removes every targeted value and nothing else.
   Only statements, each closed by `exact` (DESIGN.md 5.C15).

   redact_rec is the model of redactRecursively/setMatches for one argument of redact, given as
   its pieces between json() hops; setm is setMatches.  Denotes / DenotesArg say which locations
   a path denotes (RedactSpec.v, independent of the model); sub reads a location, through the
   nested documents.  The four clauses:
     marker_at_denoted      every denoted location lies at or below one that now holds [REDACTED]
     frame                  whatever is disjoint from all denoted locations is unchanged
     leaves_from_original   every leaf of the result is the marker or the leaf that was there
                            (so a targeted value occurs nowhere in it, also not in nested documents)
     no_location_added      no key, element or nested document appears
   Proved: one JSON path with any number of matches (C15_one_path); one argument through any
   number of json() hops, with and without base64, under the contracts of the JSON / base64
   libraries, when the part in front of each hop denotes at most one location (C15_one_argument);
   several plain JSON paths in sequence, overlapping or not, any fragments, for the locations they
   denote in the ORIGINAL record (C15_several_paths), where the result is the original record with
   every denoted subtree replaced by the marker (C15_several_paths_value) and therefore the same
   for every order of the paths (C15_several_paths_order_value, C15_several_paths_any_order);
   several ARGUMENTS of redact in sequence through redact_model, each with any number of json()
   hops, for the locations they denote in the ORIGINAL record, when every argument is not empty,
   has no xml() piece, has pieces that path_ok accepts, and denotes at most one location in front
   of each hop IN THE ORIGINAL RECORD (that this still holds on the records the earlier arguments
   produced is proved, not assumed) (C15_several_arguments); the clauses then hold for every order
   of the arguments (C15_several_arguments_any_order; there the resulting values are only shown to
   satisfy the clauses, their equality across orders is not proved for arguments with hops).
   Refuted: the same without the one-location restriction (C15_wildcard_hop_refuted = recorded finding).
   Not proved: xml() hops (mxj is an oracle of the model; they are checked on the implementation
   only); arguments with an empty piece or a piece ending in a descent (redact_rec reports an
   error for them, setMatches hands them to jp.Expr.Set which is not modelled). *)
Require Import V.Base.Prelude V.KflText.Macro V.KflText.RJv V.KflText.Redact V.KflText.RedactSpec
  V.KflText.RJson V.KflText.RedactProofs V.KflText.RedactMulti V.KflText.RedactArgs V.KflText.RedactWitness.
From Coq Require Import Permutation.

Theorem C15_one_path :
  forall (parse : bytes -> option jv) (b64d : bytes -> option bytes),
  decode parse b64d REDACTED = None ->
  forall fs v, wf v ->
    marker_at_denoted parse b64d (Denotes fs v) (setm MARK fs v)
    /\ frame parse b64d (Denotes fs v) v (setm MARK fs v)
    /\ leaves_from_original parse b64d v (setm MARK fs v)
    /\ no_location_added parse b64d v (setm MARK fs v).
Proof. exact setm_clauses. Qed.

Theorem C15_one_argument :
  forall (parse : bytes -> option jv) (render : jv -> bytes) (b64d : bytes -> option bytes) (b64e : bytes -> bytes)
         (xml_redact : bytes -> bytes -> option bytes),
  decode parse b64d REDACTED = None ->
  (forall v, parse (render v) = Some v) ->
  (forall t, b64d (b64e t) = Some t) ->
  (forall v, is_container v = true -> b64d (render v) = None) ->
  (forall t v, parse t = Some v -> wf v) ->
  forall a r, a <> [] -> ok_arg a -> wf r -> SingleHops parse b64d (map sjp a) r ->
    match redact_rec parse render b64d b64e xml_redact r a with
    | Some r' => (exists L, DenotesArg parse b64d (map sjp a) r L) /\ is_container r = true /\ is_container r' = true
                 /\ clauses parse b64d (DenotesArg parse b64d (map sjp a) r) r r'
    | None => forall L, ~ DenotesArg parse b64d (map sjp a) r L
    end.
Proof. exact rrec_spec. Qed.

(* the model's path evaluation (its rendering of jp.Expr.Get) returns exactly the denoted locations *)
Theorem C15_matches_denote : forall fs v L, In L (rev (map fst (jmatches fs v))) <-> Denotes fs v L.
Proof. exact in_matches_iff. Qed.

(* a wildcard in front of a hop: the first document is redacted and written over the others *)
Theorem C15_wildcard_hop_refuted :
  exists r', redact_rec parse render b64d b64e no_xml wit_record wit_arg = Some r'
             /\ ~ no_location_added parse b64d wit_record r'.
Proof. exact wildcard_hop_refuted. Qed.

(* non-vacuity on the instantiation that the correspondence check runs *)
Theorem C15_example :
  exists r', redact_rec parse render b64d b64e no_xml wit_record ex_arg = Some r'
             /\ sub parse b64d r' [SKey (by_ [97]%N); SIdx 0; SHop; SKey (by_ [99]%N)] = Some MARK
             /\ sub parse b64d r' [SKey (by_ [97]%N); SIdx 0; SHop; SKey (by_ [100]%N)] = sub parse b64d wit_record [SKey (by_ [97]%N); SIdx 0; SHop; SKey (by_ [100]%N)]
             /\ sub parse b64d r' [SKey (by_ [97]%N); SIdx 1] = Some (JStr doc2).
Proof. exact example_redaction. Qed.

(* ---- several paths in sequence (what redact does with several arguments that have no hops) ----
   D = the locations the paths denote in the ORIGINAL record; overlapping paths, any fragments *)
Theorem C15_several_paths :
  forall (parse : bytes -> option jv) (b64d : bytes -> option bytes),
  decode parse b64d REDACTED = None ->
  forall (fss : list (list frag)) v, wf v ->
    let v' := fold_left (fun acc fs => setm MARK fs acc) fss v in
    let D := fun L => exists fs, In fs fss /\ Denotes fs v L in
    marker_at_denoted parse b64d D v'
    /\ frame parse b64d D v v'
    /\ leaves_from_original parse b64d v v'
    /\ no_location_added parse b64d v v'.
Proof. exact several_paths_clauses. Qed.

(* the result is the record with every denoted subtree replaced by the marker ... *)
Theorem C15_several_paths_value :
  forall (fss : list (list frag)) v,
    fold_left (fun acc fs => setm MARK fs acc) fss v
    = mark (flat_map (fun fs => rev (map fst (jmatches fs v))) fss) v.
Proof. exact setm_all_value. Qed.

(* ... so the order of the paths changes nothing, not even below the denoted locations *)
Theorem C15_several_paths_order_value :
  forall (fss fss' : list (list frag)) v, Permutation fss fss' ->
    fold_left (fun acc fs => setm MARK fs acc) fss v = fold_left (fun acc fs => setm MARK fs acc) fss' v.
Proof. exact setm_all_perm. Qed.

Theorem C15_several_paths_any_order :
  forall (parse : bytes -> option jv) (b64d : bytes -> option bytes),
  decode parse b64d REDACTED = None ->
  forall (fss fss' : list (list frag)) v, wf v -> Permutation fss fss' ->
    let v' := fold_left (fun acc fs => setm MARK fs acc) fss' v in
    let D := fun L => exists fs, In fs fss /\ Denotes fs v L in
    marker_at_denoted parse b64d D v'
    /\ frame parse b64d D v v'
    /\ leaves_from_original parse b64d v v'
    /\ no_location_added parse b64d v v'.
Proof. exact several_paths_any_order. Qed.

(* non-vacuity: redact("a", "a.b", "d"), overlapping and disjoint paths, both orders *)
Theorem C15_several_paths_example :
  wf multi_record
  /\ paths_denote multi_paths multi_record [SKey ka]
  /\ paths_denote multi_paths multi_record [SKey ka; SKey kb]
  /\ paths_denote multi_paths multi_record [SKey kd]
  /\ setm_all multi_paths multi_record = JObj [(ka, MARK); (kd, MARK); (ke, zq 52)]
  /\ setm_all (rev multi_paths) multi_record = JObj [(ka, MARK); (kd, MARK); (ke, zq 52)].
Proof. exact example_several_paths. Qed.

(* ---- several arguments in sequence, with json() hops (redact_model = the loop of redact) ----
   D = the locations the arguments denote in the ORIGINAL record.  An argument whose turn comes
   after the record changed is evaluated on the changed record; an argument that then fails is
   skipped.  SingleHops is required on the original record only. *)
Theorem C15_several_arguments :
  forall (parse : bytes -> option jv) (render : jv -> bytes) (b64d : bytes -> option bytes) (b64e : bytes -> bytes)
         (xml_redact : bytes -> bytes -> option bytes),
  decode parse b64d REDACTED = None ->
  (forall v, parse (render v) = Some v) ->
  (forall t, b64d (b64e t) = Some t) ->
  (forall v, is_container v = true -> b64d (render v) = None) ->
  (forall t v, parse t = Some v -> wf v) ->
  forall (args : list (list seg)) v, wf v ->
    (forall a, In a args -> a <> [] /\ ok_arg a /\ SingleHops parse b64d (map sjp a) v) ->
    let v' := redact_model parse render b64d b64e xml_redact v args in
    let D := fun L => exists a, In a args /\ DenotesArg parse b64d (map sjp a) v L in
    marker_at_denoted parse b64d D v'
    /\ frame parse b64d D v v'
    /\ leaves_from_original parse b64d v v'
    /\ no_location_added parse b64d v v'.
Proof. exact several_arguments_clauses. Qed.

Theorem C15_several_arguments_any_order :
  forall (parse : bytes -> option jv) (render : jv -> bytes) (b64d : bytes -> option bytes) (b64e : bytes -> bytes)
         (xml_redact : bytes -> bytes -> option bytes),
  decode parse b64d REDACTED = None ->
  (forall v, parse (render v) = Some v) ->
  (forall t, b64d (b64e t) = Some t) ->
  (forall v, is_container v = true -> b64d (render v) = None) ->
  (forall t v, parse t = Some v -> wf v) ->
  forall (args args' : list (list seg)) v, wf v -> Permutation args args' ->
    (forall a, In a args -> a <> [] /\ ok_arg a /\ SingleHops parse b64d (map sjp a) v) ->
    let v' := redact_model parse render b64d b64e xml_redact v args' in
    let D := fun L => exists a, In a args /\ DenotesArg parse b64d (map sjp a) v L in
    marker_at_denoted parse b64d D v'
    /\ frame parse b64d D v v'
    /\ leaves_from_original parse b64d v v'
    /\ no_location_added parse b64d v v'.
Proof. exact several_arguments_any_order. Qed.

(* non-vacuity: redact("a[0].json().c", "a[0].json().d", "a[1]") meets the hypotheses on
   wit_record, the three arguments denote locations of it, and all of them hold the marker *)
Theorem C15_several_arguments_example :
  (forall a, In a multi_args -> good_arg parse b64d wit_record a)
  /\ args_denote parse b64d multi_args wit_record [SKey ka; SIdx 0; SHop; SKey kc]
  /\ args_denote parse b64d multi_args wit_record [SKey ka; SIdx 0; SHop; SKey kd]
  /\ args_denote parse b64d multi_args wit_record [SKey ka; SIdx 1]
  /\ exists r', redact_model parse render b64d b64e no_xml wit_record multi_args = r'
       /\ sub parse b64d r' [SKey ka; SIdx 0; SHop; SKey kc] = Some MARK
       /\ sub parse b64d r' [SKey ka; SIdx 0; SHop; SKey kd] = Some MARK
       /\ sub parse b64d r' [SKey ka; SIdx 1] = Some MARK.
Proof. exact example_several_arguments. Qed.
