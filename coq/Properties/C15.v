(* C15 — Redaction removes every targeted value and nothing else (stub, filled below). *)
Require Import V.Base.Prelude.

Example C15_stub : True.
Proof. exact I. Qed.
