(* C10 — Pairing is independent of goroutine interleaving (DESIGN.md 5.C10). *)
Require Import V.Base.Prelude V.Match.Matcher V.Match.MatcherSeq V.Match.MatcherConc V.Match.MatcherConcProofs.
From Coq Require Import Permutation.
Require Import V.Match.MatcherSrcTy V.Match.MatcherTie V.gen.MatcherSrc V.Match.MatcherGran.

(* One thread per (connection, direction), atoms: counter increment, register (the critical
   section of registerLock), emit.  For every interleaving, a complete run emits exactly the
   pairs (k-th request, k-th response) of each connection and leaves exactly the unanswered
   halves in the matcher; the right-hand sides do not depend on the schedule. *)
Theorem C10_items : forall (c : cfg) (sched : list nat),
  NoDup (map fst c) ->
  let s := mexec false true (minit c) sched in
  mfinished s = true ->
  (forall cn p q, In (cn, p, q) (emitted s) <->
     exists k reqs resps, In (cn, true, reqs) c /\ In (cn, false, resps) c
                          /\ nth_error reqs k = Some p /\ nth_error resps k = Some q)
  /\ (forall cn id d p, mm s (cn, id) = Some (d, p) <->
        exists l, In (cn, d, l) c /\ 0 < id /\ nth_error l (id - 1) = Some p
                  /\ forall l' q, In (cn, negb d, l') c -> nth_error l' (id - 1) <> Some q)
  /\ Permutation (emitted s) (gitems s).
Proof. exact conc_items. Qed.

(* The same for the machine in which LoadAndDelete and Store are separate atoms and
   registerLock is taken before the LoadAndDelete and released after the Store (or when the pair
   is returned): what the source does (C10_register_is_critical_section).  Atoms: counter
   increment, map look-up, map store, emit — the steps the property names. *)
Theorem C10_items_lock_granular : forall (c : cfg) (sched : list nat),
  NoDup (map fst c) ->
  let s := mexec true true (minit c) sched in
  mfinished s = true ->
  (forall cn p q, In (cn, p, q) (emitted s) <->
     exists k reqs resps, In (cn, true, reqs) c /\ In (cn, false, resps) c
                          /\ nth_error reqs k = Some p /\ nth_error resps k = Some q)
  /\ (forall cn id d p, mm s (cn, id) = Some (d, p) <->
        exists l, In (cn, d, l) c /\ 0 < id /\ nth_error l (id - 1) = Some p
                  /\ forall l' q, In (cn, negb d, l') c -> nth_error l' (id - 1) <> Some q)
  /\ Permutation (emitted s) (gitems s).
Proof. exact gran_items. Qed.

(* same items and same matcher contents as any other complete run, in particular the one that
   dissects the directions one after the other *)
Theorem C10_schedule_independent : forall (c : cfg) (sched1 sched2 : list nat),
  NoDup (map fst c) ->
  let s1 := mexec false true (minit c) sched1 in
  let s2 := mexec false true (minit c) sched2 in
  mfinished s1 = true -> mfinished s2 = true ->
  (forall it, In it (emitted s1) <-> In it (emitted s2)) /\ (forall k, mm s1 k = mm s2 k).
Proof. exact conc_sched_indep. Qed.

(* the code before the repair (LoadAndDelete and Store as separate, unprotected steps) *)
Theorem C10_nolock_refuted :
  exists sched, let s := mexec true false (minit [(1, true, [10]); (1, false, [20])]) sched in
                mfinished s = true /\ emitted s = [].
Proof. exact conc_nolock_refuted. Qed.

(* finite sweep (bound stated): with the lock, the machine in which LoadAndDelete and Store
   are separate atoms has no schedule that differs from the sequential run, for the
   one-exchange and the two-exchange conversation *)
Theorem C10_lock_granular_small :
  mcounterexamples true true [(1, true, [10]); (1, false, [20])] = []
  /\ mcounterexamples true true [(1, true, [10; 11]); (1, false, [20; 21])] = [].
Proof. exact conc_lockgran_small. Qed.

(* the atomicity the machine assumes is what the source does: in all six register functions
   (regenerated from the source on every run) the map operations sit inside registerLock *)
Theorem C10_register_is_critical_section :
  length matcher_src = 6%nat /\ forallb (list_eqb ratom_eqb critical_section) matcher_src = true.
Proof. exact matcher_src_locked. Qed.
