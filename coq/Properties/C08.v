(* C08 — Results do not depend on how the stream is split into reads.
   Per-dissector statements: Properties/C08_resp.v, C08_amqp.v, C08_kafka.v, C08_http.v. *)
Require V.Properties.C08_resp V.Properties.C08_amqp V.Properties.C08_kafka V.Properties.C08_http.
