(* C08 — Results do not depend on how the stream is split into reads.
   Per-dissector statements: Properties/C08_resp.v, C08_amqp.v, C08_kafka.v, C08_http.v. *)
Require V.Properties.C08_resp V.Properties.C08_amqp V.Properties.C08_kafka V.Properties.C08_http.

Require Import V.Shape.ReadSitesTie V.gen.ReadSites.
From Coq Require Import List Bool String.

(* every call through which the four dissectors take bytes from the connection (regenerated
   from the source on every run) is a looping library call or one of the two raw reads the
   models treat explicitly *)
Theorem C08_read_sites : forallb site_agnostic read_sites = true.
Proof. exact read_sites_agnostic. Qed.

Theorem C08_redis_single_refill :
  List.length (filter (fun s => let '(ext, _, _, callee) := s in String.eqb ext "redis" && prefix "r.Read(" callee) read_sites) = 1%nat.
Proof. exact redis_single_refill. Qed.
