(* C12 — KFL evaluation returns the truth value the language defines.
   Only statements, each closed by `exact` (DESIGN.md 5.C12).  The libraries (strconv.ParseFloat,
   regexp, time.Parse, base64, oj.ParseString, mxj, the redact machinery) are universally quantified. *)
Require Import V.Base.Prelude V.Kfl.Num V.Kfl.Json V.Kfl.KflAst V.Kfl.JPath V.Kfl.KflOps V.Kfl.KflEval V.Kfl.KflSem
  V.Kfl.KflSemProofs V.Kfl.KflNumLaws V.Kfl.KflLimit V.Kfl.KflLimitProofs V.Kfl.KflLaws V.Kfl.KflOld V.Kfl.KflExamples.

(* wherever the language rules (KflSem.sem: literals, paths, regexes, coercions, any-match, right-nested
   short-circuit and/or, negation, collapse of the innermost expression on a missing path, helpers)
   define a truth value for a prepared query on a record, the evaluator returns exactly it, without
   panic and with the record unchanged *)
Theorem C12_sem :
  forall parse_float re_match parse_time b64dec parse_json xml_first redact_apply e r b,
    sem parse_float re_match parse_time b64dec parse_json xml_first e r = Some b ->
    eval_model parse_float re_match parse_time b64dec parse_json xml_first redact_apply e r = Ok (b, r).
Proof. exact eval_agrees_with_sem. Qed.

(* numbers that are numerically equal (the same real number; int64 or float64 with at most 53
   significant bits) compare equal *)
Theorem C12_num_eq :
  forall parse_float re_match x y,
    f64_number x = true -> f64_number y = true -> exact_equal x y = true ->
    eql parse_float re_match (VJ x) (VJ y) = true.
Proof. exact num_eq_compare_equal. Qed.

(* == agrees with >= and <= taken together, for all numbers *)
Theorem C12_eq_ge_le :
  forall parse_float re_match x y,
    is_number x = true -> is_number y = true ->
    eql parse_float re_match x y = geq parse_float x y && leq parse_float x y.
Proof. exact eq_agrees_ge_le. Qed.

(* the limit propagated by Precompute is the first limit(n) of the query with n <> 0 *)
Theorem C12_limit : forall argval e, limit_of_expr argval e = first_limit argval e.
Proof. exact limit_is_first. Qed.

(* limit(n) is true and does not touch the record *)
Theorem C12_limit_truth : forall args st, args <> [] -> h_limit args st = Ok (ORef, vtrue, st).
Proof. exact limit_is_true. Qed.

(* short circuit: a false left operand of `and` (a true one of `or`) decides without the right operand *)
Theorem C12_and_shortcircuit :
  forall parse_float re_match parse_time b64dec parse_json xml_first redact_apply e next st v o st1,
    eval_equality parse_float re_match parse_time b64dec parse_json xml_first redact_apply e st = Ok (EvVal v o, st1) ->
    bool_operand v = false ->
    eval_logical parse_float re_match parse_time b64dec parse_json xml_first redact_apply (Logical e LAnd next) st = Ok (EvVal vfalse o, st1).
Proof. exact and_short_circuit. Qed.

Theorem C12_or_shortcircuit :
  forall parse_float re_match parse_time b64dec parse_json xml_first redact_apply e next st v o st1,
    eval_equality parse_float re_match parse_time b64dec parse_json xml_first redact_apply e st = Ok (EvVal v o, st1) ->
    bool_operand v = true ->
    eval_logical parse_float re_match parse_time b64dec parse_json xml_first redact_apply (Logical e LOr next) st = Ok (EvVal vtrue o, st1).
Proof. exact or_short_circuit. Qed.

(* a missing path makes the innermost enclosing (sub)expression false, and only that one *)
Theorem C12_collapse_scope :
  forall parse_float re_match parse_time b64dec parse_json xml_first redact_apply l st o st1,
    eval_logical parse_float re_match parse_time b64dec parse_json xml_first redact_apply l st = Ok (EvCollapse o, st1) ->
    eval_expr parse_float re_match parse_time b64dec parse_json xml_first redact_apply (Expr (LgSome l)) st = Ok (EvVal vfalse o, st1).
Proof. exact collapse_scope. Qed.

Theorem C12_collapse_stops_at_expression :
  forall parse_float re_match parse_time b64dec parse_json xml_first redact_apply e st o st1,
    eval_expr parse_float re_match parse_time b64dec parse_json xml_first redact_apply e st <> Ok (EvCollapse o, st1).
Proof. exact expr_never_collapses. Qed.

(* the equality of the pinned tree (through a six-digit string) refuted both numeric clauses *)
Theorem C12_old_equality_refuted :
  (exact_equal one_million_int one_million_flt = true /\ scalar_equal_old (VJ one_million_int) (VJ one_million_flt) = false) /\
  (exact_equal n1234567 n1234568 = false /\ scalar_equal_old (VJ n1234567) (VJ n1234568) = true).
Proof. exact (conj old_equality_misses_equal_numbers old_equality_conflates_numbers). Qed.

(* the hypotheses are satisfiable: the dumped tree of  a == 1000000 and b.startsWith("x") *)
Theorem C12_sem_instance :
  sem no_float no_match no_time no_b64 no_json no_xml ex_query ex_record = Some true.
Proof. exact ex_sem_defined. Qed.
