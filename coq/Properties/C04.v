(* C04 — HTTP/2 and gRPC streams are reassembled and reported exactly (placeholder until H2Proofs). *)
Require Import V.Base.Prelude V.Http.HBytes V.Http.H2Asm V.Http.HttpLoop V.Http.HttpK.
