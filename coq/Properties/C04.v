(* C04 — HTTP/2 and gRPC streams are reassembled and reported exactly.
   Only statements, each closed by `exact` (DESIGN.md 5.C04).  Frames are what Framer.ReadFrame
   (with the connection's HPACK decoder) returns; the framer and HPACK are library oracles. *)
Require Import V.Base.Prelude V.Http.HBytes V.Http.HBytesProofs V.Http.H2Asm V.Http.H2Spec V.Http.H2Proofs.

(* for every interleaving of the frame lists of well-formed streams (other frame types anywhere in
   between) the assembler returns exactly one message per completed stream: that stream's own
   header fields and trailers and its data truncated at 2^20; nothing for any other stream id *)
Theorem C04_assembly : forall (g : N -> list frame) σ,
  (forall s, g s = [] \/ wf_script (mkScript s (g s))) ->
  interleaving g σ ->
  exists m' os, run_asm [] σ = Ok (m', os) /\
    forall s, results_of s os = match g s with [] => [] | _ => [message_of (mkScript s (g s))] end.
Proof. exact asm_assembly. Qed.

(* the same in projection form: whatever else travels on the connection *)
Theorem C04_assembly_proj : forall σ m' os, run_asm [] σ = Ok (m', os) ->
  (forall sc, wf_script sc -> proj (ss_sid sc) σ = ss_frames sc -> results_of (ss_sid sc) os = [message_of sc]) /\
  (forall s, proj s σ = [] -> results_of s os = []).
Proof. exact asm_assembly_proj. Qed.

(* what is reported for stream s depends only on the frames of s *)
Theorem C04_isolation : forall s σ σ' m1 os1 m2 os2,
  run_asm [] σ = Ok (m1, os1) -> run_asm [] σ' = Ok (m2, os2) ->
  proj s σ = proj s σ' -> results_of s os1 = results_of s os2.
Proof. exact asm_isolation. Qed.

(* the body is the first min(2^20, total) bytes of the stream's data *)
Theorem C04_cap : forall d, exists rest, d = capped d ++ rest /\ length (capped d) = Nat.min (N.to_nat max_data) (length d).
Proof. exact capped_spec. Qed.

(* recoverably encoded: the stored text decodes to exactly those bytes; the header map is the map
   of the stream's own fields *)
Theorem C04_b64 : forall sc r p g, message_of sc = RMsg r p g ->
  b64dec (p_text p) = Some (capped (data_of (ss_frames sc))) /\ p_hdr p = headers_of (fields_of (ss_frames sc)) /\
  p_tag p = ss_sid sc.
Proof. exact asm_cap_b64. Qed.

Theorem C04_b64_roundtrip : forall l, b64dec (b64enc l) = Some l.
Proof. exact b64_roundtrip. Qed.

(* every value sent under a name is in the header map, in order, and nothing else *)
Theorem C04_fields_exact : forall fs k,
  hvalues (canon_key k) (headers_of fs) = map snd (filter (fun f => bytes_eqb (canon_key k) (canon_key (fst f))) fs).
Proof. exact headers_of_exact. Qed.

(* a completed pair is gRPC exactly when either half carries a gRPC content type or a grpc-status *)
Theorem C04_grpc : forall is_req p m m' it,
  handle_h2 is_req p (is_grpc_header (p_hdr p)) m = (m', [it]) ->
  it_variant it = (if is_grpc_header (p_hdr (it_req it)) || is_grpc_header (p_hdr (it_resp it)) then VGrpc else VHttp2)
  /\ (if is_req then it_req it = p else it_resp it = p).
Proof. exact h2_classification. Qed.

(* the hypotheses are satisfiable: two interleaved streams *)
Example C04_example :
  let h1 := FHeaders 1%N [(s_method, bs [71;69;84]%N)] false in
  let d1 := FData 1%N (bs [1;2;3]%N) true in
  let h3 := FHeaders 3%N [(s_method, bs [71;69;84]%N)] true in
  exists m' os, run_asm [] [h1; FOther 0%N; h3; d1] = Ok (m', os) /\ length os = 2%nat.
Proof. vm_compute. eauto. Qed.
