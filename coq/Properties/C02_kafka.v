(* C02 — Kafka share: termination and a linear step bound (statements restated from coq/Kafka/KafkaC02.v; each closed by exact) *)
Require Import V.Base.Prelude V.Kafka.KafkaTy V.Kafka.KafkaModel V.Kafka.KafkaLift V.Kafka.KafkaFrame V.Kafka.KafkaC01.
Require Import V.Kafka.KafkaCost.
Require Import Coq.Strings.String.
Local Open Scope Z_scope.
Require Import V.Kafka.KafkaC02.

Theorem C02_kafka_C02_steps  :
  forall T client server t, tables_plain T -> tables_arrays_ok T ->
  r_steps (dissect T client server t) <= (KT T + ST T + 6) * (blen client + blen server).
Proof. exact (kafka_C02_steps ). Qed.

Theorem C02_kafka_C02_terminates  :
  forall T client server t, tables_plain T ->
  r_client (dissect T client server t) <> NoFuel /\ r_server (dissect T client server t) <> NoFuel.
Proof. exact (kafka_C02_terminates ). Qed.

