(* C02 — Kafka share: termination and a linear step bound (statements restated from coq/Kafka/KafkaC02.v; each closed by exact) *)
Require Import V.Base.Prelude V.Kafka.KafkaTy V.Kafka.KafkaModel V.Kafka.KafkaLift V.Kafka.KafkaFrame V.Kafka.KafkaC01.
Require Import V.Kafka.KafkaCost.
Require Import Coq.Strings.String.
Local Open Scope Z_scope.
Require Import V.Kafka.KafkaC02.

Theorem C02_kafka_C02_steps  :
  forall T client server t, tables_plain T -> tables_arrays_ok T ->
  r_steps (dissect T client server t) <= (KT T + ST T + 6) * (blen client + blen server).
Proof. exact (kafka_C02_steps ). Qed.

Theorem C02_kafka_C02_terminates  :
  forall T client server t, tables_plain T ->
  r_client (dissect T client server t) <> NoFuel /\ r_server (dissect T client server t) <> NoFuel.
Proof. exact (kafka_C02_terminates ). Qed.


(* the premises hold of the tables regenerated from the compiled dissector on this run *)
Require Import V.gen.KafkaSchemas V.Kafka.KafkaImplTables.

Theorem C02_kafka_C02_impl_tables_ok : tables_plain impl_tables /\ tables_arrays_ok impl_tables.
Proof. exact (conj impl_tables_are_plain impl_tables_have_arrays_ok). Qed.

Theorem C02_kafka_C02_impl_steps  :
  forall client server t,
  r_steps (dissect impl_tables client server t)
  <= (KT impl_tables + ST impl_tables + 6) * (blen client + blen server).
Proof. exact (kafka_C02_impl_steps ). Qed.

Theorem C02_kafka_C02_impl_terminates  :
  forall client server t,
  r_client (dissect impl_tables client server t) <> NoFuel /\
  r_server (dissect impl_tables client server t) <> NoFuel.
Proof. exact (kafka_C02_impl_terminates ). Qed.
