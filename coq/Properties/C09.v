(* C09 — Requests are paired with the responses that answer them, once (DESIGN.md 5.C09). *)
Require Import V.Base.Prelude V.Match.Matcher V.Match.MatcherSeq.

(* Keyed correlation (HTTP/2 stream ids, Kafka correlation ids, AMQP idents when each
   (ident, direction) is registered once): for every order of the register calls the items are
   exactly the pairs of a request and a response with the same ident, and the matcher holds
   exactly the halves whose counterpart never arrived. *)
Theorem C09_keyed : forall h, uniq h ->
  (forall k d p, fst (krun h) k = Some (d, p) <-> (In (k, d, p) h /\ forall q, ~ In (k, negb d, q) h))
  /\ (forall cn p q, In (cn, p, q) (snd (krun h)) <->
        exists id, In ((cn, id), true, p) h /\ In ((cn, id), false, q) h).
Proof. exact krun_inv. Qed.

(* no message appears in two items, no item is emitted twice *)
Theorem C09_once : forall h, uniq h -> pids_unique h -> NoDup (snd (krun h)).
Proof. exact krun_nodup. Qed.

(* Counter correlation (HTTP/1, Redis): for every arrival history h of any number of
   connections sharing one matcher — any order-preserving merge, a response may come before,
   between or after requests — the items of connection cn are exactly (k-th request, k-th
   response), request first; nothing mixes two connections. *)
Theorem C09_kth : forall (h : list hev) cn p q,
  In (cn, p, q) (snd (snd (hrun h))) <->
  exists k, nth_error (msgs cn true h) k = Some p /\ nth_error (msgs cn false h) k = Some q.
Proof. exact hrun_items. Qed.

(* once both directions are consumed, exactly the unanswered halves are left in the matcher *)
Theorem C09_residue : forall (h : list hev) cn k d p,
  fst (snd (hrun h)) (cn, k) = Some (d, p) <->
  (0 < k /\ nth_error (msgs cn d h) (k - 1) = Some p /\ nth_error (msgs cn (negb d) h) (k - 1) = None).
Proof. exact hrun_residue. Qed.

Require Import V.Match.IdentTie V.gen.IdentSrc.

(* tie to the source (regenerated on every run): the keys the two directions build name the same
   connection - all four address components, same order, server side mirrored - and every
   client-side key with a correlation component is built identically by a server-side site *)
Theorem C09_idents_agree : ident_sites_ok ident_sites = true.
Proof. exact ident_src_ok. Qed.
