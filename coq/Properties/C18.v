(* C18 (statements follow; placeholder while the family is being built) *)
Require Import V.Base.Prelude V.Kfl.KflEval V.Kfl.KflSem V.Kfl.KflLimit.
Theorem C18_placeholder : True.
Proof. exact I. Qed.
