(* C18 — A prepared query can be reused and shared between goroutines (DESIGN.md 5.C18).
   The store is what persists between evaluations: the prepared tree (and a counter). *)
Require Import V.Base.Prelude V.Kfl.Num V.Kfl.Json V.Kfl.KflAst V.Kfl.JPath V.Kfl.KflOps V.Kfl.KflEval V.Kfl.KflShared.

(* frame: an evaluation returns the store with the tree it was given (no model step writes an AST cell) *)
Theorem C18_frame :
  forall parse_float re_match parse_time b64dec parse_json xml_first redact_apply s r,
    ast_of (fst (eval_store parse_float re_match parse_time b64dec parse_json xml_first redact_apply s r)) = ast_of s.
Proof. exact eval_store_frame. Qed.

Theorem C18_frame_history :
  forall parse_float re_match parse_time b64dec parse_json xml_first redact_apply rs s,
    ast_of (fst (run parse_float re_match parse_time b64dec parse_json xml_first redact_apply s rs)) = ast_of s.
Proof. exact run_frame. Qed.

(* history independence: evaluating any sequence of records on one shared prepared query gives, for
   each record, the result of evaluating it alone *)
Theorem C18_history :
  forall parse_float re_match parse_time b64dec parse_json xml_first redact_apply rs s,
    snd (run parse_float re_match parse_time b64dec parse_json xml_first redact_apply s rs) =
    map (eval_model parse_float re_match parse_time b64dec parse_json xml_first redact_apply (ast_of s)) rs.
Proof. exact run_results. Qed.

(* any number of threads sharing the tree, any schedule of their evaluations: a thread that has
   finished holds for each of its records the result of a fresh evaluation, and the tree is unchanged *)
Theorem C18_any_schedule :
  forall parse_float re_match parse_time b64dec parse_json xml_first redact_apply e (alls : list (list jv)) sched n0,
    let '(s', ths') := exec parse_float re_match parse_time b64dec parse_json xml_first redact_apply
                            ({| ast_of := e; evals_done := n0 |}, start alls) sched in
    ast_of s' = e /\
    forall i all th, nth_error alls i = Some all -> nth_error ths' i = Some th ->
                     pending th = [] ->
                     results th = map (eval_model parse_float re_match parse_time b64dec parse_json xml_first redact_apply e) all.
Proof. exact shared_any_schedule. Qed.

(* a freshly prepared copy (an equal tree) and the shared tree give the same result *)
Theorem C18_fresh :
  forall parse_float re_match parse_time b64dec parse_json xml_first redact_apply s e_fresh r,
    e_fresh = ast_of s ->
    snd (eval_store parse_float re_match parse_time b64dec parse_json xml_first redact_apply s r) =
    eval_model parse_float re_match parse_time b64dec parse_json xml_first redact_apply e_fresh r.
Proof. exact fresh_equals_shared. Qed.
