(* C07 — Redis commands and replies are reported exactly, binary-safe.
   Only statements, each closed by `exact`, with Print Assumptions (DESIGN.md 5.C07).
   Model: Resp/RespModel.v (chunked reader = the code); specification: Resp/RespSpec.v. *)
Require Import V.Base.Prelude V.Resp.RespBase V.Resp.RespModel V.Resp.RespSpec V.Resp.RespRefine.
Require Import V.Resp.RespC07 V.gen.RedisTables.

(* a reader in front of the encoding of any well-formed RESP2 value - whatever the segmentation,
   whatever follows - returns exactly that value (bulk strings by their declared length, any
   bytes; arrays nested to any depth) and is left exactly in front of what followed *)
Theorem C07_values : forall v st r, wf v = true -> abs st = enc v ++ r ->
  exists st', process CH (fuel_of CH st) (fuel_of CH st) st = Ok (value_of v, type_of v, st')
              /\ abs st' = r /\ tl st' = tl st.
Proof. exact C07_values_chunked. Qed.

(* The full statement (no exclusions) is false on the model of the code: legal reply shapes that
   the dissector rejects or cannot represent (known/resp.json).  Each witness, replayed on the
   implementation, is one of the recorded findings. *)
Theorem C07_refuted : ~ C07_statement.                       (* +FOO : unknown keyword (D14) *)
Proof. exact RespC07.C07_refuted. Qed.
Theorem C07_refuted_null : ~ C07_statement.                  (* $-1 reported as empty bulk (R1) *)
Proof. exact RespC07.C07_refuted_null. Qed.
Theorem C07_refuted_array : ~ C07_statement.                 (* reply array treated as a command (D15/D16) *)
Proof. exact RespC07.C07_refuted_array. Qed.

(* C07_partial: every well-formed conversation outside the recorded finding classes (excl), every
   segmentation of both directions, every end-of-stream kind: both halves run to the end of
   their stream, the items are the exchanges in order with type and content as sent, and the
   matcher is left empty *)
Theorem C07_report : forall cv cc cs tc ts, wf_conv cv = true -> excl cv = false ->
  concat cc = enc_cmds cv -> concat cs = enc_replies cv ->
  dissect_pair (mkin cc tc) (mkin cs ts) = (OErr (tail_err tc), OErr (tail_err ts), items_of cv, 0)
  /\ map item_view (items_of cv) = map Some (report cv).
Proof. exact RespC07.C07_report. Qed.

(* the k-th item carries the k-th command and the k-th reply *)
Theorem C07_kth : forall cv k x, excl cv = false -> nth_error cv k = Some x ->
  exists it, nth_error (items_of cv) k = Some it
             /\ item_view it = Some (cmd_view (fst x), reply_view (snd x)).
Proof. exact RespC07.C07_kth. Qed.

(* the hypotheses are satisfiable *)
Theorem C07_hyps_satisfiable : wf_conv example_conv = true /\ excl example_conv = false.
Proof. exact C07_example_hyps. Qed.
