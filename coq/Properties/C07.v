(* C07 — placeholder while the model is being written *)
Require Import V.Base.Prelude.
