(* C01 — AMQP share: a direction cut inside a frame reports every complete frame (statements restated from coq/Amqp/AmqpPrefix.v; each closed by exact) *)
Require Import V.Base.Prelude V.Amqp.AmqpTypes V.Amqp.AmqpModel V.Amqp.AmqpSpec V.Amqp.AmqpLemmas V.Amqp.AmqpProofs.
Require Import V.Amqp.AmqpC01 V.Amqp.AmqpArgs V.Amqp.AmqpMethods V.Amqp.AmqpFrames V.Amqp.AmqpReport.
Local Open Scope N_scope.
Require Import V.Amqp.AmqpPrefix.

Theorem C01_amqp_C01_prefix  :
  forall fs f p q is_client d ms, Forall wf_frame fs -> wf_frame f ->
  enc_frame f = p ++ q -> q <> [] ->
  let st := {| sdata := enc_frames fs ++ p; stail := TEof |} in
  good_outcome (fst (dissect (dissect_fuel st) is_client st d ms)) /\
  snd (dissect (dissect_fuel st) is_client st d ms) = snd (run_frames is_client fs (d, ms)).
Proof. exact (amqp_C01_prefix ). Qed.

