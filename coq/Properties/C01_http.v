(* C01 — HTTP share: base's own code around the libraries never panics (statements restated from coq/Http/HttpC01.v; each closed by exact) *)
Require Import V.Base.Prelude V.Http.HBytes V.Http.HBytesProofs V.Http.H2Asm V.Http.H2Spec V.Http.H2Proofs
  V.Http.HttpLoop V.Http.H1Glue V.Http.H1Proofs.
Local Open Scope N_scope.
Local Opaque max_data.
Require Import V.Http.HttpC01.

Theorem C01_http_C01_append m f :
  wf_fbs m -> exists m', append_frame m f = Ok m' /\ wf_fbs m'.
Proof. exact (http_C01_append m f). Qed.

Theorem C01_http_C01_read_message m f :
  wf_fbs m -> exists m' o, read_message m f = Ok (m', o) /\ wf_fbs m'.
Proof. exact (http_C01_read_message m f). Qed.

Theorem C01_http_C01_assembler σ :
  exists m' os, run_asm [] σ = Ok (m', os).
Proof. exact (http_C01_assembler σ). Qed.

Theorem C01_http_C01_peek9 p :
  pk_ok 9 p -> exists r, check_server_stream p = Ok r.
Proof. exact (http_C01_peek9 p). Qed.

Theorem C01_http_C01_atoi s :
  atoi s = None \/ exists v, atoi s = Some v.
Proof. exact (http_C01_atoi s). Qed.

Theorem C01_http_C01_path_segments path :
  exists segs, path_segments path = Ok segs.
Proof. exact (http_C01_path_segments path). Qed.

Theorem C01_http_C01_loop is_client :
  forall evs md st,
  Forall (ev_ok is_client) evs -> mode_ok md ->
  exists o st', dissect_loop is_client md evs st = Ok (o, st').
Proof. exact (http_C01_loop is_client). Qed.

Theorem C01_http_C01_dissect is_client first evs st :
  pk_ok (peek_len is_client) first -> Forall (ev_ok is_client) evs ->
  exists o st', dissect is_client first evs st = Ok (o, st').
Proof. exact (http_C01_dissect is_client first evs st). Qed.

