(* C03 — HTTP/1.x exchanges are reported exactly as they were on the wire: base's own glue.
   Only statements, each closed by `exact` (DESIGN.md 5.C03).  net/http parsing, the HAR
   conversion and url.Parse are library oracles (exercised by the correspondence check). *)
Require Import V.Base.Prelude V.Http.HBytes V.Http.H2Asm V.Http.H1Glue V.Http.H1Proofs.
From Coq Require Import Permutation.

(* exactly one item per exchange, the k-th request with the k-th response, for every order in
   which the two half-connection readers get to register their messages; the matcher keeps exactly
   the unanswered tail *)
Theorem C03_pairing : forall reqs resps σ, h1merge reqs resps σ ->
  let st := run_h1 σ in
  Permutation (h_items st) (combine reqs resps) /\
  (forall k, mlookup (k, false) (h_m st) = expected_open reqs resps k) /\
  (forall k, mlookup (k, true) (h_m st) = None).
Proof. exact h1_pairing. Qed.

(* the sort of headers / query string / cookies / params only reorders: sorted permutation *)
Theorem C03_sort_perm : forall hs, Permutation (har_sort hs) hs /\ nv_sorted (har_sort hs) = true.
Proof. exact sort_sorted_perm. Qed.

(* sort.Slice is unstable, yet its result is determined: any sorted permutation of the input is the
   list the model's insertion sort computes *)
Theorem C03_sort_unique : forall hs out, Permutation out hs -> nv_sorted out = true -> out = har_sort hs.
Proof. exact go_sort_is_har_sort. Qed.

(* the merged header / cookie maps of the entry: every name maps to all of its values, in order,
   joined with ","; no other name is present *)
Theorem C03_merge_exact : forall hs k,
  alookup k (rebuild_merged hs) =
  match values_of k hs with [] => None | [v] => Some v | vs => Some (join_comma vs) end.
Proof. exact merged_exact. Qed.

(* the query-string map: one value as a string, repeated keys as the list of their values *)
Theorem C03_query_exact : forall hs k,
  alookup k (rebuild_as_map hs) =
  match values_of k hs with [] => None | [v] => Some (JStr v) | vs => Some (JArr vs) end.
Proof. exact map_exact. Qed.

(* pathSegments is a function of the path alone and its slice expression cannot panic *)
Theorem C03_path : forall path, exists segs, path_segments path = Ok segs.
Proof. exact path_segments_total. Qed.

Example C03_example :
  let p k := mkPayload false k [] 0%Z [] [] in
  h_items (run_h1 [HReq (p 1%N); HReq (p 2%N); HResp (p 11%N); HResp (p 12%N)]) = [(p 1%N, p 11%N); (p 2%N, p 12%N)].
Proof. vm_compute. reflexivity. Qed.
