(* C03 — HTTP/1.x exchanges are reported exactly as they were on the wire (placeholder until H1Proofs). *)
Require Import V.Base.Prelude V.Http.HBytes V.Http.H2Asm V.Http.HttpLoop V.Http.H1Glue V.Http.HttpK.
