(* C06 — Kafka requests and responses are decoded exactly and stay in frame.
   Only statements, each closed by `exact`, with Print Assumptions (DESIGN.md 5.C06).
   impl_* are regenerated from the compiled dissector on every run, spec_* from the segmentio
   struct tags; known_divergences is the recorded list of layout findings (D26). *)
Require Import V.Base.Prelude V.Kafka.KafkaTy V.Kafka.KafkaModel V.Kafka.KafkaSpecEnc V.Kafka.KafkaCompat V.Kafka.KafkaKnown.
Require Import V.Kafka.KafkaFrame V.Kafka.KafkaRoundtrip V.Kafka.KafkaFraming V.Kafka.KafkaExchange V.Kafka.KafkaC01 V.Kafka.KafkaLayouts.
Require Import V.gen.KafkaSchemas V.gen.KafkaSpecSchemas.
Require Import Coq.Strings.String.
Local Open Scope Z_scope.

(* generic decoder: for every layout made of the modelled encodings whose array elements take at
   least a byte, and every well-formed value, decoding the wire encoding returns the value (null
   read as empty) and consumes exactly its bytes *)
Theorem kafka_roundtrip : forall t, plain t = true -> arrays_ok t = true -> forall v, wf t v ->
  forall d r, derr d = None -> inp d = encode t v ++ r -> blen (encode t v) <= remain d ->
  exists d', decode t d = Ok (norm t v, d') /\ consumed d d' (encode t v) r.
Proof. exact KafkaRoundtrip.kafka_roundtrip. Qed.

(* framing: a request (response) whose declared size is accepted and whose bytes are present is
   consumed to exactly 4 + size bytes whatever its layout decodes, for any table *)
Theorem C06_framing_request : forall T size body rest t st al m d' m',
  8 <= size <= 1000000 -> blen body = size ->
  read_request T (start (enc_int 4 size ++ body ++ rest) t st al) m = Ok (d', m') ->
  inp d' = rest /\ tl d' = t /\ remain d' = 0.
Proof. exact request_framing. Qed.

Theorem C06_framing_response : forall T size body rest t st al m d' m' its,
  4 <= size <= 1000000 -> blen body = size ->
  read_response T (start (enc_int 4 size ++ body ++ rest) t st al) m = Ok (d', m', its) ->
  inp d' = rest /\ tl d' = t /\ remain d' = 0.
Proof. exact response_framing. Qed.

(* header and body: a request encoded as the wire format prescribes is registered with exactly
   the encoded size, api key, version, correlation id, client id and body values ... *)
Theorem C06_request_reported : forall T api ver corr client tq vq rest t st al m,
  tables_plain T ->
  0 <= api < num_apis T -> in_range 16 api -> in_range 16 ver -> in_range 32 corr -> zlen client <= 32767 ->
  layout (req_tbl T) api ver = Some tq -> arrays_ok tq = true -> wf tq vq ->
  let body := request_body api ver corr client (encode tq vq) in
  zlen body <= 1000000 ->
  exists d',
    read_request T (start (request_frame api ver corr client (encode tq vq) ++ rest) t st al) m
    = Ok (d', register_request corr {| q_size := zlen body; q_api := api; q_ver := ver; q_corr := corr;
                                       q_client := client; q_payload := Some (norm tq vq) |} m)
    /\ inp d' = rest /\ tl d' = t.
Proof. exact request_reported. Qed.

(* ... and its response is emitted, paired with that request, with exactly the encoded values *)
Theorem C06_response_reported : forall T corr rq ts vs rest t st al m,
  tables_plain T -> in_range 32 corr ->
  m_find corr m = Some rq ->
  layout (resp_tbl T) (q_api rq) (q_ver rq) = Some ts -> arrays_ok ts = true -> wf ts vs ->
  let body := response_body corr (encode ts vs) in
  zlen body <= 1000000 ->
  exists d',
    read_response T (start (response_frame corr (encode ts vs) ++ rest) t st al) m
    = Ok (d', m_remove corr m,
          [{| i_req := rq; i_rsize := zlen body; i_rcorr := corr; i_resp := norm ts vs;
              i_name := name_of (api_names T) (q_api rq) |}])
    /\ inp d' = rest /\ tl d' = t.
Proof. exact response_reported. Qed.

(* the tables of the working tree: every layout is decodable (no panic site reachable), sizes
   arrays soundly, reports the protocol's api names, accepts every key below num_apis and skips
   a key without a layout in frame *)
Theorem C06_tables : tables_plain impl_tables
  /\ forallb arrays_ok (table_types impl_req_tbl) = true /\ forallb arrays_ok (table_types impl_resp_tbl) = true
  /\ (forall k n, In (k, n) spec_api_names -> name_of impl_api_names k = n)
  /\ impl_num_apis = 50 /\ impl_keys_contiguous = true /\ impl_unimplemented_skipped = true.
Proof. exact (conj impl_tables_plain (conj (proj1 impl_arrays_ok) (conj (proj2 impl_arrays_ok) (conj impl_names_spec impl_keys)))). Qed.

(* layouts: for every (api, version, direction) of the independent description the selected
   layout has the same wire shape, or parts from it only at recorded fields *)
Theorem C06_layouts : forall api ver resp spec,
  In (api, ver, resp, spec) spec_grid ->
  exists impl, impl_layout api ver resp = Some impl /\
    (compat spec impl = true \/ (forall p, In p (divs spec impl) -> is_known api ver resp p = true)).
Proof. exact layouts_compat_or_known. Qed.

(* compat_sound: layouts that differ from the wire format's type only in field names and
   single-field struct wrappers decode its encodings to the same values *)
Theorem compat_sound : forall s i, KafkaCompatProofs.sim s i -> plain i = true -> arrays_ok i = true ->
  forall v, wf s v ->
  exists v', wf i v' /\ KafkaCompatProofs.uv i v' = KafkaCompatProofs.uv s v /\ encode i v' = encode s v /\
    forall d r, derr d = None -> inp d = encode s v ++ r -> blen (encode s v) <= remain d ->
    exists d', decode i d = Ok (norm i v', d') /\ consumed d d' (encode s v) r.
Proof. exact KafkaCompatProofs.compat_sound. Qed.

(* ... which is the case for every compatible entry of the regenerated grid: there the dissector
   reports exactly the encoded values, for all values *)
Theorem C06_compatible_exact : forall api ver resp spec impl,
  In (api, ver, resp, spec) spec_grid -> impl_layout api ver resp = Some impl -> compat spec impl = true ->
  forall v, wf spec v ->
  exists v', wf impl v' /\ KafkaCompatProofs.uv impl v' = KafkaCompatProofs.uv spec v /\ encode impl v' = encode spec v /\
    forall d r, derr d = None -> inp d = encode spec v ++ r -> blen (encode spec v) <= remain d ->
    exists d', decode impl d = Ok (norm impl v', d') /\ consumed d d' (encode spec v) r.
Proof. exact grid_exact. Qed.
