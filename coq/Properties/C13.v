(* C13 — No query text and no record content can crash KFL (the evaluator part; DESIGN.md 5.C13).
   The model has an explicit Panic outcome at every index expression and unchecked type assertion of
   eval.go; shape_expr is what the participle grammar guarantees (an operator from the table wherever
   there is a right operand; a parameter has an expression unless Precompute replaced it) and is
   checked on every tree the real parser produces. *)
Require Import V.Base.Prelude V.Kfl.Num V.Kfl.Json V.Kfl.KflAst V.Kfl.JPath V.Kfl.KflOps V.Kfl.KflEval V.Kfl.KflWf
  V.Kfl.KflTotal V.Kfl.KflOld V.Kfl.KflExamples.

(* for every tree, record and behaviour of the libraries: no panic *)
Theorem C13_no_panic :
  forall parse_float re_match parse_time b64dec parse_json xml_first redact_apply e r,
    shape_expr e = true ->
    forall site, eval_model parse_float re_match parse_time b64dec parse_json xml_first redact_apply e r <> Panic site.
Proof. exact eval_model_no_panic. Qed.

(* evaluation terminates with a truth value and a record (the model has no fuel: termination is the
   structural recursion on the tree) *)
Theorem C13_returns :
  forall parse_float re_match parse_time b64dec parse_json xml_first redact_apply e r,
    shape_expr e = true ->
    exists b r', eval_model parse_float re_match parse_time b64dec parse_json xml_first redact_apply e r = Ok (b, r').
Proof. exact eval_model_returns. Qed.

(* every helper of the table, on every argument list (any arity, any dynamic types) *)
Theorem C13_helpers_total :
  forall parse_time b64dec parse_json xml_first redact_apply name hf,
    lookup_helper parse_time b64dec parse_json xml_first redact_apply name = Some hf ->
    forall args st, exists y, hf args st = Ok y.
Proof. exact lookup_total. Qed.

(* the helpers of the pinned tree panicked on `a.json("x")` and `now(1)` *)
Theorem C13_old_helpers_refuted :
  (forall st v, h_json_old [VJ st; v; VJ (JStr (bs [120]%N))] st = Panic 371) /\
  (forall st v, h_time_old [VJ st; v; VJ (JFlt fone)] st = Panic 547).
Proof. exact (conj old_json_helper_panics old_time_helper_panics). Qed.

(* the shape hypothesis is satisfiable (a tree dumped from the real parser) *)
Theorem C13_shape_instance : shape_expr ex_query = true.
Proof. exact (proj1 ex_shape). Qed.

(* Precompute (precompute.go, modelled on the tree Parse returns; jp.ParseString, regexp.Compile and
   time.Now as oracles): no panic for every parsed tree.  surf_expr is what Parse guarantees beyond
   shape_expr (every call has its identifier, parameters carry their expression), checked on every tree
   dumped after kfl.Parse. *)
Require Import V.Kfl.KflPre V.Kfl.KflPreProofs.
Theorem C13_precompute_no_panic :
  forall parse_float re_match parse_time b64dec parse_json xml_first redact_apply parse_path re_compiles now_ns uint64_of e,
    shape_expr e = true -> surf_expr e = true ->
    forall site,
      precompute_model parse_float re_match parse_time b64dec parse_json xml_first redact_apply parse_path re_compiles now_ns uint64_of e
      <> Panic site.
Proof. exact precompute_no_panic. Qed.

(* Parse -> Precompute -> Eval: whatever Precompute returns without panicking is evaluated without panic *)
Theorem C13_prepared_query_evaluates :
  forall parse_float re_match parse_time b64dec parse_json xml_first redact_apply parse_path re_compiles now_ns uint64_of e e' p err r,
    shape_expr e = true ->
    precompute_model parse_float re_match parse_time b64dec parse_json xml_first redact_apply parse_path re_compiles now_ns uint64_of e = Ok (e', p, err) ->
    exists b r', eval_model parse_float re_match parse_time b64dec parse_json xml_first redact_apply e' r = Ok (b, r') /\
                 (no_redact_expr e' = true -> r' = r).
Proof. exact prepared_query_evaluates. Qed.
