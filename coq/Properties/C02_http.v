(* C02 — HTTP share: the loop stops on a failing reader / end of stream; buffers bounded by the caps (statements restated from coq/Http/HttpC02.v; each closed by exact) *)
Require Import V.Base.Prelude V.Http.HBytes V.Http.HBytesProofs V.Http.H2Asm V.Http.H2Spec V.Http.H2Proofs
  V.Http.HttpLoop V.Http.HttpC01.
Local Open Scope N_scope.
Local Opaque max_data.
Require Import V.Http.HttpC02.

Theorem C02_http_C02_failing_reader_stops is_client md e rest st :
  dissect_loop is_client md (EvErr e false :: rest) st = Ok (Stopped, st).
Proof. exact (http_C02_failing_reader_stops is_client md e rest st). Qed.

Theorem C02_http_C02_eof_stops is_client md more rest st :
  dissect_loop is_client md (EvErr EEOF more :: rest) st = Ok (Stopped, st) /\
  dissect_loop is_client md (EvErr EUnexpectedEOF more :: rest) st = Ok (Stopped, st).
Proof. exact (http_C02_eof_stops is_client md more rest st). Qed.

Theorem C02_http_C02_own_error_stops is_client a f rest st a' :
  read_message a f = Ok (a', RErr) ->
  dissect_loop is_client (MH2 a) (EvFrame f false :: rest) st = Ok (Stopped, st).
Proof. exact (http_C02_own_error_stops is_client a f rest st a'). Qed.

Theorem C02_http_C02_stop_is_final is_client :
  forall evs md st st' extra,
  dissect_loop is_client md evs st = Ok (Stopped, st') ->
  dissect_loop is_client md (evs ++ extra) st = Ok (Stopped, st').
Proof. exact (http_C02_stop_is_final is_client). Qed.

Theorem C02_http_C02_buffers σ :
  exists m' os, run_asm [] σ = Ok (m', os) /\
  forall s fr, flookup s m' = Some fr -> (length (fr_data fr) <= N.to_nat max_data)%nat.
Proof. exact (http_C02_buffers σ). Qed.

Theorem C02_http_C02_stored_is_prefix fs :
  forall fr D,
  fr_data fr = firstn (N.to_nat max_data) D ->
  fr_data (fold_left frag_app fs fr) = firstn (N.to_nat max_data) (D ++ data_of fs).
Proof. exact (http_C02_stored_is_prefix fs). Qed.

