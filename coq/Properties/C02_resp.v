(* C02 — Redis share: termination within linear fuel, progress, value sizes bounded by the bytes present (statements restated from coq/Resp/RespC02.v; each closed by exact) *)
Require Import V.Base.Prelude V.Resp.RespBase V.Resp.RespModel V.Resp.RespRefine.
Require Import V.Resp.RespC08 V.Resp.RespC01.
Local Open Scope nat_scope.
Require Import V.Resp.RespC02.

Theorem C02_resp_C02_terminates_flat  :
  forall l t fuel, length l + 2 <= fuel ->
  exists ps e, dissect_fuel FL fuel (l, t) = (ps, OErr e).
Proof. exact (resp_C02_terminates_flat ). Qed.

Theorem C02_resp_C02_terminates  :
  forall i fuel, length (concat (chunks i)) + 2 <= fuel ->
  exists ps e, dissect_fuel CH fuel (start i) = (ps, OErr e).
Proof. exact (resp_C02_terminates ). Qed.

Theorem C02_resp_C02_progress  :
  forall i ps o, dissect_half i = (ps, o) -> length ps <= length (concat (chunks i)).
Proof. exact (resp_C02_progress ). Qed.

Theorem C02_resp_C02_value_size_flat f lf :
  forall s v t s',
  process FL f lf s = Ok (v, t, s') -> rsize v + 1 + sz s' <= sz s.
Proof. exact (resp_C02_value_size_flat f lf). Qed.

Theorem C02_resp_C02_value_size  :
  forall st v t st',
  process CH (fuel_of CH st) (fuel_of CH st) st = Ok (v, t, st') ->
  rsize v + 1 + length (abs st') <= length (abs st).
Proof. exact (resp_C02_value_size ). Qed.

