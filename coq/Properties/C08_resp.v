(* C08 — Redis share: the chunked reader refines the flat one (statements restated from coq/Resp/RespC08.v; each closed by exact) *)
Require Import V.Base.Prelude V.Resp.RespBase V.Resp.RespModel V.Resp.RespRefine.
Require Import V.Resp.RespC08.

Theorem C08_resp_C08_flat  :
  forall i, dissect_half i = dissect FL (concat (chunks i), tail i).
Proof. exact (resp_C08_flat ). Qed.

Theorem C08_resp_C08_half  :
  forall cs1 cs2 t, concat cs1 = concat cs2 ->
  dissect_half (mkin cs1 t) = dissect_half (mkin cs2 t).
Proof. exact (resp_C08_half ). Qed.

Theorem C08_resp_C08_pair  :
  forall c1 c2 s1 s2 tc ts, concat c1 = concat c2 -> concat s1 = concat s2 ->
  dissect_pair (mkin c1 tc) (mkin s1 ts) = dissect_pair (mkin c2 tc) (mkin s2 ts).
Proof. exact (resp_C08_pair ). Qed.

