(* C02 — Dissection cost is bounded by the bytes actually seen.
   Per-dissector statements: Properties/C02_resp.v, C02_amqp.v, C02_kafka.v, C02_http.v. *)
Require V.Properties.C02_resp V.Properties.C02_amqp V.Properties.C02_kafka V.Properties.C02_http.
