(* C01 — Redis share: no panic, no out-of-fuel, complete prefix still emitted (statements restated from coq/Resp/RespC01.v; each closed by exact) *)
Require Import V.Base.Prelude V.Resp.RespBase V.Resp.RespModel V.Resp.RespSpec V.Resp.RespRefine.
Require Import V.Resp.RespFlat V.Resp.RespC08 V.Resp.RespC07 V.gen.RedisTables.
Local Open Scope nat_scope.
Require Import V.Resp.RespC01.

Theorem C01_resp_C01_flat  :
  forall l t, exists ps e, dissect FL (l, t) = (ps, OErr e).
Proof. exact (resp_C01_flat ). Qed.

Theorem C01_resp_C01_no_panic  :
  forall i, exists ps e, dissect_half i = (ps, OErr e).
Proof. exact (resp_C01_no_panic ). Qed.

Theorem C01_resp_C01_pair  :
  forall ci si, exists ec es items residue,
  dissect_pair ci si = (OErr ec, OErr es, items, residue).
Proof. exact (resp_C01_pair ). Qed.

Theorem C01_resp_C01_prefix_flat  :
  forall vs ps junk t,
  Forall2 (fun v p => wf v = true /\ shape (value_of v) (type_of v) = Ok p) vs ps ->
  exists more e, dissect FL (concat (map enc vs) ++ junk, t) = (ps ++ more, OErr e).
Proof. exact (resp_C01_prefix_flat ). Qed.

Theorem C01_resp_C01_prefix  :
  forall vs ps junk cs t,
  Forall2 (fun v p => wf v = true /\ shape (value_of v) (type_of v) = Ok p) vs ps ->
  concat cs = concat (map enc vs) ++ junk ->
  exists more e, dissect_half (mkin cs t) = (ps ++ more, OErr e).
Proof. exact (resp_C01_prefix ). Qed.

Theorem C01_resp_C01_items  :
  forall cv m junk cc cs tc ts, wf_conv cv = true -> excl cv = false ->
  concat cc = enc_cmds cv -> concat cs = enc_replies (firstn m cv) ++ junk ->
  exists more ec es residue,
    dissect_pair (mkin cc tc) (mkin cs ts) = (OErr ec, OErr es, items_of (firstn m cv) ++ more, residue).
Proof. exact (resp_C01_items ). Qed.

