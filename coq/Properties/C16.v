(* C16 — Click-to-filter queries and protocol macros are true of their own entries. *)
From Coq Require Import List Bool String.
Require Import V.Shape.MacroFrag V.Shape.MacroTie V.gen.MacroTable.

(* macro clause, over the tables regenerated from the source: a protocol's macro is true on
   exactly the entries of that protocol variant and false on the entries of every other *)
Theorem C16_macros : forall m v, In m macros_src -> In v variants_src ->
  feval v (snd m) = Some (String.eqb (pv_macro v) (fst m)).
Proof. exact macro_truth. Qed.

Theorem C16_macro_table : macro_table_ok variants_src macros_src = true.
Proof. exact macro_table_holds. Qed.
