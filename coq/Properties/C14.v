(* C14 — Filtering never alters a record (DESIGN.md 5.C14). *)
Require Import V.Base.Prelude V.Kfl.Num V.Kfl.Json V.Kfl.KflAst V.Kfl.JPath V.Kfl.KflOps V.Kfl.KflEval V.Kfl.KflWf
  V.Kfl.KflFrame V.Kfl.KflExamples.

(* a prepared query that never dispatches to redact returns the record it was given, on every
   evaluation path (match, no match, collapse, short circuit, helper failure), for every behaviour of
   the libraries.  prepared_expr is what Precompute guarantees (checked on every dumped tree): a call
   primary without a compiled path has a select expression. *)
Theorem C14_record_unchanged :
  forall parse_float re_match parse_time b64dec parse_json xml_first redact_apply e r b r',
    no_redact_expr e = true -> prepared_expr e = true ->
    eval_model parse_float re_match parse_time b64dec parse_json xml_first redact_apply e r = Ok (b, r') ->
    r' = r.
Proof. exact eval_model_record_unchanged. Qed.

(* without the Precompute invariant (a tree that was only parsed): the record, or the nil interface *)
Theorem C14_record_unchanged_or_nil :
  forall parse_float re_match parse_time b64dec parse_json xml_first redact_apply e r b r',
    no_redact_expr e = true ->
    eval_model parse_float re_match parse_time b64dec parse_json xml_first redact_apply e r = Ok (b, r') ->
    r' = r \/ r' = JNull.
Proof. exact eval_model_record_unchanged_or_nil. Qed.

(* the hypotheses are satisfiable *)
Theorem C14_instance : no_redact_expr ex_query = true /\ prepared_expr ex_query = true.
Proof. exact (proj2 ex_shape). Qed.

(* the Precompute invariant used above is a theorem about the Precompute model: every tree it returns
   satisfies prepared_expr (and keeps shape_expr) *)
Require Import V.Kfl.KflPre V.Kfl.KflPreProofs.
Theorem C14_precompute_establishes_prepared :
  forall parse_float re_match parse_time b64dec parse_json xml_first redact_apply parse_path re_compiles now_ns uint64_of e e' p err,
    precompute_model parse_float re_match parse_time b64dec parse_json xml_first redact_apply parse_path re_compiles now_ns uint64_of e = Ok (e', p, err) ->
    prepared_expr e' = true /\ (shape_expr e = true -> shape_expr e' = true).
Proof. exact precompute_establishes_invariants. Qed.
