(* C17 — Macro expansion is a deterministic, literal-preserving rewrite.
   Only statements, each closed by `exact` (DESIGN.md 5.C17).  expand_macros o q is the model of
   kfl.ExpandMacros when the Go map `macros` is iterated in order o; T is the table generated
   from Dissector.Macros() of every registered extension on every run (gen/Macros.v). *)
Require Import V.Base.Prelude V.KflText.Macro V.KflText.MacroProofs V.KflText.MacroTable V.gen.Macros.
From Coq Require Import Permutation.

(* the side conditions of the theorems hold of the table that the source defines now *)
Theorem C17_table_ok : table_ok T = true.
Proof. exact T_ok. Qed.

(* the result does not depend on the iteration order of the macro table (nor on how the sort
   breaks ties): any two orders give the same text *)
Theorem C17_order_indep : forall q o1 o2, Permutation o1 T -> Permutation o2 T ->
  expand_macros o1 q = expand_macros o2 q.
Proof. exact order_indep. Qed.

(* expanding an already expanded query changes nothing *)
Theorem C17_idem : forall q o, Permutation o T -> expand_macros o (expand_macros o q) = expand_macros o q.
Proof. exact idem. Qed.

(* a text made of parts without quotes and backslashes alternating with double-quoted literals
   (any content that stays inside the literal, escaped quotes included): every literal is copied
   byte for byte and every outside part is rewritten on its own *)
Theorem C17_literals : forall o, Permutation o T -> forall segs last,
  Forall (fun sl => plain (fst sl) = true /\ stays_in Str (snd sl) = true) segs -> plain last = true ->
  expand_macros o (assemble (fun x => x) segs last) = assemble (expand_macros o) segs last.
Proof. exact literals. Qed.

(* a maximal run of identifier characters and dots is replaced iff it is exactly a macro name and
   the rest of the text is outside a literal; then by the parenthesised definition.  A longer
   identifier or a dotted path that merely contains a macro name is copied byte for byte *)
Theorem C17_standalone : forall o, Permutation o T -> forall w r,
  w <> [] -> Forall (fun b => is_blocker b = true) w -> next_free r = true ->
  expand_macros o (w ++ r) =
  (if suffix_ok r then match find_macro w T with Some d => d | None => w end else w) ++ expand_macros o r.
Proof. exact standalone. Qed.

(* every other byte is copied *)
Theorem C17_other_bytes : forall o, Permutation o T -> forall b r, is_blocker b = false ->
  expand_macros o (b :: r) = b :: expand_macros o r.
Proof. exact other_bytes. Qed.

(* non-vacuity: a query with a macro, a literal containing its name and a longer identifier *)
Theorem C17_example : expand_macros T sample = sample_expanded /\ expand_macros (rev T) sample = sample_expanded.
Proof. exact sample_ok. Qed.

(* the side conditions are needed: a definition mentioning another macro breaks idempotence *)
Theorem C17_side_condition_needed :
  table_ok bad_table = false /\
  expand_macros bad_table (expand_macros bad_table (bs [119;101;98]%N)) <> expand_macros bad_table (bs [119;101;98]%N).
Proof. exact side_condition_needed. Qed.

(* refuted part of the full statement: raw-string / char literals are not protected
   (finding C17-raw-char-literal; the witness replayed on the implementation is x == `http`) *)
Theorem C17_rawstring_refuted : expand_macros T raw_witness <> raw_witness.
Proof. exact rawstring_refuted. Qed.
