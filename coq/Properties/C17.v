(* C17 — Macro expansion is a deterministic, literal-preserving rewrite (stub, filled below). *)
Require Import V.Base.Prelude V.KflText.Macro V.gen.Macros.

Example C17_table_ok : table_ok (table_of raw_macros) = true.
Proof. vm_compute. reflexivity. Qed.
