(* C05 — AMQP 0-9-1 methods and content are reported exactly.  Statements only, each closed by
   `exact` (DESIGN.md 5.C05); the family files under Amqp/ hold the proofs. *)
Require Import V.Base.Prelude V.Amqp.AmqpTypes V.Amqp.AmqpModel V.Amqp.AmqpSpec.
Require Import V.Amqp.AmqpProofs V.Amqp.AmqpC01 V.Amqp.AmqpFrames V.Amqp.AmqpSigsTie.
Local Open Scope N_scope.

(* every field value the specification's encoder can write (all 14 types, nested to any depth)
   is read back exactly, and the reader stops exactly where the value ends *)
Theorem amqp_field_roundtrip : forall v r fuel, wf_fv v -> (fneed v <= fuel)%nat ->
  read_field fuel (enc_field v ++ r) = POk v r.
Proof. exact AmqpProofs.amqp_field_roundtrip. Qed.

Theorem amqp_table_roundtrip : forall t r fuel, wf_table t -> (tneed t <= fuel)%nat ->
  read_table fuel (enc_table t ++ r) = POk t r.
Proof. exact AmqpProofs.amqp_table_roundtrip. Qed.

(* resynchronisation: a frame of a known type - supported method, unsupported method, header,
   body, heartbeat, with a payload that parses or not, with a good or a bad end octet - takes
   exactly size + 8 octets off the connection and yields a frame or a protocol error that
   Dissect skips; nothing else *)
Theorem C05_frame_exact : forall t c1 c2 s1 s2 s3 s4 p e r tl,
  (b2n t = 1 \/ b2n t = 2 \/ b2n t = 3 \/ b2n t = 8) ->
  be [s1; s2; s3; s4] <= max_frame -> Blen p = be [s1; s2; s3; s4] ->
  let st := {| sdata := [t; c1; c2; s1; s2; s3; s4] ++ p ++ e :: r; stail := tl |} in
  snd (read_frame st) = {| sdata := r; stail := tl |} /\ frame_or_protocol_error (fst (read_frame st)).
Proof. exact frame_exact. Qed.

Theorem C05_frame_exact_enc : forall typ ch p r tl,
  (typ = 1 \/ typ = 2 \/ typ = 3 \/ typ = 8) -> ch < 2 ^ 16 -> Blen p <= max_frame ->
  let st := {| sdata := enc_frame_raw typ ch p ++ r; stail := tl |} in
  snd (read_frame st) = {| sdata := r; stail := tl |} /\ frame_or_protocol_error (fst (read_frame st)).
Proof. exact AmqpFrames.C05_frame_exact_enc. Qed.

Theorem C05_protocol_header : forall r tl,
  read_frame {| sdata := proto_header ++ r; stail := tl |} = (Ok FrProto, {| sdata := r; stail := tl |}).
Proof. exact proto_header_exact. Qed.

(* the signature table the theorems and the model use is the one spec091.go has now *)
Theorem C05_sigs_current : forallb entry_agrees V.gen.AmqpSigs.gen_sigs = true.
Proof. exact sigs_agree. Qed.
