(* C05 — AMQP 0-9-1 methods and content are reported exactly.  Statements only (DESIGN.md 5.C05). *)
Require Import V.Base.Prelude V.Amqp.AmqpTypes V.Amqp.AmqpModel.

(* placeholder until the family proofs are in: the model's readers never ask for more fuel than provided on the empty payload *)
Theorem C05_model_runs : read_table_entries 1 [] = POk [] [].
Proof. exact eq_refl. Qed.
