(* C05 — AMQP 0-9-1 methods and content are reported exactly.  Statements only, each closed by
   `exact` (DESIGN.md 5.C05); the family files under Amqp/ hold the proofs.  The model
   (AmqpModel.v) is tied to pkg/extensions/amqp by the correspondence check of tools/props/C05.py
   and, for the signature table, by the translator output gen/AmqpSigs.v. *)
Require Import V.Base.Prelude V.Amqp.AmqpTypes V.Amqp.AmqpModel V.Amqp.AmqpSpec.
Require Import V.Amqp.AmqpProofs V.Amqp.AmqpC01 V.Amqp.AmqpFrames V.Amqp.AmqpArgs V.Amqp.AmqpMethods V.Amqp.AmqpReport V.Amqp.AmqpStepReport V.Amqp.AmqpOrder V.Amqp.AmqpSigsTie.
From Coq Require Import Permutation.
Local Open Scope N_scope.

(* every field value the specification's encoder can write (all 14 types, nested to any depth)
   is read back exactly, and the reader stops exactly where the value ends *)
Theorem amqp_field_roundtrip : forall v r fuel, wf_fv v -> (fneed v <= fuel)%nat ->
  read_field fuel (enc_field v ++ r) = POk v r.
Proof. exact AmqpProofs.amqp_field_roundtrip. Qed.

Theorem amqp_table_roundtrip : forall t r fuel, wf_table t -> (tneed t <= fuel)%nat ->
  read_table fuel (enc_table t ++ r) = POk t r.
Proof. exact AmqpProofs.amqp_table_roundtrip. Qed.

(* every class/method of the signature table (supported by Dissect or not), every argument list
   of the right kinds - all bit combinations, strings of 0..255 bytes, any table: decoded to
   exactly the values encoded *)
Theorem amqp_method_roundtrip : forall cls meth sig args r fuel,
  method_sig cls meth = Some sig -> kinds_match (map fst sig) args -> Forall wf_arg args ->
  Forall (arg_fuel_ok fuel) args ->
  read_args fuel (map fst sig) None (enc_args args [] ++ r) = POk args r.
Proof. exact AmqpMethods.amqp_method_roundtrip. Qed.

(* resynchronisation: a frame of a known type - supported method, unsupported method, header,
   body, heartbeat, with a payload that parses or not, with a good or a bad end octet - takes
   exactly size + 8 octets off the connection and yields a frame or a protocol error that
   Dissect skips; nothing else *)
Theorem C05_frame_exact : forall t c1 c2 s1 s2 s3 s4 p e r tl,
  (b2n t = 1 \/ b2n t = 2 \/ b2n t = 3 \/ b2n t = 8) ->
  be [s1; s2; s3; s4] <= max_frame -> Blen p = be [s1; s2; s3; s4] ->
  let st := {| sdata := [t; c1; c2; s1; s2; s3; s4] ++ p ++ e :: r; stail := tl |} in
  snd (read_frame st) = {| sdata := r; stail := tl |} /\ frame_or_protocol_error (fst (read_frame st)).
Proof. exact frame_exact. Qed.

Theorem C05_frame_exact_enc : forall typ ch p r tl,
  (typ = 1 \/ typ = 2 \/ typ = 3 \/ typ = 8) -> ch < 2 ^ 16 -> Blen p <= max_frame ->
  let st := {| sdata := enc_frame_raw typ ch p ++ r; stail := tl |} in
  snd (read_frame st) = {| sdata := r; stail := tl |} /\ frame_or_protocol_error (fst (read_frame st)).
Proof. exact AmqpFrames.C05_frame_exact_enc. Qed.

(* a well-formed frame (protocol header, heartbeat, any method of the table, content header
   with any subset of the 14 property flags and a body size within the cap, body) is read back
   as exactly the abstract frame, leaving exactly the rest of the stream *)
Theorem C05_frame_roundtrip : forall f r tl, wf_frame f ->
  read_frame {| sdata := enc_frame f ++ r; stail := tl |} = (Ok f, {| sdata := r; stail := tl |}).
Proof. exact read_frame_roundtrip. Qed.

(* C05_report: for every pair of sequences of well-formed frames in normal form - `AmqpSpec.normal`,
   a syntactic condition under which no recorded finding class is triggered (the `excl` of
   DESIGN.md 5.C05): client-initiated requests with distinct pairing keys, no handshake methods,
   every content method followed on its direction, heartbeats apart, by its header and exactly
   one body frame of 1..512 bytes; any number of channels, unsupported methods, heartbeats and
   the protocol header in between - both Dissect calls end cleanly and the emitted items are exactly
   `AmqpSpec.spec_report`, the report written from the property: one item per publish / deliver
   with its arguments, properties and body and an empty response, one item per reply paired with
   the request of its channel.  The property is about the conversation, not about the order in
   which the tap reads its two halves (in production they run concurrently).  C05_report is the
   client half first (the order in which the suite drives them): the items come out in the order
   of spec_report.  C05_report_server_first below is the server half first: the same items come
   out in another order.  C05_report_any_order: either way, the same items.
   Outside normal form the recorded findings apply (known/amqp.json); there C05_frames below
   still says that every frame is decoded exactly and handled in order. *)
Theorem C05_report : forall cfs sfs, Forall wf_frame cfs -> Forall wf_frame sfs -> normal cfs sfs = true ->
  let '(oc, os, ms) := dissect_both true {| sdata := enc_frames cfs; stail := TEof |} {| sdata := enc_frames sfs; stail := TEof |} in
  oc = OEof /\ os = OEof /\ map item_view (items ms) = spec_report cfs sfs.
Proof. exact C05_statement_holds. Qed.

(* for ALL sequences of well-formed frames, normal form or not, and every end-of-stream kind:
   the two Dissect calls decode every frame exactly and apply `step` (main.go's handling of one
   decoded frame, with the matcher) to the abstract frames in order - nothing is misdecoded,
   skipped or decoded twice *)
Theorem C05_frames : forall cfs sfs ct st_, Forall wf_frame cfs -> Forall wf_frame sfs ->
  dissect_both true {| sdata := enc_frames cfs; stail := ct |} {| sdata := enc_frames sfs; stail := st_ |} =
  (end_outcome ct, end_outcome st_,
   snd (run_frames false sfs (init_dstate, snd (run_frames true cfs (init_dstate, init_mstate))))).
Proof. exact report_frames. Qed.

(* The SERVER half dissected first, the client half second.  Both end cleanly; the items are, as
   a multiset, exactly those of `spec_report`; and their order is `spec_report_server_first`
   (AmqpSpec.v, written from the property): first the deliveries, in the order of the server
   direction - they are emitted while the server half is read; every reply waits in the matcher,
   nothing is emitted for it yet - then, in the order of the client direction, every request that
   has a reply (emitted when the client half reaches the request; the request is the client's
   method and the response the server's, as in the other order) and every publish. *)
Theorem C05_report_server_first : forall cfs sfs, Forall wf_frame cfs -> Forall wf_frame sfs -> normal cfs sfs = true ->
  let '(oc, os, ms) := dissect_both false {| sdata := enc_frames cfs; stail := TEof |} {| sdata := enc_frames sfs; stail := TEof |} in
  oc = OEof /\ os = OEof /\ Permutation (map item_view (items ms)) (spec_report cfs sfs)
  /\ map item_view (items ms) = spec_report_server_first cfs sfs.
Proof. exact C05_server_first_holds. Qed.

(* whichever half is dissected first: clean ends and the items of `spec_report`, as a multiset *)
Theorem C05_report_any_order : forall b cfs sfs, Forall wf_frame cfs -> Forall wf_frame sfs -> normal cfs sfs = true ->
  let '(oc, os, ms) := dissect_both b {| sdata := enc_frames cfs; stail := TEof |} {| sdata := enc_frames sfs; stail := TEof |} in
  oc = OEof /\ os = OEof /\ Permutation (map item_view (items ms)) (spec_report cfs sfs).
Proof. exact C05_any_order_holds. Qed.

(* about the two specifications alone: in normal form they list the same items *)
Theorem C05_reports_same_items : forall cfs sfs, normal cfs sfs = true ->
  Permutation (spec_report_server_first cfs sfs) (spec_report cfs sfs).
Proof. exact spec_report_orders. Qed.

(* the ConnectionInfo of an item is never swapped, for any two streams (well-formed or not) in
   either order: the half whose reader completes a pair (the server's when the client half is
   read first, the client's when the server half is read first) does not show in the item *)
Theorem C05_never_swapped : forall b c s, Forall (fun it => it_swapped it = false) (items (snd (dissect_both b c s))).
Proof. exact both_unswapped. Qed.

(* `C05_frames` for either order *)
Theorem C05_frames_any_order : forall b cfs sfs ct st_, Forall wf_frame cfs -> Forall wf_frame sfs ->
  dissect_both b {| sdata := enc_frames cfs; stail := ct |} {| sdata := enc_frames sfs; stail := st_ |} =
  (end_outcome ct, end_outcome st_, run_both b cfs sfs).
Proof. exact report_frames_any. Qed.

(* normal form is inhabited by conversations with every kind of item *)
Example C05_normal_example :
  let props := [Some (AShortStr [x74]); None; None; None; None; None; None; None; None; None; None; None; None; None] in
  let cfs := [FrProto; FrMethod 1 50 10 [AShort 0; AShortStr [x71]; ABit false; ABit true; ABit false; ABit false; ABit false; ATable []];
              FrMethod 2 60 40 [AShort 0; AShortStr [x65]; AShortStr []; ABit true; ABit false]; FrHeartbeat 0;
              FrHeader 2 60 0 1 (flags_val props 15) props; FrBody 2 [x61]; FrMethod 1 60 80 [ALongLong 1; ABit false]] in
  let sfs := [FrMethod 1 50 11 [AShortStr [x71]; ALong 0; ALong 0];
              FrMethod 3 60 60 [AShortStr []; ALongLong 7; ABit false; AShortStr []; AShortStr []];
              FrHeader 3 60 0 1 (flags_val props 15) props; FrBody 3 [x62]] in
  normal cfs sfs = true /\ length (spec_report cfs sfs) = 3%nat.
Proof. vm_compute. split; reflexivity. Qed.

(* the hypotheses of the three report theorems are met by a conversation with a publish, a
   reply pair (queue.declare / declare-ok) and a delivery; the two orders give the same three
   items in different orders (shown by the method ids of the requests) *)
Example C05_orders_example :
  let props := [Some (AShortStr [x74]); None; None; None; None; None; None; None; None; None; None; None; None; None] in
  let cfs := [FrProto; FrMethod 1 50 10 [AShort 0; AShortStr [x71]; ABit false; ABit true; ABit false; ABit false; ABit false; ATable []];
              FrMethod 2 60 40 [AShort 0; AShortStr [x65]; AShortStr []; ABit true; ABit false]; FrHeartbeat 0;
              FrHeader 2 60 0 1 (flags_val props 15) props; FrBody 2 [x61]; FrMethod 1 60 80 [ALongLong 1; ABit false]] in
  let sfs := [FrMethod 1 50 11 [AShortStr [x71]; ALong 0; ALong 0];
              FrMethod 3 60 60 [AShortStr []; ALongLong 7; ABit false; AShortStr []; AShortStr []];
              FrHeader 3 60 0 1 (flags_val props 15) props; FrBody 3 [x62]] in
  let c := {| sdata := enc_frames cfs; stail := TEof |} in
  let s := {| sdata := enc_frames sfs; stail := TEof |} in
  (Forall wf_frame cfs /\ Forall wf_frame sfs /\ normal cfs sfs = true) /\
  map item_view (items (snd (dissect_both true c s))) = spec_report cfs sfs /\
  map item_view (items (snd (dissect_both false c s))) = spec_report_server_first cfs sfs /\
  map (fun it => fst (fst it)) (spec_report cfs sfs) = [60040; 50010; 60060] /\
  map (fun it => fst (fst it)) (spec_report_server_first cfs sfs) = [60060; 50010; 60040].
Proof.
  cbv zeta. split; [|vm_compute; repeat split; reflexivity].
  split; [|split; [|vm_compute; reflexivity]];
    (repeat constructor; cbn; try lia; try (unfold Blen, max_frame, max_str; cbn; lia);
     try (eexists; split; [reflexivity|]; split; repeat constructor; cbn; unfold Blen; cbn; lia);
     unfold wf_table, wf_entries, time_ok, in_s, max_str, Blen; cbn; repeat constructor; cbn; lia).
Qed.

(* the hypotheses are satisfiable: a publish with content on channel 1 *)
Example C05_wf_example :
  Forall wf_frame [FrProto; FrMethod 1 60 40 [AShort 0; AShortStr [x65]; AShortStr []; ABit true; ABit false];
                   FrHeader 1 60 0 3 (flags_val [Some (AShortStr [x74]); None; Some (ATable [([x6b], FInt 7%Z)]); None; None; None; None; None; None; Some (ATime 0%Z); None; None; None; None] 15)
                            [Some (AShortStr [x74]); None; Some (ATable [([x6b], FInt 7%Z)]); None; None; None; None; None; None; Some (ATime 0%Z); None; None; None; None];
                   FrBody 1 [x61; x62; x63]; FrHeartbeat 0].
Proof.
  repeat constructor; cbn; try lia; try (unfold Blen, max_frame, max_str; cbn; lia);
    try (eexists; split; [reflexivity|]; split; repeat constructor; cbn; unfold Blen; cbn; lia);
    unfold wf_table, wf_entries, time_ok, in_s, max_str, Blen; cbn; repeat constructor; cbn; lia.
Qed.

(* the signature table the theorems and the model use is the one spec091.go has now *)
Theorem C05_sigs_current : forallb entry_agrees V.gen.AmqpSigs.gen_sigs = true.
Proof. exact sigs_agree. Qed.
