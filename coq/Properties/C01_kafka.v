(* C01 — Kafka share: Dissect returns on any bytes and any end of stream (statements restated from coq/Kafka/KafkaC01.v; each closed by exact) *)
Require Import V.Base.Prelude V.Kafka.KafkaTy V.Kafka.KafkaModel V.Kafka.KafkaLift V.Kafka.KafkaFrame.
Require Import Coq.Strings.String.
Local Open Scope Z_scope.
Require Import V.Kafka.KafkaC01.

Theorem C01_kafka_C01_client  :
  forall T fuel i t st al m, tables_plain T -> (List.length i < fuel)%nat ->
  exists e, fst (fst (dissect_client T fuel i t st al m)) = Returned e.
Proof. exact (kafka_C01_client ). Qed.

Theorem C01_kafka_C01_server  :
  forall T fuel i t st al m acc, tables_plain T -> (List.length i < fuel)%nat ->
  exists e, fst (fst (fst (dissect_server T fuel i t st al m acc))) = Returned e.
Proof. exact (kafka_C01_server ). Qed.

Theorem C01_kafka_C01_dissect  :
  forall T client server t, tables_plain T ->
  exists e1 e2, r_client (dissect T client server t) = Returned e1 /\
                r_server (dissect T client server t) = Returned e2.
Proof. exact (kafka_C01_dissect ). Qed.


(* the premise holds of the tables regenerated from the compiled dissector on this run *)
Require Import V.gen.KafkaSchemas V.Kafka.KafkaImplTables.

Theorem C01_kafka_C01_impl_tables_plain : tables_plain impl_tables.
Proof. exact (impl_tables_are_plain ). Qed.

Theorem C01_kafka_C01_impl_dissect  :
  forall client server t,
  exists e1 e2, r_client (dissect impl_tables client server t) = Returned e1 /\
                r_server (dissect impl_tables client server t) = Returned e2.
Proof. exact (kafka_C01_impl_dissect ). Qed.
