(* C08 — HTTP share (statement restated from coq/Http/HttpC08.v; closed by exact) *)
Require Import V.Base.Prelude V.Http.HBytes V.Http.H2Asm V.Http.HttpLoop.
Require Import V.Http.HttpC08.

(* base's own HTTP code reaches the connection only through library calls that loop until
   satisfied (Peek, Discard, http.ReadRequest/ReadResponse, Framer.ReadFrame); with the contract
   that their results depend on the concatenation of the reads only, the outcome of Dissect is the
   same for every segmentation *)
Theorem C08_http_C08_chunking : forall lib : list bytes -> pk * list libev,
  (forall cs1 cs2, concat cs1 = concat cs2 -> lib cs1 = lib cs2) ->
  forall is_client cs1 cs2 st, concat cs1 = concat cs2 ->
  dissect is_client (fst (lib cs1)) (snd (lib cs1)) st = dissect is_client (fst (lib cs2)) (snd (lib cs2)) st.
Proof. exact http_C08_chunking. Qed.
