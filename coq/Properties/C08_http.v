(* C08 — HTTP share (statements restated from coq/Http/HttpC08.v; each closed by exact) *)
Require Import V.Base.Prelude V.Http.HBytes V.Http.H2Asm V.Http.HttpLoop.
Require Import V.Http.HttpC08.

