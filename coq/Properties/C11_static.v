(* C11, static part for the redis, amqp, kafka, http and dns extensions (DESIGN.md 5.C11 C11_static).
   prog_<ext>_<stage>: Summarize / Represent with their helpers, translated from the Go source into
   access programs (gen/StagesSrc.v); alts_<ext>: the shapes of the request / response maps,
   derived by reflection from what the real Dissect emits (gen/StageShapes.v).
   C11_static_*: the shape checker accepts the program for every alternative (vm_compute on the
   regenerated files).  C11_no_panic_*: hence, by the checker's soundness, the program runs
   without a panic (no failed type assertion, no index of a too short slice) on every request / response pair conforming to an
   alternative.  No site is excluded (there is no known_unsafe list). *)
From Coq Require Import List Bool String ZArith.
Require Import V.Base.Prelude V.Shape.Access V.gen.StagesSrc V.gen.StageShapes V.Shape.StagesTie.
Import ListNotations.

Theorem C11_static_redis_summarize : check_alts prog_redis_summarize alts_redis = true.
Proof. exact static_redis_summarize. Qed.

Theorem C11_no_panic_redis_summarize : forall req resp,
  existsb (fun a => alt_conf a req resp) alts_redis = true -> stage_run prog_redis_summarize req resp = Ok tt.
Proof. exact no_panic_redis_summarize. Qed.

Theorem C11_static_redis_represent : check_alts prog_redis_represent alts_redis = true.
Proof. exact static_redis_represent. Qed.

Theorem C11_no_panic_redis_represent : forall req resp,
  existsb (fun a => alt_conf a req resp) alts_redis = true -> stage_run prog_redis_represent req resp = Ok tt.
Proof. exact no_panic_redis_represent. Qed.

Theorem C11_static_amqp_summarize : check_alts prog_amqp_summarize alts_amqp = true.
Proof. exact static_amqp_summarize. Qed.

Theorem C11_no_panic_amqp_summarize : forall req resp,
  existsb (fun a => alt_conf a req resp) alts_amqp = true -> stage_run prog_amqp_summarize req resp = Ok tt.
Proof. exact no_panic_amqp_summarize. Qed.

Theorem C11_static_amqp_represent : check_alts prog_amqp_represent alts_amqp = true.
Proof. exact static_amqp_represent. Qed.

Theorem C11_no_panic_amqp_represent : forall req resp,
  existsb (fun a => alt_conf a req resp) alts_amqp = true -> stage_run prog_amqp_represent req resp = Ok tt.
Proof. exact no_panic_amqp_represent. Qed.

Theorem C11_static_kafka_summarize : check_alts prog_kafka_summarize alts_kafka = true.
Proof. exact static_kafka_summarize. Qed.

Theorem C11_no_panic_kafka_summarize : forall req resp,
  existsb (fun a => alt_conf a req resp) alts_kafka = true -> stage_run prog_kafka_summarize req resp = Ok tt.
Proof. exact no_panic_kafka_summarize. Qed.

Theorem C11_static_kafka_represent : check_alts prog_kafka_represent alts_kafka = true.
Proof. exact static_kafka_represent. Qed.

Theorem C11_no_panic_kafka_represent : forall req resp,
  existsb (fun a => alt_conf a req resp) alts_kafka = true -> stage_run prog_kafka_represent req resp = Ok tt.
Proof. exact no_panic_kafka_represent. Qed.

Theorem C11_static_http_summarize : check_alts prog_http_summarize alts_http = true.
Proof. exact static_http_summarize. Qed.

Theorem C11_no_panic_http_summarize : forall req resp,
  existsb (fun a => alt_conf a req resp) alts_http = true -> stage_run prog_http_summarize req resp = Ok tt.
Proof. exact no_panic_http_summarize. Qed.

Theorem C11_static_http_represent : check_alts prog_http_represent alts_http = true.
Proof. exact static_http_represent. Qed.

Theorem C11_no_panic_http_represent : forall req resp,
  existsb (fun a => alt_conf a req resp) alts_http = true -> stage_run prog_http_represent req resp = Ok tt.
Proof. exact no_panic_http_represent. Qed.

Theorem C11_static_dns_summarize : check_alts prog_dns_summarize alts_dns = true.
Proof. exact static_dns_summarize. Qed.

Theorem C11_no_panic_dns_summarize : forall req resp,
  existsb (fun a => alt_conf a req resp) alts_dns = true -> stage_run prog_dns_summarize req resp = Ok tt.
Proof. exact no_panic_dns_summarize. Qed.

Theorem C11_static_dns_represent : check_alts prog_dns_represent alts_dns = true.
Proof. exact static_dns_represent. Qed.

Theorem C11_no_panic_dns_represent : forall req resp,
  existsb (fun a => alt_conf a req resp) alts_dns = true -> stage_run prog_dns_represent req resp = Ok tt.
Proof. exact no_panic_dns_represent. Qed.

(* the translator refused nothing: the programs above are the whole of the ten functions *)
Theorem C11_static_complete : untranslated = [].
Proof. exact static_complete. Qed.

(* the shapes were derived without a problem and no extension has an empty list of alternatives *)
Theorem C11_shapes_derived :
  shape_problems = [] /\ alts_redis <> [] /\ alts_amqp <> [] /\ alts_kafka <> [] /\ alts_http <> [] /\ alts_dns <> [].
Proof. exact shapes_derived. Qed.
