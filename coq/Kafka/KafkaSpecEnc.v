(* The Kafka wire format as an encoder (protocol guide: big-endian fixed-width integers, INT16
   length-prefixed strings, INT32 length-prefixed bytes and arrays with -1 for null, zig-zag
   varints inside record batches, unsigned varints / length+1 in flexible versions).
   Independent of the dissector model: this file does not import KafkaModel. *)
Require Import V.Base.Prelude V.Kafka.KafkaTy.
Require Import Coq.Strings.String.
Local Open Scope Z_scope.

Definition zlen (b : bytes) : Z := Z.of_nat (List.length b).

Definition byte_of_Z (z : Z) : byte := b_of_N (Z.to_N z).

(* k bytes, most significant first, of u mod 256^k *)
Fixpoint enc_be (k : nat) (u : Z) : bytes :=
  match k with
  | O => []
  | S k' => enc_be k' (u / 256) ++ [byte_of_Z (u mod 256)]
  end.

(* two's complement on k bytes *)
Definition enc_int (k : nat) (z : Z) : bytes := enc_be k (z mod 2 ^ (8 * Z.of_nat k)).

(* unsigned varint: 7 bits per byte, least significant group first, continuation bit 0x80 *)
Fixpoint enc_uvarint_fuel (fuel : nat) (u : Z) : bytes :=
  match fuel with
  | O => []
  | S f => if u <? 128 then [byte_of_Z u] else byte_of_Z (u mod 128 + 128) :: enc_uvarint_fuel f (u / 128)
  end.
Definition enc_uvarint (u : Z) : bytes := enc_uvarint_fuel 10 u.

(* zig-zag of a 64-bit signed integer *)
Definition zz (z : Z) : Z := if z <? 0 then - 2 * z - 1 else 2 * z.
Definition enc_varint (z : Z) : bytes := enc_uvarint (zz z).

Definition enc_varbytes (len : Z) (s : bytes) : bytes := enc_varint len ++ s.

Definition enc_header (h : kv) : bytes :=
  match h with
  | KStruct [KInt kl; KStr k; KInt vl; KStr v] => enc_varbytes kl k ++ enc_varbytes vl v
  | _ => []
  end.

(* a record of a magic-2 batch; the value is the KStruct of the nine fields the dissector reports *)
Definition enc_record (r : kv) : bytes :=
  match r with
  | KStruct [KInt len; KInt attr; KInt ts; KInt off; KInt kl; KStr k; KInt vl; KStr v; KArr hs] =>
    enc_varint len ++ enc_int 1 attr ++ enc_varint ts ++ enc_varint off
    ++ enc_varbytes kl k ++ enc_varbytes vl v
    ++ enc_varint (Z.of_nat (List.length hs)) ++ List.concat (map enc_header hs)
  | _ => []
  end.

Fixpoint encode (t : ty) (v : kv) {struct t} : bytes :=
  match t, v with
  | TBool, KBool b => [if b then byte_of_Z 1 else byte_of_Z 0]
  | TI8, KInt z => enc_int 1 z
  | TI16, KInt z => enc_int 2 z
  | TI32, KInt z => enc_int 4 z
  | TI64, KInt z => enc_int 8 z
  | TStr, KStr s => enc_int 2 (zlen s) ++ s
  | TStr, KNull => enc_int 2 (-1)
  | TBytes, KBytes s => enc_int 4 (zlen s) ++ s
  | TBytes, KNull => enc_int 4 (-1)
  | TArr e, KArr l => enc_int 4 (Z.of_nat (List.length l)) ++ List.concat (map (encode e) l)
  | TArr e, KNull => enc_int 4 (-1)
  | TStruct fs, KStruct l =>
    (fix go (fs : list (string * ty)) (l : list kv) : bytes :=
       match fs, l with
       | f :: fs', x :: l' => encode (snd f) x ++ go fs' l'
       | _, _ => []
       end) fs l
  | TRecordV0, r => enc_record r
  | TCStr, KStr s => enc_uvarint (zlen s + 1) ++ s
  | TCStr, KNull => enc_uvarint 0
  | TCBytes, KBytes s => enc_uvarint (zlen s + 1) ++ s
  | TCBytes, KNull => enc_uvarint 0
  | TCArr e, KArr l => enc_uvarint (Z.of_nat (List.length l) + 1) ++ List.concat (map (encode e) l)
  | TCArr e, KNull => enc_uvarint 0
  | TTags, _ => enc_uvarint 0
  | _, _ => []
  end.

(* what a reader reports for a value: null strings / bytes / arrays read as empty *)
Fixpoint norm (t : ty) (v : kv) {struct t} : kv :=
  match t, v with
  | (TStr | TCStr), KNull => KStr []
  | (TBytes | TCBytes), KNull => KBytes []
  | (TArr _ | TCArr _), KNull => KArr []
  | TArr e, KArr l => KArr (map (norm e) l)
  | TCArr e, KArr l => KArr (map (norm e) l)
  | TStruct fs, KStruct l =>
    KStruct ((fix go (fs : list (string * ty)) (l : list kv) : list kv :=
                match fs, l with
                | f :: fs', x :: l' => norm (snd f) x :: go fs' l'
                | _, _ => []
                end) fs l)
  | _, _ => v
  end.

(* well-formed values: typed, integers in range, lengths within what the prefix can carry *)
Definition in_range (bits : Z) (z : Z) : Prop := - 2 ^ (bits - 1) <= z < 2 ^ (bits - 1).

Definition wf_varbytes (len : Z) (s : bytes) : Prop :=
  in_range 64 len /\ ((len = zlen s) \/ (len < 0 /\ s = [])).

Definition wf_header (h : kv) : Prop :=
  match h with
  | KStruct [KInt kl; KStr k; KInt vl; KStr v] => wf_varbytes kl k /\ wf_varbytes vl v
  | _ => False
  end.

Definition wf_record (r : kv) : Prop :=
  match r with
  | KStruct [KInt len; KInt attr; KInt ts; KInt off; KInt kl; KStr k; KInt vl; KStr v; KArr hs] =>
    in_range 64 len /\ in_range 8 attr /\ in_range 64 ts /\ in_range 64 off
    /\ wf_varbytes kl k /\ wf_varbytes vl v /\ Forall wf_header hs
    /\ in_range 64 (Z.of_nat (List.length hs))
  | _ => False
  end.

Fixpoint wf (t : ty) (v : kv) {struct t} : Prop :=
  match t, v with
  | TBool, KBool _ => True
  | TI8, KInt z => in_range 8 z
  | TI16, KInt z => in_range 16 z
  | TI32, KInt z => in_range 32 z
  | TI64, KInt z => in_range 64 z
  | TStr, KStr s => zlen s <= 32767
  | TStr, KNull => True
  | TBytes, KBytes s => zlen s <= 2147483647
  | TBytes, KNull => True
  | TArr e, KArr l => Z.of_nat (List.length l) <= 65535 /\
                      (fix all (l : list kv) : Prop := match l with [] => True | x :: l' => wf e x /\ all l' end) l
  | TArr e, KNull => True
  | TStruct fs, KStruct l =>
    (fix go (fs : list (string * ty)) (l : list kv) : Prop :=
       match fs, l with
       | [], [] => True
       | f :: fs', x :: l' => wf (snd f) x /\ go fs' l'
       | _, _ => False
       end) fs l
  | TRecordV0, r => wf_record r
  | _, _ => False
  end.

(* the least number of bytes a value of the type takes on the wire *)
Fixpoint min_wire (t : ty) : Z :=
  match t with
  | TBool | TI8 => 1 | TI16 => 2 | TI32 => 4 | TI64 => 8
  | TStr => 2 | TBytes | TArr _ => 4
  | TStruct fs => fold_right (fun f acc => min_wire (snd f) + acc) 0 fs
  | TRecordV0 => 7
  | TCStr | TCBytes | TCArr _ | TTags => 1
  | TUnsupported => 0
  end.

(* every array element takes at least one byte (the decoder never allocates more elements than
   the message has bytes left) *)
Fixpoint arrays_ok (t : ty) : bool :=
  match t with
  | TArr e | TCArr e => (1 <=? min_wire e) && arrays_ok e
  | TStruct fs => forallb (fun f => arrays_ok (snd f)) fs
  | _ => true
  end.
