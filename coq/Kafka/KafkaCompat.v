(* Syntactic comparison of two wire types: the layout the dissector selects (impl) against the
   wire format the independent description gives (spec).  Struct nesting and field names do not
   show on the wire: both types are flattened to their sequence of wire tokens; arrays keep the
   token sequence of their element.  `divs` lists the spec paths at which the two part; a
   difference ends the comparison of the sequence it occurs in, a difference inside an array
   element is confined to that array.  compat = no divergence.  (Definitions only; the soundness
   lemma is in KafkaCompatProofs.v.) *)
Require Import V.Base.Prelude V.Kafka.KafkaTy.
Require Import Coq.Strings.String.
Local Open Scope string_scope.

Inductive prim := PBool | PI8 | PI16 | PI32 | PI64 | PStr | PBytes | PRec | PUns | PCStr | PCBytes | PTags.

Definition prim_eqb (a b : prim) : bool :=
  match a, b with
  | PBool, PBool | PI8, PI8 | PI16, PI16 | PI32, PI32 | PI64, PI64 | PStr, PStr | PBytes, PBytes
  | PRec, PRec | PCStr, PCStr | PCBytes, PCBytes | PTags, PTags => true
  | _, _ => false      (* PUns is compatible with nothing, not even itself *)
  end.

Inductive wtok :=
| WP (path : string) (k : prim)
| WA (path : string) (compact : bool) (elems : list wtok).

Definition tpath (t : wtok) : string := match t with WP p _ => p | WA p _ _ => p end.

Definition join (p n : string) : string := if String.eqb p "" then n else p ++ "." ++ n.

Fixpoint flat (p : string) (t : ty) {struct t} : list wtok :=
  match t with
  | TBool => [WP p PBool] | TI8 => [WP p PI8] | TI16 => [WP p PI16] | TI32 => [WP p PI32] | TI64 => [WP p PI64]
  | TStr => [WP p PStr] | TBytes => [WP p PBytes]
  | TRecordV0 => [WP p PRec] | TUnsupported => [WP p PUns]
  | TCStr => [WP p PCStr] | TCBytes => [WP p PCBytes] | TTags => [WP p PTags]
  | TArr e => [WA p false (flat (p ++ "[]") e)]
  | TCArr e => [WA p true (flat (p ++ "[]") e)]
  | TStruct fs =>
    (fix go (l : list (string * ty)) : list wtok :=
       match l with
       | [] => []
       | f :: l' => List.app (flat (join p (fst f)) (snd f)) (go l')
       end) fs
  end.

(* divergences of two tokens: (paths, may the enclosing sequences go on being compared) *)
Fixpoint dtok (a b : wtok) {struct a} : list string * bool :=
  match a, b with
  | WP p k, WP _ k' => if prim_eqb k k' then ([], true) else ([p], false)
  | WA p c es, WA _ c' es' =>
    if Bool.eqb c c' then
      ((fix go (l m : list wtok) : list string :=
          match l, m with
          | [], [] => []
          | [], y :: _ => [tpath y ++ "(impl)"]
          | x :: _, [] => [tpath x]
          | x :: l', y :: m' => let '(d, cont) := dtok x y in if cont then List.app d (go l' m') else d
          end) es es', true)
    else ([p], false)
  | _, _ => ([tpath a], false)
  end.

Fixpoint dseq (l m : list wtok) : list string :=
  match l, m with
  | [], [] => []
  | [], y :: _ => [tpath y ++ "(impl)"]
  | x :: _, [] => [tpath x]
  | x :: l', y :: m' => let '(d, cont) := dtok x y in if cont then List.app d (dseq l' m') else d
  end.

Definition divs (spec impl : ty) : list string := dseq (flat "" spec) (flat "" impl).

Definition compat (spec impl : ty) : bool := match divs spec impl with [] => true | _ => false end.
