(* kafka_roundtrip: for every layout made of the modelled encodings whose array elements take at
   least one byte, decoding what the wire format prescribes for a well-formed value gives that
   value back (null read as empty) and consumes exactly its bytes.  Generic: by induction on the
   type, for all values. *)
Require Import V.Base.Prelude V.Kafka.KafkaTy V.Kafka.KafkaModel V.Kafka.KafkaFrame.
Require Import V.Kafka.KafkaSpecEnc V.Kafka.KafkaBytes.
Require Import Coq.Strings.String.
Local Open Scope Z_scope.

(* d' is d after reading exactly bs, r is what follows *)
Definition consumed (d d' : dstate) (bs r : bytes) : Prop :=
  inp d' = r /\ remain d' = remain d - blen bs /\ derr d' = None /\ tl d' = tl d.

Lemma consumed_advance d bs r : consumed d (advance (blen bs) r d) bs r.
Proof. unfold consumed, advance. cbn. repeat split. Qed.

Lemma consumed_trans d d1 d2 a b r :
  consumed d d1 a (b ++ r) -> consumed d1 d2 b r -> consumed d d2 (a ++ b) r.
Proof.
  intros (I1 & R1 & E1 & T1) (I2 & R2 & E2 & T2). unfold consumed. rewrite blen_app.
  repeat split; try assumption; try congruence. lia.
Qed.

Lemma consumed_nil d r : derr d = None -> inp d = r -> consumed d d [] r.
Proof. intros. unfold consumed. cbn. repeat split; try assumption. lia. Qed.

(* ------------------------------------------------------------------ fixed-width fields *)
Lemma rt_int k z d r : (0 < k)%nat -> in_range (8 * Z.of_nat k) z ->
  derr d = None -> inp d = enc_int k z ++ r -> blen (enc_int k z) <= remain d ->
  exists d', rd_int (Z.of_nat k) d = (z, d') /\ consumed d d' (enc_int k z) r.
Proof.
  intros Hk Hz He Hi Hr. rewrite len_enc_int in Hr.
  exists (advance (Z.of_nat k) r d). split.
  - apply rd_int_ok; assumption.
  - rewrite <- (len_enc_int k z). apply consumed_advance.
Qed.

Lemma rt_blob n (s : bytes) d r :
  derr d = None -> inp d = s ++ r -> blen s = n -> n <= remain d ->
  exists d', rd_alloc n d = (s, d') /\ consumed d d' s r.
Proof.
  intros He Hi Hn Hr. unfold rd_alloc.
  destruct (Z.eq_dec n 0) as [H0|H0].
  - subst n. assert (s = []) by (apply blen_nil_inv; assumption). subst s. cbn [app] in Hi.
    unfold rd. cbn [Z.leb Z.compare]. rewrite H0. cbn [Z.leb Z.compare].
    eexists. split; [reflexivity|]. unfold consumed. cbn. repeat split; try assumption. lia.
  - pose proof (blen_nonneg s).
    rewrite (rd_ok n (charge (Z.min n (remain d)) d) s r); try assumption; try lia.
    eexists. split; [reflexivity|]. rewrite <- Hn. unfold consumed, advance. cbn. repeat split; lia.
Qed.

(* ------------------------------------------------------------------ varints *)
Lemma enc_uvarint_fuel_len f : forall u, (List.length (enc_uvarint_fuel f u) <= f)%nat.
Proof.
  induction f as [|f IH]; intros u; cbn [enc_uvarint_fuel List.length]; [lia|].
  destruct (u <? 128); cbn [List.length]; [lia|]. specialize (IH (u / 128)). lia.
Qed.

Lemma enc_uvarint_fuel_pos f u : (0 < f)%nat -> (0 < List.length (enc_uvarint_fuel f u))%nat.
Proof. destruct f; [lia|]. intros _. cbn [enc_uvarint_fuel]. destruct (u <? 128); cbn [List.length]; lia. Qed.

Lemma rd_byte_ok z d r : 0 <= z < 256 -> derr d = None -> 1 <= remain d -> inp d = byte_of_Z z :: r ->
  rd_byte d = (z, advance 1 r d).
Proof.
  intros Hz He Hr Hi. unfold rd_byte.
  rewrite (rd_ok 1 d [byte_of_Z z] r); try assumption; try lia; try reflexivity.
  unfold be. cbn [fold_left]. rewrite b2z_byte_of_Z by lia. reflexivity.
Qed.

Lemma enc_uv_S f u : enc_uvarint_fuel (S f) u =
  if u <? 128 then [byte_of_Z u] else byte_of_Z (u mod 128 + 128) :: enc_uvarint_fuel f (u / 128).
Proof. reflexivity. Qed.

Lemma varint_loop_ok f : forall u x s n d r,
  0 <= u < 2 ^ (7 * Z.of_nat (S f)) -> 0 <= x -> 0 <= s -> x + u * 2 ^ s < 2 ^ 64 ->
  (List.length (enc_uvarint_fuel (S f) u) <= n)%nat ->
  derr d = None -> inp d = enc_uvarint_fuel (S f) u ++ r -> blen (enc_uvarint_fuel (S f) u) <= remain d ->
  exists d', varint_loop n x s d = (Some (x + u * 2 ^ s), d') /\ consumed d d' (enc_uvarint_fuel (S f) u) r.
Proof.
  induction f as [|f IH]; intros u x s n d r Hu Hx Hs Hlt Hn He Hi Hr.
  - (* one group *)
    change (2 ^ (7 * Z.of_nat 1)) with 128 in Hu.
    rewrite enc_uv_S in *. destruct (u <? 128) eqn:E; [|apply Z.ltb_ge in E; lia].
    destruct n as [|n]; [cbn [List.length] in Hn; lia|]. cbn [varint_loop].
    cbn [app] in Hi. unfold blen in Hr. cbn [List.length] in Hr.
    rewrite (rd_byte_ok u d r) by (try assumption; lia). rewrite E.
    assert (Hp : 0 <= u * 2 ^ s) by (apply Z.mul_nonneg_nonneg; [lia|apply Z.pow_nonneg; lia]).
    rewrite Z.mod_small by lia.
    eexists. split; [reflexivity|]. apply (consumed_advance d [byte_of_Z u] r).
  - rewrite (enc_uv_S (S f) u) in *.
    assert (Hp : 0 < 2 ^ s) by (apply Z.pow_pos_nonneg; lia).
    destruct (u <? 128) eqn:E.
    + destruct n as [|n]; [cbn [List.length] in Hn; lia|]. cbn [varint_loop].
      cbn [app] in Hi. unfold blen in Hr. cbn [List.length] in Hr.
      rewrite (rd_byte_ok u d r) by (try assumption; apply Z.ltb_lt in E; lia). rewrite E.
      assert (Hp' : 0 <= u * 2 ^ s) by (apply Z.mul_nonneg_nonneg; lia).
      rewrite Z.mod_small by lia.
      eexists. split; [reflexivity|]. apply (consumed_advance d [byte_of_Z u] r).
    + apply Z.ltb_ge in E.
      destruct n as [|n]; [cbn [List.length] in Hn; lia|]. cbn [varint_loop].
      cbn [app] in Hi. unfold blen in Hr. cbn [List.length] in Hr, Hn.
      pose proof (Z.mod_pos_bound u 128 ltac:(lia)) as Hm.
      pose proof (Z.div_mod u 128 ltac:(lia)) as Hdm.
      set (q := u / 128) in *. set (m := u mod 128) in *.
      rewrite (rd_byte_ok (m + 128) d (enc_uvarint_fuel (S f) q ++ r)) by (try assumption; lia).
      destruct (m + 128 <? 128) eqn:E2; [apply Z.ltb_lt in E2; lia|].
      replace ((m + 128) mod 128) with m.
      2:{ apply (Z.mod_unique (m + 128) 128 1 m); lia. }
      assert (Hq : 0 <= q) by (apply Z.div_pos; lia).
      assert (Hmp : 0 <= m * 2 ^ s) by (apply Z.mul_nonneg_nonneg; lia).
      assert (Hqp : 0 <= q * 2 ^ s) by (apply Z.mul_nonneg_nonneg; lia).
      assert (Hsum : x + u * 2 ^ s = x + m * 2 ^ s + q * 2 ^ (s + 7)).
      { rewrite Z.pow_add_r by lia. change (2 ^ 7) with 128. rewrite Hdm. ring. }
      rewrite Z.mod_small by (rewrite Hdm in Hlt; nia).
      destruct (IH q (x + m * 2 ^ s) (s + 7) n (advance 1 (enc_uvarint_fuel (S f) q ++ r) d) r) as (d' & El & Hc).
      * split; [exact Hq|].
        replace (7 * Z.of_nat (S (S f))) with (7 + 7 * Z.of_nat (S f)) in Hu by lia.
        rewrite Z.pow_add_r in Hu by lia. change (2 ^ 7) with 128 in Hu.
        apply Z.div_lt_upper_bound; lia.
      * lia.
      * lia.
      * rewrite <- Hsum. exact Hlt.
      * lia.
      * reflexivity.
      * reflexivity.
      * cbn [advance remain]. unfold blen. lia.
      * rewrite Hsum. exists d'. split; [exact El|].
        change (byte_of_Z (m + 128) :: enc_uvarint_fuel (S f) q) with ([byte_of_Z (m + 128)] ++ enc_uvarint_fuel (S f) q).
        eapply consumed_trans; [|exact Hc].
        apply (consumed_advance d [byte_of_Z (m + 128)]).
Qed.

Lemma zigzag_zz z : in_range 64 z -> zigzag (zz z) = z.
Proof.
  intros _. unfold zigzag, zz. destruct (z <? 0) eqn:E.
  - apply Z.ltb_lt in E. replace (- 2 * z - 1) with (1 + 2 * (- z - 1)) by lia.
    rewrite Z.even_add_mul_2. cbn [Z.even].
    replace (1 + 2 * (- z - 1)) with ((- z - 1) * 2 + 1) by lia.
    rewrite Z.div_add_l by lia. change (1 / 2) with 0. lia.
  - apply Z.ltb_ge in E. replace (2 * z) with (0 + 2 * z) by lia. rewrite Z.even_add_mul_2. cbn [Z.even].
    replace (0 + 2 * z) with (z * 2) by lia. rewrite Z.div_mul by lia. reflexivity.
Qed.

Lemma zz_range z : in_range 64 z -> 0 <= zz z < 2 ^ 64.
Proof.
  unfold in_range, zz. change (2 ^ (64 - 1)) with 9223372036854775808. change (2 ^ 64) with 18446744073709551616.
  intros H. destruct (z <? 0) eqn:E; [apply Z.ltb_lt in E|apply Z.ltb_ge in E]; lia.
Qed.

Lemma enc_varint_len z : 1 <= blen (enc_varint z) <= 10.
Proof.
  unfold enc_varint, enc_uvarint, blen.
  pose proof (enc_uvarint_fuel_len 10 (zz z)). pose proof (enc_uvarint_fuel_pos 10 (zz z) ltac:(lia)). lia.
Qed.

Lemma rt_varint z d r : in_range 64 z ->
  derr d = None -> inp d = enc_varint z ++ r -> blen (enc_varint z) <= remain d ->
  exists d', rd_varint d = (z, d') /\ consumed d d' (enc_varint z) r.
Proof.
  intros Hz He Hi Hr. unfold rd_varint.
  pose proof (enc_varint_len z) as Hl. pose proof (zz_range z Hz) as Hzz.
  unfold enc_varint, enc_uvarint in *.
  destruct (varint_loop_ok 9 (zz z) 0 0 (Z.to_nat (Z.min 11 (Z.max 0 (remain d)))) d r) as (d' & El & Hc);
    try assumption; try lia.
  - unfold blen in *. lia.
  - rewrite El. change (2 ^ 0) with 1. replace (0 + zz z * 1) with (zz z) by lia.
    rewrite zigzag_zz by exact Hz. exists d'. split; [reflexivity|exact Hc].
Qed.

Lemma rt_varbytes len s d r : wf_varbytes len s ->
  derr d = None -> inp d = enc_varbytes len s ++ r -> blen (enc_varbytes len s) <= remain d ->
  exists d1 d2, rd_varint d = (len, d1) /\ rd_varstring len d1 = (s, d2) /\ consumed d d2 (enc_varbytes len s) r.
Proof.
  intros [Hr64 Hw] He Hi Hr. unfold enc_varbytes in *. rewrite <- app_assoc in Hi. rewrite blen_app in Hr.
  pose proof (blen_nonneg s) as Hs0.
  destruct (rt_varint len d (s ++ r) Hr64 He Hi ltac:(lia)) as (d1 & E1 & C1).
  exists d1. destruct C1 as (I1 & R1 & E1' & T1).
  unfold rd_varstring.
  destruct (len <=? 0) eqn:E.
  - apply Z.leb_le in E. assert (s = []).
    { destruct Hw as [Hw|[_ Hw]]; [|exact Hw]. apply blen_nil_inv. unfold zlen in Hw. unfold blen. lia. }
    subst s. exists d1. split; [exact E1|]. split; [reflexivity|].
    rewrite app_nil_r. unfold consumed. cbn [app] in I1. repeat split; assumption.
  - apply Z.leb_gt in E. destruct Hw as [Hw|[Hw _]]; [|lia]. unfold zlen in Hw. fold (blen s) in Hw.
    rewrite Z.min_l by lia.
    destruct (rt_blob len s d1 r E1' I1 ltac:(lia) ltac:(lia)) as (d2 & E2 & C2).
    exists d2. split; [exact E1|]. split; [exact E2|].
    eapply consumed_trans; [|exact C2]. unfold consumed. repeat split; assumption.
Qed.

(* ------------------------------------------------------------------ records *)
Lemma wf_header_inv h : wf_header h ->
  exists kl k vl v, h = KStruct [KInt kl; KStr k; KInt vl; KStr v] /\ wf_varbytes kl k /\ wf_varbytes vl v.
Proof.
  intro H. destruct h as [| | | | |l|]; try contradiction.
  destruct l as [|[| kl | | | | |] l]; try contradiction.
  destruct l as [|[| | k | | | |] l]; try contradiction.
  destruct l as [|[| vl | | | | |] l]; try contradiction.
  destruct l as [|[| | v | | | |] l]; try contradiction.
  destruct l; try contradiction.
  cbn in H. destruct H as [H1 H2]. exists kl, k, vl, v. split; [reflexivity|split; assumption].
Qed.

Lemma wf_record_inv r : wf_record r ->
  exists len attr ts off kl k vl v hs,
    r = KStruct [KInt len; KInt attr; KInt ts; KInt off; KInt kl; KStr k; KInt vl; KStr v; KArr hs] /\
    in_range 64 len /\ in_range 8 attr /\ in_range 64 ts /\ in_range 64 off /\
    wf_varbytes kl k /\ wf_varbytes vl v /\ Forall wf_header hs /\ in_range 64 (Z.of_nat (List.length hs)).
Proof.
  intro H. destruct r as [| | | | |l|]; try contradiction.
  destruct l as [|[| len | | | | |] l]; try contradiction.
  destruct l as [|[| attr | | | | |] l]; try contradiction.
  destruct l as [|[| ts | | | | |] l]; try contradiction.
  destruct l as [|[| off | | | | |] l]; try contradiction.
  destruct l as [|[| kl | | | | |] l]; try contradiction.
  destruct l as [|[| | k | | | |] l]; try contradiction.
  destruct l as [|[| vl | | | | |] l]; try contradiction.
  destruct l as [|[| | v | | | |] l]; try contradiction.
  destruct l as [|[| | | | hs | |] l]; try contradiction.
  destruct l; try contradiction.
  cbn in H. destruct H as (H1 & H2 & H3 & H4 & H5 & H6 & H7 & H8).
  exists len, attr, ts, off, kl, k, vl, v, hs. split; [reflexivity|]. repeat (split; [assumption|]). assumption.
Qed.

Lemma enc_varbytes_min len s : 1 <= blen (enc_varbytes len s).
Proof. unfold enc_varbytes. rewrite blen_app. pose proof (enc_varint_len len). pose proof (blen_nonneg s). lia. Qed.

Lemma rt_header h d r : wf_header h ->
  derr d = None -> inp d = enc_header h ++ r -> blen (enc_header h) <= remain d ->
  exists d', rd_header d = (h, d') /\ consumed d d' (enc_header h) r.
Proof.
  intros Hw He Hi Hr. destruct (wf_header_inv h Hw) as (kl & k & vl & v & -> & W1 & W2).
  cbn [enc_header] in *. rewrite <- app_assoc in Hi. rewrite blen_app in Hr.
  pose proof (enc_varbytes_min vl v). pose proof (enc_varbytes_min kl k).
  destruct (rt_varbytes kl k d (enc_varbytes vl v ++ r) W1 He Hi ltac:(lia)) as (d1 & d2 & E1 & E2 & C2).
  pose proof C2 as (I2 & R2 & N2 & T2).
  destruct (rt_varbytes vl v d2 r W2 N2 I2 ltac:(lia)) as (d3 & d4 & E3 & E4 & C4).
  unfold rd_header. rewrite E1, E2, E3, E4. exists d4. split; [reflexivity|].
  eapply consumed_trans; eassumption.
Qed.

Lemma header_loop_ok : forall hs fuel d r, Forall wf_header hs -> (List.length hs < fuel)%nat ->
  derr d = None -> inp d = List.concat (map enc_header hs) ++ r ->
  blen (List.concat (map enc_header hs)) <= remain d ->
  exists d', header_loop fuel (Z.of_nat (List.length hs)) d = Ok (hs, d') /\
             consumed d d' (List.concat (map enc_header hs)) r.
Proof.
  induction hs as [|h hs IH]; intros fuel d r Hw Hf He Hi Hr.
  - destruct fuel as [|f]; [cbn in Hf; lia|]. cbn [header_loop List.length Z.of_nat Z.leb Z.compare orb].
    exists d. split; [reflexivity|]. apply consumed_nil; assumption.
  - destruct fuel as [|f]; [cbn in Hf; lia|]. cbn [List.length] in *.
    pose proof (Forall_inv Hw) as Wh. pose proof (Forall_inv_tail Hw) as Wt.
    cbn [map List.concat] in Hi, Hr |- *. rewrite <- app_assoc in Hi. rewrite blen_app in Hr.
    destruct (wf_header_inv h Wh) as (kl & k & vl & v & Eh & W1 & W2).
    assert (Hmin : 2 <= blen (enc_header h)).
    { rewrite Eh. cbn [enc_header]. rewrite blen_app. pose proof (enc_varbytes_min kl k). pose proof (enc_varbytes_min vl v). lia. }
    pose proof (blen_nonneg (List.concat (map enc_header hs))) as Hc0.
    cbn [header_loop].
    replace (Z.of_nat (S (List.length hs)) <=? 0) with false by (symmetry; apply Z.leb_gt; lia).
    replace (remain d <=? 0) with false by (symmetry; apply Z.leb_gt; lia).
    rewrite He. cbn [orb].
    destruct (rt_header h (tick d) (List.concat (map enc_header hs) ++ r) Wh He Hi ltac:(cbn; lia)) as (d1 & E1 & C1).
    rewrite E1. pose proof C1 as (I1 & R1 & N1 & T1). cbn [tick remain tl] in R1, T1.
    replace (Z.of_nat (S (List.length hs)) - 1) with (Z.of_nat (List.length hs)) by lia.
    destruct (IH f d1 r Wt ltac:(lia) N1 I1 ltac:(lia)) as (d2 & E2 & C2).
    rewrite E2. cbn [bind]. exists d2. split; [reflexivity|].
    eapply consumed_trans; [|exact C2]. unfold consumed. repeat split; assumption.
Qed.

Lemma header_bytes_min hs : Forall wf_header hs -> 2 * Z.of_nat (List.length hs) <= blen (List.concat (map enc_header hs)).
Proof.
  induction hs as [|h hs IH]; intro Hw; cbn [map List.concat List.length]; [cbn; lia|].
  rewrite blen_app. specialize (IH (Forall_inv_tail Hw)).
  destruct (wf_header_inv h (Forall_inv Hw)) as (kl & k & vl & v & -> & _ & _).
  cbn [enc_header]. rewrite blen_app. pose proof (enc_varbytes_min kl k). pose proof (enc_varbytes_min vl v). lia.
Qed.

Lemma rt_record rc d r : wf_record rc ->
  derr d = None -> inp d = enc_record rc ++ r -> blen (enc_record rc) <= remain d ->
  exists d', decode_record d = Ok (rc, d') /\ consumed d d' (enc_record rc) r.
Proof.
  intros Hw He Hi Hr.
  destruct (wf_record_inv rc Hw) as (len & attr & ts & off & kl & k & vl & v & hs & -> & R1 & R2 & R3 & R4 & W5 & W6 & W7 & Rh).
  cbn [enc_record] in *. repeat rewrite <- app_assoc in Hi. repeat rewrite blen_app in Hr.
  pose proof (enc_varint_len len). pose proof (enc_varint_len ts). pose proof (enc_varint_len off).
  pose proof (enc_varbytes_min kl k). pose proof (enc_varbytes_min vl v).
  pose proof (enc_varint_len (Z.of_nat (List.length hs))).
  pose proof (blen_nonneg (List.concat (map enc_header hs))).
  pose proof (len_enc_int 1 attr) as La. change (Z.of_nat 1) with 1 in La.
  unfold decode_record.
  destruct (rt_varint len d _ R1 He Hi ltac:(lia)) as (d1 & E1 & C1). rewrite E1. pose proof C1 as (I1 & Q1 & N1 & T1).
  destruct (rt_int 1 attr d1 _ ltac:(lia) R2 N1 I1 ltac:(lia)) as (d2 & E2 & C2).
  change (Z.of_nat 1) with 1 in E2. rewrite E2. pose proof C2 as (I2 & Q2 & N2 & T2).
  destruct (rt_varint ts d2 _ R3 N2 I2 ltac:(lia)) as (d3 & E3 & C3). rewrite E3. pose proof C3 as (I3 & Q3 & N3 & T3).
  destruct (rt_varint off d3 _ R4 N3 I3 ltac:(lia)) as (d4 & E4 & C4). rewrite E4. pose proof C4 as (I4 & Q4 & N4 & T4).
  destruct (rt_varbytes kl k d4 _ W5 N4 I4 ltac:(lia)) as (d5 & d6 & E5 & E6 & C6). rewrite E5, E6. pose proof C6 as (I6 & Q6 & N6 & T6).
  destruct (rt_varbytes vl v d6 _ W6 N6 I6 ltac:(lia)) as (d7 & d8 & E7 & E8 & C8). rewrite E7, E8. pose proof C8 as (I8 & Q8 & N8 & T8).
  destruct (rt_varint (Z.of_nat (List.length hs)) d8 _ Rh N8 I8 ltac:(lia)) as (d9 & E9 & C9). rewrite E9. pose proof C9 as (I9 & Q9 & N9 & T9).
  pose proof (header_bytes_min hs W7) as Hhb.
  destruct (header_loop_ok hs (S (Z.to_nat (remain d9))) d9 r W7 ltac:(lia) N9 I9 ltac:(lia)) as (d10 & E10 & C10).
  rewrite E10. cbn [bind]. exists d10. split; [reflexivity|].
  destruct C10 as (I10 & Q10 & N10 & T10). unfold consumed. repeat rewrite blen_app.
  split; [exact I10|]. split; [lia|]. split; [exact N10|congruence].
Qed.

(* ------------------------------------------------------------------ the generic theorem *)
Lemma in_range_mono a b z : 0 < a -> a <= b -> in_range a z -> in_range b z.
Proof.
  intros Ha Hab [H1 H2]. unfold in_range.
  assert (2 ^ (a - 1) <= 2 ^ (b - 1)) by (apply Z.pow_le_mono_r; lia). lia.
Qed.

Lemma encode_min : forall t, plain t = true -> forall v, wf t v -> min_wire t <= blen (encode t v).
Proof.
  induction t as [ | | | | | | | e IHe | fs IHfs | | | | | e IHe | ] using ty_ind';
    intros Hp v Hw; cbn [plain] in Hp; try discriminate; cbn [min_wire].
  - destruct v; try contradiction. cbn. lia.
  - destruct v; try contradiction. cbn [encode]. rewrite len_enc_int. lia.
  - destruct v; try contradiction. cbn [encode]. rewrite len_enc_int. lia.
  - destruct v; try contradiction. cbn [encode]. rewrite len_enc_int. lia.
  - destruct v; try contradiction. cbn [encode]. rewrite len_enc_int. lia.
  - destruct v; try contradiction; cbn [encode]; [rewrite blen_app|]; rewrite len_enc_int; [pose proof (blen_nonneg s)|]; lia.
  - destruct v; try contradiction; cbn [encode]; [rewrite blen_app|]; rewrite len_enc_int; [pose proof (blen_nonneg (List.concat (map (encode e) l)))|]; lia.
  - destruct v as [| | | | |l|]; try contradiction. cbn [encode].
    revert l Hw. induction fs as [|f fs IH]; intros l Hw.
    + cbn. lia.
    + destruct l as [|x l]; [contradiction|]. destruct Hw as [Hx Hl].
      cbn [forallb] in Hp. apply andb_prop in Hp. destruct Hp as [Hpf Hpr].
      cbn [fold_right]. rewrite blen_app.
      pose proof (Forall_inv IHfs Hpf x Hx). specialize (IH (Forall_inv_tail IHfs) Hpr l Hl). lia.
  - cbn [encode]. cbn [wf] in Hw.
    destruct (wf_record_inv v Hw) as (len & attr & ts & off & kl & k & vl & vv & hs & -> & _).
    cbn [enc_record]. repeat rewrite blen_app.
    pose proof (enc_varint_len len). pose proof (enc_varint_len ts). pose proof (enc_varint_len off).
    pose proof (enc_varbytes_min kl k). pose proof (enc_varbytes_min vl vv).
    pose proof (enc_varint_len (Z.of_nat (List.length hs))).
    pose proof (blen_nonneg (List.concat (map enc_header hs))).
    pose proof (len_enc_int 1 attr) as La. change (Z.of_nat 1) with 1 in La. lia.
Qed.

Lemma elems_min e l : plain e = true -> 1 <= min_wire e ->
  (fix all (l : list kv) : Prop := match l with [] => True | x :: l' => wf e x /\ all l' end) l ->
  Z.of_nat (List.length l) <= blen (List.concat (map (encode e) l)).
Proof.
  intros Hp Hm. induction l as [|x l IH]; intro Hw; cbn [map List.concat List.length]; [cbn; lia|].
  destruct Hw as [Hx Hl]. rewrite blen_app. pose proof (encode_min e Hp x Hx). specialize (IH Hl). lia.
Qed.

Theorem kafka_roundtrip : forall t, plain t = true -> arrays_ok t = true -> forall v, wf t v ->
  forall d r, derr d = None -> inp d = encode t v ++ r -> blen (encode t v) <= remain d ->
  exists d', decode t d = Ok (norm t v, d') /\ consumed d d' (encode t v) r.
Proof.
  induction t as [ | | | | | | | e IHe | fs IHfs | | | | | e IHe | ] using ty_ind';
    intros Hp Ha v Hw d r He Hi Hr; cbn [plain] in Hp; try discriminate.
  - (* bool *)
    destruct v; try contradiction. cbn [encode norm decode] in *.
    unfold blen in Hr. cbn [List.length] in Hr.
    destruct b; cbn [app] in Hi.
    + rewrite (rd_byte_ok 1 d r) by (try assumption; lia). cbn. eexists. split; [reflexivity|].
      apply (consumed_advance d [byte_of_Z 1] r).
    + rewrite (rd_byte_ok 0 d r) by (try assumption; lia). cbn. eexists. split; [reflexivity|].
      apply (consumed_advance d [byte_of_Z 0] r).
  - destruct v; try contradiction. cbn [encode norm decode wf] in *.
    destruct (rt_int 1 z d r ltac:(lia) Hw He Hi Hr) as (d' & E & C). change (Z.of_nat 1) with 1 in E. rewrite E. eauto.
  - destruct v; try contradiction. cbn [encode norm decode wf] in *.
    destruct (rt_int 2 z d r ltac:(lia) Hw He Hi Hr) as (d' & E & C). change (Z.of_nat 2) with 2 in E. rewrite E. eauto.
  - destruct v; try contradiction. cbn [encode norm decode wf] in *.
    destruct (rt_int 4 z d r ltac:(lia) Hw He Hi Hr) as (d' & E & C). change (Z.of_nat 4) with 4 in E. rewrite E. eauto.
  - destruct v; try contradiction. cbn [encode norm decode wf] in *.
    destruct (rt_int 8 z d r ltac:(lia) Hw He Hi Hr) as (d' & E & C). change (Z.of_nat 8) with 8 in E. rewrite E. eauto.
  - (* string *)
    destruct v; try contradiction; cbn [encode norm decode wf] in *; unfold rd_string.
    + rewrite <- app_assoc in Hi. rewrite blen_app, len_enc_int in Hr. pose proof (blen_nonneg s) as Hs0.
      assert (Hrg : in_range (8 * Z.of_nat 2) (zlen s)).
      { unfold in_range. change (2 ^ (8 * Z.of_nat 2 - 1)) with 32768. unfold zlen, blen in *. lia. }
      destruct (rt_int 2 (zlen s) d (s ++ r) ltac:(lia) Hrg He Hi ltac:(rewrite len_enc_int; lia)) as (d1 & E1 & C1).
      change (Z.of_nat 2) with 2 in E1. rewrite E1. pose proof C1 as (I1 & Q1 & N1 & T1). rewrite len_enc_int in Q1.
      destruct (zlen s <? 0) eqn:E; [apply Z.ltb_lt in E; unfold zlen in E; lia|].
      destruct (rt_blob (zlen s) s d1 r N1 I1 eq_refl ltac:(unfold zlen; fold (blen s); lia)) as (d2 & E2 & C2).
      rewrite E2. exists d2. split; [reflexivity|]. eapply consumed_trans; eassumption.
    + assert (Hrg : in_range (8 * Z.of_nat 2) (-1)) by (unfold in_range; change (2 ^ (8 * Z.of_nat 2 - 1)) with 32768; lia).
      destruct (rt_int 2 (-1) d r ltac:(lia) Hrg He Hi Hr) as (d1 & E1 & C1).
      change (Z.of_nat 2) with 2 in E1. rewrite E1. cbn. eauto.
  - (* array *)
    cbn [arrays_ok] in Ha. apply andb_prop in Ha. destruct Ha as [Hm Hae]. apply Z.leb_le in Hm.
    destruct v as [| | | |l| |]; try contradiction; cbn [encode norm decode wf] in *.
    + destruct Hw as [Hn Hall].
      rewrite <- app_assoc in Hi. rewrite blen_app, len_enc_int in Hr.
      pose proof (elems_min e l Hp Hm Hall) as Hel.
      set (n := Z.of_nat (List.length l)) in *.
      assert (Hrg : in_range (8 * Z.of_nat 4) n).
      { unfold in_range. change (2 ^ (8 * Z.of_nat 4 - 1)) with 2147483648. lia. }
      destruct (rt_int 4 n d (List.concat (map (encode e) l) ++ r) ltac:(lia) Hrg He Hi ltac:(rewrite len_enc_int; lia)) as (d1 & E1 & C1).
      change (Z.of_nat 4) with 4 in E1. rewrite E1. pose proof C1 as (I1 & Q1 & N1 & T1). rewrite len_enc_int in Q1.
      replace ((n <? 0) || (65535 <? n)) with false.
      2:{ symmetry. apply Bool.orb_false_iff. split; [apply Z.ltb_ge|apply Z.ltb_ge]; lia. }
      replace (Z.min n (Z.max 0 (remain d1))) with n by lia.
      subst n. rewrite Nat2Z.id.
      (* the loop *)
      assert (Hloop : forall l d1 r, (fix all (l : list kv) : Prop := match l with [] => True | x :: l' => wf e x /\ all l' end) l ->
                derr d1 = None -> inp d1 = List.concat (map (encode e) l) ++ r ->
                blen (List.concat (map (encode e) l)) <= remain d1 ->
                exists d2, arr_loop (decode e) (List.length l) d1 = Ok (map (norm e) l, d2) /\
                           consumed d1 d2 (List.concat (map (encode e) l)) r).
      { clear - IHe Hp Hae Hm. induction l as [|x l IH]; intros d1 r Hall N1 I1 R1.
        - cbn. exists d1. split; [reflexivity|]. apply consumed_nil; assumption.
        - destruct Hall as [Hx Hl]. cbn [map List.concat List.length arr_loop] in *.
          rewrite <- app_assoc in I1. rewrite blen_app in R1.
          pose proof (encode_min e Hp x Hx). pose proof (blen_nonneg (List.concat (map (encode e) l))).
          replace (remain d1 <=? 0) with false by (symmetry; apply Z.leb_gt; lia). rewrite N1. cbn [orb].
          destruct (IHe Hp Hae x Hx (tick d1) (List.concat (map (encode e) l) ++ r) N1 I1 ltac:(cbn; lia)) as (d2 & E2 & C2).
          rewrite E2. cbn [bind]. pose proof C2 as (I2 & Q2 & N2 & T2). cbn [tick remain tl] in Q2, T2.
          destruct (IH d2 r Hl N2 I2 ltac:(lia)) as (d3 & E3 & C3). rewrite E3. cbn [bind].
          exists d3. split; [reflexivity|]. eapply consumed_trans; [|exact C3].
          unfold consumed. repeat split; assumption. }
      destruct (Hloop l (charge (Z.of_nat (List.length l) * gosize e) d1) r Hall N1 I1 ltac:(cbn; lia)) as (d2 & E2 & C2).
      rewrite E2. cbn [bind]. exists d2. split; [reflexivity|].
      eapply consumed_trans; [exact C1|]. destruct C2 as (I2 & Q2 & N2 & T2). unfold consumed. repeat split; assumption.
    + assert (Hrg : in_range (8 * Z.of_nat 4) (-1)) by (unfold in_range; change (2 ^ (8 * Z.of_nat 4 - 1)) with 2147483648; lia).
      destruct (rt_int 4 (-1) d r ltac:(lia) Hrg He Hi Hr) as (d1 & E1 & C1).
      change (Z.of_nat 4) with 4 in E1. rewrite E1. cbn. eauto.
  - (* struct *)
    destruct v as [| | | | |l|]; try contradiction. cbn [encode norm decode wf arrays_ok] in *.
    match goal with |- context [bind (?g fs d) _] => remember g as go eqn:Hgo end.
    match goal with |- context [KStruct (?g fs l)] => remember g as ng eqn:Hng end.
    match type of Hi with context [?g fs l ++ r] => remember g as eg eqn:Heg end.
    assert (Hfs : forall l d r,
               (fix go (fs : list (string * ty)) (l : list kv) : Prop :=
                  match fs, l with
                  | [], [] => True
                  | f :: fs', x :: l' => wf (snd f) x /\ go fs' l'
                  | _, _ => False
                  end) fs l ->
               derr d = None -> inp d = eg fs l ++ r -> blen (eg fs l) <= remain d ->
               exists d', go fs d = Ok (ng fs l, d') /\ consumed d d' (eg fs l) r).
    { clear l d r Hw He Hi Hr. induction fs as [|f fs IH]; intros l d r Hw He Hi Hr.
      - destruct l; [|contradiction]. rewrite Hgo, Hng, Heg in *. cbn in *.
        exists d. split; [reflexivity|]. apply consumed_nil; assumption.
      - destruct l as [|x l]; [contradiction|]. destruct Hw as [Hx Hl].
        cbn [forallb] in Hp, Ha. apply andb_prop in Hp. destruct Hp as [Hpf Hpr].
        apply andb_prop in Ha. destruct Ha as [Haf Har].
        rewrite Hgo, Hng, Heg in *. cbn in Hi, Hr |- *. rewrite <- Hgo, <- Hng, <- Heg in *.
        rewrite <- app_assoc in Hi. rewrite blen_app in Hr.
        pose proof (blen_nonneg (eg fs l)) as H0.
        destruct (Forall_inv IHfs Hpf Haf x Hx d (eg fs l ++ r) He Hi ltac:(lia)) as (d1 & E1 & C1).
        rewrite E1. cbn [bind]. pose proof C1 as (I1 & Q1 & N1 & T1).
        destruct (IH (Forall_inv_tail IHfs) Hpr Har l d1 r Hl N1 I1 ltac:(lia)) as (d2 & E2 & C2).
        rewrite E2. cbn [bind]. exists d2. split; [reflexivity|]. eapply consumed_trans; eassumption. }
    destruct (Hfs l d r Hw He Hi Hr) as (d' & E & C). rewrite E. cbn [bind]. eauto.
  - (* record *)
    cbn [encode norm decode wf] in *.
    destruct (rt_record v d r Hw He Hi Hr) as (d' & E & C). rewrite E.
    exists d'. split; [|exact C]. destruct v; reflexivity.
Qed.
