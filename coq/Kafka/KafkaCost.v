(* C02, Kafka share: the number of steps of the reflective decoder is linear in the bytes it
   consumes.  B K S d d': going from d to d' took at most K * (bytes consumed) + S steps, and at
   most K * (bytes consumed) when d' carries no error: every read that does not fail consumes at
   least one byte, an array iteration decodes an element of at least one byte or is the last
   one, and after the first error every loop stops. *)
Require Import V.Base.Prelude V.Kafka.KafkaTy V.Kafka.KafkaModel V.Kafka.KafkaLift V.Kafka.KafkaFrame V.Kafka.KafkaC01.
Require Import V.Kafka.KafkaSpecEnc.
Require Import Coq.Strings.String.
Local Open Scope Z_scope.

Definition B (K S : Z) (d d' : dstate) : Prop :=
  0 <= remain d ->
  steps d' - steps d <= K * (remain d - remain d') + S /\
  (derr d' = None -> steps d' - steps d <= K * (remain d - remain d')).

Lemma B_refl K d : B K 0 d d.
Proof. intro H. split; intros; lia. Qed.

Lemma B_weaken K S K' S' d d' : mono d d' -> K <= K' -> S <= S' -> B K S d d' -> B K' S' d d'.
Proof.
  intros Hm HK HS HB H0. destruct (HB H0) as [H1 H2]. destruct (Hm H0) as (_ & Hle & _).
  assert (0 <= remain d - remain d') by lia.
  split; [|intro He; specialize (H2 He)]; nia.
Qed.

Lemma B_trans K S1 S2 d d1 d2 : mono d d1 -> mono d1 d2 -> B K S1 d d1 -> B K S2 d1 d2 -> B K (S1 + S2) d d2.
Proof.
  intros M1 M2 B1 B2 H0. destruct (M1 H0) as (R1 & _). destruct (B1 H0) as [A1 T1]. destruct (B2 R1) as [A2 T2].
  split; [lia|]. intro He. pose proof (sticky_none d1 d2 M2 R1 He) as He1. specialize (T1 He1). specialize (T2 He). lia.
Qed.

(* ------------------------------------------------------------------ primitives *)
Lemma set_error_some e d : derr (set_error e d) <> None.
Proof.
  unfold set_error. destruct (derr d) eqn:E; [rewrite E; discriminate|].
  unfold discard_all. cbn [remain inp tl derr with_err steps alloc].
  destruct (remain d <=? 0); [cbn; discriminate|].
  destruct (remain d <=? blen (inp d)); [cbn; discriminate|]. destruct (hit (tl d)). cbn. discriminate.
Qed.

Lemma set_error_steps e d : steps (set_error e d) = steps d.
Proof.
  unfold set_error. destruct (derr d); [reflexivity|].
  unfold discard_all. cbn [remain inp tl derr with_err steps alloc].
  destruct (remain d <=? 0); [reflexivity|].
  destruct (remain d <=? blen (inp d)); [reflexivity|]. destruct (hit (tl d)). reflexivity.
Qed.

Lemma rd_steps n d : steps (snd (rd n d)) = steps d + 1.
Proof.
  unfold rd. destruct (n <=? 0); [reflexivity|]. destruct (derr (tick d)); [reflexivity|].
  destruct (remain (tick d) <=? 0); [cbn [snd]; rewrite set_error_steps; reflexivity|].
  destruct (Z.min n (remain (tick d)) <=? blen (inp (tick d))).
  - destruct (n <=? remain (tick d)); cbn [snd]; [reflexivity|rewrite set_error_steps; reflexivity].
  - destruct (hit (tl (tick d))). cbn [snd]. rewrite set_error_steps. reflexivity.
Qed.

(* a read of n > 0 bytes that does not leave an error consumed n bytes *)
Lemma rd_noerr n d : 0 < n -> 0 <= remain d ->
  derr (snd (rd n d)) = None -> remain (snd (rd n d)) = remain d - n /\ snd (fst (rd n d)) = true.
Proof.
  intros Hn Hr. unfold rd. destruct (n <=? 0) eqn:E; [apply Z.leb_le in E; lia|].
  destruct (derr (tick d)) eqn:Ee; [cbn [snd]; rewrite Ee; discriminate|].
  destruct (remain (tick d) <=? 0); [cbn [snd]; intro H; exfalso; eapply set_error_some; exact H|].
  destruct (Z.min n (remain (tick d)) <=? blen (inp (tick d))).
  - destruct (n <=? remain (tick d)) eqn:E2; cbn [snd fst].
    + apply Z.leb_le in E2. intros _. cbn [remain tick] in *. split; [lia|reflexivity].
    + intro H. exfalso. eapply set_error_some. exact H.
  - destruct (hit (tl (tick d))). cbn [snd]. intro H. exfalso. eapply set_error_some. exact H.
Qed.

Lemma B_rd n d : 0 < n -> B 1 1 d (snd (rd n d)).
Proof.
  intros Hn H0. rewrite rd_steps. destruct (mono_rd n d H0) as (R1 & L1 & _).
  split; [lia|]. intro He. destruct (rd_noerr n d Hn H0 He) as [Hc _]. lia.
Qed.

Lemma B_rd_int k d : 0 < k -> B 1 1 d (snd (rd_int k d)).
Proof.
  intros Hk. unfold rd_int. pose proof (B_rd k d Hk) as H. destruct (rd k d) as [[b ok] d1]. exact H.
Qed.

Lemma B_rd_byte d : B 1 1 d (snd (rd_byte d)).
Proof.
  unfold rd_byte. pose proof (B_rd 1 d ltac:(lia)) as H. destruct (rd 1 d) as [[b ok] d1]. exact H.
Qed.

(* an int read without error returns the bytes' value; a failed one returns 0 *)
Lemma rd_int_fail k d : 0 < k -> 0 <= remain d -> derr (snd (rd_int k d)) <> None ->
  derr d = None -> fst (rd_int k d) = 0.
Proof.
  intros Hk H0 He Hd. unfold rd_int in *. destruct (rd k d) as [[b ok] d1] eqn:E. cbn [fst snd] in *.
  destruct ok; [|reflexivity]. exfalso. apply He.
  apply rd_true in E; [|exact Hk]. destruct E as (_ & _ & E). exact E.
Qed.

Lemma rd_alloc_steps n d : steps (snd (rd_alloc n d)) = steps d + 1.
Proof.
  unfold rd_alloc. pose proof (rd_steps n (charge (Z.min n (remain d)) d)) as H.
  destruct (rd n (charge (Z.min n (remain d)) d)) as [[b ok] d1]. cbn [snd] in *. exact H.
Qed.

(* string: at most two steps; two bytes at least when no error is left *)
Lemma B_rd_string d : B 1 2 d (snd (rd_string d)).
Proof.
  intros H0. unfold rd_string.
  pose proof (rd_steps 2 d) as S1. pose proof (mono_rd_int 2 d H0) as (R1 & L1 & _).
  pose proof (rd_noerr 2 d ltac:(lia) H0) as N1.
  unfold rd_int in *. destruct (rd 2 d) as [[b ok] d1] eqn:E1. cbn [snd fst] in *.
  destruct ((if ok then sgn (8 * 2) (be b) else 0) <? 0).
  - cbn [snd]. split; [lia|]. intro He. destruct (N1 He). lia.
  - pose proof (rd_alloc_steps (if ok then sgn (8 * 2) (be b) else 0) d1) as S2.
    pose proof (R_rd_alloc mono mono_trans mono_rd mono_charge (if ok then sgn (8 * 2) (be b) else 0) d1) as M2.
    destruct (rd_alloc _ d1) as [s d2]. cbn [snd] in *. destruct (M2 R1) as (R2 & L2 & _).
    split; [lia|]. intro He. pose proof (sticky_none d1 d2 M2 R1 He) as He1. destruct (N1 He1). lia.
Qed.

Lemma B_varint_loop n : forall x s d, B 1 (Z.of_nat n) d (snd (varint_loop n x s d)).
Proof.
  induction n as [|n IH]; intros x s d.
  - cbn [varint_loop snd]. apply B_refl.
  - cbn [varint_loop]. pose proof (B_rd_byte d) as B1. pose proof (mono_rd_byte d) as M1.
    destruct (rd_byte d) as [b d1]. cbn [snd] in B1, M1.
    destruct (b <? 128).
    + cbn [snd]. eapply B_weaken; [exact M1| |  |exact B1]; lia.
    + pose proof (IH ((x + b mod 128 * 2 ^ s) mod 2 ^ 64) (s + 7) d1) as B2.
      pose proof (mono_varint_loop n ((x + b mod 128 * 2 ^ s) mod 2 ^ 64) (s + 7) d1) as M2.
      destruct (varint_loop n _ _ d1) as [o d2]. cbn [snd] in *.
      replace (Z.of_nat (S n)) with (1 + Z.of_nat n) by lia.
      eapply B_trans; eassumption.
Qed.

Lemma B_rd_varint d : B 1 11 d (snd (rd_varint d)).
Proof.
  intro H0. unfold rd_varint.
  set (n := Z.to_nat (Z.min 11 (Z.max 0 (remain d)))).
  pose proof (B_varint_loop n 0 0 d H0) as [A T]. pose proof (mono_varint_loop n 0 0 d H0) as (R1 & _).
  destruct (varint_loop n 0 0 d) as [[x|] d1]; cbn [snd] in *.
  - assert (Z.of_nat n <= 11) by (subst n; lia). split; [lia|exact T].
  - rewrite set_error_steps. pose proof (mono_set_error EProto d1 R1) as (_ & L2 & _).
    assert (Z.of_nat n <= 11) by (subst n; lia).
    split; [lia|]. intro He. exfalso. eapply set_error_some. exact He.
Qed.

(* a varint read without error consumed at least one byte *)
Lemma rd_varint_cons d : 0 <= remain d -> derr (snd (rd_varint d)) = None -> 1 <= remain d - remain (snd (rd_varint d)).
Proof.
  intros H0 He.
  assert (Hd : derr d = None) by (eapply sticky_none; [apply mono_rd_varint|exact H0|exact He]).
  destruct (Z_le_gt_dec (remain d) 0) as [Hz|Hp].
  - (* nothing left: the read fails *)
    exfalso. unfold rd_varint in He. replace (Z.to_nat (Z.min 11 (Z.max 0 (remain d)))) with O in He by lia.
    cbn [varint_loop snd] in He. eapply set_error_some. exact He.
  - pose proof (rd_varint_progress d Hd ltac:(lia)) as P. cbn zeta in P. specialize (P He). lia.
Qed.

(* readVarString: at most one step *)
Lemma rd_varstring_steps n d : steps d <= steps (snd (rd_varstring n d)) <= steps d + 1.
Proof.
  unfold rd_varstring. destruct (n <=? 0); [cbn [snd]; lia|]. rewrite rd_alloc_steps. lia.
Qed.

(* ------------------------------------------------------------------ record headers *)
Lemma B_header_iter d : B 3 25 d (snd (rd_header (tick d))).
Proof.
  intro H0. unfold rd_header.
  assert (H0' : 0 <= remain (tick d)) by exact H0.
  pose proof (B_rd_varint (tick d) H0') as [A1 T1]. pose proof (mono_rd_varint (tick d) H0') as (R1 & L1 & _).
  pose proof (rd_varint_cons (tick d) H0') as C1. pose proof (mono_rd_varint (tick d)) as M1.
  destruct (rd_varint (tick d)) as [kl d1]. cbn [snd] in *.
  pose proof (rd_varstring_steps kl d1) as S2. pose proof (mono_rd_varstring kl d1) as M2.
  destruct (rd_varstring kl d1) as [k d2]. cbn [snd] in *. destruct (M2 R1) as (R2 & L2 & _).
  pose proof (B_rd_varint d2 R2) as [A3 T3]. pose proof (rd_varint_cons d2 R2) as C3. pose proof (mono_rd_varint d2) as M3.
  destruct (rd_varint d2) as [vl d3]. cbn [snd] in *. destruct (M3 R2) as (R3 & L3 & _).
  pose proof (rd_varstring_steps vl d3) as S4. pose proof (mono_rd_varstring vl d3) as M4.
  destruct (rd_varstring vl d3) as [v d4]. cbn [snd] in *. destruct (M4 R3) as (R4 & L4 & _).
  cbn [tick steps remain] in *.
  split; [lia|]. intro He.
  pose proof (sticky_none d3 d4 M4 R3 He) as N3. pose proof (sticky_none d2 d3 M3 R2 N3) as N2.
  pose proof (sticky_none d1 d2 M2 R1 N2) as N1.
  specialize (T1 N1). specialize (T3 N3). specialize (C1 N1). specialize (C3 N3). lia.
Qed.

Lemma header_loop_err f n d hs d' : derr d <> None -> header_loop f n d = Ok (hs, d') -> d' = d.
Proof.
  intros He H. destruct f as [|f]; [discriminate|]. cbn [header_loop] in H.
  destruct (derr d); [|contradiction]. rewrite !Bool.orb_true_r in H. injection H as _ <-. reflexivity.
Qed.

Lemma B_header_loop fuel : forall n d hs d', header_loop fuel n d = Ok (hs, d') -> B 3 25 d d'.
Proof.
  induction fuel as [|f IH]; intros n d hs d' H; [discriminate|]. cbn [header_loop] in H.
  destruct ((n <=? 0) || (remain d <=? 0) || _).
  - injection H as _ <-. eapply B_weaken; [apply mono_refl| | |apply (B_refl 3)]; lia.
  - pose proof (B_header_iter d) as Bi. pose proof (mono_rd_header (tick d)) as Mi.
    destruct (rd_header (tick d)) as [h d1]. cbn [snd] in *.
    destruct (header_loop f (n - 1) d1) as [[hs2 d2]| | |] eqn:E; cbn [bind] in H; try discriminate.
    injection H as _ <-.
    destruct (derr d1) eqn:E1.
    + assert (d2 = d1) by (eapply header_loop_err; [|exact E]; rewrite E1; discriminate). subst d2. exact Bi.
    + intro H0. destruct (Bi H0) as [A1 T1]. specialize (T1 E1).
      destruct (Mi H0) as (R1 & L1 & _).
      destruct (IH _ _ _ _ E R1) as [A2 T2].
      split; [lia|]. intro He. specialize (T2 He). lia.
Qed.

(* ------------------------------------------------------------------ a record *)
Lemma B_decode_record d v d' : decode_record d = Ok (v, d') -> B 3 94 d d'.
Proof.
  unfold decode_record. intros H H0.
  pose proof (B_rd_varint d H0) as [A1 T1]. pose proof (rd_varint_cons d H0) as C1. pose proof (mono_rd_varint d) as M1.
  destruct (rd_varint d) as [len d1]. cbn [snd] in *. destruct (M1 H0) as (R1 & L1 & _).
  pose proof (B_rd_int 1 d1 ltac:(lia) R1) as [A2 T2]. pose proof (mono_rd_int 1 d1) as M2.
  destruct (rd_int 1 d1) as [attr d2]. cbn [snd] in *. destruct (M2 R1) as (R2 & L2 & _).
  pose proof (B_rd_varint d2 R2) as [A3 T3]. pose proof (rd_varint_cons d2 R2) as C3. pose proof (mono_rd_varint d2) as M3.
  destruct (rd_varint d2) as [ts d3]. cbn [snd] in *. destruct (M3 R2) as (R3 & L3 & _).
  pose proof (B_rd_varint d3 R3) as [A4 T4]. pose proof (rd_varint_cons d3 R3) as C4. pose proof (mono_rd_varint d3) as M4.
  destruct (rd_varint d3) as [off d4]. cbn [snd] in *. destruct (M4 R3) as (R4 & L4 & _).
  pose proof (B_rd_varint d4 R4) as [A5 T5]. pose proof (rd_varint_cons d4 R4) as C5. pose proof (mono_rd_varint d4) as M5.
  destruct (rd_varint d4) as [kl d5]. cbn [snd] in *. destruct (M5 R4) as (R5 & L5 & _).
  pose proof (rd_varstring_steps kl d5) as S6. pose proof (mono_rd_varstring kl d5) as M6.
  destruct (rd_varstring kl d5) as [k d6]. cbn [snd] in *. destruct (M6 R5) as (R6 & L6 & _).
  pose proof (B_rd_varint d6 R6) as [A7 T7]. pose proof (rd_varint_cons d6 R6) as C7. pose proof (mono_rd_varint d6) as M7.
  destruct (rd_varint d6) as [vl d7]. cbn [snd] in *. destruct (M7 R6) as (R7 & L7 & _).
  pose proof (rd_varstring_steps vl d7) as S8. pose proof (mono_rd_varstring vl d7) as M8.
  destruct (rd_varstring vl d7) as [vv d8]. cbn [snd] in *. destruct (M8 R7) as (R8 & L8 & _).
  pose proof (B_rd_varint d8 R8) as [A9 T9]. pose proof (rd_varint_cons d8 R8) as C9. pose proof (mono_rd_varint d8) as M9.
  destruct (rd_varint d8) as [hn d9]. cbn [snd] in *. destruct (M9 R8) as (R9 & L9 & _).
  destruct (header_loop (S (Z.to_nat (remain d9))) hn d9) as [[hs d10]| | |] eqn:E; cbn [bind] in H; try discriminate.
  injection H as _ <-.
  pose proof (B_header_loop _ _ _ _ _ E R9) as [A10 T10].
  pose proof (R_header_loop mono mono_refl mono_trans mono_rd mono_set_error mono_charge mono_tick _ _ _ _ _ E) as M10.
  destruct (M10 R9) as (R10 & L10 & _).
  split; [lia|]. intro He.
  pose proof (sticky_none d9 d10 M10 R9 He) as N9. pose proof (sticky_none d8 d9 M9 R8 N9) as N8.
  pose proof (sticky_none d7 d8 M8 R7 N8) as N7. pose proof (sticky_none d6 d7 M7 R6 N7) as N6.
  pose proof (sticky_none d5 d6 M6 R5 N6) as N5. pose proof (sticky_none d4 d5 M5 R4 N5) as N4.
  pose proof (sticky_none d3 d4 M4 R3 N4) as N3. pose proof (sticky_none d2 d3 M3 R2 N3) as N2.
  pose proof (sticky_none d1 d2 M2 R1 N2) as N1.
  specialize (T1 N1). specialize (T2 N2). specialize (T3 N3). specialize (T4 N4). specialize (T5 N5).
  specialize (T7 N7). specialize (T9 N9). specialize (T10 He).
  specialize (C1 N1). specialize (C3 N3). specialize (C4 N4). specialize (C5 N5). specialize (C7 N7). specialize (C9 N9).
  lia.
Qed.

Lemma decode_record_cons d v d' : decode_record d = Ok (v, d') -> 0 <= remain d -> derr d' = None -> 7 <= remain d - remain d'.
Proof.
  unfold decode_record. intros H H0 He.
  pose proof (rd_varint_cons d H0) as C1. pose proof (mono_rd_varint d) as M1.
  destruct (rd_varint d) as [len d1]. cbn [snd] in *. destruct (M1 H0) as (R1 & L1 & _).
  pose proof (rd_noerr 1 d1 ltac:(lia) R1) as C2. pose proof (mono_rd_int 1 d1) as M2.
  unfold rd_int in *. destruct (rd 1 d1) as [[b2 ok2] d2]. cbn [snd fst] in *. destruct (M2 R1) as (R2 & L2 & _).
  pose proof (rd_varint_cons d2 R2) as C3. pose proof (mono_rd_varint d2) as M3.
  destruct (rd_varint d2) as [ts d3]. cbn [snd] in *. destruct (M3 R2) as (R3 & L3 & _).
  pose proof (rd_varint_cons d3 R3) as C4. pose proof (mono_rd_varint d3) as M4.
  destruct (rd_varint d3) as [off d4]. cbn [snd] in *. destruct (M4 R3) as (R4 & L4 & _).
  pose proof (rd_varint_cons d4 R4) as C5. pose proof (mono_rd_varint d4) as M5.
  destruct (rd_varint d4) as [kl d5]. cbn [snd] in *. destruct (M5 R4) as (R5 & L5 & _).
  pose proof (mono_rd_varstring kl d5) as M6.
  destruct (rd_varstring kl d5) as [k d6]. cbn [snd] in *. destruct (M6 R5) as (R6 & L6 & _).
  pose proof (rd_varint_cons d6 R6) as C7. pose proof (mono_rd_varint d6) as M7.
  destruct (rd_varint d6) as [vl d7]. cbn [snd] in *. destruct (M7 R6) as (R7 & L7 & _).
  pose proof (mono_rd_varstring vl d7) as M8.
  destruct (rd_varstring vl d7) as [vv d8]. cbn [snd] in *. destruct (M8 R7) as (R8 & L8 & _).
  pose proof (rd_varint_cons d8 R8) as C9. pose proof (mono_rd_varint d8) as M9.
  destruct (rd_varint d8) as [hn d9]. cbn [snd] in *. destruct (M9 R8) as (R9 & L9 & _).
  destruct (header_loop (S (Z.to_nat (remain d9))) hn d9) as [[hs d10]| | |] eqn:E; cbn [bind] in H; try discriminate.
  injection H as _ <-.
  pose proof (R_header_loop mono mono_refl mono_trans mono_rd mono_set_error mono_charge mono_tick _ _ _ _ _ E) as M10.
  destruct (M10 R9) as (R10 & L10 & _).
  pose proof (sticky_none d9 d10 M10 R9 He) as N9. pose proof (sticky_none d8 d9 M9 R8 N9) as N8.
  pose proof (sticky_none d7 d8 M8 R7 N8) as N7. pose proof (sticky_none d6 d7 M7 R6 N7) as N6.
  pose proof (sticky_none d5 d6 M6 R5 N6) as N5. pose proof (sticky_none d4 d5 M5 R4 N5) as N4.
  pose proof (sticky_none d3 d4 M4 R3 N4) as N3. pose proof (sticky_none d2 d3 M3 R2 N3) as N2.
  pose proof (sticky_none d1 d2 M2 R1 N2) as N1.
  specialize (C1 N1). destruct (C2 N2) as [C2' _]. specialize (C3 N3). specialize (C4 N4). specialize (C5 N5).
  specialize (C7 N7). specialize (C9 N9). lia.
Qed.

(* ------------------------------------------------------------------ progress: a decode that leaves no error consumed at least min_wire bytes *)
Lemma min_wire_nonneg t : plain t = true -> 0 <= min_wire t.
Proof.
  induction t as [ | | | | | | | e IHe | fs IHfs | | | | | e IHe | ] using ty_ind'; intro Hp; cbn [plain] in Hp;
    try discriminate; cbn [min_wire]; try lia.
  induction fs as [|f fs IH]; cbn [fold_right]; [lia|].
  cbn [forallb] in Hp. apply andb_prop in Hp. destruct Hp as [Hf Hr].
  pose proof (Forall_inv IHfs Hf). specialize (IH (Forall_inv_tail IHfs) Hr). lia.
Qed.

Lemma decode_cons : forall t, plain t = true -> forall d v d', decode t d = Ok (v, d') ->
  0 <= remain d -> derr d' = None -> min_wire t <= remain d - remain d'.
Proof.
  induction t as [ | | | | | | | e IHe | fs IHfs | | | | | e IHe | ] using ty_ind';
    intros Hp d v d' H H0 He; cbn [plain] in Hp; try discriminate; cbn [decode min_wire] in *.
  - unfold rd_byte in H. pose proof (rd_noerr 1 d ltac:(lia) H0) as C. destruct (rd 1 d) as [[b ok] d1].
    injection H as _ <-. destruct (C He). cbn [snd] in *. lia.
  - unfold rd_int in H. pose proof (rd_noerr 1 d ltac:(lia) H0) as C. destruct (rd 1 d) as [[b ok] d1].
    injection H as _ <-. destruct (C He). cbn [snd] in *. lia.
  - unfold rd_int in H. pose proof (rd_noerr 2 d ltac:(lia) H0) as C. destruct (rd 2 d) as [[b ok] d1].
    injection H as _ <-. destruct (C He). cbn [snd] in *. lia.
  - unfold rd_int in H. pose proof (rd_noerr 4 d ltac:(lia) H0) as C. destruct (rd 4 d) as [[b ok] d1].
    injection H as _ <-. destruct (C He). cbn [snd] in *. lia.
  - unfold rd_int in H. pose proof (rd_noerr 8 d ltac:(lia) H0) as C. destruct (rd 8 d) as [[b ok] d1].
    injection H as _ <-. destruct (C He). cbn [snd] in *. lia.
  - (* string *)
    unfold rd_string, rd_int in H. pose proof (rd_noerr 2 d ltac:(lia) H0) as C. pose proof (mono_rd 2 d) as M1.
    destruct (rd 2 d) as [[b ok] d1]. cbn [snd] in *. destruct (M1 H0) as (R1 & L1 & _).
    destruct ((if ok then sgn (8 * 2) (be b) else 0) <? 0).
    + injection H as _ <-. destruct (C He). lia.
    + pose proof (R_rd_alloc mono mono_trans mono_rd mono_charge (if ok then sgn (8 * 2) (be b) else 0) d1) as M2.
      destruct (rd_alloc _ d1) as [s d2]. cbn [snd] in *. injection H as _ <-.
      destruct (M2 R1) as (R2 & L2 & _). pose proof (sticky_none d1 d2 M2 R1 He) as N1. destruct (C N1). lia.
  - (* array: the count *)
    unfold rd_int in H. pose proof (rd_noerr 4 d ltac:(lia) H0) as C. pose proof (mono_rd 4 d) as M1.
    destruct (rd 4 d) as [[b ok] d1]. cbn [snd] in *. destruct (M1 H0) as (R1 & L1 & _).
    destruct (((if ok then sgn (8 * 4) (be b) else 0) <? 0) || (65535 <? (if ok then sgn (8 * 4) (be b) else 0))).
    + injection H as _ <-. destruct (C He). lia.
    + destruct (arr_loop (decode e) _ _) as [[vs d2]| | |] eqn:E; cbn [bind] in H; try discriminate.
      injection H as _ <-.
      pose proof (R_arr_loop mono mono_refl mono_trans mono_tick (decode e) (mono_decode e) _ _ _ _ E) as M2.
      assert (Rc : 0 <= remain (charge (Z.min (if ok then sgn (8 * 4) (be b) else 0) (Z.max 0 (remain d1)) * gosize e) d1)) by exact R1.
      destruct (M2 Rc) as (R2 & L2 & _). pose proof (sticky_none _ d2 M2 Rc He) as N1. cbn [charge derr remain] in *.
      destruct (C N1). lia.
  - (* struct *)
    match type of H with context [bind (?g fs d) _] => remember g as go eqn:Hgo end.
    assert (Hfs : forall d vs d', go fs d = Ok (vs, d') -> 0 <= remain d -> derr d' = None ->
                  fold_right (fun f acc => min_wire (snd f) + acc) 0 fs <= remain d - remain d' /\ mono d d').
    { clear d v d' H H0 He. induction fs as [|f fs IH]; intros d vs d' Hg H0 He; rewrite Hgo in Hg; cbn in Hg.
      - injection Hg as _ <-. cbn [fold_right]. split; [lia|apply mono_refl].
      - rewrite <- Hgo in Hg. clear Hgo.
        cbn [forallb] in Hp. apply andb_prop in Hp. destruct Hp as [Hpf Hpr].
        destruct (decode (snd f) d) as [[v1 d1]| | |] eqn:E1; cbn [bind] in Hg; try discriminate.
        destruct (go fs d1) as [[vs2 d2]| | |] eqn:E2; cbn [bind] in Hg; try discriminate.
        injection Hg as _ <-.
        pose proof (mono_decode _ _ _ _ E1) as M1. destruct (M1 H0) as (R1 & L1 & _).
        destruct (IH (Forall_inv_tail IHfs) Hpr d1 vs2 d2 E2 R1 He) as [C2 M2].
        pose proof (sticky_none d1 d2 M2 R1 He) as N1.
        pose proof (Forall_inv IHfs Hpf d v1 d1 E1 H0 N1) as C1.
        cbn [fold_right]. split; [lia|eapply mono_trans; eassumption]. }
    destruct (go fs d) as [[vs d1]| | |] eqn:E; cbn [bind] in H; try discriminate.
    injection H as _ <-. destruct (Hfs d vs d1 E H0 He) as [C _]. exact C.
  - eapply decode_record_cons; eassumption.
Qed.

(* ------------------------------------------------------------------ the step bound *)
Fixpoint Kt (t : ty) : Z :=
  match t with
  | TArr e | TCArr e => Kt e + 1
  | TStruct fs => fold_right (fun f acc => Z.max (Kt (snd f)) acc) 1 fs
  | TRecordV0 => 3
  | _ => 1
  end.

Fixpoint St (t : ty) : Z :=
  match t with
  | TArr e | TCArr e => St e + 2
  | TStruct fs => fold_right (fun f acc => St (snd f) + acc) 0 fs
  | TRecordV0 => 94
  | TStr => 2
  | _ => 1
  end.

Lemma Kt_pos t : 1 <= Kt t.
Proof.
  induction t as [ | | | | | | | e IHe | fs IHfs | | | | | e IHe | ] using ty_ind'; cbn [Kt]; try lia.
  induction fs as [|f fs IH]; cbn [fold_right]; [lia|]. specialize (IH (Forall_inv_tail IHfs)). lia.
Qed.

Lemma St_nonneg t : 0 <= St t.
Proof.
  induction t as [ | | | | | | | e IHe | fs IHfs | | | | | e IHe | ] using ty_ind'; cbn [St]; try lia.
  induction fs as [|f fs IH]; cbn [fold_right]; [lia|].
  pose proof (Forall_inv IHfs) as Hf. cbn beta in Hf. specialize (IH (Forall_inv_tail IHfs)). lia.
Qed.

(* the array loop: an iteration that leaves no error consumed at least a byte, one that leaves an
   error is the last *)
Lemma B_arr_loop (dec : dstate -> res (kv * dstate)) K S :
  1 <= K -> 0 <= S ->
  (forall d v d', dec d = Ok (v, d') -> mono d d') ->
  (forall d v d', dec d = Ok (v, d') -> B K S d d') ->
  (forall d v d', dec d = Ok (v, d') -> 0 <= remain d -> derr d' = None -> 1 <= remain d - remain d') ->
  forall n d vs d', arr_loop dec n d = Ok (vs, d') -> B (K + 1) (S + 1) d d'.
Proof.
  intros HK HS Hm Hb Hc. induction n as [|n IH]; intros d vs d' H; cbn [arr_loop] in H.
  - injection H as _ <-. eapply B_weaken; [apply mono_refl| | |apply (B_refl (K + 1))]; lia.
  - destruct ((remain d <=? 0) || _) eqn:Ec.
    + injection H as _ <-. eapply B_weaken; [apply mono_refl| | |apply (B_refl (K + 1))]; lia.
    + destruct (dec (tick d)) as [[v d1]| | |] eqn:E1; cbn [bind] in H; try discriminate.
      destruct (arr_loop dec n d1) as [[vs2 d2]| | |] eqn:E2; cbn [bind] in H; try discriminate.
      injection H as _ <-.
      intro H0. assert (H0' : 0 <= remain (tick d)) by exact H0.
      destruct (Hb _ _ _ E1 H0') as [A1 T1]. destruct (Hm _ _ _ E1 H0') as (R1 & L1 & _).
      cbn [tick steps remain] in *.
      destruct (derr d1) eqn:Ed1.
      * (* the element failed: the loop ends here *)
        assert (d2 = d1).
        { destruct n as [|n']; cbn [arr_loop] in E2; [injection E2 as _ <-; reflexivity|].
          rewrite Ed1 in E2. rewrite Bool.orb_true_r in E2. injection E2 as _ <-. reflexivity. }
        subst d2. split; [nia|]. intro He. rewrite Ed1 in He. discriminate.
      * specialize (T1 eq_refl). pose proof (Hc _ _ _ E1 H0' Ed1) as C1. cbn [tick remain] in C1.
        destruct (IH _ _ _ E2 R1) as [A2 T2].
        split; [nia|]. intro He. specialize (T2 He). nia.
Qed.

Theorem decode_steps : forall t, plain t = true -> arrays_ok t = true ->
  forall d v d', decode t d = Ok (v, d') -> B (Kt t) (St t) d d'.
Proof.
  induction t as [ | | | | | | | e IHe | fs IHfs | | | | | e IHe | ] using ty_ind';
    intros Hp Ha d v d' H; cbn [plain] in Hp; try discriminate; cbn [decode Kt St] in *.
  - pose proof (B_rd_byte d) as Hb. destruct (rd_byte d) as [b d1]. injection H as _ <-. exact Hb.
  - pose proof (B_rd_int 1 d ltac:(lia)) as Hb. destruct (rd_int 1 d) as [z d1]. injection H as _ <-. exact Hb.
  - pose proof (B_rd_int 2 d ltac:(lia)) as Hb. destruct (rd_int 2 d) as [z d1]. injection H as _ <-. exact Hb.
  - pose proof (B_rd_int 4 d ltac:(lia)) as Hb. destruct (rd_int 4 d) as [z d1]. injection H as _ <-. exact Hb.
  - pose proof (B_rd_int 8 d ltac:(lia)) as Hb. destruct (rd_int 8 d) as [z d1]. injection H as _ <-. exact Hb.
  - pose proof (B_rd_string d) as Hb. destruct (rd_string d) as [z d1]. injection H as _ <-. exact Hb.
  - (* array *)
    cbn [arrays_ok] in Ha. apply andb_prop in Ha. destruct Ha as [Hm Hae]. apply Z.leb_le in Hm.
    pose proof (B_rd_int 4 d ltac:(lia)) as Hb. pose proof (mono_rd_int 4 d) as M1.
    destruct (rd_int 4 d) as [n d1]. cbn [snd] in *.
    pose proof (Kt_pos e) as HK. pose proof (St_nonneg e) as HS.
    destruct ((n <? 0) || (65535 <? n)).
    + injection H as _ <-. eapply B_weaken; [exact M1| | |exact Hb]; lia.
    + destruct (arr_loop (decode e) _ _) as [[vs d2]| | |] eqn:E; cbn [bind] in H; try discriminate.
      injection H as _ <-.
      pose proof (B_arr_loop (decode e) (Kt e) (St e) HK HS (mono_decode e) (IHe Hp Hae)
                   (fun d v d' Hd H0 He => Z.le_trans _ _ _ Hm (decode_cons e Hp d v d' Hd H0 He)) _ _ _ _ E) as B2.
      pose proof (R_arr_loop mono mono_refl mono_trans mono_tick (decode e) (mono_decode e) _ _ _ _ E) as M2.
      replace (St e + 2) with (1 + (St e + 1)) by lia.
      eapply B_trans; [exact M1|exact M2| |exact B2].
      eapply B_weaken; [exact M1| | |exact Hb]; lia.
  - (* struct *)
    match type of H with context [bind (?g fs d) _] => remember g as go eqn:Hgo end.
    assert (Hfs : forall d vs d', go fs d = Ok (vs, d') ->
                  B (fold_right (fun f acc => Z.max (Kt (snd f)) acc) 1 fs) (fold_right (fun f acc => St (snd f) + acc) 0 fs) d d' /\ mono d d').
    { clear d v d' H. induction fs as [|f fs IH]; intros d vs d' Hg; rewrite Hgo in Hg; cbn in Hg.
      - injection Hg as _ <-. cbn [fold_right]. split; [apply B_refl|apply mono_refl].
      - rewrite <- Hgo in Hg. clear Hgo.
        cbn [forallb] in Hp, Ha. apply andb_prop in Hp. destruct Hp as [Hpf Hpr].
        apply andb_prop in Ha. destruct Ha as [Haf Har].
        destruct (decode (snd f) d) as [[v1 d1]| | |] eqn:E1; cbn [bind] in Hg; try discriminate.
        destruct (go fs d1) as [[vs2 d2]| | |] eqn:E2; cbn [bind] in Hg; try discriminate.
        injection Hg as _ <-.
        pose proof (mono_decode _ _ _ _ E1) as M1.
        destruct (IH (Forall_inv_tail IHfs) Hpr Har d1 vs2 d2 E2) as [B2 M2].
        pose proof (Forall_inv IHfs Hpf Haf d v1 d1 E1) as B1.
        cbn [fold_right]. split; [|eapply mono_trans; eassumption].
        pose proof (St_nonneg (snd f)).
        assert (0 <= fold_right (fun f acc => St (snd f) + acc) 0 fs).
        { clear. induction fs as [|g fs IH]; cbn [fold_right]; [lia|]. pose proof (St_nonneg (snd g)). lia. }
        eapply B_trans; [exact M1|exact M2| |].
        + eapply B_weaken; [exact M1| | |exact B1]; lia.
        + eapply B_weaken; [exact M2| | |exact B2]; lia. }
    destruct (go fs d) as [[vs d1]| | |] eqn:E; cbn [bind] in H; try discriminate.
    injection H as _ <-. destruct (Hfs d vs d1 E) as [Bs _]. exact Bs.
  - eapply B_decode_record. exact H.
Qed.

(* ------------------------------------------------------------------ bytes consumed = bytes taken from the connection *)
Definition conserve (d d' : dstate) : Prop := blen (inp d) - blen (inp d') = remain d - remain d'.

Lemma conserve_refl d : conserve d d.
Proof. unfold conserve. lia. Qed.
Lemma conserve_trans a b c : conserve a b -> conserve b c -> conserve a c.
Proof. unfold conserve. lia. Qed.
Lemma conserve_tick d : conserve d (tick d).
Proof. unfold conserve. cbn. lia. Qed.
Lemma conserve_charge n d : conserve d (charge n d).
Proof. unfold conserve. cbn. lia. Qed.
Lemma conserve_discard d : 0 <= remain d -> conserve d (discard_all d).
Proof.
  intro H0. unfold conserve, discard_all. destruct (remain d <=? 0) eqn:E0; [lia|]. apply Z.leb_gt in E0.
  destruct (remain d <=? blen (inp d)) eqn:E1.
  - apply Z.leb_le in E1. cbn [inp remain]. rewrite blen_skipn by lia. lia.
  - destruct (hit (tl d)). cbn [inp remain]. unfold blen. cbn [List.length]. lia.
Qed.

(* conserve needs 0 <= remain; carry it along *)
Definition consv (d d' : dstate) : Prop := 0 <= remain d -> conserve d d' /\ 0 <= remain d'.

Lemma consv_refl d : consv d d.
Proof. intro H. split; [apply conserve_refl|exact H]. Qed.
Lemma consv_trans a b c : consv a b -> consv b c -> consv a c.
Proof. intros H1 H2 H0. destruct (H1 H0) as [C1 R1]. destruct (H2 R1) as [C2 R2]. split; [eapply conserve_trans; eassumption|exact R2]. Qed.
Lemma consv_tick d : consv d (tick d).
Proof. intro H. split; [apply conserve_tick|exact H]. Qed.
Lemma consv_charge n d : consv d (charge n d).
Proof. intro H. split; [apply conserve_charge|exact H]. Qed.
Lemma consv_set_error e d : consv d (set_error e d).
Proof.
  intro H0. destruct (mono_set_error e d H0) as (R & _). split; [|exact R].
  unfold set_error. destruct (derr d); [apply conserve_refl|].
  apply (conserve_discard (with_err (Some e) d)). exact H0.
Qed.
Lemma consv_rd n d : consv d (snd (rd n d)).
Proof.
  intro H0. destruct (mono_rd n d H0) as (R & _). split; [|exact R].
  unfold rd. destruct (n <=? 0) eqn:En; [apply conserve_tick|]. apply Z.leb_gt in En.
  destruct (derr (tick d)); [apply conserve_tick|].
  destruct (remain (tick d) <=? 0) eqn:E0.
  { cbn [snd]. eapply conserve_trans; [apply conserve_tick|]. apply consv_set_error. exact H0. }
  apply Z.leb_gt in E0.
  destruct (Z.min n (remain (tick d)) <=? blen (inp (tick d))) eqn:E1.
  - apply Z.leb_le in E1. cbn [tick inp remain tl steps alloc] in *.
    set (w := Z.min n (remain d)) in *.
    set (d1 := {| inp := skipn (Z.to_nat w) (inp d); tl := tl d; remain := remain d - w; derr := None; steps := steps d + 1; alloc := alloc d |}).
    assert (C1 : conserve d d1).
    { unfold conserve, d1. cbn [inp remain]. rewrite blen_skipn by (subst w; lia). lia. }
    destruct (n <=? remain d); cbn [snd]; [exact C1|].
    eapply conserve_trans; [exact C1|]. apply consv_set_error. unfold d1. cbn [remain]. subst w. lia.
  - apply Z.leb_gt in E1. destruct (hit (tl (tick d))) as [e t1]. cbn [snd].
    cbn [tick inp remain tl steps alloc] in *.
    set (d1 := {| inp := []; tl := t1; remain := remain d - blen (inp d); derr := None; steps := steps d + 1; alloc := alloc d |}).
    assert (C1 : conserve d d1) by (unfold conserve, d1, blen; cbn [inp remain List.length]; lia).
    eapply conserve_trans; [exact C1|]. apply consv_set_error. unfold d1. cbn [remain]. lia.
Qed.

Definition consv_decode := R_decode consv consv_refl consv_trans consv_rd consv_set_error consv_charge consv_tick.
Definition consv_rd_int := R_rd_int consv consv_rd.
Definition consv_rd_string := R_rd_string consv consv_trans consv_rd consv_charge.

(* ------------------------------------------------------------------ one message *)
Definition KT (T : tables) : Z :=
  fold_right (fun t acc => Z.max (Kt t) acc) 1 (table_types (req_tbl T) ++ table_types (resp_tbl T)).
Definition ST (T : tables) : Z :=
  fold_right (fun t acc => Z.max (St t) acc) 0 (table_types (req_tbl T) ++ table_types (resp_tbl T)).

Lemma fold_max_ge (f : ty -> Z) b l t : In t l -> f t <= fold_right (fun t acc => Z.max (f t) acc) b l.
Proof.
  induction l as [|x l IH]; intro H; [contradiction|]. cbn [fold_right]. destruct H as [->|H]; [lia|]. specialize (IH H). lia.
Qed.
Lemma fold_max_base (f : ty -> Z) b l : b <= fold_right (fun t acc => Z.max (f t) acc) b l.
Proof. induction l as [|x l IH]; cbn [fold_right]; lia. Qed.

Definition tables_arrays_ok (T : tables) : Prop :=
  forallb arrays_ok (table_types (req_tbl T)) = true /\ forallb arrays_ok (table_types (resp_tbl T)) = true.

(* steps of an accepted request: at most (KT + ST + 6) per byte taken from the connection *)
Lemma request_steps T i t st al m d' m' : tables_plain T -> tables_arrays_ok T ->
  read_request T (start i t st al) m = Ok (d', m') ->
  steps d' - st <= (KT T + ST T + 6) * (blen i - blen (inp d')) /\ 4 <= blen i - blen (inp d').
Proof.
  intros [HPq _] [HAq _] H. unfold read_request in H.
  pose proof (fold_max_base Kt 1 (table_types (req_tbl T) ++ table_types (resp_tbl T))) as HK1. fold (KT T) in HK1.
  pose proof (fold_max_base St 0 (table_types (req_tbl T) ++ table_types (resp_tbl T))) as HS0. fold (ST T) in HS0.
  set (d0 := start i t st al) in *.
  assert (R0 : 0 <= remain d0) by (cbn; lia).
  assert (S1 : steps (snd (rd_int 4 d0)) = steps d0 + 1).
  { unfold rd_int. pose proof (rd_steps 4 d0) as Hs. destruct (rd 4 d0) as [[b ok] dd]. exact Hs. }
  destruct (rd_int 4 d0) as [size d1] eqn:E1. cbn [snd] in S1.
  destruct (1000000 <? size); [discriminate|].
  destruct (size <? 8) eqn:E8; [destruct (size =? 0); discriminate|]. apply Z.ltb_ge in E8.
  destruct (size_progress d0 size d1 eq_refl eq_refl E1 ltac:(lia)) as [I1 R1].
  destruct (derr d1); [discriminate|].
  set (d2 := with_remain size d1) in *.
  assert (R2 : 0 <= remain d2) by (cbn; lia).
  pose proof (B_rd_int 2 d2 ltac:(lia)) as B3. pose proof (mono_rd_int 2 d2) as M3. pose proof (consv_rd_int 2 d2) as V3.
  destruct (rd_int 2 d2) as [api d3]. cbn [snd] in *.
  pose proof (B_rd_int 2 d3 ltac:(lia)) as B4. pose proof (mono_rd_int 2 d3) as M4. pose proof (consv_rd_int 2 d3) as V4.
  destruct (rd_int 2 d3) as [ver d4]. cbn [snd] in *.
  pose proof (B_rd_int 4 d4 ltac:(lia)) as B5. pose proof (mono_rd_int 4 d4) as M5. pose proof (consv_rd_int 4 d4) as V5.
  destruct (rd_int 4 d4) as [corr d5]. cbn [snd] in *.
  pose proof (B_rd_string d5) as B6. pose proof (mono_rd_string d5) as M6. pose proof (consv_rd_string d5) as V6.
  destruct (rd_string d5) as [client d6]. cbn [snd] in *.
  destruct ((api <? 0) || (num_apis T <=? api)); [discriminate|].
  destruct (derr d6); [discriminate|].
  assert (B26 : B 1 5 d2 d6).
  { replace 5 with (1 + (1 + (1 + 2))) by lia.
    eapply B_trans; [exact M3| |exact B3|].
    - eapply mono_trans; [exact M4|]. eapply mono_trans; [exact M5|exact M6].
    - eapply B_trans; [exact M4| |exact B4|].
      + eapply mono_trans; [exact M5|exact M6].
      + eapply B_trans; [exact M5|exact M6|exact B5|exact B6]. }
  assert (M26 : mono d2 d6) by (eapply mono_trans; [exact M3|]; eapply mono_trans; [exact M4|]; eapply mono_trans; [exact M5|exact M6]).
  assert (V26 : consv d2 d6) by (eapply consv_trans; [exact V3|]; eapply consv_trans; [exact V4|]; eapply consv_trans; [exact V5|exact V6]).
  destruct (M26 R2) as (R6 & L6 & _). destruct (V26 R2) as [C26 _]. destruct (B26 R2) as [A26 _].
  assert (Hfin : forall d7, mono d6 d7 -> consv d6 d7 -> steps d7 - steps d6 <= KT T * (remain d6 - remain d7) + ST T ->
           steps (discard_all d7) - st <= (KT T + ST T + 6) * (blen i - blen (inp (discard_all d7))) /\
           4 <= blen i - blen (inp (discard_all d7))).
  { intros d7 M7 V7 A7. destruct (M7 R6) as (R7 & L7 & _). destruct (V7 R6) as [C7 _].
    pose proof (conserve_discard d7 R7) as C8. destruct (mono_discard d7 R7) as (R8 & L8 & _).
    assert (S8 : steps (discard_all d7) = steps d7).
    { unfold discard_all. destruct (remain d7 <=? 0); [reflexivity|]. destruct (remain d7 <=? blen (inp d7)); [reflexivity|]. destruct (hit (tl d7)); reflexivity. }
    unfold conserve in *. subst d0 d2. cbn [start inp remain steps with_remain] in *.
    split; [|lia]. rewrite S8. nia. }
  destruct (layout (req_tbl T) api ver) as [ty|] eqn:El.
  - destruct (decode ty d6) as [[v d7]| | |] eqn:E7; cbn [bind] in H; try discriminate.
    injection H as <- _.
    assert (Hin : In ty (table_types (req_tbl T))) by (eapply layout_in; exact El).
    assert (Hp : plain ty = true) by (rewrite forallb_forall in HPq; apply HPq; exact Hin).
    assert (Ha : arrays_ok ty = true) by (rewrite forallb_forall in HAq; apply HAq; exact Hin).
    pose proof (decode_steps ty Hp Ha _ _ _ E7 R6) as [A7 _].
    pose proof (mono_decode _ _ _ _ E7) as M7.
    assert (HKt : Kt ty <= KT T) by (apply fold_max_ge; apply in_or_app; left; exact Hin).
    assert (HSt : St ty <= ST T) by (apply fold_max_ge; apply in_or_app; left; exact Hin).
    destruct (M7 R6) as (_ & L7 & _).
    apply Hfin; [exact M7|eapply consv_decode; exact E7|nia].
  - cbn [bind] in H. injection H as <- _.
    apply Hfin; [apply mono_refl|apply consv_refl|nia].
Qed.

Lemma response_steps T i t st al m d' m' its : tables_plain T -> tables_arrays_ok T ->
  read_response T (start i t st al) m = Ok (d', m', its) ->
  steps d' - st <= (KT T + ST T + 6) * (blen i - blen (inp d')) /\ 4 <= blen i - blen (inp d').
Proof.
  intros [_ HPs] [_ HAs] H. unfold read_response in H.
  pose proof (fold_max_base Kt 1 (table_types (req_tbl T) ++ table_types (resp_tbl T))) as HK1. fold (KT T) in HK1.
  pose proof (fold_max_base St 0 (table_types (req_tbl T) ++ table_types (resp_tbl T))) as HS0. fold (ST T) in HS0.
  set (d0 := start i t st al) in *.
  assert (R0 : 0 <= remain d0) by (cbn; lia).
  assert (S1 : steps (snd (rd_int 4 d0)) = steps d0 + 1).
  { unfold rd_int. pose proof (rd_steps 4 d0) as Hs. destruct (rd 4 d0) as [[b ok] dd]. exact Hs. }
  destruct (rd_int 4 d0) as [size d1] eqn:E1. cbn [snd] in S1.
  destruct (1000000 <? size); [discriminate|].
  destruct (size <? 4) eqn:E8; [destruct (size =? 0); discriminate|]. apply Z.ltb_ge in E8.
  destruct (size_progress d0 size d1 eq_refl eq_refl E1 ltac:(lia)) as [I1 R1].
  destruct (derr d1); [discriminate|].
  set (d2 := with_remain size d1) in *.
  assert (R2 : 0 <= remain d2) by (cbn; lia).
  pose proof (B_rd_int 4 d2 ltac:(lia)) as B3. pose proof (mono_rd_int 4 d2) as M3. pose proof (consv_rd_int 4 d2) as V3.
  destruct (rd_int 4 d2) as [corr d3]. cbn [snd] in *.
  destruct (M3 R2) as (R3 & L3 & _). destruct (V3 R2) as [C23 _]. destruct (B3 R2) as [A23 _].
  assert (Hfin : forall d7, mono d3 d7 -> consv d3 d7 -> steps d7 - steps d3 <= KT T * (remain d3 - remain d7) + ST T ->
           steps (discard_all d7) - st <= (KT T + ST T + 6) * (blen i - blen (inp (discard_all d7))) /\
           4 <= blen i - blen (inp (discard_all d7))).
  { intros d7 M7 V7 A7. destruct (M7 R3) as (R7 & L7 & _). destruct (V7 R3) as [C7 _].
    pose proof (conserve_discard d7 R7) as C8. destruct (mono_discard d7 R7) as (R8 & L8 & _).
    assert (S8 : steps (discard_all d7) = steps d7).
    { unfold discard_all. destruct (remain d7 <=? 0); [reflexivity|]. destruct (remain d7 <=? blen (inp d7)); [reflexivity|]. destruct (hit (tl d7)); reflexivity. }
    unfold conserve in *. subst d0 d2. cbn [start inp remain steps with_remain] in *.
    split; [|lia]. rewrite S8. nia. }
  destruct (m_find corr m) as [rq|]; [|discriminate].
  destruct (layout (resp_tbl T) (q_api rq) (q_ver rq)) as [ty|] eqn:El.
  - destruct (decode ty d3) as [[v d7]| | |] eqn:E7; cbn [bind] in H; try discriminate.
    injection H as <- _ _.
    assert (Hin : In ty (table_types (resp_tbl T))) by (eapply layout_in; exact El).
    assert (Hp : plain ty = true) by (rewrite forallb_forall in HPs; apply HPs; exact Hin).
    assert (Ha : arrays_ok ty = true) by (rewrite forallb_forall in HAs; apply HAs; exact Hin).
    pose proof (decode_steps ty Hp Ha _ _ _ E7 R3) as [A7 _].
    pose proof (mono_decode _ _ _ _ E7) as M7.
    assert (HKt : Kt ty <= KT T) by (apply fold_max_ge; apply in_or_app; right; exact Hin).
    assert (HSt : St ty <= ST T) by (apply fold_max_ge; apply in_or_app; right; exact Hin).
    destruct (M7 R3) as (_ & L7 & _).
    apply Hfin; [exact M7|eapply consv_decode; exact E7|nia].
  - injection H as <- _ _.
    apply Hfin; [apply mono_refl|apply consv_refl|nia].
Qed.

(* ------------------------------------------------------------------ the Dissect loops *)
Lemma client_steps T fuel : forall i t st al m oc m' st' al', tables_plain T -> tables_arrays_ok T ->
  dissect_client T fuel i t st al m = (oc, m', (st', al')) ->
  st' - st <= (KT T + ST T + 6) * blen i.
Proof.
  pose proof (fold_max_base Kt 1 (table_types (req_tbl T) ++ table_types (resp_tbl T))) as HK1. fold (KT T) in HK1.
  pose proof (fold_max_base St 0 (table_types (req_tbl T) ++ table_types (resp_tbl T))) as HS0. fold (ST T) in HS0.
  induction fuel as [|f IH]; intros i t st al m oc m' st' al' HT HA H; cbn [dissect_client] in H.
  - injection H as _ _ <- _. pose proof (blen_nonneg i). nia.
  - destruct (read_request T (start i t st al) m) as [[d m1]|e|s|] eqn:E.
    + destruct (request_steps T i t st al m d m1 HT HA E) as [A C].
      specialize (IH _ _ _ _ _ _ _ _ _ HT HA H). pose proof (blen_nonneg (inp d)). nia.
    + injection H as _ _ <- _. pose proof (blen_nonneg i). nia.
    + injection H as _ _ <- _. pose proof (blen_nonneg i). nia.
    + injection H as _ _ <- _. pose proof (blen_nonneg i). nia.
Qed.

Lemma server_steps T fuel : forall i t st al m acc os m' its st' al', tables_plain T -> tables_arrays_ok T ->
  dissect_server T fuel i t st al m acc = (os, m', its, (st', al')) ->
  st' - st <= (KT T + ST T + 6) * blen i.
Proof.
  pose proof (fold_max_base Kt 1 (table_types (req_tbl T) ++ table_types (resp_tbl T))) as HK1. fold (KT T) in HK1.
  pose proof (fold_max_base St 0 (table_types (req_tbl T) ++ table_types (resp_tbl T))) as HS0. fold (ST T) in HS0.
  induction fuel as [|f IH]; intros i t st al m acc os m' its st' al' HT HA H; cbn [dissect_server] in H.
  - injection H as _ _ _ <- _. pose proof (blen_nonneg i). nia.
  - destruct (read_response T (start i t st al) m) as [[[d m1] its1]|e|s|] eqn:E.
    + destruct (response_steps T i t st al m d m1 its1 HT HA E) as [A C].
      specialize (IH _ _ _ _ _ _ _ _ _ _ _ HT HA H). pose proof (blen_nonneg (inp d)). nia.
    + injection H as _ _ _ <- _. pose proof (blen_nonneg i). nia.
    + injection H as _ _ _ <- _. pose proof (blen_nonneg i). nia.
    + injection H as _ _ _ <- _. pose proof (blen_nonneg i). nia.
Qed.

(* steps of dissecting both halves: linear in the bytes of the connection, for every end-of-stream
   kind (the steps of the last, rejected message of each half are not part of r_steps; they obey
   the same per-message bound) *)
Theorem kafka_steps_linear : forall T client server t, tables_plain T -> tables_arrays_ok T ->
  r_steps (dissect T client server t) <= (KT T + ST T + 6) * (blen client + blen server).
Proof.
  intros T client server t HT HA. unfold dissect.
  destruct (dissect_client T (fuel_of client) client t 0 0 []) as [[oc m1] [s1 a1]] eqn:E1.
  destruct (dissect_server T (fuel_of server) server t s1 a1 m1 []) as [[[os m2] its] [s2 a2]] eqn:E2.
  cbn [r_steps].
  pose proof (client_steps _ _ _ _ _ _ _ _ _ _ _ HT HA E1). pose proof (server_steps _ _ _ _ _ _ _ _ _ _ _ _ _ HT HA E2). nia.
Qed.
