(* compat_sound: when the wire format's type and the dissector's layout differ only in field
   names and in single-field struct wrappers (`[]string` against `[]struct{Name string}`), the
   dissector decodes the encoding of every well-formed value of the wire format's type to the
   same value up to those wrappers.  `sim` is the decidable relation; KafkaLayouts shows that it
   holds wherever the generated tables are `compat`. *)
Require Import V.Base.Prelude V.Kafka.KafkaTy V.Kafka.KafkaModel V.Kafka.KafkaSpecEnc V.Kafka.KafkaFrame.
Require Import V.Kafka.KafkaBytes V.Kafka.KafkaRoundtrip.
Require Import Coq.Strings.String.
Local Open Scope Z_scope.

(* names away *)
Fixpoint erase (t : ty) : ty :=
  match t with
  | TArr e => TArr (erase e)
  | TCArr e => TCArr (erase e)
  | TStruct fs => TStruct (map (fun f => (EmptyString, erase (snd f))) fs)
  | _ => t
  end.

(* single-field struct wrappers away *)
Fixpoint unwrap (t : ty) : ty :=
  match t with
  | TStruct fs =>
    match fs with
    | [f] => unwrap (snd f)
    | _ => TStruct (map (fun f => (fst f, unwrap (snd f))) fs)
    end
  | TArr e => TArr (unwrap e)
  | TCArr e => TCArr (unwrap e)
  | _ => t
  end.

(* the value seen through `unwrap` *)
Fixpoint uv (t : ty) (v : kv) {struct t} : kv :=
  match t, v with
  | TStruct fs, KStruct l =>
    match fs, l with
    | [f], [x] => uv (snd f) x
    | _, _ => KStruct ((fix go (fs : list (string * ty)) (l : list kv) : list kv :=
                          match fs, l with
                          | f :: fs', x :: l' => uv (snd f) x :: go fs' l'
                          | _, _ => []
                          end) fs l)
    end
  | TArr e, KArr l => KArr (map (uv e) l)
  | TCArr e, KArr l => KArr (map (uv e) l)
  | _, _ => v
  end.

(* and back *)
Fixpoint rw (t : ty) (w : kv) {struct t} : kv :=
  match t with
  | TStruct fs =>
    match fs with
    | [f] => KStruct [rw (snd f) w]
    | _ => match w with
           | KStruct l => KStruct ((fix go (fs : list (string * ty)) (l : list kv) : list kv :=
                                      match fs, l with
                                      | f :: fs', x :: l' => rw (snd f) x :: go fs' l'
                                      | _, _ => []
                                      end) fs l)
           | _ => w
           end
    end
  | TArr e => match w with KArr l => KArr (map (rw e) l) | _ => w end
  | TCArr e => match w with KArr l => KArr (map (rw e) l) | _ => w end
  | _ => w
  end.

Definition sim (s i : ty) : Prop := erase (unwrap s) = erase (unwrap i).

(* ------------------------------------------------------------------ names do not matter *)
Lemma erase_enc : forall t v, encode (erase t) v = encode t v.
Proof.
  induction t as [ | | | | | | | e IHe | fs IHfs | | | | | e IHe | ] using ty_ind'; intros v; try reflexivity.
  - cbn [erase encode]. destruct v; try reflexivity. f_equal. f_equal. apply map_ext. exact IHe.
  - cbn [erase encode]. destruct v as [| | | | |l|]; try reflexivity.
    revert l. induction fs as [|f fs IH]; intros l; [reflexivity|].
    destruct l as [|x l]; [reflexivity|]. cbn [map snd].
    rewrite (Forall_inv IHfs x). f_equal. apply (IH (Forall_inv_tail IHfs)).
  - cbn [erase encode]. destruct v; try reflexivity. f_equal. f_equal. apply map_ext. exact IHe.
Qed.

Lemma erase_wf : forall t v, wf (erase t) v <-> wf t v.
Proof.
  induction t as [ | | | | | | | e IHe | fs IHfs | | | | | e IHe | ] using ty_ind'; intros v; try reflexivity.
  - cbn [erase wf]. destruct v as [| | | |l| |]; try reflexivity.
    assert (H : (fix all (l : list kv) : Prop := match l with [] => True | x :: l' => wf (erase e) x /\ all l' end) l
                <-> (fix all (l : list kv) : Prop := match l with [] => True | x :: l' => wf e x /\ all l' end) l).
    { induction l as [|x l IH]; [reflexivity|]. rewrite IHe, IH. reflexivity. }
    rewrite H. reflexivity.
  - cbn [erase wf]. destruct v as [| | | | |l|]; try reflexivity.
    revert l. induction fs as [|f fs IH]; intros l; [destruct l; reflexivity|].
    destruct l as [|x l]; [reflexivity|]. cbn [map snd].
    rewrite (Forall_inv IHfs x), (IH (Forall_inv_tail IHfs) l). reflexivity.
Qed.

(* ------------------------------------------------------------------ wrappers do not matter *)
Lemma uv_ok : forall t v, wf t v -> encode (unwrap t) (uv t v) = encode t v /\ wf (unwrap t) (uv t v).
Proof.
  induction t as [ | | | | | | | e IHe | fs IHfs | | | | | e IHe | ] using ty_ind'; intros v Hw;
    try (cbn [unwrap uv]; destruct v; split; (reflexivity || exact Hw)); try contradiction.
  - (* array *)
    destruct v as [| | | |l| |]; try contradiction; cbn [unwrap uv encode wf] in *; [|split; [reflexivity|exact I]].
    destruct Hw as [Hn Hall]. rewrite map_length.
    assert (H : List.concat (map (encode (unwrap e)) (map (uv e) l)) = List.concat (map (encode e) l)
                /\ (fix all (l : list kv) : Prop := match l with [] => True | x :: l' => wf (unwrap e) x /\ all l' end) (map (uv e) l)).
    { clear Hn. induction l as [|x l IH]; [split; [reflexivity|exact I]|].
      destruct Hall as [Hx Hl]. destruct (IHe x Hx) as [E W]. destruct (IH Hl) as [E' W'].
      cbn [map List.concat]. rewrite E, E'. split; [reflexivity|split; assumption]. }
    destruct H as [E W]. rewrite E. split; [reflexivity|split; assumption].
  - (* struct *)
    destruct v as [| | | | |l|]; try contradiction.
    destruct fs as [|f [|g fs]].
    + destruct l; [|contradiction]. cbn. split; [reflexivity|exact I].
    + destruct l as [|x [|y l]]; cbn [wf] in Hw; try (destruct Hw; contradiction); try contradiction.
      destruct Hw as [Hx _]. cbn [unwrap uv encode]. destruct (Forall_inv IHfs x Hx) as [E W].
      rewrite app_nil_r. split; assumption.
    + remember (f :: g :: fs) as fs2 eqn:Hfs2.
      assert (Hgen : forall fs l,
                 Forall (fun f => forall v, wf (snd f) v -> encode (unwrap (snd f)) (uv (snd f) v) = encode (snd f) v /\ wf (unwrap (snd f)) (uv (snd f) v)) fs ->
                 (fix go (fs : list (string * ty)) (l : list kv) : Prop :=
                    match fs, l with [], [] => True | f :: fs', x :: l' => wf (snd f) x /\ go fs' l' | _, _ => False end) fs l ->
                 let l2 := (fix go (fs : list (string * ty)) (l : list kv) : list kv :=
                              match fs, l with f :: fs', x :: l' => uv (snd f) x :: go fs' l' | _, _ => [] end) fs l in
                 (fix go (fs : list (string * ty)) (l : list kv) : bytes :=
                    match fs, l with f :: fs', x :: l' => encode (snd f) x ++ go fs' l' | _, _ => [] end)
                   (map (fun f => (fst f, unwrap (snd f))) fs) l2
                 = (fix go (fs : list (string * ty)) (l : list kv) : bytes :=
                      match fs, l with f :: fs', x :: l' => encode (snd f) x ++ go fs' l' | _, _ => [] end) fs l
                 /\ (fix go (fs : list (string * ty)) (l : list kv) : Prop :=
                       match fs, l with [], [] => True | f :: fs', x :: l' => wf (snd f) x /\ go fs' l' | _, _ => False end)
                      (map (fun f => (fst f, unwrap (snd f))) fs) l2).
      { clear. induction fs as [|f fs IH]; intros l HF Hw.
        - destruct l; [|contradiction]. cbn. split; [reflexivity|exact I].
        - destruct l as [|x l]; [contradiction|]. destruct Hw as [Hx Hl].
          destruct (Forall_inv HF x Hx) as [E W]. destruct (IH l (Forall_inv_tail HF) Hl) as [E' W'].
          cbn zeta in *. cbn [map snd fst]. rewrite E, E'. split; [reflexivity|split; assumption]. }
      destruct (Hgen fs2 l IHfs Hw) as [E W].
      subst fs2. cbn [unwrap uv encode wf]. destruct l as [|x [|y l]]; cbn [wf] in Hw; try contradiction;
        try (destruct Hw as [_ Hw]; contradiction).
      split; [exact E|exact W].
Qed.

Lemma rw_ok : forall t w, wf (unwrap t) w -> wf t (rw t w) /\ uv t (rw t w) = w.
Proof.
  induction t as [ | | | | | | | e IHe | fs IHfs | | | | | e IHe | ] using ty_ind'; intros w Hw;
    try (cbn [unwrap rw uv] in *; destruct w; split; (reflexivity || exact Hw)); try contradiction.
  - (* array *)
    cbn [unwrap] in Hw. destruct w as [| | | |l| |]; try contradiction; cbn [rw uv wf] in *; [|split; [exact I|reflexivity]].
    destruct Hw as [Hn Hall]. rewrite map_length.
    assert (H : (fix all (l : list kv) : Prop := match l with [] => True | x :: l' => wf e x /\ all l' end) (map (rw e) l)
                /\ map (uv e) (map (rw e) l) = l).
    { clear Hn. induction l as [|x l IH]; [split; [exact I|reflexivity]|].
      destruct Hall as [Hx Hl]. destruct (IHe x Hx) as [W E]. destruct (IH Hl) as [W' E'].
      cbn [map]. rewrite E, E'. split; [split; assumption|reflexivity]. }
    destruct H as [W E]. rewrite E. split; [split; assumption|reflexivity].
  - (* struct *)
    destruct fs as [|f [|g fs]].
    + cbn [unwrap rw uv] in *. destruct w as [| | | | |l|]; try contradiction. destruct l; [|contradiction].
      cbn. split; [exact I|reflexivity].
    + cbn [unwrap] in Hw. destruct (Forall_inv IHfs w Hw) as [W E].
      cbn [rw uv wf]. split; [split; [exact W|exact I]|exact E].
    + remember (f :: g :: fs) as fs2 eqn:Hfs2.
      assert (Hw2 : wf (TStruct (map (fun f => (fst f, unwrap (snd f))) fs2)) w) by (subst fs2; exact Hw).
      destruct w as [| | | | |l|]; try contradiction.
      assert (Hgen : forall fs l,
                 Forall (fun f => forall w, wf (unwrap (snd f)) w -> wf (snd f) (rw (snd f) w) /\ uv (snd f) (rw (snd f) w) = w) fs ->
                 (fix go (fs : list (string * ty)) (l : list kv) : Prop :=
                    match fs, l with [], [] => True | f :: fs', x :: l' => wf (snd f) x /\ go fs' l' | _, _ => False end)
                   (map (fun f => (fst f, unwrap (snd f))) fs) l ->
                 let l2 := (fix go (fs : list (string * ty)) (l : list kv) : list kv :=
                              match fs, l with f :: fs', x :: l' => rw (snd f) x :: go fs' l' | _, _ => [] end) fs l in
                 (fix go (fs : list (string * ty)) (l : list kv) : Prop :=
                    match fs, l with [], [] => True | f :: fs', x :: l' => wf (snd f) x /\ go fs' l' | _, _ => False end) fs l2
                 /\ (fix go (fs : list (string * ty)) (l : list kv) : list kv :=
                       match fs, l with f :: fs', x :: l' => uv (snd f) x :: go fs' l' | _, _ => [] end) fs l2 = l
                 /\ List.length l2 = List.length l).
      { clear. induction fs as [|f fs IH]; intros l HF Hw.
        - destruct l; [|contradiction]. cbn. repeat split.
        - destruct l as [|x l]; [contradiction|]. cbn [map snd fst] in Hw. destruct Hw as [Hx Hl].
          destruct (Forall_inv HF x Hx) as [W E]. destruct (IH l (Forall_inv_tail HF) Hl) as (W' & E' & L').
          cbn zeta in *. cbn [map snd fst List.length]. rewrite E, E', L'. repeat split; assumption. }
      cbn [wf] in Hw2. destruct (Hgen fs2 l IHfs Hw2) as (W & E & L).
      subst fs2. cbn [rw uv wf].
      destruct l as [|x [|y l]]; cbn [map fst snd] in Hw2; try contradiction; try (destruct Hw2 as [_ Hw2]; contradiction).
      cbn zeta in *. split; [exact W|]. f_equal. exact E.
Qed.

(* ------------------------------------------------------------------ soundness *)
Theorem compat_sound : forall s i, sim s i -> plain i = true -> arrays_ok i = true ->
  forall v, wf s v ->
  exists v', wf i v' /\ uv i v' = uv s v /\ encode i v' = encode s v /\
    forall d r, derr d = None -> inp d = encode s v ++ r -> blen (encode s v) <= remain d ->
    exists d', decode i d = Ok (norm i v', d') /\ consumed d d' (encode s v) r.
Proof.
  intros s i Hsim Hp Ha v Hw. unfold sim in Hsim.
  destruct (uv_ok s v Hw) as [Es Ws].
  assert (Wi : wf (unwrap i) (uv s v)).
  { apply erase_wf. rewrite <- Hsim. apply erase_wf. exact Ws. }
  destruct (rw_ok i (uv s v) Wi) as [W' U'].
  destruct (uv_ok i (rw i (uv s v)) W') as [Ei _]. rewrite U' in Ei.
  assert (Henc : encode i (rw i (uv s v)) = encode s v).
  { rewrite <- Ei, <- Es. rewrite <- (erase_enc (unwrap i)), <- Hsim, erase_enc. reflexivity. }
  exists (rw i (uv s v)). split; [exact W'|]. split; [exact U'|]. split; [exact Henc|].
  intros d r He Hi Hr. rewrite <- Henc in Hi, Hr |- *.
  apply kafka_roundtrip; assumption.
Qed.

(* ------------------------------------------------------------------ deciding sim *)
Fixpoint ty_eqb (a b : ty) {struct a} : bool :=
  match a, b with
  | TBool, TBool | TI8, TI8 | TI16, TI16 | TI32, TI32 | TI64, TI64 | TStr, TStr | TBytes, TBytes
  | TRecordV0, TRecordV0 | TUnsupported, TUnsupported | TCStr, TCStr | TCBytes, TCBytes | TTags, TTags => true
  | TArr x, TArr y => ty_eqb x y
  | TCArr x, TCArr y => ty_eqb x y
  | TStruct fs, TStruct gs =>
    (fix go (fs gs : list (string * ty)) : bool :=
       match fs, gs with
       | [], [] => true
       | f :: fs', g :: gs' => String.eqb (fst f) (fst g) && ty_eqb (snd f) (snd g) && go fs' gs'
       | _, _ => false
       end) fs gs
  | _, _ => false
  end.

Lemma ty_eqb_eq : forall a b, ty_eqb a b = true -> a = b.
Proof.
  induction a as [ | | | | | | | e IHe | fs IHfs | | | | | e IHe | ] using ty_ind'; intros b H;
    destruct b; cbn [ty_eqb] in H; try discriminate; try reflexivity.
  - f_equal. apply IHe. exact H.
  - f_equal. rename fs0 into gs. revert gs H. induction fs as [|f fs IH]; intros gs H.
    + destruct gs; [reflexivity|discriminate].
    + destruct gs as [|g gs]; [discriminate|].
      apply andb_prop in H. destruct H as [H H3]. apply andb_prop in H. destruct H as [H1 H2].
      apply String.eqb_eq in H1. apply (Forall_inv IHfs) in H2.
      destruct f as [nf tf], g as [ng tg]. cbn [fst snd] in *. subst.
      f_equal. apply (IH (Forall_inv_tail IHfs)). exact H3.
  - f_equal. apply IHe. exact H.
Qed.

Definition simb (s i : ty) : bool := ty_eqb (erase (unwrap s)) (erase (unwrap i)).

Lemma simb_sim s i : simb s i = true -> sim s i.
Proof. unfold simb, sim. apply ty_eqb_eq. Qed.
