(* Facts about the generated tables (gen/KafkaSchemas.v from the compiled dissector,
   gen/KafkaSpecSchemas.v from the segmentio struct tags), re-established by computation on every
   run: a changed struct field, field order, type or version threshold changes the tables and
   breaks these proofs. *)
Require Import V.Base.Prelude V.Kafka.KafkaTy V.Kafka.KafkaModel V.Kafka.KafkaCompat V.Kafka.KafkaKnown.
Require Import V.gen.KafkaSchemas V.gen.KafkaSpecSchemas.
Require Import Coq.Strings.String.
Local Open Scope Z_scope.

Definition impl_layout (api ver : Z) (resp : bool) : option ty :=
  layout (if resp then impl_resp_tbl else impl_req_tbl) api ver.

Definition entry_divs (e : Z * Z * bool * ty) : list string :=
  let '(api, ver, resp, spec) := e in
  match impl_layout api ver resp with
  | None => ["(no layout)"%string]
  | Some impl => divs spec impl
  end.

Definition entry_ok (e : Z * Z * bool * ty) : bool :=
  let '(api, ver, resp, spec) := e in forallb (is_known api ver resp) (entry_divs e).

Lemma layouts_listed : forallb entry_ok spec_grid = true.
Proof. vm_compute. reflexivity. Qed.

(* every (api, version, direction) of the encoder's grid has a layout, and it is wire-compatible
   with the format or parts from it only at recorded fields *)
Lemma layouts_compat_or_known : forall api ver resp spec,
  In (api, ver, resp, spec) spec_grid ->
  exists impl, impl_layout api ver resp = Some impl /\
    (compat spec impl = true \/
     (forall p, In p (divs spec impl) -> is_known api ver resp p = true)).
Proof.
  intros api ver resp spec Hin.
  pose proof layouts_listed as H.
  rewrite forallb_forall in H. specialize (H _ Hin).
  unfold entry_ok, entry_divs in H.
  destruct (impl_layout api ver resp) as [impl|] eqn:E.
  - exists impl. split; [reflexivity|]. right. intros p Hp.
    rewrite forallb_forall in H. exact (H p Hp).
  - cbn [forallb] in H. exfalso.
    assert (Hk : is_known api ver resp "(no layout)"%string = false).
    { unfold is_known. apply Bool.not_true_is_false. intro Hx. apply existsb_exists in Hx.
      destruct Hx as [[[[[a lo] hi] r] p] [Hin' Hm]].
      repeat (apply andb_prop in Hm; destruct Hm as [Hm ?]).
      unfold known_divergences in Hin'. cbn [In] in Hin'.
      repeat (destruct Hin' as [Hin'|Hin']; [inversion Hin'; subst; discriminate|]). exact Hin'. }
    rewrite Hk in H. discriminate.
Qed.

(* every layout the dissector can select is made of the modelled, non-compact encodings, has no
   []byte field and no type without a decode function *)
Lemma impl_types_plain : forallb (fun nt => plain (snd nt)) impl_types = true.
Proof. vm_compute. reflexivity. Qed.

Definition table_types (t : layout_table) : list ty :=
  flat_map (fun e => map (fun r => snd r) (snd e)) t.

Lemma impl_tables_plain :
  forallb plain (table_types impl_req_tbl) = true /\ forallb plain (table_types impl_resp_tbl) = true.
Proof. split; vm_compute; reflexivity. Qed.

(* header: the api names the dissector reports are the protocol's names; every key below
   num_apis is accepted, and a key without a layout is skipped in frame *)
Lemma impl_names_spec : forall k n, In (k, n) spec_api_names -> name_of impl_api_names k = n.
Proof.
  intros k n H. unfold spec_api_names in H. cbn [In] in H.
  repeat (destruct H as [H|H]; [inversion H; subst; vm_compute; reflexivity|]). contradiction.
Qed.

Lemma impl_keys : impl_num_apis = 50 /\ impl_keys_contiguous = true /\ impl_unimplemented_skipped = true.
Proof. repeat split. Qed.

(* every array element of every layout takes at least one byte on the wire (the decoder sizes
   arrays by the bytes left in the message) *)
Require Import V.Kafka.KafkaSpecEnc.
Lemma impl_arrays_ok :
  forallb arrays_ok (table_types impl_req_tbl) = true /\ forallb arrays_ok (table_types impl_resp_tbl) = true.
Proof. split; vm_compute; reflexivity. Qed.

(* wherever the generated tables are wire-compatible, they differ only in names and
   single-field wrappers, so compat_sound applies: the dissector reports the encoded values *)
Require Import V.Kafka.KafkaCompatProofs.
Lemma compat_grid_simb :
  forallb (fun e : Z * Z * bool * ty =>
             let '(api, ver, resp, spec) := e in
             match impl_layout api ver resp with
             | Some impl => implb (compat spec impl) (simb spec impl)
             | None => true
             end) spec_grid = true.
Proof. vm_compute. reflexivity. Qed.

Lemma compat_grid_sim : forall api ver resp spec impl,
  In (api, ver, resp, spec) spec_grid -> impl_layout api ver resp = Some impl ->
  compat spec impl = true -> sim spec impl.
Proof.
  intros api ver resp spec impl Hin Hl Hc.
  pose proof compat_grid_simb as H. rewrite forallb_forall in H. specialize (H _ Hin). cbn beta iota in H.
  rewrite Hl, Hc in H. cbn [implb] in H. apply simb_sim. exact H.
Qed.

Require Import V.Kafka.KafkaC01 V.Kafka.KafkaRoundtrip V.Kafka.KafkaFrame.
Lemma impl_layout_ok api ver resp impl : impl_layout api ver resp = Some impl ->
  plain impl = true /\ arrays_ok impl = true.
Proof.
  unfold impl_layout. intro H.
  destruct impl_tables_plain as [P1 P2]. destruct impl_arrays_ok as [A1 A2].
  assert (Hin : In impl (KafkaC01.table_types (if resp then impl_resp_tbl else impl_req_tbl))).
  { eapply layout_in. exact H. }
  destruct resp.
  - split; [rewrite forallb_forall in P2; apply P2; exact Hin|rewrite forallb_forall in A2; apply A2; exact Hin].
  - split; [rewrite forallb_forall in P1; apply P1; exact Hin|rewrite forallb_forall in A1; apply A1; exact Hin].
Qed.

(* the headline for the compatible part of the grid: the selected layout decodes the wire
   format's encoding of every well-formed value to that value (up to names and single-field
   wrappers, null read as empty) and consumes exactly its bytes *)
Lemma grid_exact : forall api ver resp spec impl,
  In (api, ver, resp, spec) spec_grid -> impl_layout api ver resp = Some impl -> compat spec impl = true ->
  forall v, wf spec v ->
  exists v', wf impl v' /\ uv impl v' = uv spec v /\ encode impl v' = encode spec v /\
    forall d r, derr d = None -> inp d = encode spec v ++ r -> blen (encode spec v) <= remain d ->
    exists d', decode impl d = Ok (norm impl v', d') /\ consumed d d' (encode spec v) r.
Proof.
  intros api ver resp spec impl Hin Hl Hc v Hw.
  destruct (impl_layout_ok api ver resp impl Hl) as [Hp Ha].
  apply compat_sound; try assumption. eapply compat_grid_sim; eassumption.
Qed.
