(* Facts about the generated tables (gen/KafkaSchemas.v from the compiled dissector,
   gen/KafkaSpecSchemas.v from the segmentio struct tags), re-established by computation on every
   run: a changed struct field, field order, type or version threshold changes the tables and
   breaks these proofs. *)
Require Import V.Base.Prelude V.Kafka.KafkaTy V.Kafka.KafkaModel V.Kafka.KafkaCompat V.Kafka.KafkaKnown.
Require Import V.gen.KafkaSchemas V.gen.KafkaSpecSchemas.
Require Import Coq.Strings.String.
Local Open Scope Z_scope.

Definition impl_layout (api ver : Z) (resp : bool) : option ty :=
  layout (if resp then impl_resp_tbl else impl_req_tbl) api ver.

Definition entry_divs (e : Z * Z * bool * ty) : list string :=
  let '(api, ver, resp, spec) := e in
  match impl_layout api ver resp with
  | None => ["(no layout)"%string]
  | Some impl => divs spec impl
  end.

Definition entry_ok (e : Z * Z * bool * ty) : bool :=
  let '(api, ver, resp, spec) := e in forallb (is_known api ver resp) (entry_divs e).

Lemma layouts_listed : forallb entry_ok spec_grid = true.
Proof. vm_compute. reflexivity. Qed.

(* every (api, version, direction) of the encoder's grid has a layout, and it is wire-compatible
   with the format or parts from it only at recorded fields *)
Lemma layouts_compat_or_known : forall api ver resp spec,
  In (api, ver, resp, spec) spec_grid ->
  exists impl, impl_layout api ver resp = Some impl /\
    (compat spec impl = true \/
     (forall p, In p (divs spec impl) -> is_known api ver resp p = true)).
Proof.
  intros api ver resp spec Hin.
  pose proof layouts_listed as H.
  rewrite forallb_forall in H. specialize (H _ Hin).
  unfold entry_ok, entry_divs in H.
  destruct (impl_layout api ver resp) as [impl|] eqn:E.
  - exists impl. split; [reflexivity|]. right. intros p Hp.
    rewrite forallb_forall in H. exact (H p Hp).
  - cbn [forallb] in H. exfalso.
    assert (Hk : is_known api ver resp "(no layout)"%string = false).
    { unfold is_known. apply Bool.not_true_is_false. intro Hx. apply existsb_exists in Hx.
      destruct Hx as [[[[[a lo] hi] r] p] [Hin' Hm]].
      repeat (apply andb_prop in Hm; destruct Hm as [Hm ?]).
      unfold known_divergences in Hin'. cbn [In] in Hin'.
      repeat (destruct Hin' as [Hin'|Hin']; [inversion Hin'; subst; discriminate|]). exact Hin'. }
    rewrite Hk in H. discriminate.
Qed.

(* every layout the dissector can select is made of the modelled, non-compact encodings, has no
   []byte field and no type without a decode function *)
Lemma impl_types_plain : forallb (fun nt => plain (snd nt)) impl_types = true.
Proof. vm_compute. reflexivity. Qed.

Definition table_types (t : layout_table) : list ty :=
  flat_map (fun e => map (fun r => snd r) (snd e)) t.

Lemma impl_tables_plain :
  forallb plain (table_types impl_req_tbl) = true /\ forallb plain (table_types impl_resp_tbl) = true.
Proof. split; vm_compute; reflexivity. Qed.

(* header: the api names the dissector reports are the protocol's names; every key below
   num_apis is accepted, and a key without a layout is skipped in frame *)
Lemma impl_names_spec : forall k n, In (k, n) spec_api_names -> name_of impl_api_names k = n.
Proof.
  intros k n H. unfold spec_api_names in H. cbn [In] in H.
  repeat (destruct H as [H|H]; [inversion H; subst; vm_compute; reflexivity|]). contradiction.
Qed.

Lemma impl_keys : impl_num_apis = 50 /\ impl_keys_contiguous = true /\ impl_unimplemented_skipped = true.
Proof. repeat split. Qed.

(* every array element of every layout takes at least one byte on the wire (the decoder sizes
   arrays by the bytes left in the message) *)
Require Import V.Kafka.KafkaSpecEnc.
Lemma impl_arrays_ok :
  forallb arrays_ok (table_types impl_req_tbl) = true /\ forallb arrays_ok (table_types impl_resp_tbl) = true.
Proof. split; vm_compute; reflexivity. Qed.
