(* C06 framing: a request or response whose declared size is within the accepted range and whose
   bytes are all present is consumed to exactly 4 + size bytes, whatever the selected layout
   decodes from it (including layouts that misread the body), so the next message is read from
   the right offset; the end of the stream is not touched. *)
Require Import V.Base.Prelude V.Kafka.KafkaTy V.Kafka.KafkaModel V.Kafka.KafkaLift V.Kafka.KafkaFrame.
Require Import V.Kafka.KafkaSpecEnc V.Kafka.KafkaBytes.
Require Import Coq.Strings.String.
Local Open Scope Z_scope.

Lemma size_read size body rest t st al :
  in_range 32 size ->
  rd_int 4 (start (enc_int 4 size ++ body ++ rest) t st al)
  = (size, advance 4 (body ++ rest) (start (enc_int 4 size ++ body ++ rest) t st al)).
Proof.
  intros Hs.
  pose proof (rd_int_ok 4%nat size (start (enc_int 4 size ++ body ++ rest) t st al) (body ++ rest)) as H.
  change (Z.of_nat 4) with 4 in H. apply H; try reflexivity; try lia; try exact Hs; cbn; lia.
Qed.

Lemma in_range_32 size : 0 <= size <= 1000000 -> in_range 32 size.
Proof. unfold in_range. change (2 ^ (32 - 1)) with 2147483648. lia. Qed.

Lemma framed_after_size size body rest t st al :
  blen body = size ->
  framed rest (with_remain size (advance 4 (body ++ rest) (start (enc_int 4 size ++ body ++ rest) t st al))).
Proof. intros Hb. exists body. cbn. split; [reflexivity|exact Hb]. Qed.

Theorem request_framing : forall T size body rest t st al m d' m',
  8 <= size <= 1000000 -> blen body = size ->
  read_request T (start (enc_int 4 size ++ body ++ rest) t st al) m = Ok (d', m') ->
  inp d' = rest /\ tl d' = t /\ remain d' = 0.
Proof.
  intros T size body rest t st al m d' m' Hs Hb H.
  unfold read_request in H. rewrite size_read in H by (apply in_range_32; lia).
  destruct (1000000 <? size) eqn:E1; [apply Z.ltb_lt in E1; lia|].
  destruct (size <? 8) eqn:E2; [apply Z.ltb_lt in E2; lia|].
  cbn [derr advance] in H.
  pose proof (framed_after_size size body rest t st al Hb) as F2.
  set (d2 := with_remain size _) in *.
  assert (T2 : tl d2 = t) by reflexivity.
  destruct (rd_int 2 d2) as [api d3] eqn:E3.
  pose proof (frame_rd_int rest 2 d2 F2) as [F3 T3]. rewrite E3 in F3, T3. cbn [snd] in F3, T3.
  destruct (rd_int 2 d3) as [ver d4] eqn:E4.
  pose proof (frame_rd_int rest 2 d3 F3) as [F4 T4]. rewrite E4 in F4, T4. cbn [snd] in F4, T4.
  destruct (rd_int 4 d4) as [corr d5] eqn:E5.
  pose proof (frame_rd_int rest 4 d4 F4) as [F5 T5]. rewrite E5 in F5, T5. cbn [snd] in F5, T5.
  destruct (rd_string d5) as [client d6] eqn:E6.
  pose proof (frame_rd_string rest d5 F5) as [F6 T6]. rewrite E6 in F6, T6. cbn [snd] in F6, T6.
  destruct ((api <? 0) || (num_apis T <=? api)); [discriminate|].
  destruct (derr d6); [discriminate|].
  assert (Hfin : forall d7, framed rest d7 -> tl d7 = t ->
                 inp (discard_all d7) = rest /\ tl (discard_all d7) = t /\ remain (discard_all d7) = 0).
  { intros d7 F7 T7. destruct (framed_discard rest d7 F7) as (Hi & Hr & _ & Ht).
    repeat split; [exact Hi|congruence|exact Hr]. }
  assert (T6' : tl d6 = t) by congruence.
  destruct (layout (req_tbl T) api ver) as [ty|].
  - destruct (decode ty d6) as [[v d7]| | |] eqn:E7; cbn [bind] in H; try discriminate.
    injection H as <- <-.
    destruct (frame_decode rest ty d6 v d7 E7 F6) as [F7 T7]. apply Hfin; [exact F7|congruence].
  - cbn [bind] in H. injection H as <- <-. apply Hfin; assumption.
Qed.

Theorem response_framing : forall T size body rest t st al m d' m' its,
  4 <= size <= 1000000 -> blen body = size ->
  read_response T (start (enc_int 4 size ++ body ++ rest) t st al) m = Ok (d', m', its) ->
  inp d' = rest /\ tl d' = t /\ remain d' = 0.
Proof.
  intros T size body rest t st al m d' m' its Hs Hb H.
  unfold read_response in H. rewrite size_read in H by (apply in_range_32; lia).
  destruct (1000000 <? size) eqn:E1; [apply Z.ltb_lt in E1; lia|].
  destruct (size <? 4) eqn:E2; [apply Z.ltb_lt in E2; lia|].
  cbn [derr advance] in H.
  pose proof (framed_after_size size body rest t st al Hb) as F2.
  set (d2 := with_remain size _) in *.
  assert (T2 : tl d2 = t) by reflexivity.
  destruct (rd_int 4 d2) as [corr d3] eqn:E3.
  pose proof (frame_rd_int rest 4 d2 F2) as [F3 T3]. rewrite E3 in F3, T3. cbn [snd] in F3, T3.
  assert (Hfin : forall d7, framed rest d7 -> tl d7 = t ->
                 inp (discard_all d7) = rest /\ tl (discard_all d7) = t /\ remain (discard_all d7) = 0).
  { intros d7 F7 T7. destruct (framed_discard rest d7 F7) as (Hi & Hr & _ & Ht).
    repeat split; [exact Hi|congruence|exact Hr]. }
  assert (T3' : tl d3 = t) by congruence.
  destruct (m_find corr m) as [rq|]; [|discriminate].
  destruct (layout (resp_tbl T) (q_api rq) (q_ver rq)) as [ty|].
  - destruct (decode ty d3) as [[v d4]| | |] eqn:E4; cbn [bind] in H; try discriminate.
    injection H as <- <- <-.
    destruct (frame_decode rest ty d3 v d4 E4 F3) as [F4 T4]. apply Hfin; [exact F4|congruence].
  - injection H as <- <- <-. apply Hfin; assumption.
Qed.
