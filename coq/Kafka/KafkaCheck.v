(* Boolean comparison of the model's report with what the harness observed on the real
   dissector (used by the generated correspondence files; no proofs). *)
Require Import V.Base.Prelude V.Kafka.KafkaTy V.Kafka.KafkaModel.
Require Import Coq.Strings.String.
Require Import Coq.Numbers.Cyclic.Int63.Uint63.
Local Open Scope Z_scope.

(* outcome classes as the harness prints them: 0 eof, 1 unexpected eof, 2 other error, 3 panic, 4 no termination *)
Definition out_code (o : outcome) : Z :=
  match o with
  | Returned EEOF => 0
  | Returned EUnexpectedEOF => 1
  | Returned _ => 2
  | Panicked _ => 3
  | NoFuel => 4
  end.

Definition tail_of (z : Z) : tailk := if z =? 1 then TErrOnce else if z =? 2 then TErrForever else TEof.

(* api, version, correlation id, client id, size, response size, response correlation id, name, request payload, response payload *)
Definition obs_item := (Z * Z * Z * bytes * Z * Z * Z * string * kv * kv)%type.

Definition item_matches (i : item) (o : obs_item) : bool :=
  let '(api, ver, corr, client, size, rsize, rcorr, name, rq, rs) := o in
  let q := i_req i in
  (q_api q =? api) && (q_ver q =? ver) && (q_corr q =? corr) && bytes_eqb (q_client q) client
  && (q_size q =? size) && (i_rsize i =? rsize) && (i_rcorr i =? rcorr) && String.eqb (i_name i) name
  && match q_payload q with Some v => kv_eqb v rq | None => false end
  && kv_eqb (i_resp i) rs.

Fixpoint items_match (l : list item) (m : list obs_item) : bool :=
  match l, m with
  | [], [] => true
  | i :: l', o :: m' => item_matches i o && items_match l' m'
  | _, _ => false
  end.

Fixpoint insert_z (x : Z) (l : list Z) : list Z :=
  match l with [] => [x] | y :: l' => if x <=? y then x :: l else y :: insert_z x l' end.
Definition sort_z (l : list Z) : list Z := fold_right insert_z [] l.

(* client bytes, server bytes, tail kind, (client outcome, server outcome), items, residue *)
Definition obs_case := (bytes * bytes * Z * (Z * Z) * list obs_item * list Z)%type.

Definition chk_case (T : tables) (c : obs_case) : bool :=
  let '(cb, sb, t, (oc, os), its, res) := c in
  let r := dissect T cb sb (tail_of t) in
  (out_code (r_client r) =? oc) && (out_code (r_server r) =? os)
  && items_match (r_items r) its
  && list_eqb Z.eqb (sort_z (r_residue r)) (sort_z res).

(* which component differs (for the log): 1 client outcome, 2 server outcome, 3 items, 4 residue *)
Definition diag_case (T : tables) (c : obs_case) : list Z :=
  let '(cb, sb, t, (oc, os), its, res) := c in
  let r := dissect T cb sb (tail_of t) in
  (if out_code (r_client r) =? oc then [] else [1; out_code (r_client r)])
  ++ (if out_code (r_server r) =? os then [] else [2; out_code (r_server r)])
  ++ (if items_match (r_items r) its then [] else [3; Z.of_nat (List.length (r_items r))])
  ++ (if list_eqb Z.eqb (sort_z (r_residue r)) (sort_z res) then [] else [4]).

(* ---------------------------------------------------------------- observed cases as one byte blob
   Coq elaborates about 10^4 numerals per second, so the harness' observations are handed over
   as 7-byte words (primitive 63-bit integers, the one kind of literal Coq reads fast) and parsed here (by vm_compute) instead of being written as terms.
   Format (big-endian): see tools/fam/kafka.py ser_case. *)
Fixpoint word_bytes (k : nat) (w : int) (acc : bytes) : bytes :=
  match k with
  | O => acc
  | S k' => word_bytes k' (Uint63.lsr w 8) (b_of_N (Z.to_N (Uint63.to_Z (Uint63.land w 255))) :: acc)
  end.

(* all words hold 7 bytes, the last one `last` bytes *)
Fixpoint hx (last : nat) (ws : list int) : bytes :=
  match ws with
  | [] => []
  | [w] => word_bytes last w []
  | w :: ws' => word_bytes 7 w [] ++ hx last ws'
  end.

Fixpoint splitn (n : nat) (b : bytes) : option (bytes * bytes) :=
  match n with
  | O => Some ([], b)
  | S n' =>
    match b with
    | [] => None
    | x :: b' => match splitn n' b' with Some (h, t) => Some (x :: h, t) | None => None end
    end
  end.

Definition P (A : Type) := bytes -> option (A * bytes).
Definition pbind {A B} (p : P A) (f : A -> P B) : P B :=
  fun b => match p b with Some (a, b') => f a b' | None => None end.
Definition pret {A} (a : A) : P A := fun b => Some (a, b).
Notation "'do' x '<-' p ';;' k" := (pbind p (fun x => k)) (at level 200, x pattern, p at level 100, k at level 200).

Definition p_u (k : nat) : P Z := fun b => match splitn k b with Some (h, t) => Some (be h, t) | None => None end.
Definition p_i (k : nat) : P Z := do u <- p_u k ;; pret (sgn (8 * Z.of_nat k) u).
Definition p_blob : P bytes := do n <- p_u 4 ;; (fun b => splitn (Z.to_nat n) b).

Fixpoint p_kv (fuel : nat) : P kv :=
  match fuel with
  | O => fun _ => None
  | S f =>
    let p_list := fix pl (n : nat) : P (list kv) :=
                    match n with
                    | O => pret []
                    | S n' => do v <- p_kv f ;; do vs <- pl n' ;; pret (v :: vs)
                    end in
    do t <- p_u 1 ;;
    if t =? 0 then pret (KBool false)
    else if t =? 1 then pret (KBool true)
    else if t =? 2 then (do z <- p_i 8 ;; pret (KInt z))
    else if t =? 3 then (do s <- p_blob ;; pret (KStr s))
    else if t =? 4 then (do s <- p_blob ;; pret (KBytes s))
    else if t =? 5 then (do n <- p_u 4 ;; do l <- p_list (Z.to_nat n) ;; pret (KArr l))
    else if t =? 6 then (do n <- p_u 4 ;; do l <- p_list (Z.to_nat n) ;; pret (KStruct l))
    else if t =? 7 then pret KNull
    else fun _ => None
  end.

Fixpoint p_many {A} (p : P A) (n : nat) : P (list A) :=
  match n with
  | O => pret []
  | S n' => do x <- p ;; do xs <- p_many p n' ;; pret (x :: xs)
  end.

Definition p_item : P obs_item :=
  do api <- p_i 2 ;; do ver <- p_i 2 ;; do corr <- p_i 4 ;; do client <- p_blob ;;
  do size <- p_i 4 ;; do rsize <- p_i 4 ;; do rcorr <- p_i 4 ;; do name <- p_blob ;;
  do rq <- p_kv 64 ;; do rs <- p_kv 64 ;;
  pret (api, ver, corr, client, size, rsize, rcorr, string_of_list_byte name, rq, rs).

Definition p_case : P obs_case :=
  do cb <- p_blob ;; do sb <- p_blob ;; do t <- p_u 1 ;; do oc <- p_u 1 ;; do os <- p_u 1 ;;
  do ni <- p_u 4 ;; do its <- p_many p_item (Z.to_nat ni) ;;
  do nr <- p_u 4 ;; do res <- p_many (p_i 4) (Z.to_nat nr) ;;
  pret (cb, sb, t, (oc, os), its, res).

Definition p_cases : P (list obs_case) := do n <- p_u 4 ;; p_many p_case (Z.to_nat n).

(* indices of the cases on which model and implementation differ; [4999] if the blob does not parse *)
Definition failing_cases (T : tables) (last : nat) (ws : list int) : list nat :=
  match p_cases (hx last ws) with
  | Some (cs, []) => failing (chk_case T) cs
  | _ => [4999%nat]
  end.

(* ---------------------------------------------------------------- the spec encoder against the independent encoder
   (api, version, is_response, value of the message body, the body bytes the segmentio encoder wrote) *)
Require Import V.Kafka.KafkaSpecEnc.
Definition spec_case := (Z * Z * Z * kv * bytes)%type.

Definition p_spec_case : P spec_case :=
  do api <- p_i 2 ;; do ver <- p_i 2 ;; do resp <- p_u 1 ;; do v <- p_kv 64 ;; do body <- p_blob ;;
  pret (api, ver, resp, v, body).

Fixpoint grid_find (g : list (Z * Z * bool * ty)) (api ver : Z) (resp : bool) : option ty :=
  match g with
  | [] => None
  | (a, v, r, t) :: g' => if (a =? api) && (v =? ver) && Bool.eqb r resp then Some t else grid_find g' api ver resp
  end.

Definition chk_spec (g : list (Z * Z * bool * ty)) (c : spec_case) : bool :=
  let '(api, ver, resp, v, body) := c in
  match grid_find g api ver (negb (resp =? 0)) with
  | Some t => bytes_eqb (encode t v) body
  | None => false
  end.

Definition failing_spec (g : list (Z * Z * bool * ty)) (last : nat) (ws : list int) : list nat :=
  match (do n <- p_u 4 ;; p_many p_spec_case (Z.to_nat n)) (hx last ws) with
  | Some (cs, []) => failing (chk_spec g) cs
  | _ => [4999%nat]
  end.
