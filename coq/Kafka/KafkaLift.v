(* A relation between decoder states that holds across the five state-changing primitives
   (rd, set_error, discard_all, tick, charge) and is reflexive and transitive holds across every
   composite operation of the decoder.  Proved once, instantiated for monotonicity, framing, ... *)
Require Import V.Base.Prelude V.Kafka.KafkaTy V.Kafka.KafkaModel.
Require Import Coq.Strings.String.
Local Open Scope Z_scope.

Section Lift.
  Variable R : dstate -> dstate -> Prop.
  Hypothesis R_refl : forall d, R d d.
  Hypothesis R_trans : forall a b c, R a b -> R b c -> R a c.
  Hypothesis R_rd : forall n d, R d (snd (rd n d)).
  Hypothesis R_set_error : forall e d, R d (set_error e d).
  Hypothesis R_charge : forall n d, R d (charge n d).
  Hypothesis R_tick : forall d, R d (tick d).

  Lemma R_rd_int k d : R d (snd (rd_int k d)).
  Proof.
    unfold rd_int. pose proof (R_rd k d) as H. destruct (rd k d) as [[b ok] d1]. exact H.
  Qed.

  Lemma R_rd_byte d : R d (snd (rd_byte d)).
  Proof.
    unfold rd_byte. pose proof (R_rd 1 d) as H. destruct (rd 1 d) as [[b ok] d1]. exact H.
  Qed.

  Lemma R_rd_alloc n d : R d (snd (rd_alloc n d)).
  Proof.
    unfold rd_alloc.
    pose proof (R_rd n (charge (Z.min n (remain d)) d)) as H.
    destruct (rd n (charge (Z.min n (remain d)) d)) as [[b ok] d1]. cbn [snd] in *.
    eapply R_trans; [apply R_charge|exact H].
  Qed.

  Lemma R_rd_string d : R d (snd (rd_string d)).
  Proof.
    unfold rd_string. pose proof (R_rd_int 2 d) as H. destruct (rd_int 2 d) as [n d1]. cbn [snd] in H.
    destruct (n <? 0); [exact H|]. eapply R_trans; [exact H|apply R_rd_alloc].
  Qed.

  Lemma R_rd_bytes d : R d (snd (rd_bytes d)).
  Proof.
    unfold rd_bytes. pose proof (R_rd_int 4 d) as H. destruct (rd_int 4 d) as [n d1]. cbn [snd] in H.
    destruct (n <? 0); [exact H|]. eapply R_trans; [exact H|apply R_rd_alloc].
  Qed.

  Lemma R_varint_loop n : forall x s d, R d (snd (varint_loop n x s d)).
  Proof.
    induction n as [|n IH]; intros x s d; cbn [varint_loop snd]; [apply R_refl|].
    pose proof (R_rd_byte d) as H. destruct (rd_byte d) as [b d1]. cbn [snd] in H.
    destruct (b <? 128); [exact H|]. eapply R_trans; [exact H|apply IH].
  Qed.

  Lemma R_rd_varint d : R d (snd (rd_varint d)).
  Proof.
    unfold rd_varint.
    pose proof (R_varint_loop (Z.to_nat (Z.min 11 (Z.max 0 (remain d)))) 0 0 d) as H.
    destruct (varint_loop _ 0 0 d) as [[x|] d1]; cbn [snd] in *; [exact H|].
    eapply R_trans; [exact H|apply R_set_error].
  Qed.

  Lemma R_rd_varstring n d : R d (snd (rd_varstring n d)).
  Proof.
    unfold rd_varstring. destruct (n <=? 0); [apply R_refl|apply R_rd_alloc].
  Qed.

  Lemma R_rd_header d : R d (snd (rd_header d)).
  Proof.
    unfold rd_header.
    pose proof (R_rd_varint d) as H1. destruct (rd_varint d) as [kl d1]. cbn [snd] in H1.
    pose proof (R_rd_varstring kl d1) as H2. destruct (rd_varstring kl d1) as [k d2]. cbn [snd] in H2.
    pose proof (R_rd_varint d2) as H3. destruct (rd_varint d2) as [vl d3]. cbn [snd] in H3.
    pose proof (R_rd_varstring vl d3) as H4. destruct (rd_varstring vl d3) as [v d4]. cbn [snd] in H4.
    eapply R_trans; [exact H1|]. eapply R_trans; [exact H2|]. eapply R_trans; [exact H3|exact H4].
  Qed.

  Lemma R_header_loop fuel : forall n d hs d', header_loop fuel n d = Ok (hs, d') -> R d d'.
  Proof.
    induction fuel as [|f IH]; intros n d hs d' H; cbn [header_loop] in H; [discriminate|].
    destruct ((n <=? 0) || (remain d <=? 0) || _).
    - inversion H; subst. apply R_refl.
    - pose proof (R_rd_header (tick d)) as Hh. destruct (rd_header (tick d)) as [h d1]. cbn [snd] in Hh.
      destruct (header_loop f (n - 1) d1) as [[hs2 d2]| | |] eqn:E; cbn [bind] in H; try discriminate.
      inversion H; subst. eapply R_trans; [apply R_tick|]. eapply R_trans; [exact Hh|]. eapply IH; exact E.
  Qed.

  Lemma R_decode_record d v d' : decode_record d = Ok (v, d') -> R d d'.
  Proof.
    unfold decode_record. intro H.
    pose proof (R_rd_varint d) as H1. destruct (rd_varint d) as [len d1]. cbn [snd] in H1.
    pose proof (R_rd_int 1 d1) as H2. destruct (rd_int 1 d1) as [attr d2]. cbn [snd] in H2.
    pose proof (R_rd_varint d2) as H3. destruct (rd_varint d2) as [ts d3]. cbn [snd] in H3.
    pose proof (R_rd_varint d3) as H4. destruct (rd_varint d3) as [off d4]. cbn [snd] in H4.
    pose proof (R_rd_varint d4) as H5. destruct (rd_varint d4) as [kl d5]. cbn [snd] in H5.
    pose proof (R_rd_varstring kl d5) as H6. destruct (rd_varstring kl d5) as [k d6]. cbn [snd] in H6.
    pose proof (R_rd_varint d6) as H7. destruct (rd_varint d6) as [vl d7]. cbn [snd] in H7.
    pose proof (R_rd_varstring vl d7) as H8. destruct (rd_varstring vl d7) as [vv d8]. cbn [snd] in H8.
    pose proof (R_rd_varint d8) as H9. destruct (rd_varint d8) as [hn d9]. cbn [snd] in H9.
    destruct (header_loop (S (Z.to_nat (remain d9))) hn d9) as [[hs d10]| | |] eqn:E; cbn [bind] in H; try discriminate.
    inversion H; subst.
    pose proof (R_header_loop _ _ _ _ _ E) as H10.
    repeat (eapply R_trans; [eassumption|]). apply R_refl.
  Qed.

  Lemma R_arr_loop (dec : dstate -> res (kv * dstate)) :
    (forall d v d', dec d = Ok (v, d') -> R d d') ->
    forall n d vs d', arr_loop dec n d = Ok (vs, d') -> R d d'.
  Proof.
    intros Hdec. induction n as [|n IH]; intros d vs d' H; cbn [arr_loop] in H.
    - inversion H; subst. apply R_refl.
    - destruct ((remain d <=? 0) || _).
      + inversion H; subst. apply R_refl.
      + destruct (dec (tick d)) as [[v d1]| | |] eqn:E1; cbn [bind] in H; try discriminate.
        destruct (arr_loop dec n d1) as [[vs2 d2]| | |] eqn:E2; cbn [bind] in H; try discriminate.
        inversion H; subst.
        eapply R_trans; [apply R_tick|]. eapply R_trans; [eapply Hdec; exact E1|]. eapply IH; exact E2.
  Qed.

  Lemma R_decode : forall t d v d', decode t d = Ok (v, d') -> R d d'.
  Proof.
    induction t as [ | | | | | | | e IHe | fs IHfs | | | | | e IHe | ] using ty_ind';
      intros d v d' Hd; cbn [decode] in Hd; try discriminate.
    - pose proof (R_rd_byte d) as Hb. destruct (rd_byte d) as [b d1]. inversion Hd; subst. exact Hb.
    - pose proof (R_rd_int 1 d) as Hb. destruct (rd_int 1 d) as [z d1]. inversion Hd; subst. exact Hb.
    - pose proof (R_rd_int 2 d) as Hb. destruct (rd_int 2 d) as [z d1]. inversion Hd; subst. exact Hb.
    - pose proof (R_rd_int 4 d) as Hb. destruct (rd_int 4 d) as [z d1]. inversion Hd; subst. exact Hb.
    - pose proof (R_rd_int 8 d) as Hb. destruct (rd_int 8 d) as [z d1]. inversion Hd; subst. exact Hb.
    - pose proof (R_rd_string d) as Hb. destruct (rd_string d) as [z d1]. inversion Hd; subst. exact Hb.
    - pose proof (R_rd_bytes d) as Hb. destruct (rd_bytes d) as [z d1]. inversion Hd; subst. exact Hb.
    - (* array *)
      pose proof (R_rd_int 4 d) as Hb. destruct (rd_int 4 d) as [n d1]. cbn [snd] in Hb.
      destruct ((n <? 0) || (65535 <? n)).
      + inversion Hd; subst. exact Hb.
      + destruct (arr_loop (decode e) _ _) as [[vs d2]| | |] eqn:E; cbn [bind] in Hd; try discriminate.
        inversion Hd; subst.
        eapply R_trans; [exact Hb|]. eapply R_trans; [apply R_charge|].
        eapply R_arr_loop; [|exact E]. exact IHe.
    - (* struct *)
      match type of Hd with context [bind (?g fs d) _] => remember g as go eqn:Hgo end.
      assert (Hfs : forall d vs d', go fs d = Ok (vs, d') -> R d d').
      { clear Hd. induction fs as [|f fs IH]; intros d0 vs d0' Hg; rewrite Hgo in Hg; cbn in Hg.
        - injection Hg as <- <-. apply R_refl.
        - rewrite <- Hgo in Hg. clear Hgo.
          pose proof (Forall_inv IHfs) as Hf. pose proof (Forall_inv_tail IHfs) as Hrest.
          destruct (decode (snd f) d0) as [[v1 d1]| | |] eqn:E1; cbn [bind] in Hg; try discriminate.
          destruct (go fs d1) as [[vs2 d2]| | |] eqn:E2; cbn [bind] in Hg; try discriminate.
          injection Hg as <- <-.
          eapply R_trans; [eapply Hf; exact E1|]. eapply IH; [exact Hrest|exact E2]. }
      destruct (go fs d) as [[vs d1]| | |] eqn:E; cbn [bind] in Hd; try discriminate.
      injection Hd as <- <-. eapply Hfs; exact E.
    - eapply R_decode_record; exact Hd.
  Qed.
End Lift.
