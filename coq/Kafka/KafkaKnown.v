(* The recorded divergences between the dissector's layouts and the wire format (defect ledger
   D26), the Coq twin of the layout findings in known/kafka.json (tools/props/C06.py checks that
   the two lists are the same): (api key, first version, last version, is_response, first
   diverging field of the wire format). *)
Require Import V.Base.Prelude.
Require Import Coq.Strings.String.
Local Open Scope Z_scope.

Definition known_divergences : list (Z * Z * Z * bool * string) := [
  (0, 0, 8, false, "Topics[].Partitions"%string);
  (0, 8, 8, true, "Topics[].Partitions[].RecordErrors"%string);
  (1, 0, 3, true, "Topics[].Partitions[].RecordSet"%string);
  (1, 4, 11, true, "Topics[].Partitions[].AbortedTransactions"%string);
  (1, 7, 11, false, "ForgottenTopics"%string);
  (2, 4, 5, false, "IsolationLevel"%string);
  (2, 4, 5, true, "ThrottleTimeMs"%string);
  (3, 0, 8, true, "Topics[].Partitions[].ReplicaNodes"%string);
  (19, 5, 5, false, "_headerTags"%string);
  (19, 5, 5, true, "_headerTags"%string)
].

Definition is_known (api ver : Z) (resp : bool) (path : string) : bool :=
  existsb (fun k => let '(a, lo, hi, r, p) := k in
                    (a =? api) && (lo <=? ver) && (ver <=? hi) && Bool.eqb r resp && String.eqb p path)
          known_divergences.
