(* Wire types and decoded values of the Kafka dissector (pkg/extensions/kafka).
   `ty` is what decode.go's decodeFuncOf makes of a Go payload type (generated from the
   compiled structs by reflection, gen/KafkaSchemas.v) and what the `kafka:"..."` tags of the
   segmentio message structs say about the wire (gen/KafkaSpecSchemas.v).
   TCStr / TCBytes / TCArr / TTags are the compact encodings of flexible versions: decode.go
   has the functions, no dissector layout reaches them; they occur on the spec side only. *)
Require Import V.Base.Prelude.
Require Import Coq.Strings.String.
Local Open Scope Z_scope.

Inductive ty :=
| TBool | TI8 | TI16 | TI32 | TI64
| TStr | TBytes
| TArr (e : ty)
| TStruct (fs : list (string * ty))
| TRecordV0
| TUnsupported
| TCStr | TCBytes | TCArr (e : ty) | TTags.

(* decoded values.  A record (RecordV0) is the KStruct of its nine Go fields. *)
Inductive kv :=
| KBool (b : bool)
| KInt (z : Z)
| KStr (s : bytes)
| KBytes (s : bytes)
| KArr (l : list kv)
| KStruct (l : list kv)
| KNull.                       (* spec side only: a null string / bytes / array *)

(* ---- induction principles for the nested types ---- *)
Section TyInd.
  Variable P : ty -> Prop.
  Hypothesis HBool : P TBool.
  Hypothesis HI8 : P TI8.
  Hypothesis HI16 : P TI16.
  Hypothesis HI32 : P TI32.
  Hypothesis HI64 : P TI64.
  Hypothesis HStr : P TStr.
  Hypothesis HBytes : P TBytes.
  Hypothesis HArr : forall e, P e -> P (TArr e).
  Hypothesis HStruct : forall fs, Forall (fun f => P (snd f)) fs -> P (TStruct fs).
  Hypothesis HRec : P TRecordV0.
  Hypothesis HUns : P TUnsupported.
  Hypothesis HCStr : P TCStr.
  Hypothesis HCBytes : P TCBytes.
  Hypothesis HCArr : forall e, P e -> P (TCArr e).
  Hypothesis HTags : P TTags.

  Fixpoint ty_ind' (t : ty) : P t :=
    match t with
    | TBool => HBool | TI8 => HI8 | TI16 => HI16 | TI32 => HI32 | TI64 => HI64
    | TStr => HStr | TBytes => HBytes
    | TArr e => HArr e (ty_ind' e)
    | TStruct fs =>
      HStruct fs ((fix go (l : list (string * ty)) : Forall (fun f => P (snd f)) l :=
                     match l with
                     | [] => Forall_nil _
                     | f :: l' => Forall_cons f (ty_ind' (snd f)) (go l')
                     end) fs)
    | TRecordV0 => HRec
    | TUnsupported => HUns
    | TCStr => HCStr | TCBytes => HCBytes
    | TCArr e => HCArr e (ty_ind' e)
    | TTags => HTags
    end.
End TyInd.

Section KvInd.
  Variable P : kv -> Prop.
  Hypothesis HB : forall b, P (KBool b).
  Hypothesis HI : forall z, P (KInt z).
  Hypothesis HS : forall s, P (KStr s).
  Hypothesis HY : forall s, P (KBytes s).
  Hypothesis HA : forall l, Forall P l -> P (KArr l).
  Hypothesis HT : forall l, Forall P l -> P (KStruct l).
  Hypothesis HN : P KNull.
  Fixpoint kv_ind' (v : kv) : P v :=
    match v with
    | KBool b => HB b | KInt z => HI z | KStr s => HS s | KBytes s => HY s
    | KArr l => HA l ((fix go (l : list kv) : Forall P l :=
                         match l with [] => Forall_nil _ | x :: l' => Forall_cons x (kv_ind' x) (go l') end) l)
    | KStruct l => HT l ((fix go (l : list kv) : Forall P l :=
                            match l with [] => Forall_nil _ | x :: l' => Forall_cons x (kv_ind' x) (go l') end) l)
    | KNull => HN
    end.
End KvInd.

(* ---- boolean equalities (used by the correspondence files and the layout comparison) ---- *)
Definition byte_eqb (a b : byte) : bool := N.eqb (Byte.to_N a) (Byte.to_N b).
Definition bytes_eqb : bytes -> bytes -> bool := list_eqb byte_eqb.

Fixpoint kv_eqb (a b : kv) {struct a} : bool :=
  match a, b with
  | KBool x, KBool y => Bool.eqb x y
  | KInt x, KInt y => Z.eqb x y
  | KStr x, KStr y => bytes_eqb x y
  | KBytes x, KBytes y => bytes_eqb x y
  | KArr x, KArr y =>
    (fix go (l m : list kv) : bool :=
       match l, m with
       | [], [] => true
       | u :: l', w :: m' => kv_eqb u w && go l' m'
       | _, _ => false
       end) x y
  | KStruct x, KStruct y =>
    (fix go (l m : list kv) : bool :=
       match l, m with
       | [], [] => true
       | u :: l', w :: m' => kv_eqb u w && go l' m'
       | _, _ => false
       end) x y
  | KNull, KNull => true
  | _, _ => false
  end.

(* the Go zero value of a payload type, as decode leaves the elements of an array that the
   loop `for i < n && d.remain > 0` did not reach *)
Definition zero_header : kv := KStruct [KInt 0; KStr []; KInt 0; KStr []].
Definition zero_record : kv :=
  KStruct [KInt 0; KInt 0; KInt 0; KInt 0; KInt 0; KStr []; KInt 0; KStr []; KArr []].

Fixpoint zero (t : ty) : kv :=
  match t with
  | TBool => KBool false
  | TI8 | TI16 | TI32 | TI64 => KInt 0
  | TStr | TCStr => KStr []
  | TBytes | TCBytes => KBytes []
  | TArr _ | TCArr _ => KArr []
  | TStruct fs => KStruct (map (fun f => zero (snd f)) fs)
  | TRecordV0 => zero_record
  | TUnsupported => KStruct []
  | TTags => KStruct []
  end.

(* no TUnsupported inside: every decode function exists (decodeFuncOf returns nil otherwise
   and calling it panics) *)
Fixpoint supported (t : ty) : bool :=
  match t with
  | TUnsupported => false
  | TArr e | TCArr e => supported e
  | TStruct fs => forallb (fun f => supported (snd f)) fs
  | _ => true
  end.

(* only the non-compact encodings and no []byte field: what every dissector layout is made of *)
Fixpoint plain (t : ty) : bool :=
  match t with
  | TBool | TI8 | TI16 | TI32 | TI64 | TStr | TRecordV0 => true
  | TArr e => plain e
  | TStruct fs => forallb (fun f => plain (snd f)) fs
  | _ => false
  end.

(* number of scalar leaves of a value of the type, with arrays counted as one element: the
   per-element work of decode *)
Fixpoint ty_size (t : ty) : nat :=
  match t with
  | TArr e | TCArr e => S (ty_size e)
  | TStruct fs => S (fold_right (fun f acc => (ty_size (snd f) + acc)%nat) 0%nat fs)
  | TRecordV0 => 12
  | _ => 1
  end.

Fixpoint ty_depth (t : ty) : nat :=
  match t with
  | TArr e | TCArr e => S (ty_depth e)
  | TStruct fs => fold_right (fun f acc => Nat.max (ty_depth (snd f)) acc) 0%nat fs
  | _ => 0
  end.
