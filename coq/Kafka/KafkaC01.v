(* C01, Kafka share: dissecting any byte string on either half never panics and always returns.
   Every panic site of the model is a layout with a type for which decodeFuncOf has no function
   (TUnsupported, nil function call) or a compact encoding outside the model; `plain` excludes
   both and holds for every layout of the generated tables (KafkaLayouts.impl_tables_plain).
   The loops: arrays are bounded by their count, the record-header loop consumes a byte per
   iteration or stops, the Dissect loop consumes at least four bytes per message. *)
Require Import V.Base.Prelude V.Kafka.KafkaTy V.Kafka.KafkaModel V.Kafka.KafkaLift V.Kafka.KafkaFrame.
Require Import Coq.Strings.String.
Local Open Scope Z_scope.

Definition mono_varint_loop := R_varint_loop mono mono_refl mono_trans mono_rd.
Definition mono_rd_varint := R_rd_varint mono mono_refl mono_trans mono_rd mono_set_error.
Definition mono_rd_varstring := R_rd_varstring mono mono_refl mono_trans mono_rd mono_charge.
Definition mono_rd_header := R_rd_header mono mono_refl mono_trans mono_rd mono_set_error mono_charge.
Definition mono_rd_byte := R_rd_byte mono mono_rd.

(* a successful read of n > 0 bytes takes them from the input *)
Lemma rd_true n d b d' : rd n d = (b, true, d') -> 0 < n ->
  blen (inp d') + n = blen (inp d) /\ remain d' = remain d - n /\ derr d' = None.
Proof.
  unfold rd. intros H Hn.
  destruct (n <=? 0) eqn:E; [apply Z.leb_le in E; lia|].
  destruct (derr (tick d)) eqn:Ee; [discriminate|].
  destruct (remain (tick d) <=? 0) eqn:E0; [discriminate|]. apply Z.leb_gt in E0.
  destruct (Z.min n (remain (tick d)) <=? blen (inp (tick d))) eqn:E1.
  - apply Z.leb_le in E1.
    destruct (n <=? remain (tick d)) eqn:E2; [|discriminate]. apply Z.leb_le in E2.
    cbn [inp remain derr tick tl steps alloc] in *.
    assert (Hmin : Z.min n (remain d) = n) by lia. rewrite Hmin in *.
    injection H as _ <-. cbn [inp remain derr].
    rewrite blen_skipn by lia. split; [lia|split; reflexivity].
  - destruct (hit (tl (tick d))). discriminate.
Qed.

(* one byte read without error consumes one byte of the message *)
Lemma rd_byte_progress d : derr d = None -> 0 < remain d ->
  let d1 := snd (rd_byte d) in derr d1 = None -> remain d1 = remain d - 1.
Proof.
  intros He Hr. unfold rd_byte. destruct (rd 1 d) as [[b ok] d1] eqn:E. cbn [snd].
  destruct ok.
  - intros _. apply rd_true in E; [|lia]. lia.
  - (* a failed read leaves an error *)
    unfold rd in E. cbn [Z.leb Z.compare] in E. cbn [tick derr remain inp tl steps alloc] in E. rewrite He in E.
    destruct (remain d <=? 0) eqn:E0; [apply Z.leb_le in E0; lia|].
    destruct (Z.min 1 (remain d) <=? blen (inp d)) eqn:E1.
    + destruct (1 <=? remain d) eqn:E2; [discriminate|]. apply Z.leb_gt in E2. lia.
    + destruct (hit (tl d)) as [e t1]. injection E as _ <-.
      intro Hn. unfold set_error in Hn. cbn [derr] in Hn.
      unfold discard_all in Hn. cbn [remain inp tl derr with_err] in Hn.
      destruct (remain d - blen (inp d) <=? 0); cbn [derr] in Hn; [discriminate|].
      destruct (remain d - blen (inp d) <=? blen []); cbn [derr] in Hn; [discriminate|].
      destruct (hit t1). cbn [derr] in Hn. discriminate.
Qed.

Lemma sticky_none d d' : mono d d' -> 0 <= remain d -> derr d' = None -> derr d = None.
Proof.
  intros Hm Hr Hn. destruct (Hm Hr) as (_ & _ & _ & Hs).
  destruct (derr d) as [e|] eqn:E; [|reflexivity]. rewrite (Hs e eq_refl) in Hn. discriminate.
Qed.

Lemma rd_varint_progress d : derr d = None -> 0 < remain d ->
  let d1 := snd (rd_varint d) in derr d1 = None -> remain d1 < remain d.
Proof.
  intros He Hr. cbn zeta. unfold rd_varint.
  destruct (Z.to_nat (Z.min 11 (Z.max 0 (remain d)))) as [|n] eqn:En; [lia|].
  cbn [varint_loop].
  pose proof (rd_byte_progress d He Hr) as Hp. cbn zeta in Hp.
  pose proof (mono_rd_byte d) as Hm0.
  destruct (rd_byte d) as [b d1]. cbn [snd] in Hp, Hm0.
  assert (H0 : 0 <= remain d) by lia. destruct (Hm0 H0) as (Hr1 & Hle1 & _ & _).
  destruct (b <? 128).
  - cbn [snd]. intro Hn. specialize (Hp Hn). lia.
  - pose proof (mono_varint_loop n ((0 + b mod 128 * 2 ^ 0) mod 2 ^ 64) (0 + 7) d1) as Hm.
    destruct (varint_loop n _ _ d1) as [[x|] d2]; cbn [snd] in *.
    + intro Hn. destruct (Hm Hr1) as (_ & Hle2 & _ & _).
      pose proof (sticky_none d1 d2 Hm Hr1 Hn) as Hn1. specialize (Hp Hn1). lia.
    + intro Hn. pose proof (mono_set_error EProto d2) as Hm2.
      destruct (Hm Hr1) as (Hr2 & Hle2 & _ & _).
      pose proof (sticky_none d2 _ Hm2 Hr2 Hn) as Hn2.
      pose proof (sticky_none d1 d2 Hm Hr1 Hn2) as Hn1. specialize (Hp Hn1).
      destruct (Hm2 Hr2) as (_ & Hle3 & _ & _). lia.
Qed.

Lemma rd_header_progress d : derr d = None -> 0 < remain d ->
  let d1 := snd (rd_header d) in 0 <= remain d1 /\ remain d1 <= remain d /\ (derr d1 = None -> remain d1 < remain d).
Proof.
  intros He Hr. cbn zeta.
  pose proof (mono_rd_header d) as Hall. assert (H0 : 0 <= remain d) by lia.
  destruct (Hall H0) as (Ha & Hb & _ & _). split; [exact Ha|]. split; [exact Hb|].
  unfold rd_header in *.
  pose proof (rd_varint_progress d He Hr) as Hp. cbn zeta in Hp.
  pose proof (mono_rd_varint d) as M1.
  destruct (rd_varint d) as [kl d1]. cbn [snd] in Hp, M1. destruct (M1 H0) as (R1 & L1 & _ & _).
  pose proof (mono_rd_varstring kl d1) as M2. destruct (rd_varstring kl d1) as [k d2]. cbn [snd] in M2.
  destruct (M2 R1) as (R2 & L2 & _ & _).
  pose proof (mono_rd_varint d2) as M3. destruct (rd_varint d2) as [vl d3]. cbn [snd] in M3.
  destruct (M3 R2) as (R3 & L3 & _ & _).
  pose proof (mono_rd_varstring vl d3) as M4. destruct (rd_varstring vl d3) as [v d4]. cbn [snd] in M4 |- *.
  destruct (M4 R3) as (R4 & L4 & _ & _).
  intro Hn.
  pose proof (sticky_none d3 d4 M4 R3 Hn) as N3.
  pose proof (sticky_none d2 d3 M3 R2 N3) as N2.
  pose proof (sticky_none d1 d2 M2 R1 N2) as N1.
  specialize (Hp N1). lia.
Qed.

Lemma header_loop_total fuel : forall n d, 0 <= remain d ->
  (match derr d with None => Z.to_nat (remain d) < fuel | Some _ => 1 <= fuel end)%nat ->
  exists hs d', header_loop fuel n d = Ok (hs, d').
Proof.
  induction fuel as [|f IH]; intros n d Hr Hf.
  - destruct (derr d); lia.
  - cbn [header_loop].
    destruct (n <=? 0) eqn:En; cbn [orb]; [eauto|].
    destruct (remain d <=? 0) eqn:E0; cbn [orb]; [eauto|]. apply Z.leb_gt in E0.
    destruct (derr d) eqn:Ee; [eauto|].
    pose proof (rd_header_progress (tick d) Ee E0) as Hp. cbn zeta in Hp.
    destruct (rd_header (tick d)) as [h d1]. cbn [snd tick remain] in Hp.
    destruct Hp as (R1 & L1 & P1).
    destruct (IH (n - 1) d1 R1) as (hs & d2 & E2).
    { destruct (derr d1); [lia|]. specialize (P1 eq_refl). lia. }
    rewrite E2. cbn [bind]. eauto.
Qed.

Lemma decode_record_total d : 0 <= remain d -> exists v d', decode_record d = Ok (v, d').
Proof.
  intros H0. unfold decode_record.
  pose proof (mono_rd_varint d) as M1. destruct (rd_varint d) as [len d1]. cbn [snd] in M1. destruct (M1 H0) as (R1 & _).
  pose proof (mono_rd_int 1 d1) as M2. destruct (rd_int 1 d1) as [attr d2]. cbn [snd] in M2. destruct (M2 R1) as (R2 & _).
  pose proof (mono_rd_varint d2) as M3. destruct (rd_varint d2) as [ts d3]. cbn [snd] in M3. destruct (M3 R2) as (R3 & _).
  pose proof (mono_rd_varint d3) as M4. destruct (rd_varint d3) as [off d4]. cbn [snd] in M4. destruct (M4 R3) as (R4 & _).
  pose proof (mono_rd_varint d4) as M5. destruct (rd_varint d4) as [kl d5]. cbn [snd] in M5. destruct (M5 R4) as (R5 & _).
  pose proof (mono_rd_varstring kl d5) as M6. destruct (rd_varstring kl d5) as [k d6]. cbn [snd] in M6. destruct (M6 R5) as (R6 & _).
  pose proof (mono_rd_varint d6) as M7. destruct (rd_varint d6) as [vl d7]. cbn [snd] in M7. destruct (M7 R6) as (R7 & _).
  pose proof (mono_rd_varstring vl d7) as M8. destruct (rd_varstring vl d7) as [v d8]. cbn [snd] in M8. destruct (M8 R7) as (R8 & _).
  pose proof (mono_rd_varint d8) as M9. destruct (rd_varint d8) as [hn d9]. cbn [snd] in M9. destruct (M9 R8) as (R9 & _).
  destruct (header_loop_total (S (Z.to_nat (remain d9))) hn d9 R9) as (hs & d10 & E).
  { destruct (derr d9); lia. }
  rewrite E. cbn [bind]. eauto.
Qed.

Lemma arr_loop_total (dec : dstate -> res (kv * dstate)) :
  (forall d, 0 <= remain d -> exists v d', dec d = Ok (v, d')) ->
  (forall d v d', dec d = Ok (v, d') -> mono d d') ->
  forall n d, 0 <= remain d -> exists vs d', arr_loop dec n d = Ok (vs, d').
Proof.
  intros Htot Hmono. induction n as [|n IH]; intros d Hr; cbn [arr_loop]; [eauto|].
  destruct ((remain d <=? 0) || _); [eauto|].
  destruct (Htot (tick d) Hr) as (v & d1 & E1). rewrite E1. cbn [bind].
  destruct (Hmono _ _ _ E1 Hr) as (R1 & _).
  destruct (IH d1 R1) as (vs & d2 & E2). rewrite E2. cbn [bind]. eauto.
Qed.

(* the reflective decoder never panics and never runs out of fuel on a layout made of the
   modelled encodings *)
Theorem decode_total : forall t, plain t = true -> forall d, 0 <= remain d ->
  exists v d', decode t d = Ok (v, d').
Proof.
  induction t as [ | | | | | | | e IHe | fs IHfs | | | | | e IHe | ] using ty_ind';
    intros Hp d Hr; cbn [plain] in Hp; try discriminate; cbn [decode].
  - destruct (rd_byte d). eauto.
  - destruct (rd_int 1 d). eauto.
  - destruct (rd_int 2 d). eauto.
  - destruct (rd_int 4 d). eauto.
  - destruct (rd_int 8 d). eauto.
  - destruct (rd_string d). eauto.
  - pose proof (mono_rd_int 4 d) as M. destruct (rd_int 4 d) as [n d1]. cbn [snd] in M. destruct (M Hr) as (R1 & _).
    destruct ((n <? 0) || (65535 <? n)); [eauto|].
    destruct (arr_loop_total (decode e) (IHe Hp) (mono_decode e) (Z.to_nat (Z.min n (Z.max 0 (remain d1))))
                             (charge (Z.min n (Z.max 0 (remain d1)) * gosize e) d1) R1) as (vs & d2 & E).
    rewrite E. cbn [bind]. eauto.
  - match goal with |- context [bind (?g fs d) _] => remember g as go eqn:Hgo end.
    assert (Hfs : forall d, 0 <= remain d -> (exists vs d', go fs d = Ok (vs, d')) /\
                                             (forall vs d', go fs d = Ok (vs, d') -> 0 <= remain d')).
    { clear d Hr. induction fs as [|f fs IH]; intros d Hr; rewrite Hgo; cbn.
      - split; [eauto|]. intros vs d' H. injection H as <- <-. exact Hr.
      - rewrite <- Hgo. cbn [forallb] in Hp. apply andb_prop in Hp. destruct Hp as [Hpf Hpr].
        pose proof (Forall_inv IHfs) as Hf. pose proof (Forall_inv_tail IHfs) as Hrest.
        destruct (Hf Hpf d Hr) as (v1 & d1 & E1). rewrite E1. cbn [bind].
        destruct (mono_decode _ _ _ _ E1 Hr) as (R1 & _).
        destruct (IH Hrest Hpr d1 R1) as ((vs & d2 & E2) & Hpres). rewrite E2. cbn [bind].
        split; [eauto|]. intros vs' d' H. injection H as <- <-. eapply Hpres. exact E2. }
    destruct (Hfs d Hr) as ((vs & d1 & E) & _). rewrite E. cbn [bind]. eauto.
  - apply decode_record_total. exact Hr.
Qed.

(* ------------------------------------------------------------------ messages and the Dissect loop *)
Definition table_types (t : layout_table) : list ty :=
  flat_map (fun e => map (fun r => snd r) (snd e)) t.

Definition tables_plain (T : tables) : Prop :=
  forallb plain (table_types (req_tbl T)) = true /\ forallb plain (table_types (resp_tbl T)) = true.

Lemma pick_range_in v rs t : pick_range v rs = Some t -> In t (map (fun r => snd r) rs).
Proof.
  induction rs as [|[[lo hi] t'] rs IH]; cbn [pick_range map In]; [discriminate|].
  destruct ((lo <=? v) && (v <=? hi)).
  - intro H. injection H as <-. left. reflexivity.
  - intro H. right. apply IH. exact H.
Qed.

Lemma layout_in tbl api ver t : layout tbl api ver = Some t -> In t (table_types tbl).
Proof.
  induction tbl as [|[k rs] tbl IH]; cbn [layout]; [discriminate|].
  unfold table_types. cbn [flat_map]. intro H. apply in_or_app.
  destruct (k =? api).
  - left. cbn [snd]. eapply pick_range_in. exact H.
  - right. apply IH. exact H.
Qed.

Lemma layout_plain tbl api ver t : forallb plain (table_types tbl) = true -> layout tbl api ver = Some t -> plain t = true.
Proof.
  intros Hp H. rewrite forallb_forall in Hp. apply Hp. eapply layout_in. exact H.
Qed.

(* ReadRequest / ReadResponse return: Ok or an error, never a panic *)
Lemma read_request_returns T d0 m : tables_plain T -> remain d0 = 4 ->
  (exists d m', read_request T d0 m = Ok (d, m')) \/ (exists e, read_request T d0 m = Err e).
Proof.
  intros [Hpq _] Hr0. unfold read_request.
  pose proof (mono_rd_int 4 d0) as M1. destruct (rd_int 4 d0) as [size d1]. cbn [snd] in M1.
  destruct (1000000 <? size); [right; eauto|].
  destruct (size <? 8) eqn:E8; [destruct (size =? 0); right; eauto|]. apply Z.ltb_ge in E8.
  destruct (derr d1); [right; eauto|].
  assert (R2 : 0 <= remain (with_remain size d1)) by (cbn; lia).
  pose proof (mono_rd_int 2 (with_remain size d1)) as M3. destruct (rd_int 2 _) as [api d3]. cbn [snd] in M3. destruct (M3 R2) as (R3 & _).
  pose proof (mono_rd_int 2 d3) as M4. destruct (rd_int 2 d3) as [ver d4]. cbn [snd] in M4. destruct (M4 R3) as (R4 & _).
  pose proof (mono_rd_int 4 d4) as M5. destruct (rd_int 4 d4) as [corr d5]. cbn [snd] in M5. destruct (M5 R4) as (R5 & _).
  pose proof (mono_rd_string d5) as M6. destruct (rd_string d5) as [client d6]. cbn [snd] in M6. destruct (M6 R5) as (R6 & _).
  destruct ((api <? 0) || (num_apis T <=? api)); [right; eauto|].
  destruct (derr d6); [right; eauto|].
  destruct (layout (req_tbl T) api ver) as [t|] eqn:El.
  - destruct (decode_total t (layout_plain _ _ _ _ Hpq El) d6 R6) as (v & d7 & E7). rewrite E7. cbn [bind]. left. eauto.
  - cbn [bind]. left. eauto.
Qed.

Lemma read_response_returns T d0 m : tables_plain T -> remain d0 = 4 ->
  (exists d m' its, read_response T d0 m = Ok (d, m', its)) \/ (exists e, read_response T d0 m = Err e).
Proof.
  intros [_ Hps] Hr0. unfold read_response.
  pose proof (mono_rd_int 4 d0) as M1. destruct (rd_int 4 d0) as [size d1]. cbn [snd] in M1.
  destruct (1000000 <? size); [right; eauto|].
  destruct (size <? 4) eqn:E4; [destruct (size =? 0); right; eauto|]. apply Z.ltb_ge in E4.
  destruct (derr d1); [right; eauto|].
  assert (R2 : 0 <= remain (with_remain size d1)) by (cbn; lia).
  pose proof (mono_rd_int 4 (with_remain size d1)) as M3. destruct (rd_int 4 _) as [corr d3]. cbn [snd] in M3. destruct (M3 R2) as (R3 & _).
  destruct (m_find corr m) as [rq|]; [|right; eauto].
  destruct (layout (resp_tbl T) (q_api rq) (q_ver rq)) as [t|] eqn:El.
  - destruct (decode_total t (layout_plain _ _ _ _ Hps El) d3 R3) as (v & d4 & E4'). rewrite E4'. cbn [bind]. left. eauto 6.
  - left. eauto 6.
Qed.

(* a message that is accepted took at least its four size bytes from the input *)
Lemma size_progress d0 size d1 : remain d0 = 4 -> derr d0 = None -> rd_int 4 d0 = (size, d1) -> size <> 0 ->
  blen (inp d1) + 4 = blen (inp d0) /\ 0 <= remain d1.
Proof.
  intros Hr He H Hs. unfold rd_int in H. destruct (rd 4 d0) as [[b ok] d'] eqn:E.
  injection H as H1 <-. destruct ok; [|congruence].
  apply rd_true in E; [|lia]. lia.
Qed.

Lemma read_request_progress T i t st al m d m' :
  read_request T (start i t st al) m = Ok (d, m') -> (List.length (inp d) < List.length i)%nat.
Proof.
  unfold read_request. intro H.
  destruct (rd_int 4 (start i t st al)) as [size d1] eqn:E1.
  destruct (1000000 <? size); [discriminate|].
  destruct (size <? 8) eqn:E8; [destruct (size =? 0); discriminate|]. apply Z.ltb_ge in E8.
  destruct (size_progress (start i t st al) size d1 eq_refl eq_refl E1 ltac:(lia)) as [Hlen _].
  cbn [start inp] in Hlen.
  destruct (derr d1); [discriminate|].
  assert (R2 : 0 <= remain (with_remain size d1)) by (cbn; lia).
  pose proof (mono_rd_int 2 (with_remain size d1)) as M3. destruct (rd_int 2 (with_remain size d1)) as [api d3]. cbn [snd] in M3. destruct (M3 R2) as (R3 & _ & L3 & _).
  pose proof (mono_rd_int 2 d3) as M4. destruct (rd_int 2 d3) as [ver d4]. cbn [snd] in M4. destruct (M4 R3) as (R4 & _ & L4 & _).
  pose proof (mono_rd_int 4 d4) as M5. destruct (rd_int 4 d4) as [corr d5]. cbn [snd] in M5. destruct (M5 R4) as (R5 & _ & L5 & _).
  pose proof (mono_rd_string d5) as M6. destruct (rd_string d5) as [client d6]. cbn [snd] in M6. destruct (M6 R5) as (R6 & _ & L6 & _).
  destruct ((api <? 0) || (num_apis T <=? api)); [discriminate|].
  destruct (derr d6); [discriminate|].
  cbn [with_remain inp] in L3. unfold blen in Hlen.
  assert (Hfin : forall d7, mono d6 d7 -> (List.length (inp (discard_all d7)) < List.length i)%nat).
  { intros d7 M7. destruct (M7 R6) as (R7 & _ & L7 & _).
    destruct (mono_discard d7 R7) as (_ & _ & L8 & _). lia. }
  destruct (layout (req_tbl T) api ver) as [ty|].
  - destruct (decode ty d6) as [[v d7]| | |] eqn:E7; cbn [bind] in H; try discriminate.
    injection H as <- <-. apply Hfin. eapply mono_decode. exact E7.
  - cbn [bind] in H. injection H as <- <-. apply Hfin. apply mono_refl.
Qed.

Lemma read_response_progress T i t st al m d m' its :
  read_response T (start i t st al) m = Ok (d, m', its) -> (List.length (inp d) < List.length i)%nat.
Proof.
  unfold read_response. intro H.
  destruct (rd_int 4 (start i t st al)) as [size d1] eqn:E1.
  destruct (1000000 <? size); [discriminate|].
  destruct (size <? 4) eqn:E4; [destruct (size =? 0); discriminate|]. apply Z.ltb_ge in E4.
  destruct (size_progress (start i t st al) size d1 eq_refl eq_refl E1 ltac:(lia)) as [Hlen _].
  cbn [start inp] in Hlen.
  destruct (derr d1); [discriminate|].
  assert (R2 : 0 <= remain (with_remain size d1)) by (cbn; lia).
  pose proof (mono_rd_int 4 (with_remain size d1)) as M3. destruct (rd_int 4 (with_remain size d1)) as [corr d3]. cbn [snd] in M3. destruct (M3 R2) as (R3 & _ & L3 & _).
  cbn [with_remain inp] in L3. unfold blen in Hlen.
  assert (Hfin : forall d7, mono d3 d7 -> (List.length (inp (discard_all d7)) < List.length i)%nat).
  { intros d7 M7. destruct (M7 R3) as (R7 & _ & L7 & _).
    destruct (mono_discard d7 R7) as (_ & _ & L8 & _). lia. }
  destruct (m_find corr m) as [rq|]; [|discriminate].
  destruct (layout (resp_tbl T) (q_api rq) (q_ver rq)) as [ty|].
  - destruct (decode ty d3) as [[v d4]| | |] eqn:E7; cbn [bind] in H; try discriminate.
    injection H as <- <- <-. apply Hfin. eapply mono_decode. exact E7.
  - injection H as <- <- <-. apply Hfin. apply mono_refl.
Qed.

Theorem kafka_C01_client : forall T fuel i t st al m, tables_plain T -> (List.length i < fuel)%nat ->
  exists e, fst (fst (dissect_client T fuel i t st al m)) = Returned e.
Proof.
  intros T fuel. induction fuel as [|f IH]; intros i t st al m HT Hf; [lia|].
  cbn [dissect_client].
  destruct (read_request_returns T (start i t st al) m HT eq_refl) as [(d & m' & E)|(e & E)]; rewrite E.
  - apply IH; [exact HT|]. pose proof (read_request_progress _ _ _ _ _ _ _ _ E). lia.
  - exists e. reflexivity.
Qed.

Theorem kafka_C01_server : forall T fuel i t st al m acc, tables_plain T -> (List.length i < fuel)%nat ->
  exists e, fst (fst (fst (dissect_server T fuel i t st al m acc))) = Returned e.
Proof.
  intros T fuel. induction fuel as [|f IH]; intros i t st al m acc HT Hf; [lia|].
  cbn [dissect_server].
  destruct (read_response_returns T (start i t st al) m HT eq_refl) as [(d & m' & its & E)|(e & E)]; rewrite E.
  - apply IH; [exact HT|]. pose proof (read_response_progress _ _ _ _ _ _ _ _ _ E). lia.
  - exists e. reflexivity.
Qed.

(* both halves of a connection, any bytes, any end-of-stream kind: Dissect returns an
   end-of-stream or error result on each half; no panic, no missing fuel *)
Theorem kafka_C01_dissect : forall T client server t, tables_plain T ->
  exists e1 e2, r_client (dissect T client server t) = Returned e1 /\
                r_server (dissect T client server t) = Returned e2.
Proof.
  intros T client server t HT. unfold dissect.
  destruct (kafka_C01_client T (fuel_of client) client t 0 0 [] HT) as (e1 & E1); [unfold fuel_of; lia|].
  destruct (dissect_client T (fuel_of client) client t 0 0 []) as [[oc m1] [s1 a1]]. cbn [fst] in E1.
  destruct (kafka_C01_server T (fuel_of server) server t s1 a1 m1 [] HT) as (e2 & E2); [unfold fuel_of; lia|].
  destruct (dissect_server T (fuel_of server) server t s1 a1 m1 []) as [[[os m2] its] [s2 a2]]. cbn [fst] in E2.
  cbn. eauto.
Qed.
