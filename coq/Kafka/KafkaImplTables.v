(* The C01/C02 theorems of the Kafka share are stated for every table set T with `tables_plain T`
   (and `tables_arrays_ok T`).  This file discharges those premises for the tables regenerated from
   the compiled dissector on every run (gen/KafkaSchemas.v), by computation: a struct field whose
   type has no decode function, a []byte field, a compact encoding or an array whose elements may
   take no byte makes the computation answer false and the theorems below fail to check. *)
Require Import V.Base.Prelude V.Kafka.KafkaTy V.Kafka.KafkaModel V.Kafka.KafkaLift V.Kafka.KafkaFrame.
Require Import V.Kafka.KafkaC01 V.Kafka.KafkaCost V.Kafka.KafkaC02 V.gen.KafkaSchemas.
Require Import Coq.Strings.String.
Local Open Scope Z_scope.

Lemma impl_tables_are_plain : tables_plain impl_tables.
Proof. split; vm_compute; reflexivity. Qed.

Lemma impl_tables_have_arrays_ok : tables_arrays_ok impl_tables.
Proof. split; vm_compute; reflexivity. Qed.

Theorem kafka_C01_impl_dissect : forall client server t,
  exists e1 e2, r_client (dissect impl_tables client server t) = Returned e1 /\
                r_server (dissect impl_tables client server t) = Returned e2.
Proof. intros. apply kafka_C01_dissect. exact impl_tables_are_plain. Qed.

Theorem kafka_C02_impl_steps : forall client server t,
  r_steps (dissect impl_tables client server t)
  <= (KT impl_tables + ST impl_tables + 6) * (blen client + blen server).
Proof. intros. apply kafka_C02_steps; [exact impl_tables_are_plain|exact impl_tables_have_arrays_ok]. Qed.

Theorem kafka_C02_impl_terminates : forall client server t,
  r_client (dissect impl_tables client server t) <> NoFuel /\
  r_server (dissect impl_tables client server t) <> NoFuel.
Proof. intros. apply kafka_C02_terminates. exact impl_tables_are_plain. Qed.
