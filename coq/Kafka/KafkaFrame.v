(* Monotonicity and framing of the Kafka decoder model.
   mono:  no operation makes `remain` negative or larger, lengthens the unread input, or clears
          the sticky error.
   frame: while the whole message is present (the unread input is `pre ++ rest` with
          |pre| = remain) every operation, whatever the layout makes it read, stays inside `pre`;
          discardAll at the end of the message leaves exactly `rest`.  (C06: "each message is
          consumed to exactly its declared size".) *)
Require Import V.Base.Prelude V.Kafka.KafkaTy V.Kafka.KafkaModel V.Kafka.KafkaLift.
Require Import Coq.Strings.String.
Local Open Scope Z_scope.

Lemma blen_app a b : blen (a ++ b) = blen a + blen b.
Proof. unfold blen. rewrite app_length. lia. Qed.
Lemma blen_nonneg b : 0 <= blen b.
Proof. unfold blen. lia. Qed.
Lemma blen_nil_inv b : blen b = 0 -> b = [].
Proof. unfold blen. destruct b; cbn [List.length]; [reflexivity|lia]. Qed.
Lemma blen_skipn k b : 0 <= k <= blen b -> blen (skipn (Z.to_nat k) b) = blen b - k.
Proof. unfold blen. intros H. rewrite skipn_length. lia. Qed.
Lemma blen_firstn k b : 0 <= k <= blen b -> blen (firstn (Z.to_nat k) b) = k.
Proof. unfold blen. intros H. rewrite firstn_length. lia. Qed.
Lemma skipn_app_le k (a b : bytes) : 0 <= k <= blen a -> skipn (Z.to_nat k) (a ++ b) = skipn (Z.to_nat k) a ++ b.
Proof.
  unfold blen. intros H. rewrite skipn_app.
  replace (Z.to_nat k - List.length a)%nat with 0%nat by lia. reflexivity.
Qed.
Lemma firstn_app_le k (a b : bytes) : 0 <= k <= blen a -> firstn (Z.to_nat k) (a ++ b) = firstn (Z.to_nat k) a.
Proof.
  unfold blen. intros H. rewrite firstn_app.
  replace (Z.to_nat k - List.length a)%nat with 0%nat by lia. cbn [firstn]. apply app_nil_r.
Qed.

(* ------------------------------------------------------------------ monotonicity *)
Definition mono (d d' : dstate) : Prop :=
  0 <= remain d ->
  0 <= remain d' /\ remain d' <= remain d /\ (List.length (inp d') <= List.length (inp d))%nat /\
  (forall e, derr d = Some e -> derr d' = Some e).

Ltac split4 := split; [|split; [|split]].

Lemma mono_refl d : mono d d.
Proof. intro H. split4; try lia. auto. Qed.

Lemma mono_trans a b c : mono a b -> mono b c -> mono a c.
Proof.
  intros H1 H2 H0. destruct (H1 H0) as (Ha & Hb & Hc & Hd). destruct (H2 Ha) as (Ha' & Hb' & Hc' & Hd').
  split4; try lia. intros e He. apply Hd'. apply Hd. exact He.
Qed.

Lemma mono_tick d : mono d (tick d).
Proof. intro H. cbn. split4; try lia. auto. Qed.
Lemma mono_charge n d : mono d (charge n d).
Proof. intro H. cbn. split4; try lia. auto. Qed.

Lemma mono_discard d : mono d (discard_all d).
Proof.
  intro H. unfold discard_all.
  destruct (remain d <=? 0) eqn:E0; [apply mono_refl; exact H|].
  apply Z.leb_gt in E0.
  destruct (remain d <=? blen (inp d)) eqn:E1.
  - cbn. split4; try lia; [rewrite skipn_length; lia|auto].
  - apply Z.leb_gt in E1. destruct (hit (tl d)) as [e t1]. cbn. unfold blen in *.
    split4; try lia. intros e0 He. rewrite He. reflexivity.
Qed.

Lemma mono_set_error e d : mono d (set_error e d).
Proof.
  unfold set_error. destruct (derr d) eqn:E; [apply mono_refl|].
  intro H. pose proof (mono_discard (with_err (Some e) d)) as Hm. cbn in Hm.
  destruct (Hm H) as (Ha & Hb & Hc & Hd). split4; try assumption.
  intros e0 He. rewrite E in He. discriminate.
Qed.

Lemma mono_rd n d : mono d (snd (rd n d)).
Proof.
  unfold rd.
  destruct (n <=? 0) eqn:En; [cbn [snd]; apply mono_tick|]. apply Z.leb_gt in En.
  destruct (derr (tick d)) eqn:Ee; [cbn [snd]; apply mono_tick|].
  destruct (remain (tick d) <=? 0) eqn:E0.
  { cbn [snd]. eapply mono_trans; [apply mono_tick|apply mono_set_error]. }
  apply Z.leb_gt in E0.
  destruct (Z.min n (remain (tick d)) <=? blen (inp (tick d))) eqn:E1.
  - apply Z.leb_le in E1.
    set (w := Z.min n (remain (tick d))) in *.
    assert (Hd1 : mono d {| inp := skipn (Z.to_nat w) (inp (tick d)); tl := tl (tick d);
                            remain := remain (tick d) - w; derr := None;
                            steps := steps (tick d); alloc := alloc (tick d) |}).
    { intro H. cbn [inp remain derr tl steps alloc tick] in *. subst w. split4; try lia.
      - rewrite skipn_length. unfold blen in E1. lia.
      - intros e He. rewrite He in Ee. discriminate. }
    destruct (n <=? remain (tick d)); cbn [snd]; [exact Hd1|].
    eapply mono_trans; [exact Hd1|apply mono_set_error].
  - apply Z.leb_gt in E1. destruct (hit (tl (tick d))) as [e t1]. cbn [snd].
    eapply mono_trans; [|apply mono_set_error].
    intro H. cbn [inp remain derr tl steps alloc tick List.length] in *. unfold blen in *. split4; try lia.
    intros e0 He. rewrite He in Ee. discriminate.
Qed.

Definition mono_decode := R_decode mono mono_refl mono_trans mono_rd mono_set_error mono_charge mono_tick.
Definition mono_rd_int := R_rd_int mono mono_rd.
Definition mono_rd_string := R_rd_string mono mono_trans mono_rd mono_charge.

(* ------------------------------------------------------------------ framing *)
Section Frame.
  Variable rest : bytes.

  Definition framed (d : dstate) : Prop := exists pre, inp d = pre ++ rest /\ blen pre = remain d.
  (* the message being present, an operation stays inside it and never reaches the end of the stream *)
  Definition frame (d d' : dstate) : Prop := framed d -> framed d' /\ tl d' = tl d.

  Lemma frame_refl d : frame d d.
  Proof. intro H. split; [exact H|reflexivity]. Qed.
  Lemma frame_trans a b c : frame a b -> frame b c -> frame a c.
  Proof. intros H1 H2 H. destruct (H1 H) as [Hb Ht]. destruct (H2 Hb) as [Hc Ht']. split; [exact Hc|congruence]. Qed.
  Lemma frame_tick d : frame d (tick d).
  Proof. intro H. split; [exact H|reflexivity]. Qed.
  Lemma frame_charge n d : frame d (charge n d).
  Proof. intro H. split; [exact H|reflexivity]. Qed.

  Lemma framed_discard d : framed d -> inp (discard_all d) = rest /\ remain (discard_all d) = 0 /\ derr (discard_all d) = derr d /\ tl (discard_all d) = tl d.
  Proof.
    intros (pre & Hi & Hl). unfold discard_all.
    destruct (remain d <=? 0) eqn:E0.
    - apply Z.leb_le in E0. pose proof (blen_nonneg pre). assert (pre = []) by (apply blen_nil_inv; lia).
      subst pre. cbn [app] in Hi. repeat split; try assumption. lia.
    - apply Z.leb_gt in E0.
      assert (Hle : remain d <=? blen (inp d) = true).
      { apply Z.leb_le. rewrite Hi, blen_app. pose proof (blen_nonneg rest). lia. }
      rewrite Hle. cbn. repeat split; try reflexivity.
      rewrite Hi, <- Hl. unfold blen. rewrite Nat2Z.id.
      rewrite skipn_app, skipn_all, Nat.sub_diag. reflexivity.
  Qed.

  Lemma frame_discard d : frame d (discard_all d).
  Proof.
    intro H. destruct (framed_discard d H) as (Hi & Hr & _ & Ht). split; [|exact Ht].
    exists []. rewrite Hi, Hr. split; reflexivity.
  Qed.

  Lemma frame_set_error e d : frame d (set_error e d).
  Proof.
    unfold set_error. destruct (derr d); [apply frame_refl|].
    intro H. apply (frame_discard (with_err (Some e) d)). exact H.
  Qed.

  Lemma frame_rd n d : frame d (snd (rd n d)).
  Proof.
    intros Hf. pose proof Hf as (pre & Hi & Hl). unfold rd.
    destruct (n <=? 0) eqn:En; [cbn [snd]; apply frame_tick; exact Hf|]. apply Z.leb_gt in En.
    destruct (derr (tick d)) eqn:Ee; [cbn [snd]; apply frame_tick; exact Hf|].
    destruct (remain (tick d) <=? 0) eqn:E0.
    { cbn [snd]. apply (frame_trans _ _ _ (frame_tick d) (frame_set_error EEOF (tick d))). exact Hf. }
    apply Z.leb_gt in E0. cbn [tick remain inp tl steps alloc derr] in *.
    assert (Hw : 0 <= Z.min n (remain d) <= blen pre) by lia.
    assert (Hle : Z.min n (remain d) <=? blen (inp d) = true).
    { apply Z.leb_le. rewrite Hi, blen_app. pose proof (blen_nonneg rest). lia. }
    rewrite Hle.
    set (w := Z.min n (remain d)) in *.
    set (d1 := {| inp := skipn (Z.to_nat w) (inp d); tl := tl d; remain := remain d - w;
                  derr := None; steps := steps d + 1; alloc := alloc d |}).
    assert (Hd1 : framed d1).
    { exists (skipn (Z.to_nat w) pre). cbn. split.
      - rewrite Hi. apply skipn_app_le. exact Hw.
      - rewrite blen_skipn by exact Hw. lia. }
    destruct (n <=? remain d); cbn [snd]; [split; [exact Hd1|reflexivity]|].
    destruct (frame_set_error EUnexpectedEOF d1 Hd1) as [Ha Hb]. split; [exact Ha|exact Hb].
  Qed.

  Definition frame_decode := R_decode frame frame_refl frame_trans frame_rd frame_set_error frame_charge frame_tick.
  Definition frame_rd_int := R_rd_int frame frame_rd.
  Definition frame_rd_string := R_rd_string frame frame_trans frame_rd frame_charge.
End Frame.
