(* Integer encodings: what the spec encoder writes is what the model's primitives read. *)
Require Import V.Base.Prelude V.Kafka.KafkaTy V.Kafka.KafkaModel V.Kafka.KafkaSpecEnc V.Kafka.KafkaFrame.
Local Open Scope Z_scope.

Lemma zlen_blen b : zlen b = blen b.
Proof. reflexivity. Qed.

Lemma b2z_byte_of_Z z : 0 <= z < 256 -> b2z (byte_of_Z z) = z.
Proof.
  intros H. unfold b2z, byte_of_Z, b_of_N.
  destruct (Byte.of_N (Z.to_N z)) as [b|] eqn:E.
  - apply Byte.to_of_N in E. rewrite E. lia.
  - apply Byte.of_N_None_iff in E. lia.
Qed.

Lemma be_app a x : be (a ++ [x]) = be a * 256 + b2z x.
Proof. unfold be. rewrite fold_left_app. reflexivity. Qed.

Lemma len_enc_be k : forall u, List.length (enc_be k u) = k.
Proof.
  induction k as [|k IH]; intros u; cbn [enc_be]; [reflexivity|].
  rewrite app_length, IH. cbn [List.length]. lia.
Qed.

Lemma be_enc_be k : forall u, 0 <= u < 256 ^ Z.of_nat k -> be (enc_be k u) = u.
Proof.
  induction k as [|k IH]; intros u H.
  - cbn [enc_be]. unfold be. cbn [fold_left]. change (256 ^ Z.of_nat 0) with 1 in H. lia.
  - cbn [enc_be]. rewrite be_app.
    rewrite Nat2Z.inj_succ, Z.pow_succ_r in H by lia.
    rewrite IH.
    + rewrite b2z_byte_of_Z by (apply Z.mod_pos_bound; lia).
      pose proof (Z.div_mod u 256). lia.
    + split; [apply Z.div_pos; lia|]. apply Z.div_lt_upper_bound; lia.
Qed.

Lemma be_nonneg b : 0 <= be b.
Proof.
  unfold be. assert (H : forall acc, 0 <= acc -> 0 <= fold_left (fun acc x => acc * 256 + b2z x) b acc).
  { induction b as [|x b IH]; intros acc Ha; cbn [fold_left]; [exact Ha|].
    apply IH. unfold b2z. lia. }
  apply H. lia.
Qed.

Lemma pow256 k : 256 ^ Z.of_nat k = 2 ^ (8 * Z.of_nat k).
Proof. change 256 with (2 ^ 8). rewrite <- Z.pow_mul_r by lia. reflexivity. Qed.

Lemma sgn_mod bits z : 0 < bits -> in_range bits z -> sgn bits (z mod 2 ^ bits) = z.
Proof.
  intros Hb [Hlo Hhi]. unfold sgn.
  assert (Hp : 2 ^ bits = 2 * 2 ^ (bits - 1)).
  { replace bits with (Z.succ (bits - 1)) at 1 by lia. apply Z.pow_succ_r. lia. }
  assert (Hpos : 0 < 2 ^ (bits - 1)) by (apply Z.pow_pos_nonneg; lia).
  destruct (Z_lt_ge_dec z 0) as [Hn|Hn].
  - assert (Hm : z mod 2 ^ bits = z + 2 ^ bits).
    { symmetry. apply Z.mod_unique with (q := -1); lia. }
    rewrite Hm. destruct (z + 2 ^ bits <? 2 ^ (bits - 1)) eqn:E; [apply Z.ltb_lt in E; lia|lia].
  - rewrite Z.mod_small by lia.
    destruct (z <? 2 ^ (bits - 1)) eqn:E; [reflexivity|apply Z.ltb_ge in E; lia].
Qed.

Lemma len_enc_int k z : blen (enc_int k z) = Z.of_nat k.
Proof. unfold blen, enc_int. rewrite len_enc_be. reflexivity. Qed.

Lemma dec_enc_int k z : (0 < k)%nat -> in_range (8 * Z.of_nat k) z ->
  sgn (8 * Z.of_nat k) (be (enc_int k z)) = z.
Proof.
  intros Hk Hr. unfold enc_int. rewrite be_enc_be.
  - apply sgn_mod; [lia|exact Hr].
  - rewrite pow256. apply Z.mod_pos_bound. apply Z.pow_pos_nonneg; lia.
Qed.

(* ------------------------------------------------------------------ reading what is there *)
Definition advance (n : Z) (r : bytes) (d : dstate) : dstate :=
  {| inp := r; tl := tl d; remain := remain d - n; derr := None; steps := steps d + 1; alloc := alloc d |}.

Lemma rd_ok n d b r :
  0 < n -> derr d = None -> n <= remain d -> inp d = b ++ r -> blen b = n ->
  rd n d = (b, true, advance n r d).
Proof.
  intros Hn He Hr Hi Hb. unfold rd.
  destruct (n <=? 0) eqn:E; [apply Z.leb_le in E; lia|]. clear E.
  cbn [tick derr remain inp tl steps alloc]. rewrite He.
  destruct (remain d <=? 0) eqn:E; [apply Z.leb_le in E; lia|]. clear E.
  rewrite Z.min_l by lia.
  assert (Hle : n <=? blen (inp d) = true).
  { apply Z.leb_le. rewrite Hi, blen_app. pose proof (blen_nonneg r). lia. }
  rewrite Hle.
  assert (Hr' : n <=? remain d = true) by (apply Z.leb_le; lia). rewrite Hr'.
  unfold advance. rewrite Hi, <- Hb. unfold blen. rewrite Nat2Z.id.
  rewrite firstn_app, firstn_all, Nat.sub_diag. cbn [firstn]. rewrite app_nil_r.
  rewrite skipn_app, skipn_all, Nat.sub_diag. cbn [skipn app]. reflexivity.
Qed.

Lemma rd_int_ok k z d r :
  (0 < k)%nat -> in_range (8 * Z.of_nat k) z ->
  derr d = None -> Z.of_nat k <= remain d -> inp d = enc_int k z ++ r ->
  rd_int (Z.of_nat k) d = (z, advance (Z.of_nat k) r d).
Proof.
  intros Hk Hz He Hr Hi. unfold rd_int.
  rewrite (rd_ok (Z.of_nat k) d (enc_int k z) r); try assumption; try lia.
  - rewrite dec_enc_int by assumption. reflexivity.
  - apply len_enc_int.
Qed.
