(* Model of the Kafka dissector: pkg/extensions/kafka decode.go / request.go / response.go /
   matcher.go / main.go (Dissect), written function by function against the repaired code.
   No proofs here.

   Input of one half of a connection: the flat byte string that the chunked mock reader delivers
   through bufio.Reader, plus the end-of-stream kind.  The decoder reaches the connection only
   through io.ReadFull(d, ..) (decoder.Read -> bufio.Reader.Read) and bufio.Reader.Discard, both
   of which loop until satisfied or until the reader fails; the model is therefore a function of
   the concatenated bytes (DESIGN section 3, flat reader).

   Costs: `steps` counts primitive reads and loop iterations, `alloc` the bytes of every make /
   makeArray.  They do not influence any other field. *)
Require Import V.Base.Prelude V.Kafka.KafkaTy.
Require Import Coq.Strings.String.
Local Open Scope Z_scope.

(* ---------------------------------------------------------------- the connection reader *)
Inductive tailk := TEof | TErrOnce | TErrForever.

(* one read attempt at the end of the data *)
Definition hit (t : tailk) : errclass * tailk :=
  match t with
  | TEof => (EEOF, TEof)
  | TErrOnce => (EIO, TEof)
  | TErrForever => (EIO, TErrForever)
  end.

Definition blen (b : bytes) : Z := Z.of_nat (List.length b).

(* decoder{reader, remain, err} + the connection it reads from *)
Record dstate := {
  inp : bytes;            (* unread bytes of this half of the connection *)
  tl : tailk;
  remain : Z;             (* decoder.remain *)
  derr : option errclass; (* decoder.err (sticky) *)
  steps : Z;
  alloc : Z
}.

Definition with_err (e : option errclass) (d : dstate) : dstate :=
  {| inp := inp d; tl := tl d; remain := remain d; derr := e; steps := steps d; alloc := alloc d |}.
Definition tick (d : dstate) : dstate :=
  {| inp := inp d; tl := tl d; remain := remain d; derr := derr d; steps := steps d + 1; alloc := alloc d |}.
Definition charge (n : Z) (d : dstate) : dstate :=
  {| inp := inp d; tl := tl d; remain := remain d; derr := derr d; steps := steps d; alloc := alloc d + Z.max 0 n |}.

(* decode.go:150 discardAll / discard: bufio.Reader.Discard(remain); a short discard is an error *)
Definition discard_all (d : dstate) : dstate :=
  let n := remain d in
  if n <=? 0 then d
  else
    let have := blen (inp d) in
    if n <=? have then
      {| inp := skipn (Z.to_nat n) (inp d); tl := tl d; remain := 0; derr := derr d; steps := steps d; alloc := alloc d |}
    else
      let '(e, t1) := hit (tl d) in
      {| inp := []; tl := t1; remain := n - have;
         derr := match derr d with Some x => Some x | None => Some e end;
         steps := steps d; alloc := alloc d |}.

(* decode.go:176 setError: the first error sticks and the rest of the message is discarded *)
Definition set_error (e : errclass) (d : dstate) : dstate :=
  match derr d with
  | Some _ => d
  | None => discard_all (with_err (Some e) d)
  end.

(* io.ReadFull(d, b) with len b = n (decode.go:26 decoder.Read under io.ReadAtLeast) followed by
   setError(err).  Result: the bytes read, whether all n were read, the new state. *)
Definition rd (n : Z) (d0 : dstate) : bytes * bool * dstate :=
  let d := tick d0 in
  if n <=? 0 then ([], true, d)
  else
    match derr d with
    | Some _ => ([], false, d)
    | None =>
      if remain d <=? 0 then ([], false, set_error EEOF d)
      else
        let want := Z.min n (remain d) in
        let have := blen (inp d) in
        if want <=? have then
          let got := firstn (Z.to_nat want) (inp d) in
          let d1 := {| inp := skipn (Z.to_nat want) (inp d); tl := tl d; remain := remain d - want;
                       derr := None; steps := steps d; alloc := alloc d |} in
          if n <=? remain d then (got, true, d1)
          else (got, false, set_error EUnexpectedEOF d1)   (* the message ends inside the read *)
        else
          let '(e, t1) := hit (tl d) in
          let e1 := match e with
                    | EEOF => if have =? 0 then EEOF else EUnexpectedEOF
                    | _ => e
                    end in
          let d1 := {| inp := []; tl := t1; remain := remain d - have;
                       derr := None; steps := steps d; alloc := alloc d |} in
          (inp d, false, set_error e1 d1)
    end.

(* ---------------------------------------------------------------- primitives (decode.go:190-) *)
Definition be (b : bytes) : Z := fold_left (fun acc x => acc * 256 + b2z x) b 0.
Definition sgn (bits : Z) (u : Z) : Z := if u <? 2 ^ (bits - 1) then u else u - 2 ^ bits.

Definition rd_int (k : Z) (d : dstate) : Z * dstate :=
  let '(b, ok, d1) := rd k d in
  ((if ok then sgn (8 * k) (be b) else 0), d1).

Definition rd_byte (d : dstate) : Z * dstate :=   (* readByte: unsigned *)
  let '(b, ok, d1) := rd 1 d in
  ((if ok then be b else 0), d1).

(* decoder.read(n): make([]byte, min(n, remain)) then ReadFull; the bytes read so far are kept;
   a read longer than the rest of the message fails at the end of the message (as rd does) *)
Definition rd_alloc (n : Z) (d : dstate) : bytes * dstate :=
  let '(b, _, d1) := rd n (charge (Z.min n (remain d)) d) in (b, d1).

Definition rd_string (d : dstate) : bytes * dstate :=
  let '(n, d1) := rd_int 2 d in
  if n <? 0 then ([], d1) else rd_alloc n d1.

Definition rd_bytes (d : dstate) : bytes * dstate :=
  let '(n, d1) := rd_int 4 d in
  if n <? 0 then ([], d1) else rd_alloc n d1.

(* readVarInt (decode.go:262): at most min(11, remain) bytes, 7 bits each, wrap at 64 bits.
   x < 2^s throughout, so `x |= b << s` is an addition. *)
Fixpoint varint_loop (n : nat) (x s : Z) (d : dstate) : option Z * dstate :=
  match n with
  | O => (None, d)
  | S n' =>
    let '(b, d1) := rd_byte d in
    if b <? 128 then (Some ((x + b * 2 ^ s) mod 2 ^ 64), d1)
    else varint_loop n' ((x + (b mod 128) * 2 ^ s) mod 2 ^ 64) (s + 7) d1
  end.

Definition zigzag (x : Z) : Z := if Z.even x then x / 2 else - (x / 2) - 1.

Definition rd_varint (d : dstate) : Z * dstate :=
  let n := Z.to_nat (Z.min 11 (Z.max 0 (remain d))) in
  match varint_loop n 0 0 d with
  | (Some x, d1) => (zigzag x, d1)
  | (None, d1) => (0, set_error EProto d1)
  end.

(* readVarString (repaired decodeRecordV0): n bytes, never more than the message still holds *)
Definition rd_varstring (n : Z) (d : dstate) : bytes * dstate :=
  if n <=? 0 then ([], d)
  else rd_alloc (Z.min n (remain d)) d.

(* ---------------------------------------------------------------- reflective decoder *)
(* size of one Go value of the type (what makeArray allocates per element) *)
Fixpoint gosize (t : ty) : Z :=
  match t with
  | TBool | TI8 => 1 | TI16 => 2 | TI32 => 4 | TI64 => 8
  | TStr | TCStr => 16
  | TBytes | TCBytes | TArr _ | TCArr _ => 24
  | TStruct fs => fold_right (fun f acc => gosize (snd f) + acc) 0 fs
  | TRecordV0 => 104
  | TUnsupported | TTags => 8
  end.

(* decodeElements (repaired decodeArray): for i < n && d.remain > 0 && d.err == nil
   { decodeElem(d, a.index(i)); i++ }; the array keeps the i decoded elements *)
Fixpoint arr_loop (dec : dstate -> res (kv * dstate)) (n : nat) (d : dstate)
  : res (list kv * dstate) :=
  match n with
  | O => Ok ([], d)
  | S n' =>
    if (remain d <=? 0) || (match derr d with Some _ => true | None => false end) then Ok ([], d)
    else
      let* (v, d1) := dec (tick d) in
      let* (vs, d2) := arr_loop dec n' d1 in
      Ok (v :: vs, d2)
  end.

(* the header loop of decodeRecordV0: for i < headerLen && d.remain > 0 && d.err == nil *)
Definition rd_header (d : dstate) : kv * dstate :=
  let '(kl, d1) := rd_varint d in
  let '(k, d2) := rd_varstring kl d1 in
  let '(vl, d3) := rd_varint d2 in
  let '(v, d4) := rd_varstring vl d3 in
  (KStruct [KInt kl; KStr k; KInt vl; KStr v], d4).

(* fuel: every iteration that does not end the loop consumes at least one byte of the message *)
Fixpoint header_loop (fuel : nat) (n : Z) (d : dstate) : res (list kv * dstate) :=
  match fuel with
  | O => OutOfFuel
  | S f =>
    if (n <=? 0) || (remain d <=? 0) || (match derr d with Some _ => true | None => false end)
    then Ok ([], d)
    else
      let '(h, d1) := rd_header (tick d) in
      let* (hs, d2) := header_loop f (n - 1) d1 in
      Ok (h :: hs, d2)
  end.

Definition decode_record (d : dstate) : res (kv * dstate) :=
  let '(len, d1) := rd_varint d in
  let '(attr, d2) := rd_int 1 d1 in
  let '(ts, d3) := rd_varint d2 in
  let '(off, d4) := rd_varint d3 in
  let '(kl, d5) := rd_varint d4 in
  let '(k, d6) := rd_varstring kl d5 in
  let '(vl, d7) := rd_varint d6 in
  let '(v, d8) := rd_varstring vl d7 in
  let '(hn, d9) := rd_varint d8 in
  let* (hs, d10) := header_loop (S (Z.to_nat (remain d9))) hn d9 in
  Ok (KStruct [KInt len; KInt attr; KInt ts; KInt off; KInt kl; KStr k; KInt vl; KStr v; KArr hs], d10).

(* decodeFuncOf / structDecodeFuncOf / arrayDecodeFuncOf applied to a value.
   TUnsupported: decodeFuncOf returned nil, calling it panics (decode.go:395 f.decode).
   Compact encodings are outside the model (site 999): no dissector layout has them, which
   gen/KafkaSchemas.v re-establishes on every run (`plain`). *)
Fixpoint decode (t : ty) (d : dstate) {struct t} : res (kv * dstate) :=
  match t with
  | TBool => let '(b, d1) := rd_byte d in Ok (KBool (negb (b =? 0)), d1)
  | TI8 => let '(z, d1) := rd_int 1 d in Ok (KInt z, d1)
  | TI16 => let '(z, d1) := rd_int 2 d in Ok (KInt z, d1)
  | TI32 => let '(z, d1) := rd_int 4 d in Ok (KInt z, d1)
  | TI64 => let '(z, d1) := rd_int 8 d in Ok (KInt z, d1)
  | TStr => let '(s, d1) := rd_string d in Ok (KStr s, d1)
  | TBytes => let '(s, d1) := rd_bytes d in Ok (KBytes s, d1)
  | TArr e =>
    let '(n, d1) := rd_int 4 d in
    if (n <? 0) || (65535 <? n) then Ok (KArr [], d1)
    else
      (* no more elements are allocated than the message still holds bytes *)
      let m := Z.min n (Z.max 0 (remain d1)) in
      let* (vs, d2) := arr_loop (decode e) (Z.to_nat m) (charge (m * gosize e) d1) in
      Ok (KArr vs, d2)
  | TStruct fs =>
    let* (vs, d1) :=
       (fix go (l : list (string * ty)) (d : dstate) : res (list kv * dstate) :=
          match l with
          | [] => Ok ([], d)
          | f :: l' =>
            let* (v, d1) := decode (snd f) d in
            let* (vs, d2) := go l' d1 in
            Ok (v :: vs, d2)
          end) fs d in
    Ok (KStruct vs, d1)
  | TRecordV0 => decode_record d
  | TUnsupported => Panic 395
  | TCStr | TCBytes | TCArr _ | TTags => Panic 999
  end.

(* ---------------------------------------------------------------- layout tables *)
(* (api key, [(lowest version, highest version, payload type)]); an api key without an entry
   for the version has no layout (request kept with a nil payload, response skipped) *)
Definition layout_table := list (Z * list (Z * Z * ty)).

Fixpoint pick_range (v : Z) (rs : list (Z * Z * ty)) : option ty :=
  match rs with
  | [] => None
  | (lo, hi, t) :: rs' => if (lo <=? v) && (v <=? hi) then Some t else pick_range v rs'
  end.

Fixpoint layout (tbl : layout_table) (api ver : Z) : option ty :=
  match tbl with
  | [] => None
  | (k, rs) :: tbl' => if k =? api then pick_range ver rs else layout tbl' api ver
  end.

Record tables := {
  num_apis : Z;
  req_tbl : layout_table;
  resp_tbl : layout_table;
  api_names : list (Z * string)
}.

Fixpoint name_of (l : list (Z * string)) (k : Z) : string :=
  match l with
  | [] => EmptyString
  | (k', s) :: l' => if k' =? k then s else name_of l' k
  end.

(* ---------------------------------------------------------------- matcher (matcher.go) *)
Record request := {
  q_size : Z; q_api : Z; q_ver : Z; q_corr : Z; q_client : bytes;
  q_payload : option kv          (* None: nil payload (api without a layout) *)
}.

(* openMessagesMap restricted to one connection: the key is the correlation id (the 4-tuple
   part of the key is the same string on both halves) *)
Definition matcher := list (Z * request).

Fixpoint m_remove (k : Z) (m : matcher) : matcher :=
  match m with
  | [] => []
  | (k', r) :: m' => if k' =? k then m_remove k m' else (k', r) :: m_remove k m'
  end.
Fixpoint m_find (k : Z) (m : matcher) : option request :=
  match m with
  | [] => None
  | (k', r) :: m' => if k' =? k then Some r else m_find k m'
  end.
(* registerRequest: LoadAndDelete (only requests are ever stored, so the found value is dropped) then Store *)
Definition register_request (k : Z) (r : request) (m : matcher) : matcher := (k, r) :: m_remove k m.

Record item := {
  i_req : request;
  i_rsize : Z; i_rcorr : Z;
  i_resp : kv;
  i_name : string
}.

(* ---------------------------------------------------------------- ReadRequest (request.go:23) *)
Definition dont_expect_eof (e : errclass) : errclass :=
  match e with EEOF => EUnexpectedEOF | _ => e end.

Definition start (i : bytes) (t : tailk) (st al : Z) : dstate :=
  {| inp := i; tl := t; remain := 4; derr := None; steps := st; alloc := al |}.
Definition with_remain (n : Z) (d : dstate) : dstate :=
  {| inp := inp d; tl := tl d; remain := n; derr := derr d; steps := steps d; alloc := alloc d |}.

(* result of reading one message: Ok (state after it) or the error Dissect returns *)
Definition read_request (T : tables) (d0 : dstate) (m : matcher) : res (dstate * matcher) :=
  let '(size, d1) := rd_int 4 d0 in
  if 1000000 <? size then Err EProto
  else if size <? 8 then (if size =? 0 then Err EEOF else Err EProto)
  else match derr d1 with
  | Some e => Err (dont_expect_eof e)
  | None =>
    let d2 := with_remain size d1 in
    let '(api, d3) := rd_int 2 d2 in
    let '(ver, d4) := rd_int 2 d3 in
    let '(corr, d5) := rd_int 4 d4 in
    let '(client, d6) := rd_string d5 in
    if (api <? 0) || (num_apis T <=? api) then Err EProto
    else match derr d6 with
    | Some e => Err (dont_expect_eof e)
    | None =>
      let* (payload, d7) :=
         match layout (req_tbl T) api ver with
         | Some t => let* (v, d) := decode t d6 in Ok (Some v, d)
         | None => Ok (None, d6)
         end in
      let r := {| q_size := size; q_api := api; q_ver := ver; q_corr := corr; q_client := client;
                  q_payload := payload |} in
      Ok (discard_all d7, register_request corr r m)
    end
  end.

(* ---------------------------------------------------------------- ReadResponse (response.go:19) *)
Definition read_response (T : tables) (d0 : dstate) (m : matcher) : res (dstate * matcher * list item) :=
  let '(size, d1) := rd_int 4 d0 in
  if 1000000 <? size then Err EProto
  else if size <? 4 then (if size =? 0 then Err EEOF else Err EProto)
  else match derr d1 with
  | Some e => Err (dont_expect_eof e)
  | None =>
    let d2 := with_remain size d1 in
    let '(corr, d3) := rd_int 4 d2 in
    match m_find corr m with
    | None => Err EProto                 (* registerResponse polled maxTry times *)
    | Some rq =>
      let m1 := m_remove corr m in
      match layout (resp_tbl T) (q_api rq) (q_ver rq) with
      | Some t =>
        let* (v, d4) := decode t d3 in
        let it := {| i_req := rq; i_rsize := size; i_rcorr := corr; i_resp := v;
                     i_name := name_of (api_names T) (q_api rq) |} in
        Ok (discard_all d4, m1, [it])
      | None => Ok (discard_all d3, m1, [])
      end
    end
  end.

(* ---------------------------------------------------------------- Dissect (main.go:37) *)
Inductive outcome := Returned (e : errclass) | Panicked (site : nat) | NoFuel.

Fixpoint dissect_client (T : tables) (fuel : nat) (i : bytes) (t : tailk) (st al : Z) (m : matcher)
  : outcome * matcher * (Z * Z) :=
  match fuel with
  | O => (NoFuel, m, (st, al))
  | S f =>
    match read_request T (start i t st al) m with
    | Ok (d, m1) => dissect_client T f (inp d) (tl d) (steps d) (alloc d) m1
    | Err e => (Returned e, m, (st, al))
    | Panic s => (Panicked s, m, (st, al))
    | OutOfFuel => (NoFuel, m, (st, al))
    end
  end.

Fixpoint dissect_server (T : tables) (fuel : nat) (i : bytes) (t : tailk) (st al : Z) (m : matcher)
         (acc : list item) : outcome * matcher * list item * (Z * Z) :=
  match fuel with
  | O => (NoFuel, m, acc, (st, al))
  | S f =>
    match read_response T (start i t st al) m with
    | Ok (d, m1, its) => dissect_server T f (inp d) (tl d) (steps d) (alloc d) m1 (acc ++ its)
    | Err e => (Returned e, m, acc, (st, al))
    | Panic s => (Panicked s, m, acc, (st, al))
    | OutOfFuel => (NoFuel, m, acc, (st, al))
    end
  end.

Definition fuel_of (i : bytes) : nat := S (List.length i).

(* the client half, then the server half, sharing the matcher (as the test-suite and the
   harness drive the dissector) *)
Record report := {
  r_client : outcome; r_server : outcome;
  r_items : list item;
  r_residue : list Z;
  r_steps : Z; r_alloc : Z
}.

Definition dissect (T : tables) (client server : bytes) (t : tailk) : report :=
  let '(oc, m1, (s1, a1)) := dissect_client T (fuel_of client) client t 0 0 [] in
  let '(os, m2, its, (s2, a2)) := dissect_server T (fuel_of server) server t s1 a1 m1 [] in
  {| r_client := oc; r_server := os; r_items := its; r_residue := map fst m2;
     r_steps := s2; r_alloc := a2 |}.
