(* C06 at the level of messages: a request and its response, encoded as the wire format
   prescribes (header + body of the layout's type), are reported with exactly the encoded header
   fields and body values, and each is consumed exactly. *)
Require Import V.Base.Prelude V.Kafka.KafkaTy V.Kafka.KafkaModel V.Kafka.KafkaLift V.Kafka.KafkaFrame.
Require Import V.Kafka.KafkaSpecEnc V.Kafka.KafkaBytes V.Kafka.KafkaRoundtrip V.Kafka.KafkaC01 V.Kafka.KafkaFraming.
Require Import Coq.Strings.String.
Local Open Scope Z_scope.

(* the wire format of the two message kinds (request header v1: api key, version, correlation
   id, client id; response header v0: correlation id) *)
Definition request_body (api ver corr : Z) (client : bytes) (payload : bytes) : bytes :=
  enc_int 2 api ++ enc_int 2 ver ++ enc_int 4 corr ++ (enc_int 2 (zlen client) ++ client) ++ payload.
Definition request_frame (api ver corr : Z) (client : bytes) (payload : bytes) : bytes :=
  enc_int 4 (zlen (request_body api ver corr client payload)) ++ request_body api ver corr client payload.
Definition response_body (corr : Z) (payload : bytes) : bytes := enc_int 4 corr ++ payload.
Definition response_frame (corr : Z) (payload : bytes) : bytes :=
  enc_int 4 (zlen (response_body corr payload)) ++ response_body corr payload.

Lemma rt_string s d r : zlen s <= 32767 ->
  derr d = None -> inp d = (enc_int 2 (zlen s) ++ s) ++ r -> blen (enc_int 2 (zlen s) ++ s) <= remain d ->
  exists d', rd_string d = (s, d') /\ consumed d d' (enc_int 2 (zlen s) ++ s) r.
Proof.
  intros Hs He Hi Hr.
  destruct (kafka_roundtrip TStr eq_refl eq_refl (KStr s) Hs d r He Hi Hr) as (d' & E & C).
  cbn [decode norm] in E. destruct (rd_string d) as [s' d1]. injection E as -> ->. eauto.
Qed.

Theorem request_reported : forall T api ver corr client tq vq rest t st al m,
  tables_plain T ->
  0 <= api < num_apis T -> in_range 16 api -> in_range 16 ver -> in_range 32 corr -> zlen client <= 32767 ->
  layout (req_tbl T) api ver = Some tq -> arrays_ok tq = true -> wf tq vq ->
  let body := request_body api ver corr client (encode tq vq) in
  zlen body <= 1000000 ->
  exists d',
    read_request T (start (request_frame api ver corr client (encode tq vq) ++ rest) t st al) m
    = Ok (d', register_request corr {| q_size := zlen body; q_api := api; q_ver := ver; q_corr := corr;
                                       q_client := client; q_payload := Some (norm tq vq) |} m)
    /\ inp d' = rest /\ tl d' = t.
Proof.
  intros T api ver corr client tq vq rest t st al m HT Hapi Ra Rv Rc Hcl Hlay Harr Hwf body Hsz.
  assert (Hplain : plain tq = true) by (destruct HT as [Hq _]; eapply layout_plain; eassumption).
  unfold request_frame. fold body.
  assert (Hb8 : 8 <= zlen body).
  { unfold body, request_body, zlen. repeat rewrite app_length. repeat rewrite len_enc_be.
    unfold enc_int. repeat rewrite len_enc_be. lia. }
  unfold read_request. rewrite <- app_assoc.
  rewrite (size_read (zlen body) body rest t st al) by (apply in_range_32; lia).
  destruct (1000000 <? zlen body) eqn:E1; [apply Z.ltb_lt in E1; lia|].
  destruct (zlen body <? 8) eqn:E2; [apply Z.ltb_lt in E2; lia|].
  cbn [derr advance].
  set (d2 := with_remain (zlen body) _).
  assert (I2 : inp d2 = body ++ rest) by reflexivity.
  assert (N2 : derr d2 = None) by reflexivity.
  assert (Q2 : remain d2 = blen body) by reflexivity.
  assert (T2 : tl d2 = t) by reflexivity.
  unfold body, request_body in I2. repeat rewrite <- app_assoc in I2.
  assert (Hlen : blen body = 2 + 2 + 4 + (2 + blen client) + blen (encode tq vq)).
  { unfold body, request_body. repeat rewrite blen_app. repeat rewrite len_enc_int. lia. }
  pose proof (blen_nonneg client). pose proof (blen_nonneg (encode tq vq)).
  destruct (rt_int 2 api d2 _ ltac:(lia) Ra N2 I2 ltac:(rewrite len_enc_int; lia)) as (d3 & E3 & C3).
  change (Z.of_nat 2) with 2 in E3. rewrite E3. pose proof C3 as (I3 & Q3 & N3 & T3). rewrite len_enc_int in Q3.
  destruct (rt_int 2 ver d3 _ ltac:(lia) Rv N3 I3 ltac:(rewrite len_enc_int; lia)) as (d4 & E4 & C4).
  change (Z.of_nat 2) with 2 in E4. rewrite E4. pose proof C4 as (I4 & Q4 & N4 & T4). rewrite len_enc_int in Q4.
  destruct (rt_int 4 corr d4 _ ltac:(lia) Rc N4 I4 ltac:(rewrite len_enc_int; lia)) as (d5 & E5 & C5).
  change (Z.of_nat 4) with 4 in E5. rewrite E5. pose proof C5 as (I5 & Q5 & N5 & T5). rewrite len_enc_int in Q5.
  rewrite app_assoc in I5.
  destruct (rt_string client d5 (encode tq vq ++ rest) Hcl N5 I5 ltac:(rewrite blen_app, len_enc_int; lia)) as (d6 & E6 & C6).
  rewrite E6. pose proof C6 as (I6 & Q6 & N6 & T6). rewrite blen_app, len_enc_int in Q6.
  replace ((api <? 0) || (num_apis T <=? api)) with false.
  2:{ symmetry. apply Bool.orb_false_iff. split; [apply Z.ltb_ge|apply Z.leb_gt]; lia. }
  rewrite N6, Hlay.
  destruct (kafka_roundtrip tq Hplain Harr vq Hwf d6 rest N6 I6 ltac:(lia)) as (d7 & E7 & C7).
  rewrite E7. cbn [bind]. exists (discard_all d7). split; [reflexivity|].
  destruct C7 as (I7 & Q7 & N7 & T7).
  assert (F7 : framed rest d7).
  { exists []. split; [exact I7|]. cbn. change (Z.of_nat 2) with 2 in *. change (Z.of_nat 4) with 4 in *. lia. }
  destruct (framed_discard rest d7 F7) as (Hi & _ & _ & Ht). split; [exact Hi|]. congruence.
Qed.

Theorem response_reported : forall T corr rq ts vs rest t st al m,
  tables_plain T -> in_range 32 corr ->
  m_find corr m = Some rq ->
  layout (resp_tbl T) (q_api rq) (q_ver rq) = Some ts -> arrays_ok ts = true -> wf ts vs ->
  let body := response_body corr (encode ts vs) in
  zlen body <= 1000000 ->
  exists d',
    read_response T (start (response_frame corr (encode ts vs) ++ rest) t st al) m
    = Ok (d', m_remove corr m,
          [{| i_req := rq; i_rsize := zlen body; i_rcorr := corr; i_resp := norm ts vs;
              i_name := name_of (api_names T) (q_api rq) |}])
    /\ inp d' = rest /\ tl d' = t.
Proof.
  intros T corr rq ts vs rest t st al m HT Rc Hfind Hlay Harr Hwf body Hsz.
  assert (Hplain : plain ts = true) by (destruct HT as [_ Hs]; eapply layout_plain; eassumption).
  unfold response_frame. fold body.
  assert (Hlen : blen body = 4 + blen (encode ts vs)).
  { unfold body, response_body. rewrite blen_app, len_enc_int. lia. }
  pose proof (blen_nonneg (encode ts vs)).
  assert (Hz : zlen body = blen body) by reflexivity.
  unfold read_response. rewrite <- app_assoc.
  rewrite (size_read (zlen body) body rest t st al) by (apply in_range_32; lia).
  destruct (1000000 <? zlen body) eqn:E1; [apply Z.ltb_lt in E1; lia|].
  destruct (zlen body <? 4) eqn:E2; [apply Z.ltb_lt in E2; lia|].
  cbn [derr advance].
  set (d2 := with_remain (zlen body) _).
  assert (I2 : inp d2 = body ++ rest) by reflexivity.
  assert (N2 : derr d2 = None) by reflexivity.
  assert (Q2 : remain d2 = blen body) by reflexivity.
  assert (T2 : tl d2 = t) by reflexivity.
  unfold body, response_body in I2. rewrite <- app_assoc in I2.
  destruct (rt_int 4 corr d2 _ ltac:(lia) Rc N2 I2 ltac:(rewrite len_enc_int; lia)) as (d3 & E3 & C3).
  change (Z.of_nat 4) with 4 in E3. rewrite E3. pose proof C3 as (I3 & Q3 & N3 & T3). rewrite len_enc_int in Q3.
  rewrite Hfind, Hlay.
  destruct (kafka_roundtrip ts Hplain Harr vs Hwf d3 rest N3 I3 ltac:(change (Z.of_nat 4) with 4 in *; lia)) as (d4 & E4 & C4).
  rewrite E4. cbn [bind]. exists (discard_all d4). split; [reflexivity|].
  destruct C4 as (I4 & Q4 & N4 & T4).
  assert (F4 : framed rest d4).
  { exists []. split; [exact I4|]. cbn. change (Z.of_nat 4) with 4 in *. lia. }
  destruct (framed_discard rest d4 F4) as (Hi & _ & _ & Ht). split; [exact Hi|]. congruence.
Qed.
