(* C02, Kafka share.
   Proved: termination on every end-of-stream kind (the Dissect loops never run out of the fuel
   |input| + 1); the number of steps (reads and loop iterations) of dissecting both halves is at
   most (KT + ST + 6) * n for n bytes of connection, with KT, ST computed from the layout tables
   (KafkaCost.v: a read that leaves no error consumes at least a byte, an array iteration decodes
   an element of at least one byte or is the last one, after the first error every loop stops);
   monotone cost counters; the local form of "no allocation in proportion to a declared value":
   every allocation event is bounded by the bytes the message can still hold.
   Not proved (kafka_C02_alloc_statement): the global linear allocation bound alloc <= c*n + cap;
   it needs the same two-regime induction as the step bound with the allocation of an array
   charged to the elements that follow.  The implementation side is the measured budget in
   tools/fam/kafka.py c02. *)
Require Import V.Base.Prelude V.Kafka.KafkaTy V.Kafka.KafkaModel V.Kafka.KafkaLift V.Kafka.KafkaFrame V.Kafka.KafkaC01.
Require Import V.Kafka.KafkaCost.
Require Import Coq.Strings.String.
Local Open Scope Z_scope.

Definition kafka_C02_alloc_statement : Prop :=
  forall T, tables_plain T -> tables_arrays_ok T -> exists c cap, forall client server t,
    r_alloc (dissect T client server t) <= c * (blen client + blen server) + cap.

Theorem kafka_C02_steps : forall T client server t, tables_plain T -> tables_arrays_ok T ->
  r_steps (dissect T client server t) <= (KT T + ST T + 6) * (blen client + blen server).
Proof. exact kafka_steps_linear. Qed.

Theorem kafka_C02_terminates : forall T client server t, tables_plain T ->
  r_client (dissect T client server t) <> NoFuel /\ r_server (dissect T client server t) <> NoFuel.
Proof.
  intros T client server t HT.
  destruct (kafka_C01_dissect T client server t HT) as (e1 & e2 & H1 & H2).
  rewrite H1, H2. split; discriminate.
Qed.

(* cost counters only grow *)
Definition cost_mono (d d' : dstate) : Prop := steps d <= steps d' /\ alloc d <= alloc d'.

Lemma cost_refl d : cost_mono d d.
Proof. unfold cost_mono. lia. Qed.
Lemma cost_trans a b c : cost_mono a b -> cost_mono b c -> cost_mono a c.
Proof. unfold cost_mono. lia. Qed.
Lemma cost_tick d : cost_mono d (tick d).
Proof. unfold cost_mono. cbn. lia. Qed.
Lemma cost_charge n d : cost_mono d (charge n d).
Proof. unfold cost_mono. cbn. lia. Qed.
Lemma cost_discard d : cost_mono d (discard_all d).
Proof.
  unfold cost_mono, discard_all. destruct (remain d <=? 0); [lia|].
  destruct (remain d <=? blen (inp d)); [cbn; lia|]. destruct (hit (tl d)). cbn. lia.
Qed.
Lemma cost_set_error e d : cost_mono d (set_error e d).
Proof. unfold set_error. destruct (derr d); [apply cost_refl|]. apply (cost_discard (with_err (Some e) d)). Qed.
Lemma cost_rd n d : cost_mono d (snd (rd n d)).
Proof.
  unfold rd. destruct (n <=? 0); [apply cost_tick|].
  destruct (derr (tick d)); [apply cost_tick|].
  destruct (remain (tick d) <=? 0).
  { cbn [snd]. eapply cost_trans; [apply cost_tick|apply cost_set_error]. }
  destruct (Z.min n (remain (tick d)) <=? blen (inp (tick d))).
  - destruct (n <=? remain (tick d)); cbn [snd].
    + unfold cost_mono. cbn. lia.
    + eapply cost_trans; [|apply cost_set_error]. unfold cost_mono. cbn. lia.
  - destruct (hit (tl (tick d))). cbn [snd]. eapply cost_trans; [|apply cost_set_error]. unfold cost_mono. cbn. lia.
Qed.
Definition cost_decode := R_decode cost_mono cost_refl cost_trans cost_rd cost_set_error cost_charge cost_tick.

(* every make([]byte, ..) of decoder.read is bounded by what is left of the message, and a read
   allocates nothing once the decoder has failed or the message is exhausted *)
Lemma kafka_C02_read_alloc n d : 0 <= remain d ->
  alloc (snd (rd_alloc n d)) - alloc d <= remain d.
Proof.
  intros Hr. unfold rd_alloc.
  set (d0 := charge (Z.min n (remain d)) d).
  assert (Ha : alloc d0 - alloc d <= remain d) by (cbn; lia).
  assert (Hs : alloc (snd (rd n d0)) = alloc d0).
  { unfold rd. destruct (n <=? 0); [reflexivity|].
    destruct (derr (tick d0)); [reflexivity|].
    assert (Hse : forall e x, alloc (set_error e x) = alloc x).
    { intros e x. unfold set_error. destruct (derr x); [reflexivity|].
      unfold discard_all. cbn [remain inp tl derr with_err alloc steps].
      destruct (remain x <=? 0); [reflexivity|]. destruct (remain x <=? blen (inp x)); [reflexivity|].
      destruct (hit (tl x)). reflexivity. }
    destruct (remain (tick d0) <=? 0); [cbn [snd]; rewrite Hse; reflexivity|].
    destruct (Z.min n (remain (tick d0)) <=? blen (inp (tick d0))).
    - destruct (n <=? remain (tick d0)); cbn [snd]; [reflexivity|rewrite Hse; reflexivity].
    - destruct (hit (tl (tick d0))). cbn [snd]. rewrite Hse. reflexivity. }
  destruct (rd n d0) as [[b ok] d1]. cbn [snd] in *. lia.
Qed.

(* makeArray: never more elements than the message has bytes left (each element takes at
   least one byte: KafkaLayouts.impl_arrays_ok) *)
Lemma kafka_C02_array_alloc n rem : 0 <= rem -> Z.min n (Z.max 0 rem) <= rem.
Proof. lia. Qed.
