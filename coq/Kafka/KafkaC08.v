(* C08, Kafka share: the result does not depend on how each half of the connection is cut into
   reads.  The model is a function of the concatenated bytes by construction; what justifies
   that construction is (a) bufio.Reader + io.ReadFull / Discard / io.Copy loop until satisfied or
   until the reader fails (DESIGN Appendix A, modelled not verified, exercised by every
   correspondence run with random segmentations), and (b) the generated list of the calls through
   which the dissector takes bytes from the connection: each must be one of those looping uses.
   A new direct Read call on the connection breaks kafka_sites_agnostic. *)
Require Import V.Base.Prelude V.Kafka.KafkaTy V.Kafka.KafkaModel V.gen.KafkaReadSites.
Require Import Coq.Strings.String.
Local Open Scope string_scope.

Definition chunk_agnostic (s : string * string * string) : bool :=
  let '(file, fn, callee) := s in
  (* the one raw read: decoder.Read forwards a single reader.Read and reports its count;
     it is itself only used under the looping calls below *)
  (String.eqb fn "*decoder.Read" && String.eqb callee "d.reader.Read")
  || String.eqb callee "io.ReadFull(d)"
  || String.eqb callee "io.Copy(io.Discard,d)"
  || String.eqb callee "r.Discard"
  (* only for payload types implementing io.ReaderFrom: none (such a type is TUnsupported in the generated layouts) *)
  || (String.eqb fn "readerDecodeFuncOf" && String.eqb callee "v.iface(typ).(io.ReaderFrom).ReadFrom").

Lemma kafka_sites_agnostic : forallb chunk_agnostic kafka_read_sites = true.
Proof. vm_compute. reflexivity. Qed.

Theorem kafka_C08 : forall T (cs1 cs2 ss1 ss2 : list bytes) t,
  List.concat cs1 = List.concat cs2 -> List.concat ss1 = List.concat ss2 ->
  dissect T (List.concat cs1) (List.concat ss1) t = dissect T (List.concat cs2) (List.concat ss2) t.
Proof. intros T cs1 cs2 ss1 ss2 t H1 H2. rewrite H1, H2. reflexivity. Qed.
