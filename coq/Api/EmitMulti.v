(* Several streams, each with its own Emitting (index lock, item index, output channel), share
   one AppStats: the matched-pairs counter is one atomic counter incremented by every Emit of
   every stream.  A step names a stream and one of its emitters; the component machines are
   those of Api/Emit.v, the shared counter moves by exactly what the stepped component's own
   count moves (IncMatchedPairs is an atomic add). *)
Require Import V.Base.Prelude V.Api.Emit V.Api.EmitProofs.
Local Open Scope Z_scope.

Definition mstate := (Z * list est)%type.

Definition replace_nth {A} (l : list A) (j : nat) (x : A) : list A := firstn j l ++ x :: skipn (S j) l.

Definition mestep (ms : mstate) (ji : nat * nat) : mstate :=
  match nth_error (snd ms) (fst ji) with
  | None => ms
  | Some s => let s' := estep true s (snd ji) in
              (fst ms + (matched s' - matched s), replace_nth (snd ms) (fst ji) s')
  end.

Definition meexec (ms : mstate) (sched : list (nat * nat)) : mstate := fold_left mestep sched ms.

Definition proj (j : nat) (sched : list (nat * nat)) : list nat :=
  map snd (filter (fun x => Nat.eqb (fst x) j) sched).

Definition total_matched (ss : list est) : Z := fold_right (fun s a => matched s + a) 0 ss.

Lemma nth_error_replace_same {A} (l : list A) j x y : nth_error l j = Some y -> nth_error (replace_nth l j x) j = Some x.
Proof.
  revert l; induction j as [|j IH]; intros [|a l] H; cbn in *; try discriminate; [reflexivity|]. apply IH. exact H.
Qed.

Lemma nth_error_replace_other {A} (l : list A) j k x y : nth_error l j = Some y -> j <> k ->
  nth_error (replace_nth l j x) k = nth_error l k.
Proof.
  revert l k; induction j as [|j IH]; intros [|a l] k H Hne; cbn in *; try discriminate.
  - destruct k; [contradiction|reflexivity].
  - destruct k; [reflexivity|]. cbn. apply IH; [exact H | lia].
Qed.

Lemma total_cons s l : total_matched (s :: l) = matched s + total_matched l.
Proof. reflexivity. Qed.

Lemma total_replace l j x y : nth_error l j = Some y ->
  total_matched (replace_nth l j x) = total_matched l - matched y + matched x.
Proof.
  unfold replace_nth. revert l; induction j as [|j IH]; intros [|a l] H; cbn [nth_error] in H; try discriminate.
  - injection H as ->. cbn [firstn skipn app]. rewrite !total_cons. lia.
  - rewrite skipn_cons. cbn [firstn app]. rewrite !total_cons. rewrite (IH l H). lia.
Qed.

(* each stream evolves exactly as the single-stream machine under its own sub-schedule *)
Lemma meexec_proj sched : forall ms j s, nth_error (snd ms) j = Some s ->
  nth_error (snd (meexec ms sched)) j = Some (eexec true s (proj j sched)).
Proof.
  induction sched as [|[j' i] sched IH]; intros ms j s H; cbn [meexec fold_left proj filter map eexec]; [exact H|].
  unfold mestep at 2. cbn [fst snd].
  destruct (nth_error (snd ms) j') as [s1|] eqn:E1.
  - destruct (Nat.eqb j' j) eqn:Ej.
    + apply Nat.eqb_eq in Ej. subst j'. rewrite H in E1. injection E1 as <-.
      cbn [map eexec fold_left]. apply (IH (_, _)). cbn [snd]. apply (nth_error_replace_same _ _ _ s). exact H.
    + apply Nat.eqb_neq in Ej. apply (IH (_, _)). cbn [snd]. rewrite (nth_error_replace_other _ _ _ _ s1 E1 Ej). exact H.
  - destruct (Nat.eqb j' j) eqn:Ej.
    + apply Nat.eqb_eq in Ej. subst j'. rewrite H in E1. discriminate.
    + apply IH. exact H.
Qed.

(* the shared counter moves by the sum of the components' own counts *)
Lemma meexec_matched sched : forall ms,
  fst (meexec ms sched) - total_matched (snd (meexec ms sched)) = fst ms - total_matched (snd ms).
Proof.
  induction sched as [|[j i] sched IH]; intros ms; cbn [meexec fold_left]; [reflexivity|].
  fold (meexec (mestep ms (j, i)) sched). rewrite IH. unfold mestep. cbn [fst snd].
  destruct (nth_error (snd ms) j) as [s|] eqn:E; [|reflexivity].
  cbn [fst snd]. rewrite (total_replace _ _ _ s E). lia.
Qed.

Lemma meexec_length sc : forall st : mstate, length (snd (meexec st sc)) = length (snd st).
Proof.
  induction sc as [|[j i] sc IH]; intros st0; [reflexivity|]. cbn [meexec fold_left]. fold (meexec (mestep st0 (j, i)) sc).
  rewrite IH. unfold mestep. cbn [fst snd]. destruct (nth_error (snd st0) j) as [s|] eqn:E; [|reflexivity].
  cbn [snd]. unfold replace_nth. rewrite app_length. cbn [length]. rewrite firstn_length, skipn_length.
  assert (Hj : (j < length (snd st0))%nat) by (apply nth_error_Some; rewrite E; discriminate). lia.
Qed.

Definition minit_multi (m0 : Z) (cfgs : list (Z * list nat)) : mstate :=
  (m0, map (fun c => einit (fst c) 0 (snd c)) cfgs).

Definition all_finished (ms : mstate) : bool := forallb efinished (snd ms).

Lemma Forall2_from_nth {A B} (R : A -> B -> Prop) : forall l1 l2, length l1 = length l2 ->
  (forall j a b, nth_error l1 j = Some a -> nth_error l2 j = Some b -> R a b) -> Forall2 R l1 l2.
Proof.
  induction l1 as [|a l1 IH]; intros [|b l2] Hl H; cbn in Hl; try discriminate; constructor.
  - apply (H O); reflexivity.
  - apply IH; [lia|]. intros j x y Hx Hy. apply (H (S j)); assumption.
Qed.

Lemma total_init cfgs : total_matched (map (fun c : Z * list nat => einit (fst c) 0 (snd c)) cfgs) = 0.
Proof. induction cfgs as [|c cs IH]; [reflexivity|]. cbn [map]. rewrite total_cons, IH. reflexivity. Qed.

Lemma total_matched_exact (ss : list est) (ns : list nat) :
  Forall2 (fun s n => matched s = Z.of_nat n) ss ns -> total_matched ss = Z.of_nat (fold_right Nat.add O ns).
Proof.
  induction 1 as [|s n ss ns H _ IH]; [reflexivity|]. cbn [total_matched fold_right]. fold (total_matched ss). rewrite H, IH. lia.
Qed.

(* Several streams sharing the statistics: for every interleaving of all emitters of all
   streams, when all have finished every stream j delivered exactly N_j items with indices
   exactly i0_j .. i0_j + N_j - 1, and the shared matched-pairs counter grew by the total. *)
Lemma emit_multi_exact m0 cfgs sched :
  let ms := meexec (minit_multi m0 cfgs) sched in
  all_finished ms = true ->
  fst ms = m0 + Z.of_nat (fold_right Nat.add O (map (fun c => total (snd c)) cfgs))
  /\ forall j c, nth_error cfgs j = Some c ->
       exists s, nth_error (snd ms) j = Some s /\ length (out s) = total (snd c) /\ NoDup (out s)
                 /\ (forall x, In x (out s) <-> fst c <= x < fst c + Z.of_nat (total (snd c))).
Proof.
  intros ms Hfin.
  assert (Hcomp : forall j c, nth_error cfgs j = Some c ->
            nth_error (snd ms) j = Some (eexec true (einit (fst c) 0 (snd c)) (proj j sched))).
  { intros j c Hc. apply meexec_proj. unfold minit_multi. cbn [snd]. rewrite nth_error_map, Hc. reflexivity. }
  assert (Hfinj : forall j c, nth_error cfgs j = Some c ->
            efinished (eexec true (einit (fst c) 0 (snd c)) (proj j sched)) = true).
  { intros j c Hc. unfold all_finished in Hfin. rewrite forallb_forall in Hfin. apply Hfin.
    apply (nth_error_In _ j). apply Hcomp. exact Hc. }
  split.
  - pose proof (meexec_matched sched (minit_multi m0 cfgs)) as Hm. fold ms in Hm.
    assert (Hinit : total_matched (snd (minit_multi m0 cfgs)) = 0) by (unfold minit_multi; cbn [snd]; apply total_init).
    assert (Hlen : length (snd ms) = length cfgs) by (unfold ms; rewrite meexec_length; unfold minit_multi; cbn [snd]; apply map_length).
    assert (Hall : Forall2 (fun s n => matched s = Z.of_nat n) (snd ms) (map (fun c => total (snd c)) cfgs)).
    { apply Forall2_from_nth; [rewrite map_length; exact Hlen|].
      intros j s n Hs Hn. rewrite nth_error_map in Hn. destruct (nth_error cfgs j) as [c|] eqn:Ec; [|discriminate].
      injection Hn as <-. rewrite (Hcomp j c Ec) in Hs. injection Hs as <-.
      destruct (emit_exact (fst c) 0 (snd c) (proj j sched) (Hfinj j c Ec)) as (_ & _ & _ & Hmm & _). rewrite Hmm. lia. }
    rewrite (total_matched_exact _ _ Hall) in Hm. cbn [fst] in Hm. rewrite Hinit in Hm. cbn [minit_multi fst] in Hm. lia.
  - intros j c Hc. exists (eexec true (einit (fst c) 0 (snd c)) (proj j sched)). split; [apply Hcomp; exact Hc|].
    destruct (emit_exact (fst c) 0 (snd c) (proj j sched) (Hfinj j c Hc)) as (H1 & H2 & H3 & _).
    split; [exact H1|]. split; [exact H2|]. exact H3.
Qed.
