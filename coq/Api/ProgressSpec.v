(* What the property says, written without looking at the implementation's state:
   "each reading of a connection's progress counter returns the bytes fed since the
   previous reading" (a Reset starts a new count). *)
Require Import V.Base.Prelude.
Require Import V.Api.Progress.
Local Open Scope Z_scope.

(* acc = bytes fed since the previous reading *)
Fixpoint spec_from (acc : Z) (ops : list pop) : list Z :=
  match ops with
  | [] => []
  | Feed n :: ops' => spec_from (acc + n) ops'
  | Current :: ops' => acc :: spec_from 0 ops'
  | Reset :: ops' => spec_from 0 ops'
  end.
Definition spec_currents := spec_from 0.

Fixpoint total_fed (ops : list pop) : Z :=
  match ops with
  | [] => 0
  | Feed n :: ops' => n + total_fed ops'
  | _ :: ops' => total_fed ops'
  end.

(* bytes fed after the last reading *)
Fixpoint pending_from (acc : Z) (ops : list pop) : Z :=
  match ops with
  | [] => acc
  | Feed n :: ops' => pending_from (acc + n) ops'
  | Current :: ops' => pending_from 0 ops'
  | Reset :: ops' => pending_from 0 ops'
  end.

Definition no_reset (ops : list pop) : bool :=
  forallb (fun o => match o with Reset => false | _ => true end) ops.
