(* Model of api.Emitting.Emit (pkg/api/api.go) under concurrent callers.
   One Emit call is the atom sequence
     IncMatched ; Lock ; ReadIdx ; IncrIdx ; Unlock ; Send
   (SetAsEmittable and GetPcapId do not touch the state the property is about).
   Threads = emitters sharing one stream; a schedule is the list of thread ids in the order in
   which they take their next atom; an atom that cannot proceed (Lock on a held lock) leaves
   the state unchanged.  `locked = false` is the code before the repair (no lock). *)
Require Import V.Base.Prelude.
Local Open Scope Z_scope.

Inductive eatom := EIncMatched | ELock | EReadIdx | EIncrIdx | EUnlock | ESend | EUnknown.

Definition eatom_eqb (a b : eatom) : bool :=
  match a, b with
  | EIncMatched, EIncMatched | ELock, ELock | EReadIdx, EReadIdx
  | EIncrIdx, EIncrIdx | EUnlock, EUnlock | ESend, ESend | EUnknown, EUnknown => true
  | _, _ => false
  end.

(* what the theorems are about; compared with the atoms extracted from the source *)
Definition emit_atoms : list eatom := [EIncMatched; ELock; EReadIdx; EIncrIdx; EUnlock; ESend].

(* program counter inside one Emit call *)
Inductive pc := P0 | P1 | P2 | P3 | P4 | P5.

Record ethr := { todo : nat; at_ : pc; ereg : Z }.

Record est := {
  idx : Z;              (* the stream's item count *)
  lock : bool;          (* Emitting.indexLock held *)
  matched : Z;          (* AppStats.MatchedPairs *)
  out : list Z;         (* indices of the items delivered to the output channel, newest first *)
  ethrs : list ethr
}.

Definition upd (ts : list ethr) (i : nat) (t : ethr) : list ethr :=
  firstn i ts ++ t :: skipn (S i) ts.

Definition estep (uselock : bool) (s : est) (i : nat) : est :=
  match nth_error (ethrs s) i with
  | None => s
  | Some t =>
    match todo t with
    | O => s
    | S n =>
      match at_ t with
      | P0 => {| idx := idx s; lock := lock s; matched := matched s + 1; out := out s;
                 ethrs := upd (ethrs s) i {| todo := todo t; at_ := P1; ereg := ereg t |} |}
      | P1 => if uselock && lock s then s
              else {| idx := idx s; lock := uselock; matched := matched s; out := out s;
                      ethrs := upd (ethrs s) i {| todo := todo t; at_ := P2; ereg := ereg t |} |}
      | P2 => {| idx := idx s; lock := lock s; matched := matched s; out := out s;
                 ethrs := upd (ethrs s) i {| todo := todo t; at_ := P3; ereg := idx s |} |}
      | P3 => {| idx := idx s + 1; lock := lock s; matched := matched s; out := out s;
                 ethrs := upd (ethrs s) i {| todo := todo t; at_ := P4; ereg := ereg t |} |}
      | P4 => {| idx := idx s; lock := false; matched := matched s; out := out s;
                 ethrs := upd (ethrs s) i {| todo := todo t; at_ := P5; ereg := ereg t |} |}
      | P5 => {| idx := idx s; lock := lock s; matched := matched s; out := ereg t :: out s;
                 ethrs := upd (ethrs s) i {| todo := n; at_ := P0; ereg := ereg t |} |}
      end
    end
  end.

Definition eexec (uselock : bool) (s : est) (sched : list nat) : est := fold_left (estep uselock) sched s.

Definition einit (i0 m0 : Z) (ns : list nat) : est :=
  {| idx := i0; lock := false; matched := m0; out := [];
     ethrs := map (fun n => {| todo := n; at_ := P0; ereg := 0 |}) ns |}.

Definition efinished (s : est) : bool := forallb (fun t => match todo t with O => true | _ => false end) (ethrs s).

Definition total (ns : list nat) : nat := fold_right Nat.add O ns.

(* ---- exhaustive exploration (search for a counterexample; finite, by fuel) *)
Definition enabled (uselock : bool) (s : est) (i : nat) : bool :=
  match nth_error (ethrs s) i with
  | None => false
  | Some t => match todo t with
              | O => false
              | S _ => match at_ t with P1 => negb (uselock && lock s) | _ => true end
              end
  end.

Fixpoint eall_scheds (uselock : bool) (fuel : nat) (s : est) : list (list nat) :=
  match fuel with
  | O => [[]]
  | S f =>
      match filter (enabled uselock s) (seq 0 (length (ethrs s))) with
      | [] => [[]]
      | en => flat_map (fun i => map (cons i) (eall_scheds uselock f (estep uselock s i))) en
      end
  end.

Fixpoint nodupb (l : list Z) : bool :=
  match l with
  | [] => true
  | x :: r => negb (existsb (Z.eqb x) r) && nodupb r
  end.

Definition good_final (i0 m0 : Z) (ns : list nat) (s : est) : bool :=
  Nat.eqb (length (out s)) (total ns) && nodupb (out s)
  && forallb (fun x => (i0 <=? x) && (x <? i0 + Z.of_nat (total ns))) (out s)
  && Z.eqb (matched s) (m0 + Z.of_nat (total ns)) && Z.eqb (idx s) (i0 + Z.of_nat (total ns)).

Definition ecounterexamples (uselock : bool) (ns : list nat) : list (list nat) :=
  filter (fun sc => negb (good_final 0 0 ns (eexec uselock (einit 0 0 ns) sc)))
         (eall_scheds uselock (6 * total ns) (einit 0 0 ns)).
