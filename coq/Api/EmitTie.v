(* Tie of the Emit model to the source: gen/EmitSrc.v is rewritten from pkg/api/api.go on
   every run; the model's atom sequence must be the one found there. *)
Require Import V.Base.Prelude V.Api.Emit V.gen.EmitSrc.

Lemma emit_src_is_model : emit_src = emit_atoms.
Proof. reflexivity. Qed.

(* EIncMatched is one atomic 64-bit add of 1: the body of IncMatchedPairs as the translator reads it
   (an add of another width or amount, a plain increment or anything else gives another text) *)
Require Import Coq.Strings.String.
Lemma inc_matched_is_one_atomic_add : inc_matched_src = ["AAdd 1"%string].
Proof. reflexivity. Qed.
