(* Tie of the Emit model to the source: gen/EmitSrc.v is rewritten from pkg/api/api.go on
   every run; the model's atom sequence must be the one found there. *)
Require Import V.Base.Prelude V.Api.Emit V.gen.EmitSrc.

Lemma emit_src_is_model : emit_src = emit_atoms.
Proof. reflexivity. Qed.
