(* Model of api.ReadProgress (pkg/api/api.go): Feed / Current / Reset.
   Go `int` is modelled as Z (byte counts of one connection do not reach 2^63). *)
Require Import V.Base.Prelude.
Local Open Scope Z_scope.

Record prog := { readBytes : Z; lastCurrent : Z }.
Definition prog0 : prog := {| readBytes := 0; lastCurrent := 0 |}.

Inductive pop := Feed (n : Z) | Current | Reset.

(* one operation: new state and what Current returned *)
Definition pstep (p : prog) (o : pop) : prog * option Z :=
  match o with
  | Feed n => ({| readBytes := readBytes p + n; lastCurrent := lastCurrent p |}, None)
  | Current => ({| readBytes := readBytes p; lastCurrent := readBytes p |},
                Some (readBytes p - lastCurrent p))
  | Reset => (prog0, None)
  end.

Fixpoint prun (p : prog) (ops : list pop) : list Z * prog :=
  match ops with
  | [] => ([], p)
  | o :: ops' =>
      let '(p', out) := pstep p o in
      let '(outs, pf) := prun p' ops' in
      (match out with Some z => z :: outs | None => outs end, pf)
  end.

Definition currents (ops : list pop) : list Z := fst (prun prog0 ops).
