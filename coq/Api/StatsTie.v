(* Tie of the Stats model to the source: gen/StatsSrc.v is rewritten from
   pkg/api/stats_tracker.go on every run; the lemmas below are re-checked against it. *)
Require Import V.Base.Prelude V.Api.Stats V.Api.StatsProofs V.gen.StatsSrc.
Local Open Scope N_scope.

Lemma reset_src_wf : forall n, wf_code (dumps reset_src n) = true.
Proof.
  (* the reset function found in the source is a single atomic swap *)
  assert (H : reset_src = [ASwap0]) by reflexivity.
  rewrite H. exact wf_dumps.
Qed.

Lemma inc_src_wf : forallb wf_code inc_src = true.
Proof. vm_compute. reflexivity. Qed.

Lemma dump_fields_ok : dump_src_ok = true.
Proof. vm_compute. reflexivity. Qed.

(* threads of the property: each incrementing thread runs any sequence of the Inc* methods
   found in the source, each dumping thread runs the source's reset any number of times *)
Fixpoint inc_thread (calls : list nat) : list atom :=
  match calls with
  | [] => []
  | c :: cs => nth c inc_src [] ++ inc_thread cs
  end.

Lemma wf_code_app_atomic a b : wf_code a = true -> wf_code b = true ->
  (forall x, In x a -> match x with AAdd _ | APeek => True | _ => False end) -> wf_code (a ++ b) = true.
Proof.
  induction a as [|x a IH]; intros Ha Hb Hall; cbn [app]; [exact Hb|].
  pose proof (Hall x (or_introl eq_refl)) as Hx.
  destruct x; try contradiction; cbn [wf_code] in *; apply IH; auto; intros y Hy; apply Hall; right; exact Hy.
Qed.

Definition simple_inc (p : list atom) : bool :=
  forallb (fun x => match x with AAdd _ | APeek => true | _ => false end) p.

Lemma inc_src_simple : forallb simple_inc inc_src = true.
Proof. vm_compute. reflexivity. Qed.

Lemma simple_inc_wf p : simple_inc p = true -> wf_code p = true.
Proof. induction p as [|[] p IH]; cbn; intros H; try discriminate; auto. Qed.

Lemma nth_inc_simple c : simple_inc (nth c inc_src []) = true.
Proof.
  pose proof inc_src_simple as H. rewrite forallb_forall in H.
  destruct (nth_in_or_default c inc_src []) as [Hin | ->]; [apply H; exact Hin | reflexivity].
Qed.

Lemma inc_thread_wf calls : wf_code (inc_thread calls) = true.
Proof.
  induction calls as [|c cs IH]; cbn [inc_thread]; [reflexivity|].
  apply wf_code_app_atomic; [apply simple_inc_wf, nth_inc_simple | exact IH |].
  intros x Hx. pose proof (nth_inc_simple c) as Hs. unfold simple_inc in Hs.
  rewrite forallb_forall in Hs. specialize (Hs x Hx). destruct x; try discriminate; exact I.
Qed.

Lemma stats_conserved (incthreads : list (list nat)) (dumpthreads : list nat) sched :
  let progs := map inc_thread incthreads ++ map (dumps reset_src) dumpthreads in
  let s := exec (init progs) sched in
  (finished s = true -> added s = dumped s + ctr s)
  /\ added s = dumped s + ctr s + held (thrs s).
Proof.
  intros progs s.
  assert (Hwf : forallb wf_code progs = true).
  { unfold progs. rewrite forallb_app. apply andb_true_iff. split.
    - apply forallb_forall. intros p Hp. apply in_map_iff in Hp as [c [<- _]]. apply inc_thread_wf.
    - apply forallb_forall. intros p Hp. apply in_map_iff in Hp as [n [<- _]]. apply reset_src_wf. }
  split; [apply conservation_final | apply conservation_always]; exact Hwf.
Qed.
