Require Import V.Base.Prelude V.Api.Stats.
Local Open Scope N_scope.

(* Well-formed thread: its remaining code consists of AAdd and of ASwap0;ARet blocks, and its
   register is non-zero only between an ASwap0 and the ARet that follows it. *)
Fixpoint wf_code (c : list atom) : bool :=
  match c with
  | [] => true
  | AAdd _ :: r => wf_code r
  | APeek :: r => wf_code r
  | ASwap0 :: ARet :: r => wf_code r
  | _ => false
  end.

Definition wf_thr (t : thr) : bool :=
  match code t with
  | ARet :: r => wf_code r
  | c => N.eqb (reg t) 0 && wf_code c
  end.

Definition held (ts : list thr) : N := fold_right (fun t n => reg t + n) 0 ts.

Definition Inv (s : st) : Prop :=
  added s = dumped s + ctr s + held (thrs s) /\ forallb wf_thr (thrs s) = true.

Lemma held_app a b : held (a ++ b) = held a + held b.
Proof. induction a as [|t a IH]; cbn [held fold_right app]; [reflexivity|]. fold (held (a ++ b)). fold (held a). rewrite IH. lia. Qed.

Lemma nth_error_split {A} (l : list A) i x : nth_error l i = Some x ->
  l = firstn i l ++ x :: skipn (S i) l.
Proof.
  revert l; induction i as [|i IH]; intros [|y l] H; cbn in *; try discriminate.
  - injection H as ->. reflexivity.
  - f_equal. apply IH. exact H.
Qed.

Lemma held_upd ts i t t' : nth_error ts i = Some t ->
  held (upd_thr ts i t') + reg t = held ts + reg t'.
Proof.
  intros H. unfold upd_thr. rewrite (nth_error_split ts i t H) at 3.
  rewrite !held_app. cbn [held fold_right]. lia.
Qed.

Lemma forallb_upd ts i t t' : nth_error ts i = Some t ->
  forallb wf_thr ts = true -> wf_thr t' = true -> forallb wf_thr (upd_thr ts i t') = true.
Proof.
  intros H Hall Ht'. unfold upd_thr. rewrite (nth_error_split ts i t H) in Hall.
  rewrite forallb_app in *. cbn [forallb] in *.
  apply andb_true_iff in Hall as [H1 H2]. apply andb_true_iff in H2 as [_ H3].
  rewrite H1, Ht', H3. reflexivity.
Qed.

Lemma forallb_nth ts i t : nth_error ts i = Some t -> forallb wf_thr ts = true -> wf_thr t = true.
Proof.
  intros H Hall. rewrite (nth_error_split ts i t H) in Hall. rewrite forallb_app in Hall.
  apply andb_true_iff in Hall as [_ H2]. cbn [forallb] in H2. apply andb_true_iff in H2 as [H2 _]. exact H2.
Qed.

Lemma step_inv s i : Inv s -> Inv (step s i).
Proof.
  intros [Hc Hwf]. unfold step.
  destruct (nth_error (thrs s) i) as [t|] eqn:Hn; [|split; assumption].
  pose proof (forallb_nth _ _ _ Hn Hwf) as Ht.
  destruct (code t) as [|a rest] eqn:Hcode; [split; assumption|].
  unfold wf_thr in Ht. rewrite Hcode in Ht.
  destruct a; try (split; assumption).
  - (* AAdd *)
    apply andb_true_iff in Ht as [Hr Hw]. cbn [wf_code] in Hw.
    split; cbn [ctr added dumped thrs].
    + pose proof (held_upd _ _ _ {| code := rest; reg := reg t |} Hn) as Hh. cbn [reg] in Hh. lia.
    + apply (forallb_upd _ _ _ _ Hn Hwf). unfold wf_thr. cbn [code reg].
      destruct rest as [|[] r]; cbn [wf_code] in Hw |- *; try discriminate; rewrite ?Hr; try exact Hw; reflexivity.
  - (* ALoad: not in wf code *)
    apply andb_true_iff in Ht as [_ Hw]. cbn [wf_code] in Hw. discriminate.
  - apply andb_true_iff in Ht as [_ Hw]. cbn [wf_code] in Hw. discriminate.
  - (* ASwap0 *)
    apply andb_true_iff in Ht as [Hr Hw]. cbn [wf_code] in Hw.
    destruct rest as [|[] r]; try discriminate.
    split; cbn [ctr added dumped thrs].
    + pose proof (held_upd _ _ _ {| code := ARet :: r; reg := ctr s |} Hn) as Hh. cbn [reg] in Hh.
      apply N.eqb_eq in Hr. lia.
    + apply (forallb_upd _ _ _ _ Hn Hwf). unfold wf_thr. cbn [code]. exact Hw.
  - (* APeek *)
    apply andb_true_iff in Ht as [Hr Hw]. cbn [wf_code] in Hw.
    split; cbn [ctr added dumped thrs].
    + pose proof (held_upd _ _ _ {| code := rest; reg := reg t |} Hn) as Hh. cbn [reg] in Hh. lia.
    + apply (forallb_upd _ _ _ _ Hn Hwf). unfold wf_thr. cbn [code reg].
      destruct rest as [|[] r]; cbn [wf_code] in Hw |- *; try discriminate; rewrite ?Hr; try exact Hw; reflexivity.
  - (* ARet *)
    split; cbn [ctr added dumped thrs].
    + pose proof (held_upd _ _ _ {| code := rest; reg := 0 |} Hn) as Hh. cbn [reg] in Hh. lia.
    + apply (forallb_upd _ _ _ _ Hn Hwf). unfold wf_thr. cbn [code reg].
      destruct rest as [|[] r]; cbn [wf_code] in Ht |- *; try discriminate; try exact Ht; reflexivity.
Qed.

Lemma exec_inv sched : forall s, Inv s -> Inv (exec s sched).
Proof.
  induction sched as [|i sched IH]; intros s H; cbn [exec fold_left]; [exact H|].
  apply IH. apply step_inv. exact H.
Qed.

Lemma held_finished ts : forallb wf_thr ts = true ->
  forallb (fun t => match code t with [] => true | _ => false end) ts = true -> held ts = 0.
Proof.
  induction ts as [|t ts IH]; cbn [forallb held fold_right]; intros Hw Hf; [reflexivity|].
  apply andb_true_iff in Hw as [Hw1 Hw2]. apply andb_true_iff in Hf as [Hf1 Hf2].
  fold (held ts). rewrite (IH Hw2 Hf2). unfold wf_thr in Hw1.
  destruct (code t); [|discriminate]. apply andb_true_iff in Hw1 as [Hr _]. apply N.eqb_eq in Hr. lia.
Qed.

Lemma wf_incs ks : wf_code (incs ks) = true.
Proof. induction ks as [|k ks IH]; cbn; [reflexivity | exact IH]. Qed.

Lemma wf_dumps n : wf_code (dumps [ASwap0] n) = true.
Proof. induction n as [|n IH]; cbn; [reflexivity | exact IH]. Qed.

Lemma init_inv progs : forallb wf_code progs = true -> Inv (init progs).
Proof.
  intros H. unfold Inv, init. cbn [ctr added dumped thrs]. split.
  - induction progs as [|p ps IH]; cbn; [reflexivity|]. cbn in H. apply andb_true_iff in H as [_ H].
    specialize (IH H). fold (held (map (fun p => {| code := p; reg := 0 |}) ps)). lia.
  - induction progs as [|p ps IH]; cbn [map forallb]; [reflexivity|]. cbn [forallb] in H.
    apply andb_true_iff in H as [H1 H2]. rewrite (IH H2), andb_true_r.
    unfold wf_thr. cbn [code reg]. destruct p as [|[] p']; cbn [wf_code] in H1 |- *; try discriminate; try exact H1; reflexivity.
Qed.

(* Every interleaving of any well-formed threads conserves the counted events at every
   point: counted = dumped + live counter + values swapped out but not yet returned. *)
Lemma conservation_always progs sched : forallb wf_code progs = true ->
  let s := exec (init progs) sched in added s = dumped s + ctr s + held (thrs s).
Proof. intros H. apply (exec_inv sched (init progs) (init_inv progs H)). Qed.

Lemma conservation_final progs sched : forallb wf_code progs = true ->
  let s := exec (init progs) sched in finished s = true -> added s = dumped s + ctr s.
Proof.
  intros H s Hf. destruct (exec_inv sched (init progs) (init_inv progs H)) as [Hc Hw].
  fold s in Hc, Hw. rewrite (held_finished _ Hw Hf) in Hc. lia.
Qed.

(* The load-then-store reset (the code before the repair) is refuted: one increment between
   the load and the store is lost. *)
Lemma loadstore_refuted :
  exists sched, let s := exec (init [incs [1]; dumps [ALoad; AStore0] 1]) sched in
                finished s = true /\ added s <> dumped s + ctr s.
Proof. exists [1; 0; 1; 1]%nat. vm_compute. split; [reflexivity | discriminate]. Qed.
