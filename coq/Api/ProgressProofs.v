Require Import V.Base.Prelude V.Api.Progress V.Api.ProgressSpec.
Local Open Scope Z_scope.

Lemma prun_spec : forall ops p,
  fst (prun p ops) = spec_from (readBytes p - lastCurrent p) ops.
Proof.
  induction ops as [|o ops IH]; intros p; cbn [prun spec_from fst]; [reflexivity|].
  destruct o as [n| |]; cbn [pstep].
  - specialize (IH {| readBytes := readBytes p + n; lastCurrent := lastCurrent p |}).
    destruct (prun _ ops) as [outs pf]; cbn [fst] in *. rewrite IH. cbn [readBytes lastCurrent].
    f_equal. lia.
  - specialize (IH {| readBytes := readBytes p; lastCurrent := readBytes p |}).
    destruct (prun _ ops) as [outs pf]; cbn [fst] in *. rewrite IH. cbn [readBytes lastCurrent].
    f_equal. f_equal. lia.
  - specialize (IH prog0).
    destruct (prun _ ops) as [outs pf]; cbn [fst] in *. rewrite IH. reflexivity.
Qed.

Lemma currents_spec : forall ops, currents ops = spec_currents ops.
Proof. intros ops. unfold currents, spec_currents. rewrite prun_spec. reflexivity. Qed.

Lemma spec_sum : forall ops acc, no_reset ops = true ->
  sumZ (spec_from acc ops) + pending_from acc ops = acc + total_fed ops.
Proof.
  induction ops as [|o ops IH]; intros acc Hnr; cbn [spec_from pending_from total_fed sumZ fold_right].
  - lia.
  - cbn [no_reset forallb] in Hnr. destruct o as [n| |]; cbn in Hnr; try discriminate.
    + rewrite IH by exact Hnr. lia.
    + cbn [sumZ fold_right]. fold (sumZ (spec_from 0 ops)). specialize (IH 0 Hnr). lia.
Qed.

Lemma currents_sum : forall ops, no_reset ops = true ->
  sumZ (currents ops) + pending_from 0 ops = total_fed ops.
Proof. intros ops H. rewrite currents_spec. unfold spec_currents. rewrite spec_sum by exact H. lia. Qed.

(* non-vacuity: the witness of the defect that was repaired (feeds 10,5,5,7 read after each) *)
Example currents_example :
  currents [Feed 10; Current; Feed 5; Current; Feed 5; Current; Feed 7; Current] = [10; 5; 5; 7].
Proof. reflexivity. Qed.
