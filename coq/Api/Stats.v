(* Model of one AppStats counter under concurrent updates (pkg/api/stats_tracker.go).
   Threads are lists of atomic actions on the shared counter; a schedule is the list of
   thread ids in the order in which they take their next atomic action (sequentially
   consistent interleavings).  Counters are modelled as N (no 2^64 wrap: the property is
   about conservation of counted events, and a dump interval never counts 2^64 events). *)
Require Import V.Base.Prelude.
Local Open Scope N_scope.

Inductive atom :=
| AAdd (k : N)        (* atomic.AddUint64(ref, k) *)
| ALoad               (* reg := atomic.LoadUint64(ref) *)
| AStore0             (* atomic.StoreUint64(ref, 0) *)
| ASwap0              (* reg := atomic.SwapUint64(ref, 0) *)
| APlainAdd (k : N)   (* ref += k without atomics: modelled as load; store (two atoms) by the translator *)
| APeek               (* a load whose value is only returned to the caller *)
| ARet                (* the reset function returns reg: it becomes part of the dump *)
| AUnknown.           (* a statement the translator does not understand *)

Definition atom_eqb (a b : atom) : bool :=
  match a, b with
  | AAdd x, AAdd y => N.eqb x y
  | APeek, APeek => true
  | ALoad, ALoad | AStore0, AStore0 | ASwap0, ASwap0 | ARet, ARet | AUnknown, AUnknown => true
  | APlainAdd x, APlainAdd y => N.eqb x y
  | _, _ => false
  end.

Record thr := { code : list atom; reg : N }.

Record st := {
  ctr : N;              (* the live counter *)
  added : N;            (* ghost: events counted so far *)
  dumped : N;           (* ghost: sum of the values returned to dumps *)
  thrs : list thr
}.

Definition upd_thr (ts : list thr) (i : nat) (t : thr) : list thr :=
  firstn i ts ++ t :: skipn (S i) ts.

Definition step (s : st) (i : nat) : st :=
  match nth_error (thrs s) i with
  | None => s
  | Some t =>
    match code t with
    | [] => s
    | a :: rest =>
      match a with
      | AAdd k => {| ctr := ctr s + k; added := added s + k; dumped := dumped s;
                     thrs := upd_thr (thrs s) i {| code := rest; reg := reg t |} |}
      | ALoad => {| ctr := ctr s; added := added s; dumped := dumped s;
                    thrs := upd_thr (thrs s) i {| code := rest; reg := ctr s |} |}
      | AStore0 => {| ctr := 0; added := added s; dumped := dumped s;
                      thrs := upd_thr (thrs s) i {| code := rest; reg := reg t |} |}
      | ASwap0 => {| ctr := 0; added := added s; dumped := dumped s;
                     thrs := upd_thr (thrs s) i {| code := rest; reg := ctr s |} |}
      | ARet => {| ctr := ctr s; added := added s; dumped := dumped s + reg t;
                   thrs := upd_thr (thrs s) i {| code := rest; reg := 0 |} |}
      | APeek => {| ctr := ctr s; added := added s; dumped := dumped s;
                    thrs := upd_thr (thrs s) i {| code := rest; reg := reg t |} |}
      | APlainAdd _ | AUnknown => s   (* not executable: programs containing them are rejected *)
      end
    end
  end.

Definition exec (s : st) (sched : list nat) : st := fold_left step sched s.

Definition init (progs : list (list atom)) : st :=
  {| ctr := 0; added := 0; dumped := 0;
     thrs := map (fun p => {| code := p; reg := 0 |}) progs |}.

Definition finished (s : st) : bool := forallb (fun t => match code t with [] => true | _ => false end) (thrs s).

(* The programs the property quantifies over: any number of incrementing threads and dumping
   threads, the dumper running the reset function `reset` (as found in the source) any number
   of times. *)
Definition incs (ks : list N) : list atom := map AAdd ks.
Definition dumps (reset : list atom) (n : nat) : list atom := concat (repeat (reset ++ [ARet]) n).

(* conservation at the end of a complete run *)
Definition conserved (s : st) : bool := N.eqb (added s) (dumped s + ctr s).

(* ---- exhaustive exploration, used to search for a counterexample when the source's reset
        function is not the one the theorem is about *)
Fixpoint all_scheds (fuel : nat) (s : st) : list (list nat) :=
  match fuel with
  | O => [[]]
  | S f =>
      let en := filter (fun i => match nth_error (thrs s) i with
                                 | Some t => match code t with [] => false | _ => true end
                                 | None => false end) (seq 0 (length (thrs s))) in
      match en with
      | [] => [[]]
      | _ => flat_map (fun i => map (cons i) (all_scheds f (step s i))) en
      end
  end.

Definition total_len (progs : list (list atom)) : nat := fold_right (fun p n => length p + n)%nat O progs.

Definition counterexamples (progs : list (list atom)) : list (list nat) :=
  filter (fun sc => negb (conserved (exec (init progs) sc))) (all_scheds (total_len progs) (init progs)).
