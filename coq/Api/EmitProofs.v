Require Import V.Base.Prelude V.Api.Emit.
From Coq Require Import Permutation.
Local Open Scope Z_scope.

Definition sumf (f : ethr -> Z) (ts : list ethr) : Z := fold_right (fun t a => f t + a) 0 ts.

Lemma sumf_cons f t b : sumf f (t :: b) = f t + sumf f b.
Proof. reflexivity. Qed.
Lemma sumf_app f a b : sumf f (a ++ b) = sumf f a + sumf f b.
Proof. induction a as [|t a IH]; [reflexivity|]. cbn [app]. rewrite !sumf_cons, IH. lia. Qed.

Definition rinc (t : ethr) : Z := Z.of_nat (todo t) - match at_ t with P0 => 0 | _ => 1 end.
Definition rincr (t : ethr) : Z := Z.of_nat (todo t) - match at_ t with P4 | P5 => 1 | _ => 0 end.
Definition rsend (t : ethr) : Z := Z.of_nat (todo t).
Definition hold (t : ethr) : Z := match at_ t with P2 | P3 | P4 => 1 | _ => 0 end.
Definition pend (t : ethr) : list Z := match at_ t with P4 | P5 => [ereg t] | _ => [] end.
Definition okt (i : Z) (t : ethr) : Prop := (at_ t <> P0 -> todo t <> O) /\ (at_ t = P3 -> ereg t = i).

Definition allidx (s : est) : list Z := out s ++ flat_map pend (ethrs s).

Record Inv (i0 M I T : Z) (s : est) : Prop := {
  i_m : matched s + sumf rinc (ethrs s) = M;
  i_i : idx s + sumf rincr (ethrs s) = I;
  i_o : Z.of_nat (length (out s)) + sumf rsend (ethrs s) = T;
  i_h : sumf hold (ethrs s) = if lock s then 1 else 0;
  i_t : Forall (okt (idx s)) (ethrs s);
  i_n : NoDup (allidx s);
  i_r : Forall (fun x => i0 <= x < idx s) (allidx s)
}.

Lemma hold_nonneg ts : 0 <= sumf hold ts.
Proof. induction ts as [|t ts IH]; cbn [sumf fold_right]; [lia|]. fold (sumf hold ts). unfold hold at 1. destruct (at_ t); lia. Qed.

Lemma hold_zero ts : sumf hold ts = 0 -> Forall (fun t => at_ t <> P3) ts.
Proof.
  induction ts as [|t ts IH]; intros H; constructor.
  - rewrite sumf_cons in H. pose proof (hold_nonneg ts). unfold hold in H at 1. intros E. rewrite E in H. lia.
  - apply IH. rewrite sumf_cons in H. pose proof (hold_nonneg ts). unfold hold in H at 1. destruct (at_ t); lia.
Qed.

Lemma okt_weaken i j ts : Forall (okt i) ts -> Forall (fun t => at_ t <> P3) ts -> Forall (okt j) ts.
Proof.
  intros H1 H2. rewrite Forall_forall in *. intros t Ht. destruct (H1 t Ht) as [Ha Hb].
  split; [exact Ha|]. intros E. exfalso. exact (H2 t Ht E).
Qed.

Lemma nth_error_split {A} (l : list A) i x : nth_error l i = Some x ->
  l = firstn i l ++ x :: skipn (S i) l.
Proof.
  revert l; induction i as [|i IH]; intros [|y l] H; cbn in *; try discriminate.
  - injection H as ->. reflexivity.
  - f_equal. apply IH. exact H.
Qed.

Lemma range_weaken i0 a b l : a <= b -> Forall (fun x => i0 <= x < a) l -> Forall (fun x => i0 <= x < b) l.
Proof. intros Hab H. rewrite Forall_forall in *. intros x Hx. specialize (H x Hx). lia. Qed.

Lemma estep_inv i0 M I T s i : Inv i0 M I T s -> i0 <= idx s -> Inv i0 M I T (estep true s i) /\ i0 <= idx (estep true s i).
Proof.
  intros HI Hge. pose proof HI as [Hm Hi Ho Hh Ht Hn Hr]. unfold estep.
  destruct (nth_error (ethrs s) i) as [t|] eqn:Hnth; [|split; assumption].
  destruct (todo t) as [|n] eqn:Htodo; [split; assumption|].
  pose proof (nth_error_split _ _ _ Hnth) as Hsplit.
  set (A := firstn i (ethrs s)) in *. set (B := skipn (S i) (ethrs s)) in *.
  unfold allidx in Hn, Hr. rewrite Hsplit in Hm, Hi, Ho, Hh, Ht, Hn, Hr.
  rewrite !sumf_app, !sumf_cons in *. rewrite flat_map_app in Hn, Hr. cbn [flat_map] in Hn, Hr.
  apply Forall_app in Ht as [HtA HtB']. inversion HtB' as [|t0 B0 Htt HtB]; subst t0 B0.
  destruct Htt as [Htt0 Htt3].
  pose proof (hold_nonneg A) as HhA. pose proof (hold_nonneg B) as HhB.
  destruct (at_ t) eqn:Hat.
  - (* P0: IncMatched *)
    split; [|exact Hge]. constructor; cbn [idx lock matched out ethrs]; unfold upd, allidx; cbn [out ethrs idx]; fold A B;
      rewrite ?sumf_app, ?sumf_cons, ?flat_map_app; cbn [flat_map];
      unfold rinc, rincr, rsend, hold, pend in *; cbn [todo at_ ereg] in *; rewrite ?Hat, ?Htodo in *; try lia; try assumption.
    apply Forall_app; split; [exact HtA|]. constructor; [|exact HtB]. split; cbn [at_ todo ereg]; [intros _; rewrite ?Htodo; discriminate | discriminate].
  - (* P1: Lock *)
    cbn [andb]. destruct (lock s) eqn:Hlock; [split; assumption|].
    split; [|exact Hge]. constructor; cbn [idx lock matched out ethrs]; unfold upd, allidx; cbn [out ethrs idx]; fold A B;
      rewrite ?sumf_app, ?sumf_cons, ?flat_map_app; cbn [flat_map];
      unfold rinc, rincr, rsend, hold, pend in *; cbn [todo at_ ereg] in *; rewrite ?Hat, ?Htodo in *; try lia; try assumption.
    apply Forall_app; split; [exact HtA|]. constructor; [|exact HtB]. split; cbn [at_ todo ereg]; [intros _; rewrite ?Htodo; discriminate | discriminate].
  - (* P2: ReadIdx *)
    split; [|exact Hge]. constructor; cbn [idx lock matched out ethrs]; unfold upd, allidx; cbn [out ethrs idx]; fold A B;
      rewrite ?sumf_app, ?sumf_cons, ?flat_map_app; cbn [flat_map];
      unfold rinc, rincr, rsend, hold, pend in *; cbn [todo at_ ereg] in *; rewrite ?Hat, ?Htodo in *; try lia; try assumption.
    apply Forall_app; split; [exact HtA|]. constructor; [|exact HtB]. split; cbn [at_ todo ereg]; [intros _; rewrite ?Htodo; discriminate | reflexivity].
  - (* P3: IncrIdx *)
    assert (HA0 : sumf hold A = 0) by (unfold hold in Hh at 2; rewrite Hat in Hh; destruct (lock s); lia).
    assert (HB0 : sumf hold B = 0) by (unfold hold in Hh at 2; rewrite Hat in Hh; destruct (lock s); lia).
    specialize (Htt3 eq_refl).
    split; [|cbn [idx]; lia]. constructor; cbn [idx lock matched out ethrs]; unfold upd, allidx; cbn [out ethrs idx]; fold A B;
      rewrite ?sumf_app, ?sumf_cons, ?flat_map_app; cbn [flat_map];
      unfold rinc, rincr, rsend, hold, pend in *; cbn [todo at_ ereg] in *; rewrite ?Hat, ?Htodo in *; try lia; try assumption.
    + apply Forall_app; split; [apply (okt_weaken (idx s)); [exact HtA | apply hold_zero; exact HA0]|].
      constructor; [split; cbn [at_ todo]; [intros _; rewrite ?Htodo; discriminate | discriminate]|].
      apply (okt_weaken (idx s)); [exact HtB | apply hold_zero; exact HB0].
    + (* NoDup: the new index idx s is fresh, every recorded index is below it *)
      cbn [app] in Hn, Hr |- *.
      rewrite app_assoc. apply NoDup_Add with (a := ereg t) (l := (out s ++ flat_map pend A) ++ flat_map pend B).
      * apply Add_app.
      * split; [rewrite <- app_assoc; exact Hn|]. intros Hin. rewrite <- app_assoc in Hin.
        rewrite Forall_forall in Hr. specialize (Hr _ Hin). lia.
    + cbn [app] in Hr |- *.
      apply Forall_app in Hr as [Hr1 Hr2]. apply Forall_app in Hr2 as [Hr2 Hr3].
      apply Forall_app; split; [apply (range_weaken _ (idx s)); [lia|exact Hr1]|].
      apply Forall_app; split; [apply (range_weaken _ (idx s)); [lia|exact Hr2]|].
      constructor; [lia|]. apply (range_weaken _ (idx s)); [lia|exact Hr3].
  - (* P4: Unlock *)
    assert (Hl : lock s = true) by (unfold hold in Hh at 2; rewrite Hat in Hh; destruct (lock s); [reflexivity|lia]).
    rewrite Hl in Hh.
    split; [|exact Hge]. constructor; cbn [idx lock matched out ethrs]; unfold upd, allidx; cbn [out ethrs idx]; fold A B;
      rewrite ?sumf_app, ?sumf_cons, ?flat_map_app; cbn [flat_map];
      unfold rinc, rincr, rsend, hold, pend in *; cbn [todo at_ ereg] in *; rewrite ?Hat, ?Htodo in *; try lia; try assumption.
    apply Forall_app; split; [exact HtA|]. constructor; [|exact HtB]. split; cbn [at_ todo ereg]; [intros _; rewrite ?Htodo; discriminate | discriminate].
  - (* P5: Send *)
    split; [|exact Hge]. constructor; cbn [idx lock matched out ethrs]; unfold upd, allidx; cbn [out ethrs idx]; fold A B;
      rewrite ?sumf_app, ?sumf_cons, ?flat_map_app; cbn [flat_map];
      unfold rinc, rincr, rsend, hold, pend in *; cbn [todo at_ ereg length] in *; rewrite ?Hat, ?Htodo in *; try lia; try assumption.
    + apply Forall_app; split; [exact HtA|]. constructor; [|exact HtB]. split; cbn [at_ todo ereg]; [intros E; contradiction | discriminate].
    + cbn [app] in Hn |- *.
      apply (Permutation_NoDup (l := out s ++ flat_map pend A ++ ereg t :: flat_map pend B)); [|exact Hn].
      rewrite app_assoc. rewrite app_assoc. apply Permutation_sym.
      change (ereg t :: (out s ++ flat_map pend A) ++ flat_map pend B) with ((ereg t :: (out s ++ flat_map pend A)) ++ flat_map pend B).
      apply Permutation_sym. apply Permutation_sym. apply Permutation_middle.
    + cbn [app] in Hr |- *.
      apply Forall_app in Hr as [Hr1 Hr2]. apply Forall_app in Hr2 as [Hr2 Hr3]. inversion Hr3 as [|x l Hx Hr4]; subst x l.
      constructor; [exact Hx|]. apply Forall_app; split; [exact Hr1|]. apply Forall_app; split; [exact Hr2|exact Hr4].
Qed.

Lemma eexec_inv i0 M I T sched : forall s, Inv i0 M I T s -> i0 <= idx s ->
  Inv i0 M I T (eexec true s sched) /\ i0 <= idx (eexec true s sched).
Proof.
  induction sched as [|i sched IH]; intros s H Hge; cbn [eexec fold_left]; [split; assumption|].
  destruct (estep_inv _ _ _ _ _ i H Hge) as [H' Hge']. exact (IH _ H' Hge').
Qed.

Definition mk (n : nat) : ethr := {| todo := n; at_ := P0; ereg := 0 |}.

Lemma init_sums ns :
  sumf rinc (map mk ns) = Z.of_nat (total ns) /\ sumf rincr (map mk ns) = Z.of_nat (total ns)
  /\ sumf rsend (map mk ns) = Z.of_nat (total ns) /\ sumf hold (map mk ns) = 0
  /\ flat_map pend (map mk ns) = [] /\ forall i, Forall (okt i) (map mk ns).
Proof.
  induction ns as [|n ns IH]; cbn [map total fold_right].
  - repeat split; try reflexivity. intros i. constructor.
  - destruct IH as [H1 [H2 [H3 [H4 [H5 H6]]]]]. fold (total ns).
    rewrite !sumf_cons. unfold rinc at 1, rincr at 1, rsend at 1, hold at 1. cbn [mk todo at_ flat_map pend app].
    rewrite H1, H2, H3, H4, H5. repeat split; try lia.
    intros i. constructor; [|apply H6]. split; cbn [mk at_]; [intros E; contradiction | discriminate].
Qed.

Lemma einit_inv i0 m0 ns :
  Inv i0 (m0 + Z.of_nat (total ns)) (i0 + Z.of_nat (total ns)) (Z.of_nat (total ns)) (einit i0 m0 ns).
Proof.
  destruct (init_sums ns) as [H1 [H2 [H3 [H4 [H5 H6]]]]]. fold mk in *.
  constructor; unfold einit, allidx; cbn [idx lock matched out ethrs length app]; fold mk;
    rewrite ?H1, ?H2, ?H3, ?H4, ?H5; try lia; try apply H6; constructor.
Qed.

Lemma finished_zero s i : Forall (okt i) (ethrs s) -> efinished s = true ->
  sumf rinc (ethrs s) = 0 /\ sumf rincr (ethrs s) = 0 /\ sumf rsend (ethrs s) = 0 /\ flat_map pend (ethrs s) = [].
Proof.
  unfold efinished. induction (ethrs s) as [|t ts IH]; intros Hok Hf; [repeat split; reflexivity|].
  cbn [forallb] in Hf. apply andb_true_iff in Hf as [Ht Hf]. inversion Hok as [|x l [Hx _] Hl]; subst x l.
  destruct (IH Hl Hf) as [H1 [H2 [H3 H4]]].
  destruct (todo t) eqn:Htodo; [|discriminate].
  assert (Hat : at_ t = P0) by (destruct (at_ t) eqn:E; try reflexivity; exfalso; (apply Hx; [first [discriminate | rewrite E; discriminate] | first [exact Htodo | reflexivity]])).
  rewrite !sumf_cons. cbn [flat_map]. unfold rinc at 1, rincr at 1, rsend at 1, pend at 1. rewrite Hat, Htodo, H1, H2, H3, H4.
  repeat split; reflexivity.
Qed.

(* every complete run of any number of emitters, under any interleaving: exactly N items
   delivered, N distinct indices i0 .. i0+N-1, matched pairs grew by N *)
Lemma emit_exact i0 m0 ns sched :
  let s := eexec true (einit i0 m0 ns) sched in
  let N := total ns in
  efinished s = true ->
  length (out s) = N /\ NoDup (out s)
  /\ (forall x, In x (out s) <-> i0 <= x < i0 + Z.of_nat N)
  /\ matched s = m0 + Z.of_nat N /\ idx s = i0 + Z.of_nat N.
Proof.
  intros s N Hf.
  destruct (eexec_inv _ _ _ _ sched _ (einit_inv i0 m0 ns)) as [[Hm Hi Ho Hh Ht Hn Hr] Hge]; [cbn; lia|].
  fold s in Hm, Hi, Ho, Hh, Ht, Hn, Hr, Hge.
  destruct (finished_zero s _ Ht Hf) as [H1 [H2 [H3 H4]]].
  unfold allidx in Hn, Hr. rewrite H4, app_nil_r in Hn, Hr. rewrite H1 in Hm. rewrite H2 in Hi. rewrite H3 in Ho.
  assert (Hlen : length (out s) = N) by (fold N in Ho; lia).
  assert (Hidx : idx s = i0 + Z.of_nat N) by (fold N in Hi; lia).
  split; [exact Hlen|]. split; [exact Hn|]. split; [|split; [fold N in Hm; lia | exact Hidx]].
  intros x. split.
  - intros Hx. rewrite Forall_forall in Hr. specialize (Hr x Hx). lia.
  - (* surjectivity by counting *)
    intros Hx.
    set (R := map (fun k => i0 + Z.of_nat k) (seq 0 N)).
    assert (Hincl : incl (out s) R).
    { intros y Hy. rewrite Forall_forall in Hr. specialize (Hr y Hy). unfold R.
      apply in_map_iff. exists (Z.to_nat (y - i0)). split; [lia|]. apply in_seq. lia. }
    assert (HlenR : (length R <= length (out s))%nat) by (unfold R; rewrite map_length, seq_length; lia).
    pose proof (NoDup_length_incl Hn HlenR Hincl) as Hback.
    apply Hback. unfold R. apply in_map_iff. exists (Z.to_nat (x - i0)). split; [lia|]. apply in_seq. lia.
Qed.

(* at every point of every run the indices handed out so far are pairwise distinct *)
Lemma emit_always_distinct i0 m0 ns sched :
  let s := eexec true (einit i0 m0 ns) sched in NoDup (allidx s).
Proof.
  intros s. destruct (eexec_inv _ _ _ _ sched _ (einit_inv i0 m0 ns)) as [[_ _ _ _ _ Hn _] _]; [cbn; lia|]. exact Hn.
Qed.

(* without the lock (the code before the repair) two emitters can read the same index *)
Lemma emit_nolock_refuted :
  exists sched, let s := eexec false (einit 0 0 [1%nat; 1%nat]) sched in
                efinished s = true /\ ~ NoDup (out s).
Proof.
  exists [0; 0; 0; 1; 1; 1; 0; 0; 0; 1; 1; 1]%nat. vm_compute. split; [reflexivity|].
  intros H. inversion H as [|x l Hnin _]; subst. apply Hnin. left. reflexivity.
Qed.

(* non-vacuity: a complete run exists *)
Example emit_example :
  efinished (eexec true (einit 5 0 [1%nat; 1%nat]) [0; 1; 0; 0; 0; 0; 1; 0; 1; 1; 1; 1; 1]%nat) = true.
Proof. vm_compute. reflexivity. Qed.
