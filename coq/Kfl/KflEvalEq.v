(* Unfolding equations of the mutually recursive evaluator (each is a conversion; stated once so
   that the proofs rewrite with them instead of unfolding the mutual fixpoint). *)
Require Import V.Base.Prelude V.Kfl.Num V.Kfl.Json V.Kfl.KflAst V.Kfl.Names V.Kfl.JPath V.Kfl.KflOps V.Kfl.KflEval.
Local Open Scope Z_scope.

Section Eq.
  Variable parse_float : bytes -> option fv.
  Variable re_match : bytes -> bytes -> bool.
  Variable parse_time : bytes -> option Z.
  Variable b64dec : bytes -> option bytes.
  Variable parse_json : bytes -> option jv.
  Variable xml_first : bytes -> bytes -> xres.
  Variable redact_apply : jv -> bytes -> jv.

  Notation ev_expr := (eval_expr parse_float re_match parse_time b64dec parse_json xml_first redact_apply).
  Notation ev_logical := (eval_logical parse_float re_match parse_time b64dec parse_json xml_first redact_apply).
  Notation ev_equality := (eval_equality parse_float re_match parse_time b64dec parse_json xml_first redact_apply).
  Notation ev_comparison := (eval_comparison parse_float re_match parse_time b64dec parse_json xml_first redact_apply).
  Notation ev_unary := (eval_unary parse_float re_match parse_time b64dec parse_json xml_first redact_apply).
  Notation ev_primary := (eval_primary parse_float re_match parse_time b64dec parse_json xml_first redact_apply).
  Notation ev_call := (eval_call parse_float re_match parse_time b64dec parse_json xml_first redact_apply).
  Notation ev_sel := (eval_sel parse_float re_match parse_time b64dec parse_json xml_first redact_apply).
  Notation ev_paramsopt := (eval_paramsopt parse_float re_match parse_time b64dec parse_json xml_first redact_apply).
  Notation ev_params := (eval_params parse_float re_match parse_time b64dec parse_json xml_first redact_apply).
  Notation ev_param := (eval_param parse_float re_match parse_time b64dec parse_json xml_first redact_apply).
  Notation lookup := (lookup_helper parse_time b64dec parse_json xml_first redact_apply).

  Lemma ev_expr_none : forall st, ev_expr (Expr LgNone) st = Ok (EvVal vtrue ORef, st).
  Proof. reflexivity. Qed.

  Lemma ev_expr_some : forall l st,
      ev_expr (Expr (LgSome l)) st =
      (let* r := ev_logical l st in
       match r with
       | (EvCollapse o, st') => Ok (EvVal vfalse o, st')
       | _ => Ok r
       end).
  Proof. reflexivity. Qed.

  Lemma ev_logical_eq : forall e op next st,
      ev_logical (Logical e op next) st =
      (let* r := ev_equality e st in
       match r with
       | (EvCollapse _, _) => Ok r
       | (EvVal unar o, st1) =>
           let ub := bool_operand unar in
           match op, ub with
           | LAnd, false => Ok (EvVal vfalse o, st1)
           | LOr, true => Ok (EvVal vtrue o, st1)
           | _, _ =>
               match next with
               | LgNone => Ok (EvVal unar o, st1)
               | LgSome n =>
                   let* r2 := ev_logical n st1 in
                   match r2 with
                   | (EvCollapse _, _) => Ok r2
                   | (EvVal nx o2, st2) =>
                       match logical_op op with
                       | Some f => Ok (EvVal (vbool (f unar nx)) o2, st2)
                       | None => Panic 900
                       end
                   end
               end
           end
       end).
  Proof. reflexivity. Qed.

  Lemma ev_equality_eq : forall c op next st,
      ev_equality (Equality c op next) st =
      (let* r := ev_comparison c st in
       match r with
       | (EvCollapse _, _) => Ok r
       | (EvVal comp o, st1) =>
           match next with
           | EqNone => Ok (EvVal comp o, st1)
           | EqSome n =>
               let* r2 := ev_equality n st1 in
               match r2 with
               | (EvCollapse _, _) => Ok r2
               | (EvVal nx o2, st2) =>
                   match equality_op parse_float re_match op with
                   | Some f => Ok (EvVal (vbool (f comp nx)) o2, st2)
                   | None => Panic 867
                   end
               end
           end
       end).
  Proof. reflexivity. Qed.

  Lemma ev_comparison_eq : forall u op next st,
      ev_comparison (Comparison u op next) st =
      (let* r := ev_unary u st in
       match r with
       | (EvCollapse _, _) => Ok r
       | (EvVal logic o, st1) =>
           match next with
           | CmNone => Ok (EvVal logic o, st1)
           | CmSome n =>
               let* r2 := ev_comparison n st1 in
               match r2 with
               | (EvCollapse _, _) => Ok r2
               | (EvVal nx o2, st2) =>
                   match comparison_op parse_float op with
                   | Some f => Ok (EvVal (vbool (f logic nx)) o2, st2)
                   | None => Panic 844
                   end
               end
           end
       end).
  Proof. reflexivity. Qed.

  Lemma ev_unary_op : forall op u st,
      ev_unary (UnOp op u) st =
      (let* r := ev_unary u st in
       match r with
       | (EvCollapse _, _) => Ok r
       | (EvVal v o, st1) => Ok (EvVal (apply_unary op v) o, st1)
       end).
  Proof. reflexivity. Qed.

  Lemma ev_unary_prim : forall p st, ev_unary (UnPrim p) st = ev_primary p st.
  Proof. reflexivity. Qed.

  (* the JSONPath branch of evalPrimary once the path has been looked up *)
  Definition path_branch (jp : jpath) (helper : option bytes) (call : callopt) (st : jv) : eres :=
    let result := jget jp st in
    match result, helper with
    | [], None => Ok (EvCollapse ORef, st)
    | _, _ =>
        let v := value_of_result result in
        match helper, call with
        | Some h, ClSome (CallExpr _ ps _) =>
            let* r := ev_paramsopt ps st in
            let '(pvals, st1) := r in
            match lookup h with
            | Some hf =>
                if no_match result && subject_helper h then Ok (EvVal vfalse ORef, st1)
                else
                  let* hr := hf (VJ st :: v :: pvals) st1 in
                  let '(o, v', st2) := hr in
                  Ok (EvVal v' o, st2)
            | None => Ok (EvCollapse ORef, st1)
            end
        | _, _ => Ok (EvVal v ORef, st)
        end
    end.

  Lemma ev_primary_eq : forall num str regex bool_ nil_ call sub jsonpath regexp helper st,
      ev_primary (Primary num str regex bool_ nil_ call sub jsonpath regexp helper) st =
      match bool_ with
      | Some b => Ok (EvVal (vbool b) ORef, st)
      | None =>
      match num with
      | Some f => Ok (EvVal (VJ (JFlt f)) ORef, st)
      | None =>
      match str with
      | Some s => Ok (EvVal (VJ (JStr (trim_quotes s))) ORef, st)
      | None =>
      match jsonpath with
      | Some jp => path_branch jp helper call st
      | None =>
      match regexp with
      | Some src => Ok (EvVal (VRe src) ORef, st)
      | None =>
      match sub with
      | ExSome e => ev_expr e st
      | ExNone =>
      match call with
      | ClSome c => ev_call c st
      | ClNone => Ok (EvVal (if nil_ then VJ JNull else vfalse) ORef, st)
      end end end end end end end.
  Proof. reflexivity. Qed.

  Lemma ev_call_eq : forall ident ps sel st, ev_call (CallExpr ident ps sel) st = ev_sel sel st.
  Proof. reflexivity. Qed.

  Lemma ev_sel_none : forall st, ev_sel SlNone st = Ok (EvVal vfalse ONil, st).
  Proof. reflexivity. Qed.
  Lemma ev_sel_expr : forall i k rd e st, ev_sel (SlSome i k rd (ExSome e)) st = ev_expr e st.
  Proof. reflexivity. Qed.
  Lemma ev_sel_noexpr : forall i k rd st, ev_sel (SlSome i k rd ExNone) st = Ok (EvVal vfalse ONil, st).
  Proof. reflexivity. Qed.

  Lemma ev_paramsopt_absent : forall st, ev_paramsopt PsAbsent st = Ok ([], st).
  Proof. reflexivity. Qed.
  Lemma ev_paramsopt_list : forall l st, ev_paramsopt (PsList l) st = ev_params l st.
  Proof. reflexivity. Qed.
  Lemma ev_params_nil : forall st, ev_params PsNil st = Ok ([], st).
  Proof. reflexivity. Qed.
  Lemma ev_params_cons : forall p r st,
      ev_params (PsCons p r) st =
      (let* x := ev_param p st in
       let '(v, st1) := x in
       let* y := ev_params r st1 in
       let '(vs, st2) := y in
       Ok (v :: vs, st2)).
  Proof. reflexivity. Qed.

  Lemma ev_param_eq : forall tag e jsonpath timeset time_ns st,
      ev_param (Param tag e jsonpath timeset time_ns) st =
      match jsonpath with
      | Some (jp, s) => Ok (VPath jp s, st)
      | None =>
          if timeset then Ok (VTime time_ns, st)
          else match e with
               | ExSome e' =>
                   let* r := ev_expr e' st in
                   match r with
                   | (EvVal v _, st1) => Ok (v, st1)
                   | (EvCollapse _, st1) => Ok (vfalse, st1)
                   end
               | ExNone => Panic 701
               end
      end.
  Proof. reflexivity. Qed.

End Eq.
