(* Correspondence of the Precompute model with the real kfl.Parse / kfl.Precompute (used only by the
   generated case files).  Round 1: which strings does the model hand to jp.ParseString?  (they do not
   depend on the answers: the model is run with an oracle that writes its argument into its result and
   the tree is searched for them).  Round 2: with Go's answers for these strings, the model's err
   result, the evaluation of the model's tree and its Limit are compared with the implementation. *)
Require Import V.Base.Prelude V.Kfl.Num V.Kfl.Json V.Kfl.KflAst V.Kfl.Names V.Kfl.JPath V.Kfl.KflOps V.Kfl.KflEval
  V.Kfl.KflTie V.Kfl.KflWf V.Kfl.KflPre.
Local Open Scope Z_scope.

(* every compiled path stored in a tree, and every selector of its select expressions *)
Definition sel_strings (index : option Z) (key : option bytes) : list bytes :=
  match index with
  | Some i => [index_selector i]
  | None => match key with Some k => [key_selector k] | None => [] end
  end.
Definition path_key (p : jpath) : list bytes := match p with FChild s :: _ => [s] | _ => [] end.

Fixpoint hv_expr (e : expr) : list bytes :=
  match e with Expr l => hv_logopt l end
with hv_logopt (l : logopt) : list bytes :=
  match l with LgNone => [] | LgSome x => hv_logical x end
with hv_logical (l : logical) : list bytes :=
  match l with Logical e _ next => hv_equality e ++ hv_logopt next end
with hv_equality (q : equality) : list bytes :=
  match q with Equality c _ next => hv_comparison c ++ hv_eqopt next end
with hv_eqopt (o : eqopt) : list bytes :=
  match o with EqNone => [] | EqSome q => hv_equality q end
with hv_comparison (c : comparison) : list bytes :=
  match c with Comparison u _ next => hv_unary u ++ hv_cmpopt next end
with hv_cmpopt (o : cmpopt) : list bytes :=
  match o with CmNone => [] | CmSome c => hv_comparison c end
with hv_unary (u : unary) : list bytes :=
  match u with UnOp _ u' => hv_unary u' | UnPrim p => hv_primary p end
with hv_primary (p : primary) : list bytes :=
  match p with
  | Primary _ _ _ _ _ call sub jsonpath _ _ =>
      match jsonpath with Some jp => path_key jp | None => [] end ++ hv_callopt call ++ hv_expropt sub
  end
with hv_expropt (o : expropt) : list bytes :=
  match o with ExNone => [] | ExSome e => hv_expr e end
with hv_callopt (o : callopt) : list bytes :=
  match o with ClNone => [] | ClSome c => hv_callexpr c end
with hv_callexpr (c : callexpr) : list bytes :=
  match c with CallExpr _ ps sel => hv_paramsopt ps ++ hv_selopt sel end
with hv_paramsopt (o : paramsopt) : list bytes :=
  match o with PsAbsent => [] | PsList l => hv_params l end
with hv_params (ps : params) : list bytes :=
  match ps with PsNil => [] | PsCons p r => hv_param p ++ hv_params r end
with hv_param (p : param) : list bytes :=
  match p with
  | Param _ e jsonpath _ _ => match jsonpath with Some (jp, _) => path_key jp | None => [] end ++ hv_expropt e
  end
with hv_selopt (s : selopt) : list bytes :=
  match s with SlNone => [] | SlSome index key _ e => sel_strings index key ++ hv_expropt e end.

Definition echo_path (s : bytes) : option (jpath * bytes) := Some ([FChild s; FChild s], s).

Definition no_lib_float (_ : bytes) : option fv := None.

(* round 1 *)
Definition needed_paths (e : expr) : list (list N) :=
  match precompute_model no_lib_float (fun _ _ => false) (fun _ => None) (fun _ => None) (fun _ => None) (fun _ _ => XFail)
                         (fun st _ => st) echo_path (fun _ => true) 0 (fun _ => 0%N) e with
  | Ok (e', _, _) => map (map b2n) (hv_expr e ++ hv_expr e')
  | _ => map (map b2n) (hv_expr e)
  end.

(* round 2 *)
Inductive ptables := PTables (paths : list (bytes * option (jpath * bytes))) (regexes : list (bytes * bool)).
Definition pt_path (t : ptables) (s : bytes) : option (jpath * bytes) :=
  match t with PTables p _ => match lookup1 p s with Some a => a | None => None end end.
Definition pt_regex (t : ptables) (s : bytes) : bool :=
  match t with PTables _ r => match lookup1 r s with Some a => a | None => false end end.

Definition run_precompute (t : tables) (pt : ptables) (now : Z) (e : expr) : pres expr :=
  precompute_model (t_float t) (t_re t) (t_time t) (t_b64 t) (t_json t) (t_xml t) (fun st _ => st)
                   (pt_path pt) (pt_regex pt) now (fun _ => 0%N) e.

(* obs: None = Precompute returned an error; Some (truth, limit) = Eval's truth on the record *)
Definition pre_code (c : tables * ptables * Z * expr * jv * option (bool * N)) : nat :=
  let '(t, pt, now, e, r, obs) := c in
  (if shape_expr e && surf_expr e then 0 else 16) +
  match run_precompute t pt now e, obs with
  | Ok (_, _, true), None => 0
  | Ok (e', p, false), Some (b, lim) =>
      (if order_dependent t e' r then 0 else if agrees t e' r (Some b) then 0 else 2) +
      (if N.eqb (p_limit p) lim || negb (limit_defined t e') then 0 else 4)
  | Ok (_, _, _), _ => 1
  | _, _ => 8
  end.
