(* C12_limit: the limit that Precompute propagates (nested backpropagate calls) is the first limit(n)
   of the query, in source order, whose n is not zero. *)
Require Import V.Base.Prelude V.Kfl.Num V.Kfl.Json V.Kfl.KflAst V.Kfl.Names V.Kfl.KflLimit.
Local Open Scope N_scope.

Lemma first_nonzero_app : forall l1 l2, first_nonzero (l1 ++ l2) = backprop (first_nonzero l1) (first_nonzero l2).
Proof.
  induction l1 as [|x r IH]; intro l2; cbn [app first_nonzero].
  - reflexivity.
  - unfold backprop in *. destruct (x =? 0) eqn:Hx.
    + apply IH.
    + rewrite Hx. reflexivity.
Qed.

Section LimitProofs.
  Variable argval : params -> N.

  Notation lo_expr := (limit_of_expr argval).
  Notation la_expr := (limit_args_expr argval).

  Definition L_expr (e : expr) := limit_of_expr argval e = first_nonzero (limit_args_expr argval e).
  Definition L_logopt (l : logopt) := limit_of_logopt argval l = first_nonzero (limit_args_logopt argval l).
  Definition L_logical (l : logical) := limit_of_logical argval l = first_nonzero (limit_args_logical argval l).
  Definition L_equality (q : equality) := limit_of_equality argval q = first_nonzero (limit_args_equality argval q).
  Definition L_eqopt (o : eqopt) := match o with EqNone => True | EqSome q => L_equality q end.
  Definition L_comparison (c : comparison) := limit_of_comparison argval c = first_nonzero (limit_args_comparison argval c).
  Definition L_cmpopt (o : cmpopt) := match o with CmNone => True | CmSome c => L_comparison c end.
  Definition L_unary (u : unary) := limit_of_unary argval u = first_nonzero (limit_args_unary argval u).
  Definition L_primary (p : primary) := limit_of_primary argval p = first_nonzero (limit_args_primary argval p).
  Definition L_expropt (o : expropt) := match o with ExNone => True | ExSome e => L_expr e end.
  Definition L_selopt (s : selopt) := match s with SlSome _ _ _ (ExSome e) => L_expr e | _ => True end.
  Definition L_callexpr (c : callexpr) := match c with CallExpr _ _ sel => L_selopt sel end.
  Definition L_callopt (o : callopt) := match o with ClNone => True | ClSome c => L_callexpr c end.


  (* unfolding equations (conversions) *)
  Lemma lo_expr_eq : forall l, limit_of_expr argval (Expr l) = limit_of_logopt argval l.
  Proof. reflexivity. Qed.
  Lemma la_expr_eq : forall l, limit_args_expr argval (Expr l) = limit_args_logopt argval l.
  Proof. reflexivity. Qed.
  Lemma lo_logopt_some : forall x, limit_of_logopt argval (LgSome x) = limit_of_logical argval x.
  Proof. reflexivity. Qed.
  Lemma la_logopt_some : forall x, limit_args_logopt argval (LgSome x) = limit_args_logical argval x.
  Proof. reflexivity. Qed.
  Lemma lo_logical_eq : forall e op next,
      limit_of_logical argval (Logical e op next) =
      match next with
      | LgNone => limit_of_equality argval e
      | _ => backprop (limit_of_equality argval e) (limit_of_logopt argval next)
      end.
  Proof. intros e op [|n]; reflexivity. Qed.
  Lemma la_logical_eq : forall e op next,
      limit_args_logical argval (Logical e op next) = limit_args_equality argval e ++ limit_args_logopt argval next.
  Proof. reflexivity. Qed.
  Lemma lo_equality_eq : forall c op next,
      limit_of_equality argval (Equality c op next) =
      match next with
      | EqNone => limit_of_comparison argval c
      | EqSome n => backprop (limit_of_comparison argval c) (limit_of_equality argval n)
      end.
  Proof. intros c op [|n]; reflexivity. Qed.
  Lemma la_equality_eq : forall c op next,
      limit_args_equality argval (Equality c op next) =
      match next with
      | EqNone => limit_args_comparison argval c
      | EqSome n => limit_args_comparison argval c ++ limit_args_equality argval n
      end.
  Proof. intros c op [|n]; reflexivity. Qed.
  Lemma lo_comparison_eq : forall u op next,
      limit_of_comparison argval (Comparison u op next) =
      match next with
      | CmNone => limit_of_unary argval u
      | CmSome n => backprop (limit_of_unary argval u) (limit_of_comparison argval n)
      end.
  Proof. intros u op [|n]; reflexivity. Qed.
  Lemma la_comparison_eq : forall u op next,
      limit_args_comparison argval (Comparison u op next) =
      match next with
      | CmNone => limit_args_unary argval u
      | CmSome n => limit_args_unary argval u ++ limit_args_comparison argval n
      end.
  Proof. intros u op [|n]; reflexivity. Qed.
  Lemma lo_unary_op : forall op u, limit_of_unary argval (UnOp op u) = limit_of_unary argval u.
  Proof. reflexivity. Qed.
  Lemma la_unary_op : forall op u, limit_args_unary argval (UnOp op u) = limit_args_unary argval u.
  Proof. reflexivity. Qed.
  Lemma lo_unary_prim : forall p, limit_of_unary argval (UnPrim p) = backprop 0 (limit_of_primary argval p).
  Proof. reflexivity. Qed.
  Lemma la_unary_prim : forall p, limit_args_unary argval (UnPrim p) = limit_args_primary argval p.
  Proof. reflexivity. Qed.
  Lemma lo_primary_eq : forall num str regex bool_ nil_ call sub jsonpath regexp helper,
      limit_of_primary argval (Primary num str regex bool_ nil_ call sub jsonpath regexp helper) =
      match sub with
      | ExSome e => limit_of_expr argval e
      | ExNone =>
          match call with
          | ClNone => 0
          | ClSome (CallExpr _ ps sel) =>
              match jsonpath with
              | None => match sel with SlSome _ _ _ (ExSome e) => limit_of_expr argval e | _ => 0 end
              | Some _ => if is_limit helper then match ps with PsList l => argval l | PsAbsent => 0 end else 0
              end
          end
      end.
  Proof. reflexivity. Qed.
  Lemma la_primary_eq : forall num str regex bool_ nil_ call sub jsonpath regexp helper,
      limit_args_primary argval (Primary num str regex bool_ nil_ call sub jsonpath regexp helper) =
      match sub with
      | ExSome e => limit_args_expr argval e
      | ExNone =>
          match call with
          | ClNone => []
          | ClSome (CallExpr _ ps sel) =>
              match jsonpath with
              | None => match sel with SlSome _ _ _ (ExSome e) => limit_args_expr argval e | _ => [] end
              | Some _ => if is_limit helper then match ps with PsList l => [argval l] | PsAbsent => [] end else []
              end
          end
      end.
  Proof. reflexivity. Qed.

  Lemma backprop_0_l : forall y, backprop 0 y = y.
  Proof. reflexivity. Qed.
  Lemma backprop_0_r : forall x, backprop x 0 = x.
  Proof. intro x. unfold backprop. destruct (x =? 0) eqn:H; [apply N.eqb_eq in H; auto|reflexivity]. Qed.

  Lemma limit_all :
    (forall e, L_expr e) /\ (forall l, L_logopt l) /\ (forall l, L_logical l) /\ (forall q, L_equality q) /\
    (forall o, L_eqopt o) /\ (forall c, L_comparison c) /\ (forall o, L_cmpopt o) /\ (forall u, L_unary u) /\
    (forall p, L_primary p) /\ (forall o, L_expropt o) /\ (forall o, L_callopt o) /\ (forall c, L_callexpr c) /\
    (forall (o : paramsopt), True) /\ (forall (ps : params), True) /\ (forall (p : param), True) /\ (forall s, L_selopt s).
  Proof.
    apply ast_mutind; try (intros; exact I).
    - (* Expr *) intros l IH. unfold L_expr. rewrite lo_expr_eq, la_expr_eq. exact IH.
    - (* LgNone *) reflexivity.
    - (* LgSome *) intros l IH. unfold L_logopt. rewrite lo_logopt_some, la_logopt_some. exact IH.
    - (* Logical *)
      intros e IHe op next IHn. unfold L_logical. rewrite lo_logical_eq, la_logical_eq.
      rewrite first_nonzero_app. unfold L_equality in IHe. unfold L_logopt in IHn.
      destruct next as [|n].
      + change (limit_args_logopt argval LgNone) with (@nil N). cbn [first_nonzero]. rewrite backprop_0_r. exact IHe.
      + rewrite IHe, IHn. reflexivity.
    - (* Equality *)
      intros c IHc op next IHn. unfold L_equality. rewrite lo_equality_eq, la_equality_eq.
      unfold L_comparison in IHc. destruct next as [|n].
      + exact IHc.
      + cbn [L_eqopt] in IHn. unfold L_equality in IHn. rewrite first_nonzero_app, IHc, IHn. reflexivity.
    - (* EqSome *) intros q IH. exact IH.
    - (* Comparison *)
      intros u IHu op next IHn. unfold L_comparison. rewrite lo_comparison_eq, la_comparison_eq.
      unfold L_unary in IHu. destruct next as [|n].
      + exact IHu.
      + cbn [L_cmpopt] in IHn. unfold L_comparison in IHn. rewrite first_nonzero_app, IHu, IHn. reflexivity.
    - (* CmSome *) intros c IH. exact IH.
    - (* UnOp *) intros op u IH. unfold L_unary. rewrite lo_unary_op, la_unary_op. exact IH.
    - (* UnPrim *) intros p IH. unfold L_unary. rewrite lo_unary_prim, la_unary_prim, backprop_0_l. exact IH.
    - (* Primary *)
      intros num str regex bool_ nil_ call IHcall sub IHsub jsonpath regexp helper.
      unfold L_primary. rewrite lo_primary_eq, la_primary_eq.
      destruct sub as [|e]; [|exact IHsub].
      destruct call as [|[ident ps sel]]; [reflexivity|].
      destruct jsonpath as [jp|].
      + destruct (is_limit helper); [|reflexivity].
        destruct ps as [|l]; [reflexivity|]. cbn [first_nonzero].
        destruct (argval l =? 0) eqn:H; [apply N.eqb_eq in H; auto | reflexivity].
      + cbn [L_callopt L_callexpr] in IHcall.
        destruct sel as [|i k rd [|e]]; try reflexivity. exact IHcall.
    - (* ExSome *) intros e IH. exact IH.
    - (* ClSome *) intros c IH. exact IH.
    - (* CallExpr *) intros ident ps _ sel IH. exact IH.
    - (* SlSome *) intros i k rd e IH. cbn [L_selopt]. destruct e; [exact I|exact IH].
  Qed.

  Theorem limit_is_first : forall e, limit_of_expr argval e = first_limit argval e.
  Proof. intro e. apply (proj1 limit_all). Qed.

End LimitProofs.
