(* Agreement of the model's operand coercions, operator tables, unary operators and helpers
   (KflOps / KflEval, written from eval.go) with those of the specification (KflSem, written from
   the property), wherever the specification defines a value. *)
Require Import V.Base.Prelude V.Kfl.Num V.Kfl.Json V.Kfl.KflAst V.Kfl.Names V.Kfl.JPath V.Kfl.KflOps V.Kfl.KflEval V.Kfl.KflSem.
Local Open Scope Z_scope.

(* ---------------------------------------------------------------- bytes *)
Lemma byte_eqb_eq : forall a b, byte_eqb a b = true -> a = b.
Proof.
  intros a b H. unfold byte_eqb, b2n in H. apply N.eqb_eq in H.
  pose proof (Byte.of_to_N a) as Ha. pose proof (Byte.of_to_N b) as Hb.
  rewrite H in Ha. rewrite Ha in Hb. inversion Hb. reflexivity.
Qed.

Lemma bytes_eqb_eq : forall a b, bytes_eqb a b = true -> a = b.
Proof.
  unfold bytes_eqb. induction a as [|x a IH]; intros [|y b] H; cbn [list_eqb] in H; try discriminate.
  - reflexivity.
  - apply andb_prop in H. destruct H as [H1 H2]. apply byte_eqb_eq in H1. apply IH in H2. subst. reflexivity.
Qed.

(* ---------------------------------------------------------------- option plumbing *)
Lemma obind_some : forall {A B} (o : option A) (f : A -> option B) b,
    obind o f = Some b -> exists a, o = Some a /\ f a = Some b.
Proof. intros A B [a|] f b H; cbn [obind] in H; [eauto|discriminate]. Qed.

Lemma dbind_some : forall o f d,
    dbind o f = Some d -> (o = Some DMissing /\ d = DMissing) \/ (exists v, o = Some (DVal v) /\ f v = Some d).
Proof.
  intros [[|v]|] f d H; cbn [dbind] in H; try discriminate.
  - left. inversion H. auto.
  - right. eauto.
Qed.

(* ---------------------------------------------------------------- strings *)
Lemma has_prefix_spec : forall p s, has_prefix s p = prefix_of p s.
Proof.
  induction p as [|b p IH]; intros [|c s]; cbn [has_prefix prefix_of]; try reflexivity.
  rewrite IH. reflexivity.
Qed.
Lemma has_suffix_spec : forall p s, has_suffix s p = suffix_of p s.
Proof. intros. unfold has_suffix, suffix_of. apply has_prefix_spec. Qed.
Lemma contains_spec : forall s p, contains_sub s p = infix_of p s.
Proof.
  induction s as [|c s IH]; intro p; cbn [contains_sub infix_of]; rewrite has_prefix_spec; [reflexivity|].
  rewrite IH. reflexivity.
Qed.

Lemma trim_left_spec : forall s, trim_left_q s = drop_quotes s.
Proof. induction s as [|b s IH]; cbn [trim_left_q drop_quotes]; [reflexivity|]. rewrite IH. reflexivity. Qed.
Lemma trim_quotes_spec : forall s, trim_quotes s = literal_content s.
Proof. intro s. unfold trim_quotes, literal_content. rewrite !trim_left_spec. reflexivity. Qed.

Section SemOps.
  Variable parse_float : bytes -> option fv.
  Variable re_match : bytes -> bytes -> bool.
  Variable parse_time : bytes -> option Z.
  Variable b64dec : bytes -> option bytes.
  Variable parse_json : bytes -> option jv.
  Variable xml_first : bytes -> bytes -> xres.
  Variable redact_apply : jv -> bytes -> jv.

  Notation float_operand := (KflOps.float_operand parse_float).
  Notation num_of := (KflSem.num_of parse_float).
  Notation scalar_equal := (KflOps.scalar_equal parse_float).
  Notation scalar_eq := (KflSem.scalar_eq parse_float).
  Notation eql := (KflOps.eql parse_float re_match).
  Notation neq := (KflOps.neq parse_float re_match).
  Notation sem_eq := (KflSem.sem_eq parse_float re_match).
  Notation sem_rel := (KflSem.sem_rel parse_float).
  Notation lookup := (lookup_helper parse_time b64dec parse_json xml_first redact_apply).
  Notation sem_helper := (KflSem.sem_helper parse_time b64dec parse_json xml_first).

  (* ---------------------------------------------------------------- coercions *)
  Lemma truth_spec : forall v b, truth_of v = Some b -> bool_operand v = b.
  Proof.
    intros v b H. destruct v as [[| | | | s |l|]| | |]; cbn [truth_of] in H; try discriminate; inversion H; subst; cbn [bool_operand]; try reflexivity.
    - destruct s; reflexivity.
    - destruct l; reflexivity.
  Qed.

  Lemma str_spec : forall v s, str_of v = Some s -> string_operand v = s.
  Proof.
    intros v s H. destruct v as [[|[|]| | | | |]| | |]; cbn [str_of] in H; try discriminate; inversion H; reflexivity.
  Qed.

  Lemma num_spec : forall v f, num_of v = Some f -> float_operand v = f.
  Proof.
    intros v f H. destruct v as [[|[|]| | | | |]| | |]; cbn [KflSem.num_of] in H; try discriminate; inversion H; reflexivity.
  Qed.

  Lemma numeric_spec : forall v, numeric v = is_number v.
  Proof. intros [[| | | | | |]| | |]; reflexivity. Qed.

  Lemma scalar_eq_spec : forall a b t, scalar_eq a b = Some t -> scalar_equal a b = t.
  Proof.
    intros a b t H. unfold KflSem.scalar_eq in H. unfold KflOps.scalar_equal.
    rewrite <- (numeric_spec a), <- (numeric_spec b).
    destruct (numeric a && numeric b).
    - apply obind_some in H. destruct H as [x [Hx H]]. apply obind_some in H. destruct H as [y [Hy H]].
      inversion H; subst. rewrite (num_spec _ _ Hx), (num_spec _ _ Hy). reflexivity.
    - destruct (is_scalar a && is_scalar b); [|discriminate].
      apply obind_some in H. destruct H as [x [Hx H]]. apply obind_some in H. destruct H as [y [Hy H]].
      inversion H; subst. rewrite (str_spec _ _ Hx), (str_spec _ _ Hy). reflexivity.
  Qed.

  Lemma any_opt_spec : forall (p : val -> option bool) (q : val -> bool) l t,
      (forall x b, p (VJ x) = Some b -> q (VJ x) = b) ->
      any_opt p l = Some t -> existsb (fun i => q (VJ i)) l = t.
  Proof.
    intros p q l t Hpq. induction l as [|x r IH]; cbn [any_opt existsb]; intro H.
    - inversion H. reflexivity.
    - apply obind_some in H. destruct H as [b [Hb H]]. rewrite (Hpq _ _ Hb).
      destruct b; [inversion H; reflexivity|]. cbn [orb]. apply IH. exact H.
  Qed.

  Lemma all_opt_spec : forall (p : val -> option bool) (q : val -> bool) l t,
      (forall x b, p (VJ x) = Some b -> q (VJ x) = b) ->
      all_opt p l = Some t -> forallb (fun i => q (VJ i)) l = t.
  Proof.
    intros p q l t Hpq. induction l as [|x r IH]; cbn [all_opt forallb]; intro H.
    - inversion H. reflexivity.
    - apply obind_some in H. destruct H as [b [Hb H]]. rewrite (Hpq _ _ Hb).
      destruct b; [|inversion H; reflexivity]. cbn [andb]. apply IH. exact H.
  Qed.

  (* ---------------------------------------------------------------- == *)
  Lemma any_eq_l : forall la b t, any_opt (fun x => scalar_eq x b) la = Some t ->
      existsb (fun i => scalar_equal (VJ i) b) la = t.
  Proof.
    intros la b t H.
    apply (any_opt_spec (fun x => scalar_eq x b) (fun x => scalar_equal x b)); [|exact H].
    intros x b0 Hx. apply scalar_eq_spec. exact Hx.
  Qed.
  Lemma any_eq_r : forall a lb t, any_opt (fun y => scalar_eq a y) lb = Some t ->
      existsb (fun i => scalar_equal a (VJ i)) lb = t.
  Proof.
    intros a lb t H.
    apply (any_opt_spec (fun y => scalar_eq a y) (fun y => scalar_equal a y)); [|exact H].
    intros x b0 Hx. apply scalar_eq_spec. exact Hx.
  Qed.

  Lemma sem_eq_spec : forall a b t, sem_eq a b = Some t -> eql a b = t.
  Proof.
    intros a b t H.
    destruct a as [ja|ra|pa sa|ta].
    - (* a JSON value *)
      destruct b as [jb|rb|pb sb|tb].
      + destruct ja as [| | | | |la|oa]; destruct jb as [| | | | |lb|ob]; cbn [KflSem.sem_eq is_scalar] in H; cbn [KflOps.eql];
          first [ apply scalar_eq_spec; exact H | apply any_eq_l; exact H | apply any_eq_r; exact H
                | discriminate | (inversion H; reflexivity) ].
      + (* value vs regex *)
        cbn [KflOps.eql].
        destruct ja as [| | | | |la|oa]; cbn [KflSem.sem_eq is_scalar] in H; try discriminate;
          apply obind_some in H; destruct H as [s0 [Hs H]]; inversion H; subst; rewrite (str_spec _ _ Hs); reflexivity.
      + destruct ja as [| | | | |la|oa]; cbn [KflSem.sem_eq KflSem.scalar_eq numeric is_scalar andb] in H; discriminate.
      + destruct ja as [| | | | |la|oa]; cbn [KflSem.sem_eq KflSem.scalar_eq numeric is_scalar andb] in H; discriminate.
    - (* a regex *)
      destruct b as [jb|rb|pb sb|tb]; cbn [KflSem.sem_eq] in H; try discriminate;
        try (cbn [is_scalar] in H; discriminate).
      cbn [KflOps.eql]. destruct (is_scalar (VJ jb)); [|discriminate].
      apply obind_some in H. destruct H as [s0 [Hs H]]. inversion H; subst. rewrite (str_spec _ _ Hs). reflexivity.
    - destruct b as [jb|rb|pb sb|tb]; cbn [KflSem.sem_eq KflSem.scalar_eq numeric is_scalar andb] in H; try discriminate.
      destruct jb; cbn [KflSem.sem_eq KflSem.scalar_eq numeric is_scalar andb] in H; discriminate.
    - destruct b as [jb|rb|pb sb|tb]; cbn [KflSem.sem_eq KflSem.scalar_eq numeric is_scalar andb] in H; try discriminate.
      destruct jb; cbn [KflSem.sem_eq KflSem.scalar_eq numeric is_scalar andb] in H; discriminate.
  Qed.

  Lemma neq_is_negb_eql : forall a b, neq a b = negb (eql a b).
  Proof.
    intros a b. destruct a as [[| | | | |la|oa]|ra|pa sa|ta]; destruct b as [[| | | | |lb|ob]|rb|pb sb|tb]; reflexivity.
  Qed.

  (* ---------------------------------------------------------------- ordering *)
  Definition rel_fun (r : rel) : val -> val -> bool :=
    match r with RGt => gtr parse_float | RGe => geq parse_float | RLt => lss parse_float | RLe => leq parse_float end.

  Lemma scalar_rel_spec : forall r a b t, scalar_rel parse_float r a b = Some t ->
      rel_holds r (float_operand a) (float_operand b) = t.
  Proof.
    intros r a b t H. unfold scalar_rel in H. destruct (is_scalar a && is_scalar b); [|discriminate].
    apply obind_some in H. destruct H as [x [Hx H]]. apply obind_some in H. destruct H as [y [Hy H]].
    inversion H; subst. rewrite (num_spec _ _ Hx), (num_spec _ _ Hy). reflexivity.
  Qed.

  Lemma scalar_not_refuted_spec : forall r a b t, scalar_not_refuted parse_float r a b = Some t ->
      negb (rel_refuted r (float_operand a) (float_operand b)) = t.
  Proof.
    intros r a b t H. unfold scalar_not_refuted in H. destruct (is_scalar a && is_scalar b); [|discriminate].
    apply obind_some in H. destruct H as [x [Hx H]]. apply obind_some in H. destruct H as [y [Hy H]].
    inversion H; subst. rewrite (num_spec _ _ Hx), (num_spec _ _ Hy). reflexivity.
  Qed.

  Lemma rel_fun_shape : forall r, rel_fun r = cmp_shape parse_float (rel_holds r) (rel_refuted r).
  Proof. intros [| | |]; reflexivity. Qed.

  Lemma any_rel_l : forall r la b t, any_opt (fun x => scalar_rel parse_float r x b) la = Some t ->
      existsb (fun i => rel_holds r (float_operand (VJ i)) (float_operand b)) la = t.
  Proof.
    intros r la b t H.
    apply (any_opt_spec (fun x => scalar_rel parse_float r x b) (fun x => rel_holds r (float_operand x) (float_operand b))); [|exact H].
    intros x b0 Hx. apply scalar_rel_spec. exact Hx.
  Qed.
  Lemma any_rel_r : forall r a lb t, any_opt (fun y => scalar_rel parse_float r a y) lb = Some t ->
      existsb (fun i => rel_holds r (float_operand a) (float_operand (VJ i))) lb = t.
  Proof.
    intros r a lb t H.
    apply (any_opt_spec (fun y => scalar_rel parse_float r a y) (fun y => rel_holds r (float_operand a) (float_operand y))); [|exact H].
    intros x b0 Hx. apply scalar_rel_spec. exact Hx.
  Qed.
  Lemma all_rel : forall r la lb t,
      all_opt (fun x => all_opt (fun y => scalar_not_refuted parse_float r x y) lb) la = Some t ->
      forallb (fun i => forallb (fun j => negb (rel_refuted r (float_operand (VJ i)) (float_operand (VJ j)))) lb) la = t.
  Proof.
    intros r la lb t H.
    apply (all_opt_spec (fun x => all_opt (fun y => scalar_not_refuted parse_float r x y) lb)
                        (fun x => forallb (fun j => negb (rel_refuted r (float_operand x) (float_operand (VJ j)))) lb)); [|exact H].
    intros x b0 Hx.
    apply (all_opt_spec (fun y => scalar_not_refuted parse_float r (VJ x) y)
                        (fun y => negb (rel_refuted r (float_operand (VJ x)) (float_operand y)))); [|exact Hx].
    intros y b1 Hy. apply scalar_not_refuted_spec. exact Hy.
  Qed.

  Lemma sem_rel_spec : forall r a b t, sem_rel r a b = Some t -> rel_fun r a b = t.
  Proof.
    intros r a b t H. rewrite rel_fun_shape. unfold cmp_shape.
    destruct a as [ja|ra|pa sa|ta].
    - destruct b as [jb|rb|pb sb|tb].
      + destruct ja as [| | | | |la|oa]; destruct jb as [| | | | |lb|ob]; cbn [KflSem.sem_rel is_scalar] in H;
          first [ apply scalar_rel_spec; exact H | apply any_rel_l; exact H | apply any_rel_r; exact H
                | apply all_rel; exact H | discriminate ].
      + destruct ja as [| | | | |la|oa]; cbn [KflSem.sem_rel scalar_rel is_scalar andb] in H; discriminate.
      + destruct ja as [| | | | |la|oa]; cbn [KflSem.sem_rel scalar_rel is_scalar andb] in H; discriminate.
      + destruct ja as [| | | | |la|oa]; cbn [KflSem.sem_rel scalar_rel is_scalar andb] in H; discriminate.
    - destruct b as [[| | | | |lb|ob]|rb|pb sb|tb]; cbn [KflSem.sem_rel scalar_rel is_scalar andb] in H; discriminate.
    - destruct b as [[| | | | |lb|ob]|rb|pb sb|tb]; cbn [KflSem.sem_rel scalar_rel is_scalar andb] in H; discriminate.
    - destruct b as [[| | | | |lb|ob]|rb|pb sb|tb]; cbn [KflSem.sem_rel scalar_rel is_scalar andb] in H; discriminate.
  Qed.

  Lemma comparison_op_spec : forall op r, rel_of op = Some r -> comparison_op parse_float op = Some (rel_fun r).
  Proof. intros [| | | | |] r H; cbn [rel_of] in H; try discriminate; inversion H; reflexivity. Qed.

  (* ---------------------------------------------------------------- unary *)
  Lemma sem_unary_spec : forall op v w, sem_unary op v = Some w -> apply_unary op v = w.
  Proof.
    intros op v w H. destruct op; cbn [sem_unary] in H.
    - destruct v as [j| | |]; try discriminate.
      apply obind_some in H. destruct H as [b [Hb H]]. inversion H; subst.
      cbn [apply_unary]. rewrite (truth_spec _ _ Hb). reflexivity.
    - destruct v as [[| | | | | |]| | |]; try discriminate; inversion H; reflexivity.
    - discriminate.
  Qed.

End SemOps.
