(* String constants of eval.go / precompute.go as byte lists.  This is the only file of the
   family that imports Coq.Strings.String (kept out of the files that use List.length / ++). *)
From Coq.Strings Require Import Byte String.
Local Open Scope string_scope.

Definition lit (s : string) : list Byte.byte := list_byte_of_string s.

(* keys of the `helpers` map (eval.go) *)
Definition n_startsWith := lit "startsWith".
Definition n_endsWith := lit "endsWith".
Definition n_contains := lit "contains".
Definition n_datetime := lit "datetime".
Definition n_limit := lit "limit".
Definition n_json := lit "json".
Definition n_xml := lit "xml".
Definition n_redact := lit "redact".
Definition n_now := lit "now".
Definition n_seconds := lit "seconds".
Definition n_minutes := lit "minutes".
Definition n_hours := lit "hours".
Definition n_days := lit "days".
Definition n_weeks := lit "weeks".
Definition n_months := lit "months".
Definition n_years := lit "years".

(* results of stringOperand *)
Definition s_true := lit "true".
Definition s_false := lit "false".
Definition s_null := lit "null".
Definition s_text := lit "#text".
