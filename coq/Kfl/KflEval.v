(* eval.go: the helpers, evalParameters ... evalExpression and Eval, written function by function
   from the Go text (after the repairs).  Conventions:
   - the record `obj` is one mutable tree shared by every call; only `redact` writes to it.  The
     model threads its current content `st` through every function; a returned `newObj` is either
     that same tree (ORef) or the nil interface (ONil).
   - `collapse` is the second outcome EvCollapse (the value returned together with collapse=true is
     never looked at by any caller).
   - the `err` results are never set by any of these functions (only Eval's JSON parse can fail), so
     they do not appear.
   - every index expression args[i] and every unchecked type assertion is an explicit Panic with
     the line number of eval.go (of the repaired tree).
   Libraries (strconv.ParseFloat, regexp, time.Parse, base64, oj.ParseString, mxj, and the redact
   machinery owned by another family) are section variables. *)
Require Import V.Base.Prelude V.Kfl.Num V.Kfl.Json V.Kfl.KflAst V.Kfl.Names V.Kfl.JPath V.Kfl.KflOps.
Local Open Scope Z_scope.

Inductive objref := ORef | ONil.

(* result of the eval* functions: (v, newObj) or collapse (with the newObj returned alongside) *)
Inductive ev :=
| EvVal (v : val) (o : objref)
| EvCollapse (o : objref).

(* ------------------------------------------------------------------ small string functions *)
Definition quote : byte := b_of_N 34.
Fixpoint trim_left_q (s : bytes) : bytes :=
  match s with b :: r => if byte_eqb b quote then trim_left_q r else s | [] => [] end.
(* strings.Trim with the double quote as cutset *)
Definition trim_quotes (s : bytes) : bytes := rev (trim_left_q (rev (trim_left_q s))).

Fixpoint has_prefix (s p : bytes) : bool :=
  match p, s with
  | [], _ => true
  | b :: p', c :: s' => byte_eqb b c && has_prefix s' p'
  | _ :: _, [] => false
  end.
Definition has_suffix (s p : bytes) : bool := has_prefix (rev s) (rev p).
Fixpoint contains_sub (s p : bytes) : bool :=
  has_prefix s p || match s with [] => false | _ :: s' => contains_sub s' p end.

Section Eval.
  Variable parse_float : bytes -> option fv.
  Variable re_match : bytes -> bytes -> bool.
  Variable parse_time : bytes -> option Z.              (* time.Parse(layout, s).UnixNano() *)
  Variable b64dec : bytes -> option bytes.              (* base64.StdEncoding.DecodeString *)
  Variable parse_json : bytes -> option jv.             (* oj.ParseString *)
  Variable xml_first : bytes -> bytes -> xres.          (* mxj.NewMapXml + ValuesForPath(path)[0] *)
  Variable redact_apply : jv -> bytes -> jv.            (* redactRecursively(obj, Split(p, `.json()`)) *)

  Notation bool_operand := KflOps.bool_operand.
  Notation string_operand := KflOps.string_operand.
  Notation float_operand := (KflOps.float_operand parse_float).

  (* ---------------------------------------------------------------- helpers (eval.go:328..) *)
  (* a helper: args -> current record content -> (newObj, value, new record content) *)
  Definition hres := res (objref * val * jv).

  (* helperObj(args) *)
  Definition helper_obj (args : list val) : objref :=
    match args with [] => ONil | _ :: _ => ORef end.

  Definition arg (args : list val) (i : nat) (site : nat) : res val :=
    match nth_error args i with Some v => Ok v | None => Panic site end.

  Definition str_helper (f : bytes -> bytes -> bool) (args : list val) (st : jv) : hres :=
    if (length args <? 3)%nat then Ok (helper_obj args, vfalse, st)
    else
      let* a1 := arg args 1 395 in
      let* a2 := arg args 2 395 in
      Ok (ORef, vbool (f (string_operand a1) (string_operand a2)), st).

  Definition h_startsWith := str_helper has_prefix.
  Definition h_endsWith := str_helper has_suffix.
  Definition h_contains := str_helper contains_sub.

  Definition ms_of_ns (ns : Z) : Z := Z.quot ns 1000000.

  Definition h_datetime (args : list val) (st : jv) : hres :=
    if (length args <? 3)%nat then Ok (helper_obj args, vfalse, st)
    else
      let* a2 := arg args 2 417 in
      match parse_time (string_operand a2) with
      | None => Ok (ORef, vfalse, st)
      | Some ns => Ok (ORef, VJ (JInt (ms_of_ns ns)), st)
      end.

  Definition h_limit (args : list val) (st : jv) : hres :=
    Ok (helper_obj args, vtrue, st).

  (* base64 first, then the document itself *)
  Definition unb64 (s : bytes) : bytes :=
    match b64dec s with Some d => d | None => s end.

  Definition h_json (args : list val) (st : jv) : hres :=
    if (length args <? 3)%nat then Ok (helper_obj args, vfalse, st)
    else
      let* a2 := arg args 2 437 in
      match a2 with
      | VPath p _ =>
          let* a1 := arg args 1 441 in
          match parse_json (unb64 (string_operand a1)) with
          | None => Ok (ORef, vfalse, st)
          | Some doc =>
              match jget p doc with
              | [] => Ok (ORef, vfalse, st)
              | [x] => Ok (ORef, VJ x, st)
              | l => Ok (ORef, VJ (JArr l), st)
              end
          end
      | _ => Ok (ORef, vfalse, st)
      end.

  Definition h_xml (args : list val) (st : jv) : hres :=
    if (length args <? 3)%nat then Ok (helper_obj args, vfalse, st)
    else
      let* a2 := arg args 2 469 in
      match a2 with
      | VPath _ pstr =>
          let* a1 := arg args 1 473 in
          match xml_first (unb64 (string_operand a1)) pstr with
          | XStr s => Ok (ORef, VJ (JStr s), st)
          | XMap (Some s) => Ok (ORef, VJ (JStr s), st)
          | _ => Ok (ORef, vfalse, st)
          end
      | _ => Ok (ORef, vfalse, st)
      end.

  Definition h_redact (args : list val) (st : jv) : hres :=
    if (length args <? 2)%nat then Ok (helper_obj args, vfalse, st)
    else
      Ok (ORef, vtrue, fold_left (fun s p => redact_apply s (string_operand p)) (skipn 2 args) st).

  Definition h_time (args : list val) (st : jv) : hres :=
    if (length args <? 3)%nat then Ok (helper_obj args, vfalse, st)
    else
      let* a2 := arg args 2 655 in
      match a2 with
      | VTime ns => Ok (ORef, VJ (JInt (ms_of_ns ns)), st)
      | _ => Ok (ORef, vfalse, st)
      end.

  Definition helper_table : list (bytes * (list val -> jv -> hres)) :=
    [ (n_startsWith, h_startsWith); (n_endsWith, h_endsWith); (n_contains, h_contains);
      (n_datetime, h_datetime); (n_limit, h_limit); (n_json, h_json); (n_xml, h_xml);
      (n_redact, h_redact); (n_now, h_time); (n_seconds, h_time); (n_minutes, h_time);
      (n_hours, h_time); (n_days, h_time); (n_weeks, h_time); (n_months, h_time); (n_years, h_time) ].

  Fixpoint lookup_helper_in (t : list (bytes * (list val -> jv -> hres))) (name : bytes) :=
    match t with
    | [] => None
    | (k, h) :: r => if bytes_eqb name k then Some h else lookup_helper_in r name
    end.
  Definition lookup_helper := lookup_helper_in helper_table.

  (* subjectHelpers: the helpers that work on the value selected by the path *)
  Definition subject_helper (name : bytes) : bool :=
    existsb (bytes_eqb name) [n_startsWith; n_endsWith; n_contains; n_json; n_xml].
  Definition no_match (l : list jv) : bool := match l with [] => true | _ => false end.

  (* ---------------------------------------------------------------- evalUnary's operators *)
  Definition apply_unary (op : uop) (v : val) : val :=
    match op with
    | UNot => match v with VJ _ => vbool (negb (bool_operand v)) | _ => v end
    | UNeg => match v with
              | VJ (JFlt f) => VJ (JFlt (f_neg f))
              | VJ (JInt z) => VJ (JInt (wrap64 (- z)))
              | _ => v
              end
    | UOther => v
    end.

  (* value of a JSONPath result list (evalPrimary) *)
  Definition value_of_result (l : list jv) : val :=
    match l with
    | [] => vfalse
    | [x] => VJ x
    | _ => VJ (JArr l)
    end.

  (* ---------------------------------------------------------------- the recursive evaluator *)
  Definition eres := res (ev * jv).

  Fixpoint eval_expr (e : expr) (st : jv) {struct e} : eres :=
    match e with
    | Expr LgNone => Ok (EvVal vtrue ORef, st)
    | Expr (LgSome l) =>
        let* r := eval_logical l st in
        match r with
        | (EvCollapse o, st') => Ok (EvVal vfalse o, st')
        | _ => Ok r
        end
    end

  with eval_logical (l : logical) (st : jv) {struct l} : eres :=
    match l with
    | Logical e op next =>
        let* r := eval_equality e st in
        match r with
        | (EvCollapse _, _) => Ok r
        | (EvVal unar o, st1) =>
            let ub := bool_operand unar in
            match op, ub with
            | LAnd, false => Ok (EvVal vfalse o, st1)
            | LOr, true => Ok (EvVal vtrue o, st1)
            | _, _ =>
                match next with
                | LgNone => Ok (EvVal unar o, st1)
                | LgSome n =>
                    let* r2 := eval_logical n st1 in
                    match r2 with
                    | (EvCollapse _, _) => Ok r2
                    | (EvVal nx o2, st2) =>
                        match logical_op op with
                        | Some f => Ok (EvVal (vbool (f unar nx)) o2, st2)
                        | None => Panic 900
                        end
                    end
                end
            end
        end
    end

  with eval_equality (q : equality) (st : jv) {struct q} : eres :=
    match q with
    | Equality c op next =>
        let* r := eval_comparison c st in
        match r with
        | (EvCollapse _, _) => Ok r
        | (EvVal comp o, st1) =>
            match next with
            | EqNone => Ok (EvVal comp o, st1)
            | EqSome n =>
                let* r2 := eval_equality n st1 in
                match r2 with
                | (EvCollapse _, _) => Ok r2
                | (EvVal nx o2, st2) =>
                    match equality_op parse_float re_match op with
                    | Some f => Ok (EvVal (vbool (f comp nx)) o2, st2)
                    | None => Panic 867
                    end
                end
            end
        end
    end

  with eval_comparison (c : comparison) (st : jv) {struct c} : eres :=
    match c with
    | Comparison u op next =>
        let* r := eval_unary u st in
        match r with
        | (EvCollapse _, _) => Ok r
        | (EvVal logic o, st1) =>
            match next with
            | CmNone => Ok (EvVal logic o, st1)
            | CmSome n =>
                let* r2 := eval_comparison n st1 in
                match r2 with
                | (EvCollapse _, _) => Ok r2
                | (EvVal nx o2, st2) =>
                    match comparison_op parse_float op with
                    | Some f => Ok (EvVal (vbool (f logic nx)) o2, st2)
                    | None => Panic 844
                    end
                end
            end
        end
    end

  with eval_unary (u : unary) (st : jv) {struct u} : eres :=
    match u with
    | UnOp op u' =>
        let* r := eval_unary u' st in
        match r with
        | (EvCollapse _, _) => Ok r
        | (EvVal v o, st1) => Ok (EvVal (apply_unary op v) o, st1)
        end
    | UnPrim p => eval_primary p st
    end

  with eval_primary (p : primary) (st : jv) {struct p} : eres :=
    match p with
    | Primary num str _ bool_ nil_ call sub jsonpath regexp helper =>
        match bool_ with
        | Some b => Ok (EvVal (vbool b) ORef, st)
        | None =>
        match num with
        | Some f => Ok (EvVal (VJ (JFlt f)) ORef, st)
        | None =>
        match str with
        | Some s => Ok (EvVal (VJ (JStr (trim_quotes s))) ORef, st)
        | None =>
        match jsonpath with
        | Some jp =>
            let result := jget jp st in
            match result, helper with
            | [], None => Ok (EvCollapse ORef, st)
            | _, _ =>
                let v := value_of_result result in
                match helper, call with
                | Some h, ClSome (CallExpr _ ps _) =>
                    let* r := eval_paramsopt ps st in
                    let '(pvals, st1) := r in
                    match lookup_helper h with
                    | Some hf =>
                        if no_match result && subject_helper h then Ok (EvVal vfalse ORef, st1)
                        else
                          let* hr := hf (VJ st :: v :: pvals) st1 in
                          let '(o, v', st2) := hr in
                          Ok (EvVal v' o, st2)
                    | None => Ok (EvCollapse ORef, st1)
                    end
                | _, _ => Ok (EvVal v ORef, st)
                end
            end
        | None =>
        match regexp with
        | Some src => Ok (EvVal (VRe src) ORef, st)
        | None =>
        match sub with
        | ExSome e => eval_expr e st
        | ExNone =>
        match call with
        | ClSome c => eval_call c st
        | ClNone => Ok (EvVal (if nil_ then VJ JNull else vfalse) ORef, st)
        end end end end end end end
    end

  (* evalCallExpression + evalSelectExpression *)
  with eval_call (c : callexpr) (st : jv) {struct c} : eres :=
    match c with
    | CallExpr _ _ sel => eval_sel sel st
    end

  with eval_sel (s : selopt) (st : jv) {struct s} : eres :=
    match s with
    | SlNone => Ok (EvVal vfalse ONil, st)
    | SlSome _ _ _ (ExSome e) => eval_expr e st
    | SlSome _ _ _ ExNone => Ok (EvVal vfalse ONil, st)
    end

  (* evalParameters: a nil slice and an empty one behave alike *)
  with eval_paramsopt (ps : paramsopt) (st : jv) {struct ps} : res (list val * jv) :=
    match ps with
    | PsAbsent => Ok ([], st)
    | PsList l => eval_params l st
    end

  with eval_params (ps : params) (st : jv) {struct ps} : res (list val * jv) :=
    match ps with
    | PsNil => Ok ([], st)
    | PsCons p r =>
        let* x := eval_param p st in
        let '(v, st1) := x in
        let* y := eval_params r st1 in
        let '(vs, st2) := y in
        Ok (v :: vs, st2)
    end

  with eval_param (p : param) (st : jv) {struct p} : res (val * jv) :=
    match p with
    | Param _ e jsonpath timeset time_ns =>
        match jsonpath with
        | Some (jp, s) => Ok (VPath jp s, st)
        | None =>
            if timeset then Ok (VTime time_ns, st)
            else match e with
                 | ExSome e' =>
                     let* r := eval_expr e' st in
                     match r with
                     | (EvVal v _, st1) => Ok (v, st1)
                     | (EvCollapse _, st1) => Ok (vfalse, st1)      (* unreachable: eval_expr never collapses *)
                     end
                 | ExNone => Panic 701                               (* expr.Logical on a nil *Expression *)
                 end
        end
    end.

  (* Eval after oj.ParseString: truth, the record that is serialised, (and nothing else) *)
  Definition record_of_ref (o : objref) (st : jv) : jv :=
    match o with ORef => st | ONil => JNull end.

  Definition eval_model (e : expr) (r : jv) : res (bool * jv) :=
    let* x := eval_expr e r in
    match x with
    | (EvVal v o, st) => Ok (bool_operand v, record_of_ref o st)
    | (EvCollapse o, st) => Ok (false, record_of_ref o st)          (* unreachable *)
    end.

End Eval.
