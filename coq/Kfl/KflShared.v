(* C18 on the model.  What persists between two evaluations of a prepared query is the prepared tree
   (Go: the *Expression shared by the callers); every other piece of state of an evaluation (the
   parsed record, the values, the collapse flag) is created by that evaluation.  The store makes this
   explicit: an evaluation takes the store and returns it, and no step of the model writes the tree
   (frame).  Consequences: any history of evaluations on one shared tree, and any interleaving of the
   evaluations of any number of threads, gives for every record the result of a fresh evaluation of
   that record alone. *)
Require Import V.Base.Prelude V.Kfl.Num V.Kfl.Json V.Kfl.KflAst V.Kfl.JPath V.Kfl.KflOps V.Kfl.KflEval.
Local Open Scope Z_scope.

Section Shared.
  Variable parse_float : bytes -> option fv.
  Variable re_match : bytes -> bytes -> bool.
  Variable parse_time : bytes -> option Z.
  Variable b64dec : bytes -> option bytes.
  Variable parse_json : bytes -> option jv.
  Variable xml_first : bytes -> bytes -> xres.
  Variable redact_apply : jv -> bytes -> jv.

  Notation model := (eval_model parse_float re_match parse_time b64dec parse_json xml_first redact_apply).

  Definition outcome := res (bool * jv).

  (* the state shared by the callers of Eval *)
  Record store := { ast_of : expr; evals_done : nat }.

  (* one call of Eval(expr, record) against the shared store *)
  Definition eval_store (s : store) (r : jv) : store * outcome :=
    ({| ast_of := ast_of s; evals_done := S (evals_done s) |}, model (ast_of s) r).

  (* frame: evaluation does not modify the prepared query *)
  Lemma eval_store_frame : forall s r, ast_of (fst (eval_store s r)) = ast_of s.
  Proof. reflexivity. Qed.

  (* a history: records evaluated one after the other on the same store *)
  Fixpoint run (s : store) (rs : list jv) : store * list outcome :=
    match rs with
    | [] => (s, [])
    | r :: rest =>
        let '(s1, o) := eval_store s r in
        let '(s2, os) := run s1 rest in
        (s2, o :: os)
    end.

  Lemma run_frame : forall rs s, ast_of (fst (run s rs)) = ast_of s.
  Proof.
    induction rs as [|r rest IH]; intro s; cbn [run]; [reflexivity|].
    destruct (eval_store s r) as [s1 o] eqn:He.
    destruct (run s1 rest) as [s2 os] eqn:Hr. cbn [fst].
    specialize (IH s1). rewrite Hr in IH. cbn [fst] in IH. rewrite IH.
    pose proof (eval_store_frame s r) as Hf. rewrite He in Hf. exact Hf.
  Qed.

  (* history independence: the i-th result is the fresh evaluation of the i-th record *)
  Lemma run_results : forall rs s, snd (run s rs) = map (model (ast_of s)) rs.
  Proof.
    induction rs as [|r rest IH]; intro s; cbn [run map]; [reflexivity|].
    destruct (eval_store s r) as [s1 o] eqn:He.
    destruct (run s1 rest) as [s2 os] eqn:Hr. cbn [snd].
    specialize (IH s1). rewrite Hr in IH. cbn [snd] in IH.
    unfold eval_store in He. injection He as Hs1 Ho. rewrite IH, <- Ho, <- Hs1. reflexivity.
  Qed.

  (* the same records in another order give the same result for each record *)
  Lemma run_any_order : forall s rs i r, nth_error rs i = Some r ->
      nth_error (snd (run s rs)) i = Some (model (ast_of s) r).
  Proof. intros s rs i r H. rewrite run_results. apply map_nth_error. exact H. Qed.

  (* ---------------------------------------------------------------- threads *)
  (* every thread evaluates its own list of records on the shared store; a schedule is the list of
     thread numbers in the order in which their next evaluation takes place (sequentially consistent
     interleaving of whole evaluations; finer interleavings do not exist in the model because an
     evaluation reads only the tree and writes nothing shared) *)
  Record tstate := { pending : list jv; results : list outcome }.

  Fixpoint update {A} (l : list A) (i : nat) (a : A) : list A :=
    match l, i with
    | [], _ => []
    | _ :: r, O => a :: r
    | x :: r, S k => x :: update r k a
    end.

  Definition step (c : store * list tstate) (t : nat) : store * list tstate :=
    let '(s, ths) := c in
    match nth_error ths t with
    | Some {| pending := r :: rest; results := done |} =>
        let '(s', o) := eval_store s r in
        (s', update ths t {| pending := rest; results := done ++ [o] |})
    | _ => c
    end.

  Definition exec (c : store * list tstate) (sched : list nat) : store * list tstate := fold_left step sched c.

  (* invariant: what a thread has obtained so far is the fresh evaluation of the records it has consumed *)
  Definition thread_ok (e : expr) (all : list jv) (t : tstate) : Prop :=
    exists consumed, all = consumed ++ pending t /\ results t = map (model e) consumed.

  Lemma nth_error_update_eq : forall {A} (l : list A) i a x, nth_error l i = Some x -> nth_error (update l i a) i = Some a.
  Proof.
    induction l as [|y l IH]; intros [|i] a x H; cbn in *; try discriminate; auto.
    eapply IH; eauto.
  Qed.
  Lemma nth_error_update_neq : forall {A} (l : list A) i j a, i <> j -> nth_error (update l i a) j = nth_error l j.
  Proof.
    induction l as [|y l IH]; intros [|i] [|j] a H; cbn; auto; try contradiction;
      try (apply IH; intro; apply H; subst; reflexivity).
  Qed.
  Lemma update_length : forall {A} (l : list A) i a, length (update l i a) = length l.
  Proof. induction l as [|y l IH]; intros [|i] a; cbn; auto. Qed.

  Lemma step_invariant : forall e (alls : list (list jv)) s ths t,
      ast_of s = e ->
      length ths = length alls ->
      (forall i all th, nth_error alls i = Some all -> nth_error ths i = Some th -> thread_ok e all th) ->
      let '(s', ths') := step (s, ths) t in
      ast_of s' = e /\ length ths' = length alls /\
      (forall i all th, nth_error alls i = Some all -> nth_error ths' i = Some th -> thread_ok e all th).
  Proof.
    intros e alls s ths t Hs Hlen Hinv. cbn [step].
    destruct (nth_error ths t) as [[pend done]|] eqn:Ht; [|auto].
    destruct pend as [|r rest]; [auto|].
    cbn [eval_store]. split; [exact Hs|]. split; [rewrite update_length; exact Hlen|].
    intros i all th Hall Hth.
    destruct (Nat.eq_dec t i) as [Heq|Hne].
    - subst i. erewrite nth_error_update_eq in Hth by eassumption. inversion Hth; subst th.
      destruct (Hinv t all _ Hall Ht) as [consumed [Hall' Hres]]. cbn [pending results] in *.
      exists (consumed ++ [r]). cbn [pending results]. split.
      + rewrite <- app_assoc. exact Hall'.
      + rewrite map_app. cbn [map]. rewrite Hres. rewrite Hs. reflexivity.
    - rewrite nth_error_update_neq in Hth by exact Hne. eapply Hinv; eauto.
  Qed.

  Theorem exec_invariant : forall e (alls : list (list jv)) sched s ths,
      ast_of s = e ->
      length ths = length alls ->
      (forall i all th, nth_error alls i = Some all -> nth_error ths i = Some th -> thread_ok e all th) ->
      let '(s', ths') := exec (s, ths) sched in
      ast_of s' = e /\
      (forall i all th, nth_error alls i = Some all -> nth_error ths' i = Some th -> thread_ok e all th).
  Proof.
    intros e alls sched. induction sched as [|t rest IH]; intros s ths Hs Hlen Hinv.
    - cbn [exec fold_left]. split; assumption.
    - unfold exec. cbn [fold_left]. fold (exec (step (s, ths) t) rest).
      pose proof (step_invariant e alls s ths t Hs Hlen Hinv) as Hstep.
      destruct (step (s, ths) t) as [s1 ths1]. destruct Hstep as [Hs1 [Hlen1 Hinv1]].
      apply IH; assumption.
  Qed.

  Definition start (alls : list (list jv)) : list tstate := map (fun rs => {| pending := rs; results := [] |}) alls.

  (* any number of threads, any schedule: every thread that has run to completion holds, for each of
     its records, the result of a fresh evaluation of that record alone; and the tree is unchanged *)
  Theorem shared_any_schedule : forall e (alls : list (list jv)) sched n0,
      let '(s', ths') := exec ({| ast_of := e; evals_done := n0 |}, start alls) sched in
      ast_of s' = e /\
      forall i all th, nth_error alls i = Some all -> nth_error ths' i = Some th ->
                       pending th = [] -> results th = map (model e) all.
  Proof.
    intros e alls sched n0.
    pose proof (exec_invariant e alls sched {| ast_of := e; evals_done := n0 |} (start alls) eq_refl) as H.
    assert (Hlen : length (start alls) = length alls) by (unfold start; apply map_length).
    assert (Hinv : forall i all th, nth_error alls i = Some all -> nth_error (start alls) i = Some th -> thread_ok e all th).
    { intros i all th Hall Hth. unfold start in Hth. rewrite nth_error_map in Hth. rewrite Hall in Hth. cbn in Hth.
      inversion Hth; subst. exists []. cbn. split; reflexivity. }
    specialize (H Hlen Hinv).
    destruct (exec _ sched) as [s' ths']. destruct H as [Hs Hth]. split; [exact Hs|].
    intros i all th Hall Hnth Hpend.
    destruct (Hth i all th Hall Hnth) as [consumed [Hall' Hres]].
    rewrite Hpend, app_nil_r in Hall'. subst consumed. exact Hres.
  Qed.

  (* a freshly prepared copy of the same query (an equal tree) gives the same result as the shared one *)
  Theorem fresh_equals_shared : forall s e_fresh r, e_fresh = ast_of s -> snd (eval_store s r) = model e_fresh r.
  Proof. intros s e_fresh r H. subst. reflexivity. Qed.

End Shared.
