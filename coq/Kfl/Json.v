(* JSON values as oj.ParseString delivers them to the evaluator: map[string]interface{},
   []interface{}, int64, float64, string, bool, nil.  Objects are association lists; the
   harness writes them with sorted, distinct keys. *)
Require Import V.Base.Prelude V.Kfl.Num.
Local Open Scope Z_scope.

Inductive jv :=
| JNull
| JBool (b : bool)
| JInt (z : Z)                 (* int64 *)
| JFlt (f : fv)                (* float64 *)
| JStr (s : bytes)
| JArr (l : list jv)
| JObj (l : list (bytes * jv)).

Definition byte_eqb (a b : byte) : bool := N.eqb (b2n a) (b2n b).
Definition bytes_eqb : bytes -> bytes -> bool := list_eqb byte_eqb.

Fixpoint jv_eqb (x y : jv) {struct x} : bool :=
  match x, y with
  | JNull, JNull => true
  | JBool a, JBool b => Bool.eqb a b
  | JInt a, JInt b => Z.eqb a b
  | JFlt a, JFlt b => fv_eqb a b
  | JStr a, JStr b => bytes_eqb a b
  | JArr a, JArr b =>
      (fix go (xs ys : list jv) {struct xs} : bool :=
         match xs, ys with
         | [], [] => true
         | x' :: xs', y' :: ys' => jv_eqb x' y' && go xs' ys'
         | _, _ => false
         end) a b
  | JObj a, JObj b =>
      (fix go (xs ys : list (bytes * jv)) {struct xs} : bool :=
         match xs, ys with
         | [], [] => true
         | (k, x') :: xs', (k', y') :: ys' => bytes_eqb k k' && jv_eqb x' y' && go xs' ys'
         | _, _ => false
         end) a b
  | _, _ => false
  end.

Fixpoint assoc_get (k : bytes) (l : list (bytes * jv)) : option jv :=
  match l with
  | [] => None
  | (k', v) :: r => if bytes_eqb k k' then Some v else assoc_get k r
  end.

Definition is_container (v : jv) : bool :=
  match v with JArr _ | JObj _ => true | _ => false end.

(* equality of JSON values: numbers by numeric value (int64 converted to float64 as Go does),
   arrays element by element, objects key by key.  This is what deepEqual of eval.go computes
   (reflect.DeepEqual with numbers compared numerically). *)
Fixpoint json_eq (a b : jv) {struct a} : bool :=
  match a, b with
  | JNull, JNull => true
  | JBool x, JBool y => Bool.eqb x y
  | JStr x, JStr y => bytes_eqb x y
  | JInt x, JInt y => f_eq (f_of_Z x) (f_of_Z y)
  | JInt x, JFlt y => f_eq (f_of_Z x) y
  | JFlt x, JInt y => f_eq x (f_of_Z y)
  | JFlt x, JFlt y => f_eq x y
  | JArr xs, JArr ys =>
      (fix all2 (xs ys : list jv) {struct xs} : bool :=
         match xs, ys with
         | [], [] => true
         | x :: xs', y :: ys' => json_eq x y && all2 xs' ys'
         | _, _ => false
         end) xs ys
  | JObj xs, JObj ys =>
      Nat.eqb (length xs) (length ys) &&
      (fix allk (xs : list (bytes * jv)) {struct xs} : bool :=
         match xs with
         | [] => true
         | (k, x) :: xs' => match assoc_get k ys with Some y => json_eq x y && allk xs' | None => false end
         end) xs
  | _, _ => false
  end.

