(* C12_sem: wherever the specification (KflSem.sem, from the property text) defines a truth value for a
   prepared query on a record, the evaluator model (KflEval.eval_model, from eval.go) returns exactly
   that truth value, does not panic and leaves the record unchanged - for every behaviour of the
   libraries. *)
Require Import V.Base.Prelude V.Kfl.Num V.Kfl.Json V.Kfl.KflAst V.Kfl.Names V.Kfl.JPath V.Kfl.KflOps V.Kfl.KflEval
  V.Kfl.KflEvalEq V.Kfl.KflSem V.Kfl.KflSemOps.
Local Open Scope Z_scope.

Definition ev_of (d : den) : ev :=
  match d with DMissing => EvCollapse ORef | DVal v => EvVal v ORef end.

Section SemProofs.
  Variable parse_float : bytes -> option fv.
  Variable re_match : bytes -> bytes -> bool.
  Variable parse_time : bytes -> option Z.
  Variable b64dec : bytes -> option bytes.
  Variable parse_json : bytes -> option jv.
  Variable xml_first : bytes -> bytes -> xres.
  Variable redact_apply : jv -> bytes -> jv.

  Notation ev_expr := (eval_expr parse_float re_match parse_time b64dec parse_json xml_first redact_apply).
  Notation ev_logical := (eval_logical parse_float re_match parse_time b64dec parse_json xml_first redact_apply).
  Notation ev_equality := (eval_equality parse_float re_match parse_time b64dec parse_json xml_first redact_apply).
  Notation ev_comparison := (eval_comparison parse_float re_match parse_time b64dec parse_json xml_first redact_apply).
  Notation ev_unary := (eval_unary parse_float re_match parse_time b64dec parse_json xml_first redact_apply).
  Notation ev_primary := (eval_primary parse_float re_match parse_time b64dec parse_json xml_first redact_apply).
  Notation ev_call := (eval_call parse_float re_match parse_time b64dec parse_json xml_first redact_apply).
  Notation ev_sel := (eval_sel parse_float re_match parse_time b64dec parse_json xml_first redact_apply).
  Notation ev_paramsopt := (eval_paramsopt parse_float re_match parse_time b64dec parse_json xml_first redact_apply).
  Notation ev_params := (eval_params parse_float re_match parse_time b64dec parse_json xml_first redact_apply).
  Notation ev_param := (eval_param parse_float re_match parse_time b64dec parse_json xml_first redact_apply).
  Notation table := (helper_table parse_time b64dec parse_json xml_first redact_apply).
  Notation lookup := (lookup_helper parse_time b64dec parse_json xml_first redact_apply).

  Notation s_expr := (sem_expr parse_float re_match parse_time b64dec parse_json xml_first).
  Notation s_logical := (sem_logical parse_float re_match parse_time b64dec parse_json xml_first).
  Notation s_equality := (sem_equality parse_float re_match parse_time b64dec parse_json xml_first).
  Notation s_comparison := (sem_comparison parse_float re_match parse_time b64dec parse_json xml_first).
  Notation s_unary := (sem_unary_e parse_float re_match parse_time b64dec parse_json xml_first).
  Notation s_primary := (sem_primary parse_float re_match parse_time b64dec parse_json xml_first).
  Notation s_paramsopt := (sem_paramsopt parse_float re_match parse_time b64dec parse_json xml_first).
  Notation s_params := (sem_params parse_float re_match parse_time b64dec parse_json xml_first).
  Notation s_param := (sem_param parse_float re_match parse_time b64dec parse_json xml_first).
  Notation s_helper := (sem_helper parse_time b64dec parse_json xml_first).

  (* ---------------------------------------------------------------- unfolding equations of the specification *)
  Lemma s_expr_none : forall r, s_expr (Expr LgNone) r = Some (sv_bool true).
  Proof. reflexivity. Qed.
  Lemma s_expr_some : forall l r, s_expr (Expr (LgSome l)) r = close (s_logical l r).
  Proof. reflexivity. Qed.
  Lemma s_logical_eq : forall e op next r,
      s_logical (Logical e op next) r =
      dbind (s_equality e r) (fun x =>
        match next with
        | LgNone => match op with LNone => Some (DVal x) | _ => None end
        | LgSome n =>
            let? bx := truth_of x in
            match op with
            | LAnd => if bx then dbind (s_logical n r) (fun y => let? b := truth_of y in Some (DVal (sv_bool b)))
                      else Some (DVal (sv_bool false))
            | LOr => if bx then Some (DVal (sv_bool true))
                     else dbind (s_logical n r) (fun y => let? b := truth_of y in Some (DVal (sv_bool b)))
            | _ => None
            end
        end).
  Proof. reflexivity. Qed.
  Lemma s_equality_eq : forall c op next r,
      s_equality (Equality c op next) r =
      dbind (s_comparison c r) (fun x =>
        match next with
        | EqNone => Some (DVal x)
        | EqSome n =>
            dbind (s_equality n r) (fun y =>
              match op with
              | EEq => let? b := sem_eq parse_float re_match x y in Some (DVal (sv_bool b))
              | ENe => let? b := sem_eq parse_float re_match x y in Some (DVal (sv_bool (negb b)))
              | _ => None
              end)
        end).
  Proof. reflexivity. Qed.
  Lemma s_comparison_eq : forall u op next r,
      s_comparison (Comparison u op next) r =
      dbind (s_unary u r) (fun x =>
        match next with
        | CmNone => Some (DVal x)
        | CmSome n =>
            dbind (s_comparison n r) (fun y =>
              let? rl := rel_of op in
              let? b := sem_rel parse_float rl x y in Some (DVal (sv_bool b)))
        end).
  Proof. reflexivity. Qed.
  Lemma s_unary_op : forall op u r,
      s_unary (UnOp op u) r = dbind (s_unary u r) (fun x => let? v := sem_unary op x in Some (DVal v)).
  Proof. reflexivity. Qed.
  Lemma s_unary_prim : forall p r, s_unary (UnPrim p) r = s_primary p r.
  Proof. reflexivity. Qed.
  Lemma s_primary_eq : forall num str regex bool_ nil_ call sub jsonpath regexp helper r,
      s_primary (Primary num str regex bool_ nil_ call sub jsonpath regexp helper) r =
      match bool_, num, str, jsonpath, regexp with
      | Some b, _, _, _, _ => Some (DVal (sv_bool b))
      | None, Some f, _, _, _ => Some (DVal (VJ (JFlt f)))
      | None, None, Some tok, _, _ => Some (DVal (VJ (JStr (literal_content tok))))
      | None, None, None, Some path, _ =>
          match helper, call with
          | None, _ => Some (of_matches (jget path r))
          | Some h, ClSome (CallExpr _ ps _) =>
              let? args := s_paramsopt ps r in
              match jget path r with
              | [] => if works_on_subject h then Some (DVal (sv_bool false)) else s_helper h (sv_bool false) args
              | l => s_helper h (subject_value l) args
              end
          | Some _, ClNone => Some (DVal (subject_value (jget path r)))
          end
      | None, None, None, None, Some src => Some (DVal (VRe src))
      | None, None, None, None, None =>
          match sub, call with
          | ExSome e, _ => let? v := s_expr e r in Some (DVal v)
          | ExNone, ClSome (CallExpr _ _ (SlSome _ _ _ (ExSome e))) => let? v := s_expr e r in Some (DVal v)
          | ExNone, ClSome _ => None
          | ExNone, ClNone => Some (DVal (if nil_ then VJ JNull else sv_bool false))
          end
      end.
  Proof. reflexivity. Qed.
  Lemma s_paramsopt_absent : forall r, s_paramsopt PsAbsent r = Some [].
  Proof. reflexivity. Qed.
  Lemma s_paramsopt_list : forall l r, s_paramsopt (PsList l) r = s_params l r.
  Proof. reflexivity. Qed.
  Lemma s_params_nil : forall r, s_params PsNil r = Some [].
  Proof. reflexivity. Qed.
  Lemma s_params_cons : forall p rest r,
      s_params (PsCons p rest) r = (let? v := s_param p r in let? vs := s_params rest r in Some (v :: vs)).
  Proof. reflexivity. Qed.
  Lemma s_param_eq : forall tag e jsonpath timeset time_ns r,
      s_param (Param tag e jsonpath timeset time_ns) r =
      match jsonpath with
      | Some (path, s) => Some (VPath path s)
      | None => if timeset then Some (VTime time_ns)
                else match e with ExSome e' => s_expr e' r | ExNone => None end
      end.
  Proof. reflexivity. Qed.

  (* ---------------------------------------------------------------- helpers *)
  Lemma lookup_in_none : forall t name,
      existsb (bytes_eqb name) (map fst t) = false -> lookup_helper_in t name = None.
  Proof.
    induction t as [|[k h] r IH]; intros name H; cbn [lookup_helper_in]; [reflexivity|].
    cbn [map fst existsb] in H. apply orb_false_elim in H. destruct H as [H1 H2].
    rewrite H1. apply IH. exact H2.
  Qed.

  Lemma known_is_table : known_helpers = map fst table.
  Proof. reflexivity. Qed.

  Lemma lookup_unknown : forall name, name_in name known_helpers = false -> lookup name = None.
  Proof. intros name H. unfold name_in in H. rewrite known_is_table in H. apply lookup_in_none. exact H. Qed.

  (* what a helper returns when called as evalPrimary calls it *)
  Definition helper_gives (hf : list val -> jv -> hres) (subj : val) (pvals : list val) (st : jv) (v : val) : Prop :=
    hf (VJ st :: subj :: pvals) st = Ok (ORef, v, st).

  Lemma sem_helper_spec : forall name subj pvals st d,
      s_helper name subj pvals = Some d ->
      match lookup name with
      | None => d = DMissing
      | Some hf => exists v, helper_gives hf subj pvals st v /\ d = DVal v
      end.
  Proof.
    intros name subj pvals st d H. unfold sem_helper in H.
    destruct (name_in name known_helpers) eqn:Hknown; cbn [negb] in H.
    2:{ rewrite (lookup_unknown name Hknown). inversion H. reflexivity. }
    destruct (bytes_eqb name n_limit) eqn:Hlimit.
    { apply bytes_eqb_eq in Hlimit. subst name.
      change (lookup n_limit) with (Some h_limit). inversion H; subst.
      exists (sv_bool true). split; reflexivity. }
    destruct (bytes_eqb name n_redact) eqn:Hredact; [discriminate|].
    destruct pvals as [|a rest]; [discriminate|].
    destruct (bytes_eqb name n_startsWith || bytes_eqb name n_endsWith || bytes_eqb name n_contains) eqn:Hstr.
    { destruct (is_scalar subj && is_scalar a); [|discriminate].
      apply obind_some in H. destruct H as [s [Hs H]]. apply obind_some in H. destruct H as [p [Hp H]].
      inversion H; subst d. clear H.
      apply orb_prop in Hstr. destruct Hstr as [Hstr|Hc].
      - apply orb_prop in Hstr. destruct Hstr as [Hsw|Hew].
        + apply bytes_eqb_eq in Hsw. subst name.
          change (lookup n_startsWith) with (Some (h_startsWith)).
          eexists. split; [|reflexivity]. unfold helper_gives, h_startsWith, str_helper. cbn [length Nat.ltb Nat.leb arg nth_error bind].
          rewrite (str_spec _ _ Hs), (str_spec _ _ Hp), has_prefix_spec. reflexivity.
        + apply bytes_eqb_eq in Hew. subst name.
          change (lookup n_endsWith) with (Some (h_endsWith)).
          eexists. split; [|reflexivity]. unfold helper_gives, h_endsWith, str_helper. cbn [length Nat.ltb Nat.leb arg nth_error bind].
          rewrite (str_spec _ _ Hs), (str_spec _ _ Hp), has_suffix_spec. reflexivity.
      - apply bytes_eqb_eq in Hc. subst name.
        change (lookup n_contains) with (Some (h_contains)).
        eexists. split; [|reflexivity]. unfold helper_gives, h_contains, str_helper. cbn [length Nat.ltb Nat.leb arg nth_error bind].
        rewrite (str_spec _ _ Hs), (str_spec _ _ Hp), contains_spec. reflexivity. }
    destruct (bytes_eqb name n_datetime) eqn:Hdt.
    { apply bytes_eqb_eq in Hdt. subst name.
      change (lookup n_datetime) with (Some (h_datetime parse_time)).
      destruct (is_scalar a); [|discriminate].
      apply obind_some in H. destruct H as [s [Hs H]]. inversion H; subst d. clear H.
      eexists. split; [|reflexivity]. unfold helper_gives, h_datetime. cbn [length Nat.ltb Nat.leb arg nth_error bind].
      rewrite (str_spec _ _ Hs). destruct (parse_time s); reflexivity. }
    destruct (name_in name time_names) eqn:Htime.
    { assert (Hl : lookup name = Some h_time).
      { unfold name_in, time_names in Htime. cbn [existsb] in Htime.
        repeat (apply orb_prop in Htime; destruct Htime as [Htime|Htime];
                [apply bytes_eqb_eq in Htime; subst name; reflexivity|]).
        discriminate. }
      rewrite Hl.
      destruct a as [j|src|p s|ns]; inversion H; subst d; eexists; (split; [|reflexivity]);
        unfold helper_gives, h_time; cbn [length Nat.ltb Nat.leb arg nth_error bind]; reflexivity. }
    destruct (bytes_eqb name n_json) eqn:Hjson.
    { apply bytes_eqb_eq in Hjson. subst name.
      change (lookup n_json) with (Some (h_json b64dec parse_json)).
      destruct a as [j|src|p s|ns];
        try (inversion H; subst d; eexists; (split; [|reflexivity]);
             unfold helper_gives, h_json; cbn [length Nat.ltb Nat.leb arg nth_error bind]; reflexivity).
      destruct (is_scalar subj); [|discriminate].
      apply obind_some in H. destruct H as [t [Ht H]].
      unfold helper_gives, h_json. cbn [length Nat.ltb Nat.leb arg nth_error bind].
      rewrite (str_spec _ _ Ht). unfold unb64. unfold decoded in H.
      destruct (parse_json _) as [doc|]; [|inversion H; subst d; eexists; split; reflexivity].
      inversion H; subst d. unfold subject_value, of_matches.
      destruct (jget p doc) as [|x [|y l]]; eexists; split; reflexivity. }
    destruct (bytes_eqb name n_xml) eqn:Hxml; [|discriminate].
    apply bytes_eqb_eq in Hxml. subst name.
    change (lookup n_xml) with (Some (h_xml b64dec xml_first)).
    destruct a as [j|src|p s|ns];
      try (inversion H; subst d; eexists; (split; [|reflexivity]);
           unfold helper_gives, h_xml; cbn [length Nat.ltb Nat.leb arg nth_error bind]; reflexivity).
    destruct (is_scalar subj); [|discriminate].
    apply obind_some in H. destruct H as [t [Ht H]].
    unfold helper_gives, h_xml. cbn [length Nat.ltb Nat.leb arg nth_error bind].
    rewrite (str_spec _ _ Ht). unfold unb64. unfold decoded in H.
    destruct (xml_first _ s) as [|t0|[t0|]|]; inversion H; subst d; eexists; split; reflexivity.
  Qed.

  (* ---------------------------------------------------------------- the main induction *)
  Definition E_expr (e : expr) := forall r v, s_expr e r = Some v -> ev_expr e r = Ok (EvVal v ORef, r).
  Definition E_logical (l : logical) := forall r d, s_logical l r = Some d -> ev_logical l r = Ok (ev_of d, r).
  Definition E_logopt (l : logopt) := match l with LgNone => True | LgSome x => E_logical x end.
  Definition E_equality (q : equality) := forall r d, s_equality q r = Some d -> ev_equality q r = Ok (ev_of d, r).
  Definition E_eqopt (o : eqopt) := match o with EqNone => True | EqSome q => E_equality q end.
  Definition E_comparison (c : comparison) := forall r d, s_comparison c r = Some d -> ev_comparison c r = Ok (ev_of d, r).
  Definition E_cmpopt (o : cmpopt) := match o with CmNone => True | CmSome c => E_comparison c end.
  Definition E_unary (u : unary) := forall r d, s_unary u r = Some d -> ev_unary u r = Ok (ev_of d, r).
  Definition E_primary (p : primary) := forall r d, s_primary p r = Some d -> ev_primary p r = Ok (ev_of d, r).
  Definition E_expropt (o : expropt) := match o with ExNone => True | ExSome e => E_expr e end.
  Definition E_paramsopt (o : paramsopt) := forall r vs, s_paramsopt o r = Some vs -> ev_paramsopt o r = Ok (vs, r).
  Definition E_params (ps : params) := forall r vs, s_params ps r = Some vs -> ev_params ps r = Ok (vs, r).
  Definition E_param (p : param) := forall r v, s_param p r = Some v -> ev_param p r = Ok (v, r).
  Definition E_selopt (s : selopt) := match s with SlSome _ _ _ (ExSome e) => E_expr e | _ => True end.
  Definition E_callexpr (c : callexpr) := match c with CallExpr _ ps sel => E_paramsopt ps /\ E_selopt sel end.
  Definition E_callopt (o : callopt) := match o with ClNone => True | ClSome c => E_callexpr c end.

  Lemma sem_eval_all :
    (forall e, E_expr e) /\ (forall l, E_logopt l) /\ (forall l, E_logical l) /\ (forall q, E_equality q) /\
    (forall o, E_eqopt o) /\ (forall c, E_comparison c) /\ (forall o, E_cmpopt o) /\ (forall u, E_unary u) /\
    (forall p, E_primary p) /\ (forall o, E_expropt o) /\ (forall o, E_callopt o) /\ (forall c, E_callexpr c) /\
    (forall o, E_paramsopt o) /\ (forall ps, E_params ps) /\ (forall p, E_param p) /\ (forall s, E_selopt s).
  Proof.
    apply ast_mutind.
    - (* Expr *)
      intros l IH r v H. destruct l as [|x].
      + rewrite s_expr_none in H. inversion H. rewrite ev_expr_none. reflexivity.
      + rewrite s_expr_some in H. rewrite ev_expr_some. cbn [E_logopt] in IH.
        destruct (s_logical x r) as [[|w]|] eqn:Hs; cbn [close] in H; try discriminate; inversion H; subst.
        * rewrite (IH r DMissing Hs). reflexivity.
        * rewrite (IH r (DVal v) Hs). reflexivity.
    - exact I.
    - intros l IH. exact IH.
    - (* Logical *)
      intros e IHe op next IHn r d H. rewrite s_logical_eq in H. rewrite ev_logical_eq.
      apply dbind_some in H. destruct H as [[He Hd]|[x [He H]]].
      + subst d. rewrite (IHe r DMissing He). reflexivity.
      + rewrite (IHe r (DVal x) He). cbn [bind ev_of]. cbv zeta.
        destruct next as [|n].
        * destruct op; try discriminate. inversion H; subst. reflexivity.
        * cbn [E_logopt] in IHn.
          apply obind_some in H. destruct H as [bx [Hbx H]]. rewrite (truth_spec _ _ Hbx).
          destruct op; try discriminate; destruct bx; try (inversion H; subst; reflexivity).
          -- (* and, left true *)
             apply dbind_some in H. destruct H as [[Hn Hd]|[y [Hn H]]].
             ++ subst d. rewrite (IHn r DMissing Hn). reflexivity.
             ++ rewrite (IHn r (DVal y) Hn). cbn [bind ev_of logical_op].
                apply obind_some in H. destruct H as [b [Hb H]]. inversion H; subst.
                unfold op_and. rewrite (truth_spec _ _ Hbx), (truth_spec _ _ Hb). reflexivity.
          -- (* or, left false *)
             apply dbind_some in H. destruct H as [[Hn Hd]|[y [Hn H]]].
             ++ subst d. rewrite (IHn r DMissing Hn). reflexivity.
             ++ rewrite (IHn r (DVal y) Hn). cbn [bind ev_of logical_op].
                apply obind_some in H. destruct H as [b [Hb H]]. inversion H; subst.
                unfold op_or. rewrite (truth_spec _ _ Hbx), (truth_spec _ _ Hb). reflexivity.
    - (* Equality *)
      intros c IHc op next IHn r d H. rewrite s_equality_eq in H. rewrite ev_equality_eq.
      apply dbind_some in H. destruct H as [[Hc Hd]|[x [Hc H]]].
      + subst d. rewrite (IHc r DMissing Hc). reflexivity.
      + rewrite (IHc r (DVal x) Hc). cbn [bind ev_of].
        destruct next as [|n].
        * inversion H; subst. reflexivity.
        * cbn [E_eqopt] in IHn.
          apply dbind_some in H. destruct H as [[Hn Hd]|[y [Hn H]]].
          -- subst d. rewrite (IHn r DMissing Hn). reflexivity.
          -- rewrite (IHn r (DVal y) Hn). cbn [bind ev_of].
             destruct op; try discriminate; apply obind_some in H; destruct H as [b [Hb H]]; inversion H; subst;
               cbn [equality_op].
             ++ rewrite (sem_eq_spec _ _ _ _ _ Hb). reflexivity.
             ++ rewrite neq_is_negb_eql. rewrite (sem_eq_spec _ _ _ _ _ Hb). reflexivity.
    - exact I.
    - intros q IH. exact IH.
    - (* Comparison *)
      intros u IHu op next IHn r d H. rewrite s_comparison_eq in H. rewrite ev_comparison_eq.
      apply dbind_some in H. destruct H as [[Hu Hd]|[x [Hu H]]].
      + subst d. rewrite (IHu r DMissing Hu). reflexivity.
      + rewrite (IHu r (DVal x) Hu). cbn [bind ev_of].
        destruct next as [|n].
        * inversion H; subst. reflexivity.
        * cbn [E_cmpopt] in IHn.
          apply dbind_some in H. destruct H as [[Hn Hd]|[y [Hn H]]].
          -- subst d. rewrite (IHn r DMissing Hn). reflexivity.
          -- rewrite (IHn r (DVal y) Hn). cbn [bind ev_of].
             apply obind_some in H. destruct H as [rl [Hrl H]].
             apply obind_some in H. destruct H as [b [Hb H]]. inversion H; subst.
             rewrite (comparison_op_spec _ _ _ Hrl). rewrite (sem_rel_spec _ _ _ _ _ Hb). reflexivity.
    - exact I.
    - intros c IH. exact IH.
    - (* UnOp *)
      intros op u IH r d H. rewrite s_unary_op in H. rewrite ev_unary_op.
      apply dbind_some in H. destruct H as [[Hu Hd]|[x [Hu H]]].
      + subst d. rewrite (IH r DMissing Hu). reflexivity.
      + rewrite (IH r (DVal x) Hu). cbn [bind ev_of].
        apply obind_some in H. destruct H as [w [Hw H]]. inversion H; subst.
        rewrite (sem_unary_spec _ _ _ Hw). reflexivity.
    - (* UnPrim *)
      intros p IH r d H. rewrite s_unary_prim in H. rewrite ev_unary_prim. apply IH. exact H.
    - (* Primary *)
      intros num str regex bool_ nil_ call IHcall sub IHsub jsonpath regexp helper r d H.
      rewrite s_primary_eq in H. rewrite ev_primary_eq.
      destruct bool_; [inversion H; reflexivity|].
      destruct num; [inversion H; reflexivity|].
      destruct str; [inversion H; subst; rewrite trim_quotes_spec; reflexivity|].
      destruct jsonpath as [jp|].
      + unfold path_branch. cbv zeta.
        destruct helper as [h|].
        * destruct call as [|[ident ps sel]].
          -- inversion H; subst. unfold subject_value, of_matches, value_of_result.
             destruct (jget jp r) as [|x [|y l]]; reflexivity.
          -- cbn [E_callopt E_callexpr] in IHcall. destruct IHcall as [IHps _].
             apply obind_some in H. destruct H as [args [Hargs H]].
             rewrite (IHps r args Hargs). cbn [bind].
             assert (Hws : works_on_subject h = subject_helper h) by reflexivity.
             destruct (jget jp r) as [|x l] eqn:Hj; cbn [no_match andb].
             ++ (* no match *)
                rewrite <- Hws. cbn [value_of_result].
                destruct (works_on_subject h) eqn:Hw.
                ** inversion H; subst d.
                   destruct (lookup h) as [hf|] eqn:Hl; [reflexivity|].
                   exfalso. unfold works_on_subject, name_in in Hw. cbn [existsb] in Hw.
                   repeat (apply orb_prop in Hw; destruct Hw as [Hw|Hw];
                           [apply bytes_eqb_eq in Hw; subst h; discriminate Hl|]).
                   discriminate.
                ** pose proof (sem_helper_spec h (sv_bool false) args r d H) as Hh.
                   destruct (lookup h) as [hf|].
                   --- destruct Hh as [v [Hg Hd]]. subst d. unfold helper_gives in Hg. unfold vfalse. unfold sv_bool in Hg. rewrite Hg. reflexivity.
                   --- subst d. reflexivity.
             ++ (* at least one match *)
                assert (Hv : value_of_result (x :: l) = subject_value (x :: l)).
                { unfold subject_value, of_matches, value_of_result. destruct l; reflexivity. }
                pose proof (sem_helper_spec h (subject_value (x :: l)) args r d H) as Hh. rewrite Hv.
                destruct (lookup h) as [hf|].
                ** destruct Hh as [v [Hg Hd]]. subst d. unfold helper_gives in Hg. rewrite Hg. reflexivity.
                ** subst d. reflexivity.
        * inversion H; subst. unfold of_matches, value_of_result.
          destruct (jget jp r) as [|x [|y l]]; reflexivity.
      + destruct regexp; [inversion H; reflexivity|].
        destruct sub as [|e].
        * destruct call as [|[ident ps sel]]; [inversion H; subst; destruct nil_; reflexivity|].
          rewrite ev_call_eq.
          cbn [E_callopt E_callexpr] in IHcall. destruct IHcall as [_ IHsel].
          destruct sel as [|i k rd [|e]]; try discriminate.
          rewrite ev_sel_expr. cbn [E_selopt] in IHsel.
          apply obind_some in H. destruct H as [v [Hv H]]. inversion H; subst.
          rewrite (IHsel r v Hv). reflexivity.
        * cbn [E_expropt] in IHsub.
          apply obind_some in H. destruct H as [v [Hv H]]. inversion H; subst.
          rewrite (IHsub r v Hv). reflexivity.
    - exact I.
    - intros e IH. exact IH.
    - exact I.
    - intros c IH. exact IH.
    - (* CallExpr *) intros ident ps IHps sel IHsel. cbn [E_callexpr]. split; assumption.
    - (* PsAbsent *) intros r vs H. rewrite s_paramsopt_absent in H. inversion H. reflexivity.
    - (* PsList *) intros ps IH r vs H. rewrite s_paramsopt_list in H. rewrite ev_paramsopt_list. apply IH. exact H.
    - (* PsNil *) intros r vs H. rewrite s_params_nil in H. inversion H. reflexivity.
    - (* PsCons *)
      intros p IHp ps IHps r vs H. rewrite s_params_cons in H. rewrite ev_params_cons.
      apply obind_some in H. destruct H as [v [Hv H]]. apply obind_some in H. destruct H as [vs' [Hvs H]].
      inversion H; subst. rewrite (IHp r v Hv). cbn [bind]. rewrite (IHps r vs' Hvs). reflexivity.
    - (* Param *)
      intros tag e IHe jsonpath timeset time_ns r v H. rewrite s_param_eq in H. rewrite ev_param_eq.
      destruct jsonpath as [[jp s]|]; [inversion H; reflexivity|].
      destruct timeset; [inversion H; reflexivity|].
      destruct e as [|e']; [discriminate|].
      cbn [E_expropt] in IHe. rewrite (IHe r v H). reflexivity.
    - (* SlNone *) exact I.
    - (* SlSome *) intros i k rd e IHe. cbn [E_selopt]. destruct e; [exact I|exact IHe].
  Qed.

  (* C12_sem *)
  Theorem eval_agrees_with_sem : forall e r b,
      sem parse_float re_match parse_time b64dec parse_json xml_first e r = Some b ->
      eval_model parse_float re_match parse_time b64dec parse_json xml_first redact_apply e r = Ok (b, r).
  Proof.
    intros e r b H. unfold sem in H. apply obind_some in H. destruct H as [v [Hv Hb]].
    unfold eval_model. rewrite (proj1 sem_eval_all e r v Hv). cbn [bind record_of_ref].
    rewrite (truth_spec _ _ Hb). reflexivity.
  Qed.

End SemProofs.
