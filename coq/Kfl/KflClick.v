(* Click-to-filter queries in the evaluator model (property C16, query clause).

   The queries Summarize attaches to an entry are conjunctions of comparisons
        <path> == "<value>"      or      <path> == <number>
   (gen/Templates.v lists them with the path each value was read from).  click_clauses recognises
   the prepared tree of such a query (as Parse + Precompute leave it: the correspondence check of
   C16 runs it on the trees of the real queries) and returns its clauses; click_eval: the
   evaluator model answers exactly the conjunction of the clauses and returns the record
   unchanged.  own_*: a clause built from the value at its own path holds. *)
Require Import V.Base.Prelude V.Kfl.Num V.Kfl.Json V.Kfl.KflAst V.Kfl.JPath V.Kfl.KflOps V.Kfl.KflEval.
Local Open Scope Z_scope.

Inductive lit := LStr (tok : bytes) | LNum (f : fv).
Definition clause := (jpath * lit)%type.

(* a primary that evaluates a precomputed path / a literal (the order of the tests is evalPrimary's) *)
Definition prim_path (p : primary) : option jpath :=
  match p with
  | Primary None None _ None _ _ _ (Some jp) _ None => Some jp
  | _ => None
  end.

Definition prim_lit (p : primary) : option lit :=
  match p with
  | Primary (Some f) _ _ None _ _ _ _ _ _ => Some (LNum f)
  | Primary None (Some tok) _ None _ _ _ _ _ _ => Some (LStr tok)
  | _ => None
  end.

Definition cmp_single (c : comparison) : option primary :=
  match c with
  | Comparison (UnPrim p) _ CmNone => Some p
  | _ => None
  end.

Definition eq_clause (q : equality) : option clause :=
  match q with
  | Equality c EEq (EqSome (Equality c2 _ EqNone)) =>
      match cmp_single c, cmp_single c2 with
      | Some p1, Some p2 =>
          match prim_path p1, prim_lit p2 with
          | Some jp, Some l => Some (jp, l)
          | _, _ => None
          end
      | _, _ => None
      end
  | _ => None
  end.

(* An indexed path (topics[0].name == "x" and ...) is parsed with the REST of the expression inside
   the selector of its call expression: the primary has no path of its own and evaluates that inner
   expression.  The *_w functions walk down to it; such a wrapper can only end a chain. *)
Fixpoint expr_cl (e : expr) : option (list clause) :=
  match e with Expr lo => logopt_cl lo end
with logopt_cl (lo : logopt) : option (list clause) :=
  match lo with LgNone => None | LgSome l => logical_cl l end
with logical_cl (l : logical) : option (list clause) :=
  match l with
  | Logical q op next =>
      match next with
      | LgNone => match eq_clause q with Some c => Some [c] | None => equality_w q end
      | LgSome n =>
          match op with
          | LAnd => match eq_clause q with
                    | Some c => match logical_cl n with Some cs => Some (c :: cs) | None => None end
                    | None => None
                    end
          | _ => None
          end
      end
  end
with equality_w (q : equality) : option (list clause) :=
  match q with Equality c _ EqNone => comparison_w c | _ => None end
with comparison_w (c : comparison) : option (list clause) :=
  match c with Comparison u _ CmNone => unary_w u | _ => None end
with unary_w (u : unary) : option (list clause) :=
  match u with UnPrim p => primary_w p | _ => None end
with primary_w (p : primary) : option (list clause) :=
  match p with
  | Primary None None _ None _ cl ExNone None None _ => callopt_w cl
  | _ => None
  end
with callopt_w (c : callopt) : option (list clause) :=
  match c with ClSome ce => callexpr_w ce | ClNone => None end
with callexpr_w (ce : callexpr) : option (list clause) :=
  match ce with CallExpr _ _ sel => selopt_w sel end
with selopt_w (s : selopt) : option (list clause) :=
  match s with SlSome _ _ _ eo => expropt_w eo | SlNone => None end
with expropt_w (eo : expropt) : option (list clause) :=
  match eo with ExSome e => expr_cl e | ExNone => None end.

Definition click_clauses (e : expr) : option (list clause) := expr_cl e.

Definition lit_val (l : lit) : val :=
  match l with
  | LStr tok => VJ (JStr (trim_quotes tok))
  | LNum f => VJ (JFlt f)
  end.

Section Click.
  Variable parse_float : bytes -> option fv.
  Variable re_match : bytes -> bytes -> bool.
  Variable parse_time : bytes -> option Z.
  Variable b64dec : bytes -> option bytes.
  Variable parse_json : bytes -> option jv.
  Variable xml_first : bytes -> bytes -> xres.
  Variable redact_apply : jv -> bytes -> jv.

  Notation ev_expr := (eval_expr parse_float re_match parse_time b64dec parse_json xml_first redact_apply).
  Notation ev_logical := (eval_logical parse_float re_match parse_time b64dec parse_json xml_first redact_apply).
  Notation ev_equality := (eval_equality parse_float re_match parse_time b64dec parse_json xml_first redact_apply).
  Notation ev_comparison := (eval_comparison parse_float re_match parse_time b64dec parse_json xml_first redact_apply).
  Notation ev_primary := (eval_primary parse_float re_match parse_time b64dec parse_json xml_first redact_apply).
  Notation ev_model := (eval_model parse_float re_match parse_time b64dec parse_json xml_first redact_apply).

  Notation ev_unary := (eval_unary parse_float re_match parse_time b64dec parse_json xml_first redact_apply).

  Lemma unf_comparison u op next st :
    ev_comparison (Comparison u op next) st =
    (let* r := ev_unary u st in
     match r with
     | (EvCollapse _, _) => Ok r
     | (EvVal logic o, st1) =>
         match next with
         | CmNone => Ok (EvVal logic o, st1)
         | CmSome n =>
             let* r2 := ev_comparison n st1 in
             match r2 with
             | (EvCollapse _, _) => Ok r2
             | (EvVal nx o2, st2) =>
                 match comparison_op parse_float op with
                 | Some f => Ok (EvVal (vbool (f logic nx)) o2, st2)
                 | None => Panic 844
                 end
             end
         end
     end).
  Proof. reflexivity. Qed.

  Lemma unf_unary_prim p st : ev_unary (UnPrim p) st = ev_primary p st.
  Proof. reflexivity. Qed.

  Lemma unf_equality c op next st :
    ev_equality (Equality c op next) st =
    (let* r := ev_comparison c st in
     match r with
     | (EvCollapse _, _) => Ok r
     | (EvVal comp o, st1) =>
         match next with
         | EqNone => Ok (EvVal comp o, st1)
         | EqSome n =>
             let* r2 := ev_equality n st1 in
             match r2 with
             | (EvCollapse _, _) => Ok r2
             | (EvVal nx o2, st2) =>
                 match equality_op parse_float re_match op with
                 | Some f => Ok (EvVal (vbool (f comp nx)) o2, st2)
                 | None => Panic 867
                 end
             end
         end
     end).
  Proof. reflexivity. Qed.

  Lemma unf_logical e op next st :
    ev_logical (Logical e op next) st =
    (let* r := ev_equality e st in
     match r with
     | (EvCollapse _, _) => Ok r
     | (EvVal unar o, st1) =>
         let ub := bool_operand unar in
         match op, ub with
         | LAnd, false => Ok (EvVal vfalse o, st1)
         | LOr, true => Ok (EvVal vtrue o, st1)
         | _, _ =>
             match next with
             | LgNone => Ok (EvVal unar o, st1)
             | LgSome n =>
                 let* r2 := ev_logical n st1 in
                 match r2 with
                 | (EvCollapse _, _) => Ok r2
                 | (EvVal nx o2, st2) =>
                     match logical_op op with
                     | Some f => Ok (EvVal (vbool (f unar nx)) o2, st2)
                     | None => Panic 900
                     end
                 end
             end
         end
     end).
  Proof. reflexivity. Qed.

  Lemma unf_expr l st :
    ev_expr (Expr (LgSome l)) st =
    (let* r := ev_logical l st in
     match r with
     | (EvCollapse o, st') => Ok (EvVal vfalse o, st')
     | _ => Ok r
     end).
  Proof. reflexivity. Qed.

  (* the clause on a record: the path has a match and == holds between what it selects and the literal *)
  Definition clause_holds (r : jv) (c : clause) : bool :=
    match jget (fst c) r with
    | [] => false
    | res => eql parse_float re_match (value_of_result res) (lit_val (snd c))
    end.

  Lemma prim_path_eval p jp r : prim_path p = Some jp ->
    ev_primary p r = match jget jp r with
                     | [] => Ok (EvCollapse ORef, r)
                     | res => Ok (EvVal (value_of_result res) ORef, r)
                     end.
  Proof.
    destruct p as [num str rx b nl cl sb jsp re h]. cbn [prim_path].
    destruct num; [discriminate|]. destruct str; [discriminate|]. destruct b; [discriminate|].
    destruct jsp as [jp'|]; [|discriminate]. destruct h; [discriminate|]. intros H. injection H as <-.
    cbn [eval_primary]. destruct (jget jp' r) as [|x l]; [reflexivity|]. destruct cl; reflexivity.
  Qed.

  Lemma prim_lit_eval p l r : prim_lit p = Some l -> ev_primary p r = Ok (EvVal (lit_val l) ORef, r).
  Proof.
    destruct p as [num str rx b nl cl sb jsp re h]. cbn [prim_lit].
    destruct num as [f|].
    - destruct b; [discriminate|]. intros H. injection H as <-. reflexivity.
    - destruct str as [tok|]; [|discriminate]. destruct b; [discriminate|]. intros H. injection H as <-. reflexivity.
  Qed.

  Lemma cmp_single_eval c p r : cmp_single c = Some p -> ev_comparison c r = ev_primary p r.
  Proof.
    destruct c as [u op next]. cbn [cmp_single]. destruct u as [o u'|p']; [discriminate|]. destruct next; [|discriminate].
    intros H. injection H as <-. rewrite unf_comparison, unf_unary_prim.
    destruct (ev_primary p' r) as [[[v o|o] st]|e|site|]; reflexivity.
  Qed.

  (* one clause: collapses when the path has no match, else the boolean of == *)
  Lemma eq_clause_eval q c r : eq_clause q = Some c ->
    ev_equality q r = match jget (fst c) r with
                      | [] => Ok (EvCollapse ORef, r)
                      | _ => Ok (EvVal (vbool (clause_holds r c)) ORef, r)
                      end.
  Proof.
    destruct q as [c1 op next]. cbn [eq_clause]. destruct op; try discriminate. destruct next as [|[c2 op2 next2]]; [discriminate|].
    destruct next2; [|discriminate].
    destruct (cmp_single c1) as [p1|] eqn:E1; [|discriminate]. destruct (cmp_single c2) as [p2|] eqn:E2; [|discriminate].
    destruct (prim_path p1) as [jp|] eqn:Ep; [|discriminate]. destruct (prim_lit p2) as [l|] eqn:El; [|discriminate].
    intros H. injection H as <-. cbn [fst snd]. unfold clause_holds. cbn [fst snd].
    rewrite unf_equality, (cmp_single_eval _ _ _ E1), (prim_path_eval _ _ _ Ep).
    destruct (jget jp r) as [|x res] eqn:Eg; cbn [bind]; [reflexivity|].
    rewrite unf_equality, (cmp_single_eval _ _ _ E2), (prim_lit_eval _ _ _ El). cbn [bind equality_op]. reflexivity.
  Qed.

  Definition chain_post (r : jv) (cs : list clause) (x : ev) : Prop :=
    match x with
    | EvCollapse o => o = ORef /\ forallb (clause_holds r) cs = false
    | EvVal v o => o = ORef /\ bool_operand v = forallb (clause_holds r) cs
    end.
  Definition val_post (r : jv) (cs : list clause) (x : eres) : Prop :=
    exists v, x = Ok (EvVal v ORef, r) /\ bool_operand v = forallb (clause_holds r) cs.

  Notation ev_call := (eval_call parse_float re_match parse_time b64dec parse_json xml_first redact_apply).
  Notation ev_sel := (eval_sel parse_float re_match parse_time b64dec parse_json xml_first redact_apply).

  Lemma unf_expr_all lo st :
    ev_expr (Expr lo) st =
    match lo with
    | LgNone => Ok (EvVal vtrue ORef, st)
    | LgSome l => let* r := ev_logical l st in
                  match r with
                  | (EvCollapse o, st') => Ok (EvVal vfalse o, st')
                  | _ => Ok r
                  end
    end.
  Proof. destruct lo; reflexivity. Qed.

  Lemma unf_primary_w rx nl ce h st :
    ev_primary (Primary None None rx None nl (ClSome ce) ExNone None None h) st = ev_call ce st.
  Proof. reflexivity. Qed.
  Lemma unf_call i ps sel st : ev_call (CallExpr i ps sel) st = ev_sel sel st.
  Proof. reflexivity. Qed.
  Lemma unf_sel a b c e st : ev_sel (SlSome a b c (ExSome e)) st = ev_expr e st.
  Proof. reflexivity. Qed.

  (* a chain of clauses collapses or answers the conjunction; a complete click query answers the
     conjunction; record and object reference unchanged *)
  Lemma expr_cl_eval : forall e cs r, expr_cl e = Some cs -> val_post r cs (ev_expr e r)
  with logical_cl_eval : forall l cs r, logical_cl l = Some cs -> exists x, ev_logical l r = Ok (x, r) /\ chain_post r cs x
  with equality_w_eval : forall q cs r, equality_w q = Some cs -> val_post r cs (ev_equality q r)
  with comparison_w_eval : forall c cs r, comparison_w c = Some cs -> val_post r cs (ev_comparison c r)
  with unary_w_eval : forall u cs r, unary_w u = Some cs -> val_post r cs (ev_unary u r)
  with primary_w_eval : forall p cs r, primary_w p = Some cs -> val_post r cs (ev_primary p r)
  with callexpr_w_eval : forall ce cs r, callexpr_w ce = Some cs -> val_post r cs (ev_call ce r)
  with selopt_w_eval : forall s cs r, selopt_w s = Some cs -> val_post r cs (ev_sel s r).
  Proof.
    - (* expr *)
      intros e cs r H. destruct e as [lo]. cbn [expr_cl] in H. destruct lo as [|l]; cbn [logopt_cl] in H; [discriminate|].
      destruct (logical_cl_eval l cs r H) as [x [Hx Hp]]. rewrite unf_expr_all, Hx. cbn [bind].
      destruct x as [v o|o]; cbn [chain_post] in Hp; destruct Hp as [-> Hp].
      + exists v. auto.
      + exists vfalse. split; [reflexivity|]. rewrite Hp. reflexivity.
    - (* logical *)
      intros l cs r H. destruct l as [q op next]. destruct next as [|n]; cbn [logical_cl] in H.
      + destruct (eq_clause q) as [c|] eqn:Eq.
        * injection H as <-. rewrite unf_logical, (eq_clause_eval _ _ r Eq).
          destruct (jget (fst c) r) as [|x0 res] eqn:Eg; cbn [bind].
          -- eexists. split; [reflexivity|]. cbn [chain_post forallb]. unfold clause_holds. rewrite Eg. auto.
          -- cbn [bool_operand vbool].
             destruct op, (clause_holds r c) eqn:Eb; eexists; (split; [reflexivity|]);
               cbn [chain_post forallb bool_operand vbool vfalse vtrue]; rewrite ?Eb; auto.
        * destruct (equality_w_eval q cs r H) as [v [Hv Hb]]. rewrite unf_logical, Hv. cbn [bind].
          destruct op, (bool_operand v) eqn:Ev; eexists; (split; [reflexivity|]);
            cbn [chain_post bool_operand vfalse vtrue]; rewrite <- ?Hb, ?Ev; auto.
      + destruct op; try discriminate.
        destruct (eq_clause q) as [c|] eqn:Eq; [|discriminate]. destruct (logical_cl n) as [cs'|] eqn:En; [|discriminate].
        injection H as <-. rewrite unf_logical, (eq_clause_eval _ _ r Eq).
        destruct (jget (fst c) r) as [|x0 res] eqn:Eg; cbn [bind].
        * eexists. split; [reflexivity|]. cbn [chain_post forallb]. unfold clause_holds at 1. rewrite Eg. auto.
        * cbn [bool_operand vbool]. destruct (clause_holds r c) eqn:Eb.
          -- destruct (logical_cl_eval n cs' r En) as [x [Hx Hp]]. rewrite Hx. cbn [bind].
             destruct x as [v o|o]; cbn [chain_post] in Hp; destruct Hp as [-> Hp].
             ++ cbn [logical_op]. eexists. split; [reflexivity|]. cbn [chain_post forallb]. split; [reflexivity|].
                unfold op_and. rewrite Eb. cbn [bool_operand vbool andb]. exact Hp.
             ++ eexists. split; [reflexivity|]. cbn [chain_post forallb]. rewrite Eb. auto.
          -- eexists. split; [reflexivity|]. cbn [chain_post forallb bool_operand vfalse]. rewrite Eb. auto.
    - (* equality wrapper *)
      intros q cs r H. destruct q as [c op next]. cbn [equality_w] in H. destruct next; [|discriminate].
      destruct (comparison_w_eval c cs r H) as [v [Hv Hb]]. rewrite unf_equality, Hv. cbn [bind]. exists v. auto.
    - intros c cs r H. destruct c as [u op next]. cbn [comparison_w] in H. destruct next; [|discriminate].
      destruct (unary_w_eval u cs r H) as [v [Hv Hb]]. rewrite unf_comparison, Hv. cbn [bind]. exists v. auto.
    - intros u cs r H. destruct u as [o u'|p]; cbn [unary_w] in H; [discriminate|]. rewrite unf_unary_prim.
      exact (primary_w_eval p cs r H).
    - intros p cs r H. destruct p as [num str rx b nl cl sb jsp re h]. cbn [primary_w] in H.
      destruct num; [discriminate|]. destruct str; [discriminate|]. destruct b; [discriminate|].
      destruct sb; [|discriminate]. destruct jsp; [discriminate|]. destruct re; [discriminate|].
      destruct cl as [|ce]; cbn [callopt_w] in H; [discriminate|]. rewrite unf_primary_w.
      exact (callexpr_w_eval ce cs r H).
    - intros ce cs r H. destruct ce as [i ps sel]. cbn [callexpr_w] in H. rewrite unf_call. exact (selopt_w_eval sel cs r H).
    - intros s0 cs r H. destruct s0 as [|a b c eo]; cbn [selopt_w] in H; [discriminate|].
      destruct eo as [|e]; cbn [expropt_w] in H; [discriminate|]. rewrite unf_sel. exact (expr_cl_eval e cs r H).
  Qed.

  (* the evaluator model on a click-to-filter query: the conjunction of its clauses, the record unchanged *)
  Theorem click_eval e cs r : click_clauses e = Some cs -> ev_model e r = Ok (forallb (clause_holds r) cs, r).
  Proof.
    intros H. destruct (expr_cl_eval e cs r H) as [v [Hv Hb]]. unfold eval_model. rewrite Hv. cbn [bind record_of_ref].
    rewrite Hb. reflexivity.
  Qed.

  Lemma bytes_eqb_refl (s : bytes) : bytes_eqb s s = true.
  Proof.
    unfold bytes_eqb. induction s as [|c s IH]; cbn [list_eqb]; [reflexivity|]. rewrite IH, andb_true_r.
    unfold byte_eqb. destruct c; reflexivity.
  Qed.

  (* ---- a clause built from the value found at its own path holds *)
  Lemma scalar_equal_str s : scalar_equal parse_float (VJ (JStr s)) (VJ (JStr s)) = true.
  Proof. unfold scalar_equal. cbn [is_number andb string_operand]. apply bytes_eqb_refl. Qed.

  (* "%s" of a string field: the token is the value between two quotes; trim_quotes gives it back
     when the value neither starts nor ends with a quote *)
  Lemma own_string jp r s tok : jget jp r = [JStr s] -> trim_quotes tok = s -> clause_holds r (jp, LStr tok) = true.
  Proof.
    intros Hg Ht. unfold clause_holds. cbn [fst snd]. rewrite Hg. cbn [value_of_result lit_val eql]. rewrite Ht.
    apply scalar_equal_str.
  Qed.

  (* %d of an integer field: the literal is the float of the same integer *)
  Lemma own_int jp r z f : jget jp r = [JInt z] -> f_eq (f_of_Z z) f = true -> clause_holds r (jp, LNum f) = true.
  Proof.
    intros Hg Hf. unfold clause_holds. cbn [fst snd]. rewrite Hg. cbn [value_of_result lit_val eql].
    unfold scalar_equal. cbn [is_number andb float_operand]. exact Hf.
  Qed.

  (* "%s" of a formatted integer field (amqp channelMax): compared as strings *)
  Lemma own_int_as_string jp r z tok : jget jp r = [JInt z] -> trim_quotes tok = fmt_int z -> clause_holds r (jp, LStr tok) = true.
  Proof.
    intros Hg Ht. unfold clause_holds. cbn [fst snd]. rewrite Hg. cbn [value_of_result lit_val eql]. rewrite Ht.
    unfold scalar_equal. cbn [is_number andb string_operand]. apply bytes_eqb_refl.
  Qed.
End Click.

(* the quotes around an interpolated value come off again *)
Lemma trim_left_q_noq s : match s with c :: _ => byte_eqb c quote = false | [] => True end -> trim_left_q s = s.
Proof. destruct s as [|c s]; [reflexivity|]. cbn [trim_left_q]. intros ->. reflexivity. Qed.

Definition first_not_quote (s : bytes) : bool :=
  match s with c :: _ => negb (byte_eqb c quote) | [] => true end.
Definition no_edge_quote (s : bytes) : bool := first_not_quote s && first_not_quote (rev s).

Lemma trim_left_q_keep s : first_not_quote s = true -> trim_left_q s = s.
Proof. destruct s as [|c s]; [reflexivity|]. cbn [first_not_quote trim_left_q]. intros H. apply negb_true_iff in H. rewrite H. reflexivity. Qed.

Lemma byte_eqb_quote : byte_eqb quote quote = true.
Proof. reflexivity. Qed.

(* Sprintf of a template [path == (quote)%s(quote)] with s: the token the lexer hands over is s between two
   quote characters; evalPrimary's strings.Trim(token, quote) gives s back unless s itself starts or
   ends with a quote *)
Lemma trim_quotes_wrap s : no_edge_quote s = true -> trim_quotes (quote :: s ++ [quote]) = s.
Proof.
  unfold no_edge_quote. intros H. apply andb_true_iff in H as [H1 H2]. unfold trim_quotes.
  cbn [trim_left_q]. rewrite byte_eqb_quote.
  destruct s as [|c s].
  - cbn [app trim_left_q]. rewrite byte_eqb_quote. reflexivity.
  - assert (Hk : trim_left_q ((c :: s) ++ [quote]) = (c :: s) ++ [quote]).
    { apply trim_left_q_keep. cbn [app first_not_quote]. exact H1. }
    rewrite Hk, rev_app_distr. cbn [rev app trim_left_q]. rewrite byte_eqb_quote.
    change (rev s ++ [c]) with (rev (c :: s)). rewrite (trim_left_q_keep _ H2). apply rev_involutive.
Qed.

(* an edge quote is over-trimmed: the boundary of own_string (cf. the recorded finding on values that
   KFL string literals cannot carry) *)
Example trim_quotes_edge : trim_quotes (quote :: [quote; b_of_N 97] ++ [quote]) = [b_of_N 97].
Proof. reflexivity. Qed.
