(* Numeric laws of == (property C12): numerically equal numbers compare equal, and == agrees with
   >= and <= taken together. *)
Require Import V.Base.Prelude V.Kfl.Num V.Kfl.Json V.Kfl.KflAst V.Kfl.Names V.Kfl.KflOps.
Local Open Scope Z_scope.

(* ---------------------------------------------------------------- IEEE comparison facts *)
Lemma f_eq_ge_le : forall p q, f_eq p q = f_ge p q && f_le p q.
Proof. intros p q. unfold f_eq, f_ge, f_le. destruct (fcompare p q) as [[| |]|]; reflexivity. Qed.

Lemma fin_compare_refl : forall n m e, fin_compare n m e n m e = Eq.
Proof. intros. unfold fin_compare. apply Z.compare_refl. Qed.

(* a float64 as the model holds it: at most 53 significant bits *)
Definition is_f64 (f : fv) : bool :=
  match f with FFin _ m _ => (m <? 2 ^ 53)%N | _ => true end.

Lemma sgn_abs : forall a, sgn_m (a <? 0) (Z.abs_N a) = a.
Proof.
  intro a. unfold sgn_m. rewrite N2Z.inj_abs_N.
  destruct (a <? 0) eqn:H; [apply Z.ltb_lt in H | apply Z.ltb_ge in H]; lia.
Qed.

(* ---------------------------------------------------------------- float64(int64) is exact on representable integers *)
Lemma rne_shift_exact : forall q k, (0 < k)%N -> rne_shift (q * 2 ^ k) k = q.
Proof.
  intros q k Hk. unfold rne_shift.
  assert (Hq : N.shiftr (q * 2 ^ k) k = q).
  { rewrite N.shiftr_div_pow2. apply N.div_mul. apply N.pow_nonzero. discriminate. }
  rewrite Hq. rewrite N.shiftl_mul_pow2. rewrite N.sub_diag.
  destruct (k =? 0)%N eqn:Hk0; [apply N.eqb_eq in Hk0; lia|].
  assert (Hh : (0 <? N.shiftl 1 (k - 1))%N = true).
  { apply N.ltb_lt. rewrite N.shiftl_mul_pow2. rewrite N.mul_1_l. apply N.neq_0_lt_0. apply N.pow_nonzero. discriminate. }
  rewrite Hh. reflexivity.
Qed.

(* if the integer a equals the float64 value (-1)^n m 2^e exactly then float64(a) compares equal to it *)
Lemma f_of_Z_exact : forall a n m e,
    (m < 2 ^ 53)%N ->
    fin_compare (a <? 0) (Z.abs_N a) 0 n m e = Eq ->
    fcompare (f_of_Z a) (FFin n m e) = Some Eq.
Proof.
  intros a n m e Hm Hcmp. unfold f_of_Z.
  destruct (Z.abs_N a <? 2 ^ 53)%N eqn:Hsmall.
  - cbn [fcompare]. rewrite Hcmp. reflexivity.
  - apply N.ltb_ge in Hsmall. cbn [fcompare]. f_equal.
    set (na := Z.abs_N a) in *.
    (* from the exact equality: na = m * 2^e with e >= 1 *)
    unfold fin_compare in Hcmp. apply Z.compare_eq in Hcmp. rewrite sgn_abs in Hcmp.
    assert (Hna : Z.of_N na = Z.abs a) by (unfold na; apply N2Z.inj_abs_N).
    assert (H53 : 2 ^ 53 <= Z.abs a).
    { rewrite <- Hna. change (2 ^ 53) with (Z.of_N (2 ^ 53)%N). apply N2Z.inj_le. exact Hsmall. }
    assert (Hmz : Z.of_N m < 2 ^ 53).
    { change (2 ^ 53) with (Z.of_N (2 ^ 53)%N). apply N2Z.inj_lt. exact Hm. }
    assert (He : 1 <= e).
    { destruct (Z.le_gt_cases 1 e) as [|Hlt]; [assumption|exfalso].
      assert (He0 : e <= 0) by lia.
      rewrite Z.min_r in Hcmp by lia.
      replace (e - e) with 0 in Hcmp by lia. rewrite Z.pow_0_r, Z.mul_1_r in Hcmp.
      assert (Hp : 1 <= 2 ^ (0 - e)).
      { change 1 with (2 ^ 0). apply Z.pow_le_mono_r; lia. }
      assert (Habs : Z.abs (a * 2 ^ (0 - e)) = Z.abs (sgn_m n m)) by (rewrite Hcmp; reflexivity).
      rewrite Z.abs_mul in Habs. rewrite (Z.abs_eq (2 ^ (0 - e))) in Habs by lia.
      assert (Hsm : Z.abs (sgn_m n m) = Z.of_N m) by (unfold sgn_m; destruct n; lia).
      rewrite Hsm in Habs. nia. }
    rewrite Z.min_l in Hcmp by lia. rewrite !Z.sub_0_r in Hcmp. rewrite Z.pow_0_r, Z.mul_1_r in Hcmp.
    (* |a| = m * 2^e *)
    assert (Habs : Z.abs a = Z.of_N m * 2 ^ e).
    { rewrite Hcmp. rewrite Z.abs_mul. rewrite (Z.abs_eq (2 ^ e)) by (apply Z.pow_nonneg; lia).
      f_equal. unfold sgn_m; destruct n; lia. }
    assert (Hmpos : (0 < m)%N).
    { apply N.neq_0_lt_0. intro Hz. subst m. cbn in Habs. lia. }
    set (en := Z.to_N e).
    assert (Hen : Z.of_N en = e) by (unfold en; apply Z2N.id; lia).
    assert (HnaN : na = (m * 2 ^ en)%N).
    { apply N2Z.inj. rewrite Hna, Habs. rewrite N2Z.inj_mul, N2Z.inj_pow. rewrite Hen. reflexivity. }
    assert (Hlog : N.log2 na = (N.log2 m + en)%N).
    { rewrite HnaN. rewrite N.log2_mul_pow2; [apply N.add_comm | exact Hmpos | apply N.le_0_l]. }
    assert (Hlm : (N.log2 m <= 52)%N).
    { assert (N.log2 m < 53)%N; [|lia]. apply N.log2_lt_pow2; [exact Hmpos|exact Hm]. }
    assert (Hlna : (53 <= N.log2 na)%N).
    { apply N.log2_le_pow2; [unfold na in *; lia|exact Hsmall]. }
    set (k := (N.log2 na - 52)%N).
    assert (Hk1 : (0 < k)%N) by (unfold k; lia).
    assert (Hke : (k <= en)%N) by (unfold k; lia).
    assert (Hsplit : na = (m * 2 ^ (en - k) * 2 ^ k)%N).
    { rewrite HnaN. rewrite <- N.mul_assoc. rewrite <- N.pow_add_r. f_equal. f_equal. lia. }
    rewrite Hsplit at 1. rewrite rne_shift_exact by exact Hk1.
    (* compare (-1)^neg q 2^k with (-1)^n m 2^e, q = m 2^(e-k) *)
    unfold fin_compare.
    assert (Hkz : Z.of_N k <= e) by (rewrite <- Hen; apply N2Z.inj_le; exact Hke).
    rewrite Z.min_l by lia. rewrite Z.sub_diag, Z.pow_0_r, Z.mul_1_r.
    apply Z.compare_eq_iff.
    assert (Hq : Z.of_N (m * 2 ^ (en - k)) = Z.of_N m * 2 ^ (e - Z.of_N k)).
    { rewrite N2Z.inj_mul, N2Z.inj_pow, N2Z.inj_sub by exact Hke. rewrite Hen. reflexivity. }
    (* signs: a and sgn_m n m have the same sign because a = sgn_m n m * 2^e *)
    assert (Hpow : 0 < 2 ^ e) by (apply Z.pow_pos_nonneg; lia).
    assert (Hpow2 : 0 < 2 ^ (e - Z.of_N k)) by (apply Z.pow_pos_nonneg; lia).
    unfold sgn_m in *. rewrite Hq.
    destruct (a <? 0) eqn:Ha; [apply Z.ltb_lt in Ha | apply Z.ltb_ge in Ha]; destruct n; try nia.
Qed.

Section NumLaws.
  Variable parse_float : bytes -> option fv.
  Variable re_match : bytes -> bytes -> bool.

  Notation eql := (KflOps.eql parse_float re_match).
  Notation geq := (KflOps.geq parse_float).
  Notation leq := (KflOps.leq parse_float).
  Notation float_operand := (KflOps.float_operand parse_float).

  (* == on two numbers is IEEE equality of their float64 values *)
  Lemma eql_numbers : forall x y, is_number x = true -> is_number y = true ->
      eql x y = f_eq (float_operand x) (float_operand y).
  Proof.
    intros x y Hx Hy.
    destruct x as [[| | | | | |]| | |]; try discriminate;
      destruct y as [[| | | | | |]| | |]; try discriminate; reflexivity.
  Qed.

  (* C12: == agrees with >= and <= taken together, for all numbers (no magnitude bound) *)
  Theorem eq_agrees_ge_le : forall x y, is_number x = true -> is_number y = true ->
      eql x y = geq x y && leq x y.
  Proof.
    intros x y Hx Hy. rewrite eql_numbers by assumption.
    destruct x as [[| | | | | |]| | |]; try discriminate;
      destruct y as [[| | | | | |]| | |]; try discriminate; apply f_eq_ge_le.
  Qed.

  (* the two numbers denote the same real number (or the same infinity) *)
  Definition exact_equal (x y : jv) : bool :=
    match x, y with
    | JInt a, JInt b => Z.eqb a b
    | JInt a, JFlt (FFin n m e) => match fin_compare (a <? 0) (Z.abs_N a) 0 n m e with Eq => true | _ => false end
    | JFlt (FFin n m e), JInt a => match fin_compare n m e (a <? 0) (Z.abs_N a) 0 with Eq => true | _ => false end
    | JFlt f, JFlt g => f_eq f g
    | _, _ => false
    end.

  Definition f64_number (x : jv) : bool :=
    match x with JInt _ => true | JFlt f => is_f64 f | _ => false end.

  Lemma fin_compare_sym_eq : forall n1 m1 e1 n2 m2 e2,
      fin_compare n1 m1 e1 n2 m2 e2 = Eq -> fin_compare n2 m2 e2 n1 m1 e1 = Eq.
  Proof.
    intros. unfold fin_compare in *. rewrite Z.min_comm. apply Z.compare_eq_iff. apply Z.compare_eq_iff in H. auto.
  Qed.

  Lemma fcompare_sym_eq : forall p q, fcompare p q = Some Eq -> fcompare q p = Some Eq.
  Proof.
    intros p q H. destruct p as [|a|n1 m1 e1], q as [|b|n2 m2 e2]; cbn [fcompare] in *; try discriminate.
    - destruct a, b; cbn in *; try discriminate; reflexivity.
    - destruct a; discriminate.
    - destruct b; discriminate.
    - injection H as H1. f_equal. apply fin_compare_sym_eq. exact H1.
  Qed.

  (* C12: numbers that are numerically equal compare equal *)
  Theorem num_eq_compare_equal : forall x y,
      f64_number x = true -> f64_number y = true -> exact_equal x y = true -> eql (VJ x) (VJ y) = true.
  Proof.
    intros x y Hx Hy H.
    assert (Hnx : is_number (VJ x) = true) by (destruct x; try discriminate; reflexivity).
    assert (Hny : is_number (VJ y) = true) by (destruct y; try discriminate; reflexivity).
    rewrite eql_numbers by assumption. unfold f_eq.
    destruct x as [| |a|f| | |]; try discriminate; destruct y as [| |b|g| | |]; try discriminate; cbn [exact_equal] in H.
    - apply Z.eqb_eq in H. subst b. cbn [KflOps.float_operand].
      assert (Hc : fcompare (f_of_Z a) (f_of_Z a) = Some Eq).
      { unfold f_of_Z. destruct (Z.abs_N a <? 2 ^ 53)%N; cbn [fcompare]; rewrite fin_compare_refl; reflexivity. }
      rewrite Hc. reflexivity.
    - destruct g as [|s|n m e]; try discriminate. cbn [f64_number is_f64] in Hy. apply N.ltb_lt in Hy.
      cbn [KflOps.float_operand].
      destruct (fin_compare (a <? 0) (Z.abs_N a) 0 n m e) eqn:Hc; try discriminate.
      rewrite (f_of_Z_exact a n m e Hy Hc). reflexivity.
    - destruct f as [|s|n m e]; try discriminate. cbn [f64_number is_f64] in Hx. apply N.ltb_lt in Hx.
      cbn [KflOps.float_operand].
      destruct (fin_compare n m e (b <? 0) (Z.abs_N b) 0) eqn:Hc; try discriminate.
      apply fin_compare_sym_eq in Hc.
      rewrite (fcompare_sym_eq _ _ (f_of_Z_exact b n m e Hx Hc)). reflexivity.
    - cbn [KflOps.float_operand]. unfold f_eq in H. destruct f; exact H.
  Qed.

End NumLaws.
