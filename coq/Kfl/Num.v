(* Exact arithmetic on float64 values as far as the KFL evaluator uses it
   (eval.go float64Operand / stringOperand / boolOperand, precompute.go limit and time helpers):
   IEEE comparison, int64 -> float64 rounding, negation, truncation to an integer, and
   strconv.FormatFloat(x, 'g', 6, 64).  A float64 is kept as its exact value
   (-1)^neg * m * 2^e (or an infinity / NaN); nothing here is approximate. *)
Require Import V.Base.Prelude.
Local Open Scope Z_scope.

Inductive fv :=
| FNan
| FInf (neg : bool)
| FFin (neg : bool) (m : N) (e : Z).

Definition fv_eqb (x y : fv) : bool :=
  match x, y with
  | FNan, FNan => true
  | FInf a, FInf b => Bool.eqb a b
  | FFin a m e, FFin b m' e' => Bool.eqb a b && N.eqb m m' && Z.eqb e e'
  | _, _ => false
  end.

(* signed mantissa *)
Definition sgn_m (neg : bool) (m : N) : Z := if neg then - Z.of_N m else Z.of_N m.

(* exact comparison of two finite values: scale both to the smaller exponent *)
Definition fin_compare (n1 : bool) (m1 : N) (e1 : Z) (n2 : bool) (m2 : N) (e2 : Z) : comparison :=
  let e := Z.min e1 e2 in
  Z.compare (sgn_m n1 m1 * 2 ^ (e1 - e)) (sgn_m n2 m2 * 2 ^ (e2 - e)).

(* IEEE-754 comparison: None = unordered (a NaN is involved); +0 = -0 *)
Definition fcompare (x y : fv) : option comparison :=
  match x, y with
  | FNan, _ | _, FNan => None
  | FInf a, FInf b => Some (if Bool.eqb a b then Eq else if a then Lt else Gt)
  | FInf a, FFin _ _ _ => Some (if a then Lt else Gt)
  | FFin _ _ _, FInf b => Some (if b then Gt else Lt)
  | FFin n1 m1 e1, FFin n2 m2 e2 => Some (fin_compare n1 m1 e1 n2 m2 e2)
  end.

Definition f_eq (x y : fv) : bool := match fcompare x y with Some Eq => true | _ => false end.
Definition f_lt (x y : fv) : bool := match fcompare x y with Some Lt => true | _ => false end.
Definition f_gt (x y : fv) : bool := match fcompare x y with Some Gt => true | _ => false end.
Definition f_le (x y : fv) : bool := match fcompare x y with Some Lt | Some Eq => true | _ => false end.
Definition f_ge (x y : fv) : bool := match fcompare x y with Some Gt | Some Eq => true | _ => false end.

Definition fzero : fv := FFin false 0%N 0.
Definition fone : fv := FFin false 1%N 0.

(* Go: -x *)
Definition f_neg (x : fv) : fv :=
  match x with
  | FNan => FNan
  | FInf a => FInf (negb a)
  | FFin a m e => FFin (negb a) m e
  end.

(* ---------------------------------------------------------------- int64 -> float64 *)
(* round n / 2^k to the nearest integer, ties to even (k >= 0) *)
Definition rne_shift (n : N) (k : N) : N :=
  let q := N.shiftr n k in
  let r := (n - N.shiftl q k)%N in
  let half := N.shiftl 1 (k - 1) in
  if (k =? 0)%N then n
  else if (r <? half)%N then q
  else if (half <? r)%N then (q + 1)%N
  else if N.even q then q else (q + 1)%N.

(* float64(z) for an integer z: exact below 2^53, otherwise rounded to 53 significant bits *)
Definition f_of_Z (z : Z) : fv :=
  let neg := z <? 0 in
  let n := Z.abs_N z in
  if (n <? 2 ^ 53)%N then FFin neg n 0
  else
    let k := (N.log2 n - 52)%N in
    FFin neg (rne_shift n k) (Z.of_N k).

(* Go int64 wrap-around (two's complement) *)
Definition wrap64 (z : Z) : Z :=
  let r := z mod 2 ^ 64 in if r <? 2 ^ 63 then r else r - 2 ^ 64.

(* truncation toward zero of a finite value *)
Definition f_trunc (x : fv) : option Z :=
  match x with
  | FFin neg m e =>
      let a := if 0 <=? e then Z.of_N m * 2 ^ e else Z.of_N m / 2 ^ (- e) in
      Some (if neg then - a else a)
  | _ => None
  end.

(* ---------------------------------------------------------------- decimal rendering *)
Definition digit_byte (d : Z) : byte := b_of_N (48 + Z.to_N d).

(* the decimal digits of n >= 0, most significant first ("0" for 0); fuel = number of bits *)
Fixpoint digits_fuel (fuel : nat) (n : Z) (acc : bytes) : bytes :=
  match fuel with
  | O => acc
  | S f => if n <? 10 then digit_byte n :: acc
           else digits_fuel f (n / 10) (digit_byte (n mod 10) :: acc)
  end.
Definition digits_of (n : Z) : bytes := digits_fuel (S (Z.to_nat (Z.log2 n))) n [].

(* strconv.FormatInt(z, 10) *)
Definition fmt_int (z : Z) : bytes :=
  if z <? 0 then b_of_N 45 :: digits_of (- z) else digits_of z.

(* round num/den (both > 0) to the nearest integer, ties to even *)
Definition rne_div (num den : Z) : Z :=
  let q := num / den in
  let r := num mod den in
  if 2 * r <? den then q
  else if den <? 2 * r then q + 1
  else if Z.even q then q else q + 1.

(* value m*2^e (m > 0) scaled by 10^(-s): returns (numerator, denominator) of m*2^e / 10^s *)
Definition scaled (m : Z) (e s : Z) : Z * Z :=
  let num := m * (if 0 <=? e then 2 ^ e else 1) * (if s <? 0 then 10 ^ (- s) else 1) in
  let den := (if e <? 0 then 2 ^ (- e) else 1) * (if 0 <=? s then 10 ^ s else 1) in
  (num, den).

(* decimal exponent X with 10^X <= m*2^e < 10^(X+1): estimate by log2, then adjust *)
Definition ge_pow10 (m e x : Z) : bool := let '(n, d) := scaled m e x in d <=? n.   (* m*2^e >= 10^x *)
Fixpoint adjust_up (fuel : nat) (m e x : Z) : Z :=
  match fuel with O => x | S f => if ge_pow10 m e (x + 1) then adjust_up f m e (x + 1) else x end.
Fixpoint adjust_down (fuel : nat) (m e x : Z) : Z :=
  match fuel with O => x | S f => if ge_pow10 m e x then x else adjust_down f m e (x - 1) end.
Definition dec_exp (m e : Z) : Z :=
  let x0 := ((Z.log2 m + e) * 30103) / 100000 in
  adjust_up 3 m e (adjust_down 3 m e x0).

Fixpoint strip_zeros_rev (l : bytes) : bytes :=    (* on a reversed digit list *)
  match l with
  | b :: r => if N.eqb (b2n b) 48 then strip_zeros_rev r else l
  | [] => []
  end.
Definition strip_trailing_zeros (l : bytes) : bytes := rev (strip_zeros_rev (rev l)).

Fixpoint zeros (n : nat) : bytes := match n with O => [] | S k => b_of_N 48 :: zeros k end.

Definition ch (n : N) : byte := b_of_N n.

(* the 'g' format with precision 6: digs = significant digits without trailing zeros (nd of them,
   at most 6), dp = position of the decimal point relative to the first digit (value = 0.d1d2.. * 10^dp) *)
Definition fmt_g_digits (neg : bool) (digs : bytes) (dp : Z) : bytes :=
  let nd := Z.of_nat (length digs) in
  let eprec := if (nd <? 6) && (dp <=? nd) then nd else 6 in
  let x := dp - 1 in
  let sign := if neg then [ch 45] else [] in
  if (x <? -4) || (eprec <=? x) then
    (* %e: d.ddd e+XX, at least two exponent digits *)
    let first := match digs with d :: _ => [d] | [] => [ch 48] end in
    let rest := match digs with _ :: r => r | [] => [] end in
    let frac := match rest with [] => [] | _ => ch 46 :: rest end in
    let ax := Z.abs x in
    let ex := (if ax <? 10 then [ch 48] else []) ++ digits_of ax in
    sign ++ first ++ frac ++ [ch 101; if x <? 0 then ch 45 else ch 43] ++ ex
  else if dp <=? 0 then
    (* 0.000ddd *)
    sign ++ [ch 48] ++ (match digs with [] => [] | _ => ch 46 :: zeros (Z.to_nat (- dp)) ++ digs end)
  else
    let ip := firstn (Z.to_nat dp) digs in
    let ipad := zeros (Z.to_nat dp - length ip) in
    let fp := skipn (Z.to_nat dp) digs in
    sign ++ ip ++ ipad ++ (match fp with [] => [] | _ => ch 46 :: fp end).

Definition str_of (s : list N) : bytes := map b_of_N s.

(* strconv.FormatFloat(x, 'g', 6, 64) *)
Definition fmt_g6 (x : fv) : bytes :=
  match x with
  | FNan => str_of [78; 97; 78]%N                         (* NaN *)
  | FInf false => str_of [43; 73; 110; 102]%N             (* +Inf *)
  | FInf true => str_of [45; 73; 110; 102]%N              (* -Inf *)
  | FFin neg 0%N _ => fmt_g_digits neg [] 0
  | FFin neg m e =>
      let mz := Z.of_N m in
      let x := dec_exp mz e in
      let '(num, den) := scaled mz e (x - 5) in
      let d := rne_div num den in                          (* 6 digits, or 1000000 after rounding up *)
      let '(d, x) := if 1000000 <=? d then (100000, x + 1) else (d, x) in
      fmt_g_digits neg (strip_trailing_zeros (digits_of d)) (x + 1)
  end.

(* the same float64 value and sign (the harness writes mantissas without trailing zero bits, the
   model's conversions do not normalise): used by the correspondence files only *)
Definition fv_same (x y : fv) : bool :=
  match x, y with
  | FNan, FNan => true
  | FInf a, FInf b => Bool.eqb a b
  | FFin a m e, FFin b m' e' => Bool.eqb a b && match fin_compare a m e b m' e' with Eq => true | _ => false end
  | _, _ => false
  end.
