(* jp.Expr.Get of ojg v1.14.5 (jp/get.go) for the fragments the KFL code can build:
   Root, Child, Nth (negative = from the end), Wildcard, Descent, Bracket/At.  Get is set valued and
   returns the matches in the order in which ojg's explicit stack visits them: document order for
   arrays; for the members of an object Go's map order (unspecified) - the model uses the order of
   the association list.  A non-final Child / Nth / Wildcard continues only into containers;
   Descent visits the containers below a node before the node itself (post-order). *)
Require Import V.Base.Prelude V.Kfl.Num V.Kfl.Json V.Kfl.KflAst.
Local Open Scope Z_scope.

Definition children (v : jv) : list jv :=
  match v with
  | JArr l => l
  | JObj l => map snd l
  | _ => []
  end.

(* the containers at and below v, children before parents *)
Fixpoint jdescend (v : jv) : list jv :=
  match v with
  | JArr l => flat_map jdescend l ++ [v]
  | JObj l => flat_map (fun kv => match kv with (_, x) => jdescend x end) l ++ [v]
  | _ => []
  end.

(* Descent as the final fragment: the children of every visited container, in visiting order *)
Fixpoint jdescend_last (v : jv) : list jv :=
  match v with
  | JArr l => l ++ flat_map jdescend_last l
  | JObj l => map snd l ++ flat_map (fun kv => match kv with (_, x) => jdescend_last x end) l
  | _ => []
  end.

Definition nth_z (l : list jv) (i : Z) : option jv :=
  let n := Z.of_nat (length l) in
  let i' := if i <? 0 then n + i else i in
  if (0 <=? i') && (i' <? n) then nth_error l (Z.to_nat i') else None.

(* one fragment applied to the node cur; last = it is the final fragment of the expression *)
Definition frag_step (f : frag) (last : bool) (root cur : jv) : list jv :=
  match f with
  | FRoot => [root]
  | FChild k => match cur with
                | JObj l => match assoc_get k l with Some v => [v] | None => [] end
                | _ => []
                end
  | FNth i => match cur with
              | JArr l => match nth_z l i with Some v => [v] | None => [] end
              | _ => []
              end
  | FWild => children cur
  | FDescent => if last then (if is_container cur then jdescend_last cur ++ [cur] else [])
                else jdescend cur
  | FBracket | FAt => [cur]
  | FOther => []
  end.

(* fragments after which only containers are followed *)
Definition frag_filters (f : frag) : bool :=
  match f with FChild _ | FNth _ | FWild => true | _ => false end.

Fixpoint jget_from (fs : jpath) (root cur : jv) : list jv :=
  match fs with
  | [] => []
  | f :: rest =>
      match rest with
      | [] => frag_step f true root cur
      | _ :: _ =>
          let nexts := frag_step f false root cur in
          flat_map (jget_from rest root) (if frag_filters f then filter is_container nexts else nexts)
      end
  end.

(* x.Get(data) *)
Definition jget (p : jpath) (data : jv) : list jv := jget_from p data data.
