(* Precompute on the model never panics (C13, precompute part): for every tree of the shape the parser
   produces (operators from the tables, every call has its identifier, parameters carry their
   expression), every prepend / json-helper path and every behaviour of the libraries. *)
Require Import V.Base.Prelude V.Kfl.Num V.Kfl.Json V.Kfl.KflAst V.Kfl.Names V.Kfl.JPath V.Kfl.KflOps V.Kfl.KflEval
  V.Kfl.KflEvalEq V.Kfl.KflWf V.Kfl.KflTotal V.Kfl.KflSemOps V.Kfl.KflPre.
Local Open Scope Z_scope.

Definition jhp_ok (jhp : bytes) : Prop :=
  jhp = [] \/ last_segment jhp = n_json \/ last_segment jhp = n_xml.

Section PreProofs.
  Variable parse_float : bytes -> option fv.
  Variable re_match : bytes -> bytes -> bool.
  Variable parse_time : bytes -> option Z.
  Variable b64dec : bytes -> option bytes.
  Variable parse_json : bytes -> option jv.
  Variable xml_first : bytes -> bytes -> xres.
  Variable redact_apply : jv -> bytes -> jv.
  Variable parse_path : bytes -> option (jpath * bytes).
  Variable re_compiles : bytes -> bool.
  Variable now_ns : Z.
  Variable uint64_of : fv -> N.

  Notation p_expr := (pre_expr parse_float re_match parse_time b64dec parse_json xml_first redact_apply parse_path re_compiles now_ns uint64_of).
  Notation p_logical := (pre_logical parse_float re_match parse_time b64dec parse_json xml_first redact_apply parse_path re_compiles now_ns uint64_of).
  Notation p_equality := (pre_equality parse_float re_match parse_time b64dec parse_json xml_first redact_apply parse_path re_compiles now_ns uint64_of).
  Notation p_comparison := (pre_comparison parse_float re_match parse_time b64dec parse_json xml_first redact_apply parse_path re_compiles now_ns uint64_of).
  Notation p_unary := (pre_unary parse_float re_match parse_time b64dec parse_json xml_first redact_apply parse_path re_compiles now_ns uint64_of).
  Notation p_primary := (pre_primary parse_float re_match parse_time b64dec parse_json xml_first redact_apply parse_path re_compiles now_ns uint64_of).
  Notation p_call := (pre_call parse_float re_match parse_time b64dec parse_json xml_first redact_apply parse_path re_compiles now_ns uint64_of).
  Notation fin_call := (finish_call parse_float re_match parse_time b64dec parse_json xml_first redact_apply parse_path now_ns uint64_of).
  Notation ev_expr := (eval_expr parse_float re_match parse_time b64dec parse_json xml_first redact_apply).

  (* ---------------------------------------------------------------- unfolding equations *)
  Lemma p_expr_none : forall pp jhp, p_expr (Expr LgNone) pp jhp = Ok (Expr LgNone, prop0, false).
  Proof. reflexivity. Qed.
  Lemma p_expr_some : forall l pp jhp,
      p_expr (Expr (LgSome l)) pp jhp =
      (let* r := p_logical l pp jhp in let '(l', p, err) := r in Ok (Expr (LgSome l'), p, err)).
  Proof. reflexivity. Qed.
  Lemma p_logical_eq : forall e op next pp jhp,
      p_logical (Logical e op next) pp jhp =
      (let* r := p_equality e pp jhp in
       let '(e', p, err) := r in
       match next with
       | LgNone => Ok (Logical e' op LgNone, p, err)
       | LgSome n =>
           let* r2 := p_logical n pp jhp in
           let '(n', p2, err2) := r2 in
           Ok (Logical e' op (LgSome n'), backpropagate p p2, err2)
       end).
  Proof. reflexivity. Qed.
  Lemma p_equality_eq : forall c op next pp jhp,
      p_equality (Equality c op next) pp jhp =
      (let* r := p_comparison c pp jhp in
       let '(c', p, err) := r in
       match next with
       | EqNone => Ok (Equality c' op EqNone, p, err)
       | EqSome n =>
           let* r2 := p_equality n pp jhp in
           let '(n', p2, err2) := r2 in
           Ok (Equality c' op (EqSome n'), backpropagate p p2, err2)
       end).
  Proof. reflexivity. Qed.
  Lemma p_comparison_eq : forall u op next pp jhp,
      p_comparison (Comparison u op next) pp jhp =
      (let* r := p_unary u pp jhp in
       let '(u', p, err) := r in
       match next with
       | CmNone => Ok (Comparison u' op CmNone, p, err)
       | CmSome n =>
           let* r2 := p_comparison n pp jhp in
           let '(n', p2, err2) := r2 in
           Ok (Comparison u' op (CmSome n'), backpropagate p p2, err2)
       end).
  Proof. reflexivity. Qed.
  Lemma p_unary_op : forall op u pp jhp,
      p_unary (UnOp op u) pp jhp = (let* r := p_unary u pp jhp in let '(u'', p, err) := r in Ok (UnOp op u'', p, err)).
  Proof. reflexivity. Qed.
  Lemma p_unary_prim : forall pr pp jhp,
      p_unary (UnPrim pr) pp jhp =
      (let* r := p_primary pr pp jhp in let '(pr', p, err) := r in Ok (UnPrim pr', backpropagate prop0 p, err)).
  Proof. reflexivity. Qed.
  Lemma p_primary_eq : forall num str regex bool_ nil_ call sub jsonpath regexp helper pp jhp,
      p_primary (Primary num str regex bool_ nil_ call sub jsonpath regexp helper) pp jhp =
      match sub with
      | ExSome e =>
          let* r := p_expr e pp jhp in
          let '(e', p, err) := r in
          Ok (Primary num str regex bool_ nil_ call (ExSome e') jsonpath regexp helper, p, err)
      | ExNone =>
          match call with
          | ClSome c =>
              let* r := p_call c pp jhp in
              let '(c', jp, h, p, err) := r in
              Ok (Primary num str regex bool_ nil_ (ClSome c') ExNone jp regexp h, p, err)
          | ClNone =>
              match regex with
              | Some tok =>
                  let src := trim_quotes tok in
                  if re_compiles src then Ok (Primary num str regex bool_ nil_ ClNone ExNone jsonpath (Some src) helper, prop0, false)
                  else Ok (Primary num str regex bool_ nil_ ClNone ExNone jsonpath None helper, prop0, true)
              | None => Ok (Primary num str regex bool_ nil_ call sub jsonpath regexp helper, prop0, false)
              end
          end
      end.
  Proof. intros. destruct sub; [destruct call; [destruct regex|]|]; reflexivity. Qed.

  Lemma p_call_eq : forall ident ps sel pp jhp,
      p_call (CallExpr ident ps sel) pp jhp =
      match ps with
      | PsList _ =>
          match ident with
          | None => Panic 127
          | Some id => fin_call ident ps sel id 0%N pp jhp None
          end
      | PsAbsent =>
          let path0 := match ident with Some id => id | None => [] end in
          match sel with
          | SlNone => fin_call ident ps sel path0 0%N pp jhp None
          | SlSome index key rd se =>
              let potential := last_segment path0 in
              let used := bytes_eqb potential n_json || bytes_eqb potential n_xml in
              let helper0 := if used then Some potential else None in
              let jhp1 := if used then path0 else jhp in
              let selector := match index with
                              | Some i => Some (index_selector i)
                              | None => match key with Some k => Some (key_selector k) | None => None end
                              end in
              let '(ps1, path1) :=
                  match selector with
                  | None => (ps, path0)
                  | Some s =>
                      if used then (match parse_path s with Some p => PsList (path_param p) | None => ps end, s)
                      else (ps, path0 ++ s)
                  end in
              match se with
              | ExSome e =>
                  let* r := p_expr e (if used then [] else path1) jhp1 in
                  let '(e', p, err) := r in
                  Ok (CallExpr ident ps1 (SlSome index key rd (ExSome e')), None, helper0,
                      {| p_path := path1; p_limit := p_limit p |}, err)
              | ExNone =>
                  let path2 := match rd with
                               | Some name => if used then [dot; dot] ++ name else path1
                               | None => path1
                               end in
                  fin_call ident ps1 sel path2 0%N pp jhp1 helper0
              end
          end
      end.
  Proof. reflexivity. Qed.

  (* ---------------------------------------------------------------- finish_call *)
  (* the parameters handed to finish_call: the parsed ones, or a compiled path written by the selector branch *)
  Definition params_fine (ps : paramsopt) (jhp : bytes) : Prop :=
    (shape_paramsopt ps = true /\ surf_paramsopt ps = true) \/ (jhp <> [] /\ exists p, ps = PsList (path_param p)).

  Lemma json_not_compile_time : str_contains compile_time_helpers n_json = false /\ str_contains compile_time_helpers n_xml = false.
  Proof. split; reflexivity. Qed.

  Notation fin_tail := (finish_tail parse_float re_match parse_time b64dec parse_json xml_first redact_apply parse_path now_ns uint64_of).

  (* the parameters are the parsed ones, or the helper is not a compile-time helper *)
  Lemma finish_tail_returns : forall ident ps sel path limit0 helper0,
      (shape_paramsopt ps = true /\ surf_paramsopt ps = true) \/
      (str_contains compile_time_helpers (last_segment path) = false /\ bytes_eqb (last_segment path) n_now = false) ->
      returns (fin_tail ident ps sel path limit0 helper0).
  Proof.
    intros ident ps sel path limit0 helper0 Hps. unfold finish_tail. cbv zeta.
    destruct ps as [|l].
    - destruct (bytes_eqb _ n_now); eexists; reflexivity.
    - destruct (str_contains compile_time_helpers (last_segment path)) eqn:Hct; [|eexists; reflexivity].
      destruct Hps as [[Hsh Hsf]|[Hn _]]; [|discriminate].
      destruct l as [|[tag pe jpth ts tns] rest]; [eexists; reflexivity|].
      cbn [shape_paramsopt shape_params shape_param] in Hsh. cbn [surf_paramsopt surf_params surf_param] in Hsf.
      apply andb_prop in Hsh. destruct Hsh as [Hsh _]. apply andb_prop in Hsh. destruct Hsh as [Hshe _].
      apply andb_prop in Hsf. destruct Hsf as [Hsf _]. apply andb_prop in Hsf. destruct Hsf as [_ Hsfe].
      destruct pe as [|e]; [discriminate|].
      cbn [shape_expropt] in Hshe.
      destruct (eval_expr_total parse_float re_match parse_time b64dec parse_json xml_first redact_apply e JNull Hshe) as [[r st] Hr].
      rewrite Hr. cbn [bind].
      destruct (bytes_eqb _ n_limit); [eexists; reflexivity|].
      destruct (unit_ns _); eexists; reflexivity.
  Qed.

  Lemma finish_call_returns : forall ident ps sel path limit0 pp jhp helper0,
      jhp_ok jhp -> params_fine ps jhp -> returns (fin_call ident ps sel path limit0 pp jhp helper0).
  Proof.
    intros ident ps sel path limit0 pp jhp helper0 Hj Hps. unfold finish_call. cbv zeta.
    destruct jhp as [|b jr] eqn:Ejhp.
    - destruct Hps as [Hps|[Hne _]]; [|contradiction]. apply finish_tail_returns. left. exact Hps.
    - apply finish_tail_returns. right.
      destruct Hj as [Hj|[Hj|Hj]]; [discriminate| |]; rewrite Hj; split; reflexivity.
  Qed.

  (* ---------------------------------------------------------------- the traversal *)
  Definition ok_in (sh sf : bool) : Prop := sh = true /\ sf = true.

  Definition Q_expr (e : expr) := forall pp jhp, jhp_ok jhp -> shape_expr e = true -> surf_expr e = true -> returns (p_expr e pp jhp).
  Definition Q_logical (l : logical) := forall pp jhp, jhp_ok jhp -> shape_logical l = true -> surf_logical l = true -> returns (p_logical l pp jhp).
  Definition Q_logopt (l : logopt) := match l with LgNone => True | LgSome x => Q_logical x end.
  Definition Q_equality (q : equality) := forall pp jhp, jhp_ok jhp -> shape_equality q = true -> surf_equality q = true -> returns (p_equality q pp jhp).
  Definition Q_eqopt (o : eqopt) := match o with EqNone => True | EqSome q => Q_equality q end.
  Definition Q_comparison (c : comparison) := forall pp jhp, jhp_ok jhp -> shape_comparison c = true -> surf_comparison c = true -> returns (p_comparison c pp jhp).
  Definition Q_cmpopt (o : cmpopt) := match o with CmNone => True | CmSome c => Q_comparison c end.
  Definition Q_unary (u : unary) := forall pp jhp, jhp_ok jhp -> shape_unary u = true -> surf_unary u = true -> returns (p_unary u pp jhp).
  Definition Q_primary (p : primary) := forall pp jhp, jhp_ok jhp -> shape_primary p = true -> surf_primary p = true -> returns (p_primary p pp jhp).
  Definition Q_expropt (o : expropt) := match o with ExNone => True | ExSome e => Q_expr e end.
  Definition Q_callexpr (c : callexpr) := forall pp jhp, jhp_ok jhp -> shape_callexpr c = true -> surf_callexpr c = true -> returns (p_call c pp jhp).
  Definition Q_callopt (o : callopt) := match o with ClNone => True | ClSome c => Q_callexpr c end.
  Definition Q_selopt (s : selopt) := match s with SlSome _ _ _ (ExSome e) => Q_expr e | _ => True end.

  Lemma used_jhp_ok : forall path0,
      (bytes_eqb (last_segment path0) n_json || bytes_eqb (last_segment path0) n_xml) = true -> jhp_ok path0.
  Proof.
    intros path0 H. apply orb_prop in H. destruct H as [H|H]; apply bytes_eqb_eq in H; [right; left|right; right]; exact H.
  Qed.

  Lemma pre_total_all :
    (forall e, Q_expr e) /\ (forall l, Q_logopt l) /\ (forall l, Q_logical l) /\ (forall q, Q_equality q) /\
    (forall o, Q_eqopt o) /\ (forall c, Q_comparison c) /\ (forall o, Q_cmpopt o) /\ (forall u, Q_unary u) /\
    (forall p, Q_primary p) /\ (forall o, Q_expropt o) /\ (forall o, Q_callopt o) /\ (forall c, Q_callexpr c) /\
    (forall (o : paramsopt), True) /\ (forall (ps : params), True) /\ (forall (p : param), True) /\ (forall s, Q_selopt s).
  Proof.
    apply ast_mutind; try (intros; exact I).
    - (* Expr *)
      intros l IH pp jhp Hj Hsh Hsf. cbn [shape_expr] in Hsh. cbn [surf_expr] in Hsf.
      destruct l as [|x]; [rewrite p_expr_none; eexists; reflexivity|]. rewrite p_expr_some.
      cbn [Q_logopt] in IH. destruct (IH pp jhp Hj Hsh Hsf) as [[[l' p] err] Hr]. rewrite Hr. eexists; reflexivity.
    - intros l IH. exact IH.
    - (* Logical *)
      intros e IHe op next IHn pp jhp Hj Hsh Hsf. cbn [shape_logical] in Hsh. cbn [surf_logical] in Hsf.
      apply andb_prop in Hsh; destruct Hsh as [Hsh _]. apply andb_prop in Hsh; destruct Hsh as [Hshe Hshn].
      apply andb_prop in Hsf; destruct Hsf as [Hsfe Hsfn].
      rewrite p_logical_eq. destruct (IHe pp jhp Hj Hshe Hsfe) as [[[e' p] err] Hr]. rewrite Hr. cbn [bind].
      destruct next as [|n]; [eexists; reflexivity|].
      cbn [Q_logopt] in IHn. destruct (IHn pp jhp Hj Hshn Hsfn) as [[[n' p2] err2] Hr2]. rewrite Hr2. eexists; reflexivity.
    - (* Equality *)
      intros c IHc op next IHn pp jhp Hj Hsh Hsf. cbn [shape_equality] in Hsh. cbn [surf_equality] in Hsf.
      apply andb_prop in Hsh; destruct Hsh as [Hsh _]. apply andb_prop in Hsh; destruct Hsh as [Hshe Hshn].
      apply andb_prop in Hsf; destruct Hsf as [Hsfe Hsfn].
      rewrite p_equality_eq. destruct (IHc pp jhp Hj Hshe Hsfe) as [[[c' p] err] Hr]. rewrite Hr. cbn [bind].
      destruct next as [|n]; [eexists; reflexivity|].
      cbn [Q_eqopt] in IHn. destruct (IHn pp jhp Hj Hshn Hsfn) as [[[n' p2] err2] Hr2]. rewrite Hr2. eexists; reflexivity.
    - intros q IH. exact IH.
    - (* Comparison *)
      intros u IHu op next IHn pp jhp Hj Hsh Hsf. cbn [shape_comparison] in Hsh. cbn [surf_comparison] in Hsf.
      apply andb_prop in Hsh; destruct Hsh as [Hsh _]. apply andb_prop in Hsh; destruct Hsh as [Hshe Hshn].
      apply andb_prop in Hsf; destruct Hsf as [Hsfe Hsfn].
      rewrite p_comparison_eq. destruct (IHu pp jhp Hj Hshe Hsfe) as [[[u' p] err] Hr]. rewrite Hr. cbn [bind].
      destruct next as [|n]; [eexists; reflexivity|].
      cbn [Q_cmpopt] in IHn. destruct (IHn pp jhp Hj Hshn Hsfn) as [[[n' p2] err2] Hr2]. rewrite Hr2. eexists; reflexivity.
    - intros c IH. exact IH.
    - (* UnOp *)
      intros op u IH pp jhp Hj Hsh Hsf. rewrite p_unary_op.
      destruct (IH pp jhp Hj Hsh Hsf) as [[[u' p] err] Hr]. rewrite Hr. eexists; reflexivity.
    - (* UnPrim *)
      intros p IH pp jhp Hj Hsh Hsf. rewrite p_unary_prim.
      destruct (IH pp jhp Hj Hsh Hsf) as [[[p' pr] err] Hr]. rewrite Hr. eexists; reflexivity.
    - (* Primary *)
      intros num str regex bool_ nil_ call IHcall sub IHsub jsonpath regexp helper pp jhp Hj Hsh Hsf.
      cbn [shape_primary] in Hsh. cbn [surf_primary] in Hsf.
      apply andb_prop in Hsh; destruct Hsh as [Hshc Hshs]. apply andb_prop in Hsf; destruct Hsf as [Hsfc Hsfs].
      rewrite p_primary_eq.
      destruct sub as [|e].
      + destruct call as [|c].
        * destruct regex as [tok|]; [cbv zeta; destruct (re_compiles (trim_quotes tok))|]; eexists; reflexivity.
        * cbn [Q_callopt] in IHcall. destruct (IHcall pp jhp Hj Hshc Hsfc) as [[[[[c' jp] h] p] err] Hr]. rewrite Hr. eexists; reflexivity.
      + cbn [Q_expropt] in IHsub. destruct (IHsub pp jhp Hj Hshs Hsfs) as [[[e' p] err] Hr]. rewrite Hr. eexists; reflexivity.
    - intros e IH. exact IH.
    - intros c IH. exact IH.
    - (* CallExpr *)
      intros ident ps _ sel IHsel pp jhp Hj Hsh Hsf. cbn [shape_callexpr] in Hsh. cbn [surf_callexpr] in Hsf.
      apply andb_prop in Hsh; destruct Hsh as [Hshp Hshs].
      apply andb_prop in Hsf; destruct Hsf as [Hsf Hsfs]. apply andb_prop in Hsf; destruct Hsf as [Hid Hsfp].
      rewrite p_call_eq.
      destruct ident as [id|]; [|discriminate].
      destruct ps as [|l].
      + (* not a call *)
        cbv zeta.
        destruct sel as [|index key rd se].
        * apply finish_call_returns; [exact Hj | left; split; reflexivity].
        * set (used := bytes_eqb (last_segment id) n_json || bytes_eqb (last_segment id) n_xml).
          assert (Hj1 : jhp_ok (if used then id else jhp)).
          { destruct used eqn:Hu; [apply used_jhp_ok; exact Hu | exact Hj]. }
          assert (Hne : used = true -> id <> []).
          { intros Hu Hid0. subst id. unfold used in Hu. cbn in Hu. discriminate. }
          (* the parameters after the selector branch *)
          assert (Hps : forall ps1 path1,
                     (ps1, path1) =
                     match match index with
                           | Some i => Some (index_selector i)
                           | None => match key with Some k => Some (key_selector k) | None => None end
                           end with
                     | None => (PsAbsent, id)
                     | Some s => if used then (match parse_path s with Some p => PsList (path_param p) | None => PsAbsent end, s)
                                 else (PsAbsent, id ++ s)
                     end ->
                     params_fine ps1 (if used then id else jhp)).
          { intros ps1 path1 Heq.
            destruct (match index with Some i => Some (index_selector i) | None => match key with Some k => Some (key_selector k) | None => None end end) as [s|].
            - destruct used eqn:Hu.
              + destruct (parse_path s) as [p|]; inversion Heq; subst.
                * right. split; [apply Hne; reflexivity | eexists; reflexivity].
                * left. split; reflexivity.
              + inversion Heq; subst. left. split; reflexivity.
            - inversion Heq; subst. left. split; reflexivity. }
          destruct (match match index with Some i => Some (index_selector i) | None => match key with Some k => Some (key_selector k) | None => None end end with
                    | None => (PsAbsent, id)
                    | Some s => if used then (match parse_path s with Some p => PsList (path_param p) | None => PsAbsent end, s) else (PsAbsent, id ++ s)
                    end) as [ps1 path1] eqn:Hsel.
          specialize (Hps ps1 path1 eq_refl).
          destruct se as [|e].
          -- apply finish_call_returns; assumption.
          -- cbn [Q_selopt] in IHsel. cbn [shape_selopt shape_expropt] in Hshs. cbn [surf_selopt surf_expropt] in Hsfs.
             destruct (IHsel (if used then [] else path1) (if used then id else jhp) Hj1 Hshs Hsfs) as [[[e' p] err] Hr].
             rewrite Hr. eexists; reflexivity.
      + (* a function call *)
        apply finish_call_returns; [exact Hj | left; split; assumption].
    - (* SlSome *) intros i k rd e IH. cbn [Q_selopt]. destruct e; [exact I|exact IH].
  Qed.

  Lemma jhp_ok_nil : jhp_ok [].
  Proof. left. reflexivity. Qed.

  (* C13, Precompute: no panic *)
  Theorem precompute_no_panic : forall e, shape_expr e = true -> surf_expr e = true ->
      forall site,
        precompute_model parse_float re_match parse_time b64dec parse_json xml_first redact_apply parse_path re_compiles now_ns uint64_of e
        <> Panic site.
  Proof.
    intros e Hsh Hsf site. unfold precompute_model.
    destruct (proj1 pre_total_all e [] [] jhp_ok_nil Hsh Hsf) as [x Hx]. rewrite Hx. discriminate.
  Qed.

End PreProofs.

(* ---------------------------------------------------------------------------------------------
   Precompute establishes the hypotheses of the evaluator theorems: the tree it returns satisfies
   prepared_expr (C14_record_unchanged) and keeps shape_expr (C13_no_panic). *)
Require Import V.Kfl.KflFrame.

Section PreInvariants.
  Variable parse_float : bytes -> option fv.
  Variable re_match : bytes -> bytes -> bool.
  Variable parse_time : bytes -> option Z.
  Variable b64dec : bytes -> option bytes.
  Variable parse_json : bytes -> option jv.
  Variable xml_first : bytes -> bytes -> xres.
  Variable redact_apply : jv -> bytes -> jv.
  Variable parse_path : bytes -> option (jpath * bytes).
  Variable re_compiles : bytes -> bool.
  Variable now_ns : Z.
  Variable uint64_of : fv -> N.

  Notation p_expr := (pre_expr parse_float re_match parse_time b64dec parse_json xml_first redact_apply parse_path re_compiles now_ns uint64_of).
  Notation p_logical := (pre_logical parse_float re_match parse_time b64dec parse_json xml_first redact_apply parse_path re_compiles now_ns uint64_of).
  Notation p_equality := (pre_equality parse_float re_match parse_time b64dec parse_json xml_first redact_apply parse_path re_compiles now_ns uint64_of).
  Notation p_comparison := (pre_comparison parse_float re_match parse_time b64dec parse_json xml_first redact_apply parse_path re_compiles now_ns uint64_of).
  Notation p_unary := (pre_unary parse_float re_match parse_time b64dec parse_json xml_first redact_apply parse_path re_compiles now_ns uint64_of).
  Notation p_primary := (pre_primary parse_float re_match parse_time b64dec parse_json xml_first redact_apply parse_path re_compiles now_ns uint64_of).
  Notation p_call := (pre_call parse_float re_match parse_time b64dec parse_json xml_first redact_apply parse_path re_compiles now_ns uint64_of).
  Notation fin_call := (finish_call parse_float re_match parse_time b64dec parse_json xml_first redact_apply parse_path now_ns uint64_of).

  Definition inv (pr sh sh' : bool) : Prop := pr = true /\ (sh = true -> sh' = true).

  Definition G_expr (e : expr) := forall pp jhp e' p err, p_expr e pp jhp = Ok (e', p, err) ->
      inv (prepared_expr e') (shape_expr e) (shape_expr e').
  Definition G_logical (l : logical) := forall pp jhp l' p err, p_logical l pp jhp = Ok (l', p, err) ->
      inv (prepared_logical l') (shape_logical l) (shape_logical l').
  Definition G_logopt (l : logopt) := match l with LgNone => True | LgSome x => G_logical x end.
  Definition G_equality (q : equality) := forall pp jhp q' p err, p_equality q pp jhp = Ok (q', p, err) ->
      inv (prepared_equality q') (shape_equality q) (shape_equality q').
  Definition G_eqopt (o : eqopt) := match o with EqNone => True | EqSome q => G_equality q end.
  Definition G_comparison (c : comparison) := forall pp jhp c' p err, p_comparison c pp jhp = Ok (c', p, err) ->
      inv (prepared_comparison c') (shape_comparison c) (shape_comparison c').
  Definition G_cmpopt (o : cmpopt) := match o with CmNone => True | CmSome c => G_comparison c end.
  Definition G_unary (u : unary) := forall pp jhp u' p err, p_unary u pp jhp = Ok (u', p, err) ->
      inv (prepared_unary u') (shape_unary u) (shape_unary u').
  Definition G_primary (pr : primary) := forall pp jhp pr' p err, p_primary pr pp jhp = Ok (pr', p, err) ->
      inv (prepared_primary pr') (shape_primary pr) (shape_primary pr').
  Definition G_expropt (o : expropt) := match o with ExNone => True | ExSome e => G_expr e end.
  (* a call: either a compiled path comes back, or the call keeps a select expression that is prepared *)
  Definition call_prepared (c' : callexpr) (jp : option jpath) : Prop :=
    match jp with
    | Some _ => True
    | None => match c' with
              | CallExpr _ _ (SlSome _ _ _ (ExSome e')) => prepared_expr e' = true
              | _ => False
              end
    end.
  Definition G_callexpr (c : callexpr) := forall pp jhp c' jp h p err, p_call c pp jhp = Ok (c', jp, h, p, err) ->
      call_prepared c' jp /\ (shape_callexpr c = true -> shape_callexpr c' = true).
  Definition G_callopt (o : callopt) := match o with ClNone => True | ClSome c => G_callexpr c end.
  Definition G_selopt (s : selopt) := match s with SlSome _ _ _ (ExSome e) => G_expr e | _ => True end.

  Notation fin_tail := (finish_tail parse_float re_match parse_time b64dec parse_json xml_first redact_apply parse_path now_ns uint64_of).

  Ltac leaf H :=
    inversion H; subst; split; [discriminate|];
    let Hp := fresh "Hp" in let Hs := fresh "Hs" in
    intros Hp Hs; cbn [shape_callexpr]; first [rewrite Hp, Hs; reflexivity | rewrite Hs; reflexivity].

  Lemma finish_tail_inv : forall ident ps sel path limit0 helper0 c' jp h p err,
      fin_tail ident ps sel path limit0 helper0 = Ok (c', jp, h, p, err) ->
      jp <> None /\ (shape_paramsopt ps = true -> shape_selopt sel = true -> shape_callexpr c' = true).
  Proof.
    intros ident ps sel path limit0 helper0 c' jp h p err H. unfold finish_tail in H. cbv zeta in H.
    destruct ps as [|l].
    - destruct (bytes_eqb _ n_now); leaf H.
    - destruct (str_contains compile_time_helpers _); [|leaf H].
      destruct l as [|[tag pe jpth ts tns] rest]; [leaf H|].
      destruct pe as [|e]; [discriminate|].
      apply bind_ok in H; destruct H as [[r st] [Hr H]].
      destruct (bytes_eqb _ n_limit); [leaf H|].
      destruct (unit_ns _); leaf H.
  Qed.

  Lemma finish_call_inv : forall ident ps sel path limit0 pp jhp helper0 c' jp h p err,
      fin_call ident ps sel path limit0 pp jhp helper0 = Ok (c', jp, h, p, err) ->
      jp <> None /\ (shape_paramsopt ps = true -> shape_selopt sel = true -> shape_callexpr c' = true).
  Proof.
    intros ident ps sel path limit0 pp jhp helper0 c' jp h p err H. unfold finish_call in H. cbv zeta in H.
    destruct jhp as [|b jr].
    - eapply finish_tail_inv; eauto.
    - destruct (finish_tail_inv _ _ _ _ _ _ _ _ _ _ _ H) as [Hjp Hs]. split; [exact Hjp|].
      intros Hp Hsel. apply Hs; [|exact Hsel]. destruct (parse_path _); [reflexivity|exact Hp].
  Qed.

  Lemma pre_inv_all :
    (forall e, G_expr e) /\ (forall l, G_logopt l) /\ (forall l, G_logical l) /\ (forall q, G_equality q) /\
    (forall o, G_eqopt o) /\ (forall c, G_comparison c) /\ (forall o, G_cmpopt o) /\ (forall u, G_unary u) /\
    (forall p, G_primary p) /\ (forall o, G_expropt o) /\ (forall o, G_callopt o) /\ (forall c, G_callexpr c) /\
    (forall (o : paramsopt), True) /\ (forall (ps : params), True) /\ (forall (p : param), True) /\ (forall s, G_selopt s).
  Proof.
    apply ast_mutind; try (intros; exact I).
    - (* Expr *)
      intros l IH pp jhp e' p err H. destruct l as [|x].
      + rewrite p_expr_none in H. inversion H; subst. split; [reflexivity|auto].
      + rewrite p_expr_some in H. apply bind_ok in H. destruct H as [[[l' p1] err1] [Hr H]]. inversion H; subst.
        cbn [G_logopt] in IH. destruct (IH pp jhp l' p err Hr) as [Hp Hs]. split; [exact Hp|exact Hs].
    - intros l IH. exact IH.
    - (* Logical *)
      intros e IHe op next IHn pp jhp l' p err H. rewrite p_logical_eq in H.
      apply bind_ok in H. destruct H as [[[e' p1] err1] [Hr H]].
      destruct (IHe pp jhp e' p1 err1 Hr) as [Hp Hs].
      destruct next as [|n].
      + inversion H; subst. split.
        * cbn [prepared_logical prepared_logopt]. rewrite Hp. reflexivity.
        * cbn [shape_logical shape_logopt]. intro Hsh. apply andb_prop in Hsh; destruct Hsh as [Hsh _]. apply andb_prop in Hsh; destruct Hsh as [Hsh _].
          rewrite (Hs Hsh). reflexivity.
      + apply bind_ok in H. destruct H as [[[n' p2] err2] [Hr2 H]]. inversion H; subst.
        cbn [G_logopt] in IHn. destruct (IHn pp jhp n' p2 err Hr2) as [Hp2 Hs2]. split.
        * cbn [prepared_logical prepared_logopt]. rewrite Hp, Hp2. reflexivity.
        * cbn [shape_logical shape_logopt]. intro Hsh. apply andb_prop in Hsh; destruct Hsh as [Hsh Hop]. apply andb_prop in Hsh; destruct Hsh as [Hsh1 Hsh2].
          rewrite (Hs Hsh1), (Hs2 Hsh2), Hop. reflexivity.
    - (* Equality *)
      intros c IHc op next IHn pp jhp q' p err H. rewrite p_equality_eq in H.
      apply bind_ok in H. destruct H as [[[c' p1] err1] [Hr H]].
      destruct (IHc pp jhp c' p1 err1 Hr) as [Hp Hs].
      destruct next as [|n].
      + inversion H; subst. split.
        * cbn [prepared_equality prepared_eqopt]. rewrite Hp. reflexivity.
        * cbn [shape_equality shape_eqopt]. intro Hsh. apply andb_prop in Hsh; destruct Hsh as [Hsh _]. apply andb_prop in Hsh; destruct Hsh as [Hsh _].
          rewrite (Hs Hsh). reflexivity.
      + apply bind_ok in H. destruct H as [[[n' p2] err2] [Hr2 H]]. inversion H; subst.
        cbn [G_eqopt] in IHn. destruct (IHn pp jhp n' p2 err Hr2) as [Hp2 Hs2]. split.
        * cbn [prepared_equality prepared_eqopt]. rewrite Hp, Hp2. reflexivity.
        * cbn [shape_equality shape_eqopt]. intro Hsh. apply andb_prop in Hsh; destruct Hsh as [Hsh Hop]. apply andb_prop in Hsh; destruct Hsh as [Hsh1 Hsh2].
          rewrite (Hs Hsh1), (Hs2 Hsh2), Hop. reflexivity.
    - intros q IH. exact IH.
    - (* Comparison *)
      intros u IHu op next IHn pp jhp c' p err H. rewrite p_comparison_eq in H.
      apply bind_ok in H. destruct H as [[[u' p1] err1] [Hr H]].
      destruct (IHu pp jhp u' p1 err1 Hr) as [Hp Hs].
      destruct next as [|n].
      + inversion H; subst. split.
        * cbn [prepared_comparison prepared_cmpopt]. rewrite Hp. reflexivity.
        * cbn [shape_comparison shape_cmpopt]. intro Hsh. apply andb_prop in Hsh; destruct Hsh as [Hsh _]. apply andb_prop in Hsh; destruct Hsh as [Hsh _].
          rewrite (Hs Hsh). reflexivity.
      + apply bind_ok in H. destruct H as [[[n' p2] err2] [Hr2 H]]. inversion H; subst.
        cbn [G_cmpopt] in IHn. destruct (IHn pp jhp n' p2 err Hr2) as [Hp2 Hs2]. split.
        * cbn [prepared_comparison prepared_cmpopt]. rewrite Hp, Hp2. reflexivity.
        * cbn [shape_comparison shape_cmpopt]. intro Hsh. apply andb_prop in Hsh; destruct Hsh as [Hsh Hop]. apply andb_prop in Hsh; destruct Hsh as [Hsh1 Hsh2].
          rewrite (Hs Hsh1), (Hs2 Hsh2), Hop. reflexivity.
    - intros c IH. exact IH.
    - (* UnOp *)
      intros op u IH pp jhp u' p err H. rewrite p_unary_op in H.
      apply bind_ok in H. destruct H as [[[u1 p1] err1] [Hr H]]. inversion H; subst.
      destruct (IH pp jhp u1 p err Hr) as [Hp Hs]. split; [exact Hp|exact Hs].
    - (* UnPrim *)
      intros pr IH pp jhp u' p err H. rewrite p_unary_prim in H.
      apply bind_ok in H. destruct H as [[[pr1 p1] err1] [Hr H]]. inversion H; subst.
      destruct (IH pp jhp pr1 p1 err Hr) as [Hp Hs]. split; [exact Hp|exact Hs].
    - (* Primary *)
      intros num str regex bool_ nil_ call IHcall sub IHsub jsonpath regexp helper pp jhp pr' p err H.
      rewrite p_primary_eq in H.
      destruct sub as [|e].
      + destruct call as [|c].
        * assert (Hsame : inv (prepared_primary pr') (shape_primary (Primary num str regex bool_ nil_ ClNone ExNone jsonpath regexp helper)) (shape_primary pr')).
          { destruct regex as [tok|]; [cbv zeta in H; destruct (re_compiles (trim_quotes tok))|]; inversion H; subst;
              (split; [cbn [prepared_primary]; destruct bool_, num, str, jsonpath; try reflexivity; destruct regexp; reflexivity | auto]). }
          exact Hsame.
        * apply bind_ok in H. destruct H as [[[[[c' jp] h] p1] err1] [Hr H]]. inversion H; subst.
          cbn [G_callopt] in IHcall. destruct (IHcall pp jhp c' jp h p err Hr) as [Hcp Hs]. split.
          -- cbn [prepared_primary]. destruct bool_, num, str, jp; try reflexivity; destruct regexp; try reflexivity.
             cbn [call_prepared] in Hcp. destruct c' as [ident ps [|i k rd [|e']]]; try contradiction. exact Hcp.
          -- cbn [shape_primary shape_callopt shape_expropt]. intro Hsh. apply andb_prop in Hsh; destruct Hsh as [Hsh _].
             rewrite (Hs Hsh). reflexivity.
      + apply bind_ok in H. destruct H as [[[e' p1] err1] [Hr H]]. inversion H; subst.
        cbn [G_expropt] in IHsub. destruct (IHsub pp jhp e' p err Hr) as [Hp Hs]. split.
        * cbn [prepared_primary]. destruct bool_, num, str, jsonpath; try reflexivity; destruct regexp; try reflexivity. exact Hp.
        * cbn [shape_primary shape_expropt]. intro Hsh. apply andb_prop in Hsh; destruct Hsh as [Hsh1 Hsh2].
          rewrite Hsh1, (Hs Hsh2). reflexivity.
    - intros e IH. exact IH.
    - intros c IH. exact IH.
    - (* CallExpr *)
      intros ident ps _ sel IHsel pp jhp c' jp h p err H. rewrite p_call_eq in H.
      destruct ps as [|l].
      + cbv zeta in H.
        destruct sel as [|index key rd se].
        * destruct (finish_call_inv _ _ _ _ _ _ _ _ _ _ _ _ _ H) as [Hjp Hs]. split.
          -- destruct jp; [exact I|contradiction].
          -- cbn [shape_callexpr]. intro Hsh. apply andb_prop in Hsh; destruct Hsh as [Hsh1 Hsh2]. apply Hs; assumption.
        * set (id0 := match ident with Some id => id | None => [] end) in *.
          set (used := bytes_eqb (last_segment id0) n_json || bytes_eqb (last_segment id0) n_xml) in *.
          destruct (match match index with Some i => Some (index_selector i) | None => match key with Some k => Some (key_selector k) | None => None end end with
                    | None => (PsAbsent, id0)
                    | Some s => if used then (match parse_path s with Some p0 => PsList (path_param p0) | None => PsAbsent end, s) else (PsAbsent, id0 ++ s)
                    end) as [ps1 path1] eqn:Hsel.
          assert (Hps1 : shape_paramsopt ps1 = true).
          { destruct (match index with Some i => Some (index_selector i) | None => match key with Some k => Some (key_selector k) | None => None end end) as [s|].
            - destruct used; [destruct (parse_path s)|]; inversion Hsel; reflexivity.
            - inversion Hsel; reflexivity. }
          destruct se as [|e].
          -- destruct (finish_call_inv _ _ _ _ _ _ _ _ _ _ _ _ _ H) as [Hjp Hs]. split.
             ++ destruct jp; [exact I|contradiction].
             ++ cbn [shape_callexpr]. intro Hsh. apply andb_prop in Hsh; destruct Hsh as [_ Hsh2]. apply Hs; assumption.
          -- apply bind_ok in H. destruct H as [[[e' p1] err1] [Hr H]]. inversion H; subst.
             cbn [G_selopt] in IHsel. destruct (IHsel _ _ e' p1 err Hr) as [Hp Hs]. split.
             ++ cbn [call_prepared]. exact Hp.
             ++ cbn [shape_callexpr shape_selopt shape_expropt]. intro Hsh. apply andb_prop in Hsh; destruct Hsh as [_ Hsh2].
                rewrite Hps1, (Hs Hsh2). reflexivity.
      + destruct ident as [id|]; [|discriminate].
        destruct (finish_call_inv _ _ _ _ _ _ _ _ _ _ _ _ _ H) as [Hjp Hs]. split.
        * destruct jp; [exact I|contradiction].
        * cbn [shape_callexpr]. intro Hsh. apply andb_prop in Hsh; destruct Hsh as [Hsh1 Hsh2]. apply Hs; assumption.
    - (* SlSome *) intros i k rd e IH. cbn [G_selopt]. destruct e; [exact I|exact IH].
  Qed.

  Theorem precompute_establishes_invariants : forall e e' p err,
      precompute_model parse_float re_match parse_time b64dec parse_json xml_first redact_apply parse_path re_compiles now_ns uint64_of e = Ok (e', p, err) ->
      prepared_expr e' = true /\ (shape_expr e = true -> shape_expr e' = true).
  Proof. intros e e' p err H. exact (proj1 pre_inv_all e [] [] e' p err H). Qed.

  (* Parse, Precompute, Eval on the model: a query that prepares without error is evaluated without panic,
     and if the prepared tree is free of redact the record comes back unchanged *)
  Theorem prepared_query_evaluates : forall e e' p err r,
      shape_expr e = true ->
      precompute_model parse_float re_match parse_time b64dec parse_json xml_first redact_apply parse_path re_compiles now_ns uint64_of e = Ok (e', p, err) ->
      exists b r', eval_model parse_float re_match parse_time b64dec parse_json xml_first redact_apply e' r = Ok (b, r') /\
                   (no_redact_expr e' = true -> r' = r).
  Proof.
    intros e e' p err r Hsh Hpre.
    destruct (precompute_establishes_invariants e e' p err Hpre) as [Hprep Hshape].
    destruct (eval_model_returns parse_float re_match parse_time b64dec parse_json xml_first redact_apply e' r (Hshape Hsh)) as [b [r' Hev]].
    exists b, r'. split; [exact Hev|].
    intro Hnr. eapply eval_model_record_unchanged; eauto.
  Qed.

End PreInvariants.
