(* The hypotheses of the C12 / C13 / C14 theorems are satisfiable: the tree that the real parser and
   Precompute produce for   a == 1000000 and b.startsWith("x")   (dumped by vh-kfl) on the record
   {"a":1000000,"b":"xy"}, with libraries that answer nothing. *)
Require Import V.Base.Prelude V.Kfl.Num V.Kfl.Json V.Kfl.KflAst V.Kfl.Names V.Kfl.JPath V.Kfl.KflOps V.Kfl.KflEval
  V.Kfl.KflSem V.Kfl.KflWf V.Kfl.KflLimit.
Local Open Scope Z_scope.

Definition ex_query : expr :=
  (Expr (LgSome (Logical (Equality (Comparison (UnPrim (Primary None None None None false (ClSome (CallExpr (Some (bs [97]%N)) PsAbsent SlNone)) ExNone (Some [FChild (bs [97]%N)]) None None)) CNone CmNone) EEq (EqSome (Equality (Comparison (UnPrim (Primary (Some (FFin false 15625%N (6)%Z)) None None None false ClNone ExNone None None None)) CNone CmNone) ENone EqNone))) LAnd (LgSome (Logical (Equality (Comparison (UnPrim (Primary None None None None false (ClSome (CallExpr (Some (bs [98;46;115;116;97;114;116;115;87;105;116;104]%N)) (PsList (PsCons (Param None (ExSome (Expr (LgSome (Logical (Equality (Comparison (UnPrim (Primary None (Some (bs [34;120;34]%N)) None None false ClNone ExNone None None None)) CNone CmNone) ENone EqNone) LNone LgNone)))) None false (0)%Z) PsNil)) SlNone)) ExNone (Some [FChild (bs [98]%N)]) None (Some (bs [115;116;97;114;116;115;87;105;116;104]%N)))) CNone CmNone) ENone EqNone) LNone LgNone))))).

Definition ex_record : jv := (JObj [((bs [97]%N), (JInt (1000000)%Z)); ((bs [98]%N), (JStr (bs [120;121]%N)))]).

Definition no_float (_ : bytes) : option fv := None.
Definition no_match (_ _ : bytes) : bool := false.
Definition no_time (_ : bytes) : option Z := None.
Definition no_b64 (_ : bytes) : option bytes := None.
Definition no_json (_ : bytes) : option jv := None.
Definition no_xml (_ _ : bytes) : xres := XFail.
Definition no_redaction (st : jv) (_ : bytes) : jv := st.

Example ex_shape : shape_expr ex_query = true /\ no_redact_expr ex_query = true /\ prepared_expr ex_query = true.
Proof. vm_compute. repeat split. Qed.

Example ex_sem_defined : sem no_float no_match no_time no_b64 no_json no_xml ex_query ex_record = Some true.
Proof. vm_compute. reflexivity. Qed.

Example ex_model : eval_model no_float no_match no_time no_b64 no_json no_xml no_redaction ex_query ex_record = Ok (true, ex_record).
Proof. vm_compute. reflexivity. Qed.
