(* The truth value the KFL language defines (property C12), written from the rule list of the
   property, not from eval.go: a compositional three-valued denotation
       missing  |  a value
   of every operand, with
     - literals, paths (no match = missing, one match = that value, several = the array of them),
       regex literals;
     - coercions: to a string (integers in decimal, other numbers with six significant digits,
       true/false/null by name), to a number (numeric strings by value, other strings 0, true 1,
       false and null 0), to a truth value (non-empty string, number above zero, true, non-empty array);
     - == / != : a regex on either side matches the string form of the other side; two arrays are
       equal as JSON values; an array against a scalar holds if ANY element is equal; two numbers are
       equal iff they are numerically equal, any other two scalars iff their string forms are equal;
     - > >= < <= on the numeric coercions: array against scalar if ANY element satisfies it, two
       arrays if ALL pairs do;  all binary operators associate to the right;
     - and / or: right nested, the right operand is not evaluated when the left one decides;
     - ! negates the truth value, - negates a number;
     - a missing operand makes the innermost parenthesised (or whole) expression false;
     - helpers: startsWith/endsWith/contains on the string form of the subject, datetime, now and
       seconds..years as millisecond timestamps, limit(n) true, json()/xml() selecting inside a
       nested (possibly base64 encoded) document; a helper that works on its subject is false when
       the subject path has no match; an undefined helper is a missing operand.
   Where the rules fix no value (an object as operand, a regex compared with an array or used as a
   truth value, minus on a non-number, redact, helpers without argument) the denotation is None.
   This file never mentions the evaluator model (KflEval / KflOps). *)
Require Import V.Base.Prelude V.Kfl.Num V.Kfl.Json V.Kfl.KflAst V.Kfl.Names V.Kfl.JPath.
Local Open Scope Z_scope.

Inductive den :=
| DMissing
| DVal (v : val).

Definition obind {A B} (o : option A) (f : A -> option B) : option B :=
  match o with Some a => f a | None => None end.
Notation "'let?' x ':=' o 'in' k" := (obind o (fun x => k)) (at level 200, x pattern, o at level 100, k at level 200).

(* den-level bind: missing propagates *)
Definition dbind (o : option den) (f : val -> option den) : option den :=
  match o with
  | Some (DVal v) => f v
  | Some DMissing => Some DMissing
  | None => None
  end.

Definition sv_bool (b : bool) : val := VJ (JBool b).

(* ------------------------------------------------------------------ strings *)
Fixpoint prefix_of (p s : bytes) : bool :=
  match p with
  | [] => true
  | b :: p' => match s with c :: s' => byte_eqb b c && prefix_of p' s' | [] => false end
  end.
Definition suffix_of (p s : bytes) : bool := prefix_of (rev p) (rev s).
Fixpoint infix_of (p s : bytes) : bool :=
  prefix_of p s || match s with [] => false | _ :: s' => infix_of p s' end.

Definition dquote : byte := b_of_N 34.
Fixpoint drop_quotes (s : bytes) : bytes :=
  match s with b :: r => if byte_eqb b dquote then drop_quotes r else s | [] => [] end.
(* the content of a string literal token: the token without its enclosing double quotes *)
Definition literal_content (tok : bytes) : bytes := rev (drop_quotes (rev (drop_quotes tok))).

Section Sem.
  Variable parse_float : bytes -> option fv.
  Variable re_match : bytes -> bytes -> bool.
  Variable parse_time : bytes -> option Z.
  Variable b64dec : bytes -> option bytes.
  Variable parse_json : bytes -> option jv.
  Variable xml_first : bytes -> bytes -> xres.

  (* ---------------------------------------------------------------- coercions *)
  Definition is_scalar (v : val) : bool :=
    match v with
    | VJ JNull | VJ (JBool _) | VJ (JInt _) | VJ (JFlt _) | VJ (JStr _) => true
    | _ => false
    end.

  Definition str_of (v : val) : option bytes :=
    match v with
    | VJ (JStr s) => Some s
    | VJ (JInt z) => Some (fmt_int z)
    | VJ (JFlt f) => Some (fmt_g6 f)
    | VJ (JBool true) => Some s_true
    | VJ (JBool false) => Some s_false
    | VJ JNull => Some s_null
    | _ => None
    end.

  Definition num_of (v : val) : option fv :=
    match v with
    | VJ (JInt z) => Some (f_of_Z z)
    | VJ (JFlt f) => Some f
    | VJ (JStr s) => Some (match parse_float s with Some f => f | None => fzero end)
    | VJ (JBool true) => Some fone
    | VJ (JBool false) => Some fzero
    | VJ JNull => Some fzero
    | _ => None
    end.

  Definition truth_of (v : val) : option bool :=
    match v with
    | VJ (JBool b) => Some b
    | VJ (JStr s) => Some (negb (Nat.eqb (length s) 0))
    | VJ (JInt z) => Some (0 <? z)
    | VJ (JFlt f) => Some (f_gt f fzero)
    | VJ JNull => Some false
    | VJ (JArr l) => Some (negb (Nat.eqb (length l) 0))
    | _ => None
    end.

  Definition numeric (v : val) : bool :=
    match v with VJ (JInt _) | VJ (JFlt _) => true | _ => false end.

  (* ---------------------------------------------------------------- equality *)
  Definition scalar_eq (a b : val) : option bool :=
    if numeric a && numeric b then
      let? x := num_of a in let? y := num_of b in Some (f_eq x y)
    else
      if is_scalar a && is_scalar b then
        let? x := str_of a in let? y := str_of b in Some (bytes_eqb x y)
      else None.

  (* any element of l satisfies p; None as soon as p is undefined on an element that is looked at *)
  Fixpoint any_opt (p : val -> option bool) (l : list jv) : option bool :=
    match l with
    | [] => Some false
    | x :: r => let? b := p (VJ x) in if b then Some true else any_opt p r
    end.
  Fixpoint all_opt (p : val -> option bool) (l : list jv) : option bool :=
    match l with
    | [] => Some true
    | x :: r => let? b := p (VJ x) in if b then all_opt p r else Some false
    end.

  Definition sem_eq (a b : val) : option bool :=
    match a, b with
    | VRe _, VRe _ => None
    | VRe src, _ => if is_scalar b then let? s := str_of b in Some (re_match src s) else None
    | _, VRe src => if is_scalar a then let? s := str_of a in Some (re_match src s) else None
    | VJ (JArr xs), VJ (JArr ys) => Some (json_eq (JArr xs) (JArr ys))
    | VJ (JArr xs), _ => if is_scalar b then any_opt (fun x => scalar_eq x b) xs else None
    | _, VJ (JArr ys) => if is_scalar a then any_opt (fun y => scalar_eq a y) ys else None
    | _, _ => scalar_eq a b
    end.

  (* ---------------------------------------------------------------- ordering *)
  Inductive rel := RGt | RGe | RLt | RLe.
  Definition rel_holds (r : rel) (x y : fv) : bool :=
    match r with RGt => f_gt x y | RGe => f_ge x y | RLt => f_lt x y | RLe => f_le x y end.
  (* the pairs that refute "all pairs satisfy r": the IEEE complement, which a NaN does not satisfy *)
  Definition rel_refuted (r : rel) (x y : fv) : bool :=
    match r with RGt => f_le x y | RGe => f_lt x y | RLt => f_ge x y | RLe => f_gt x y end.

  Definition scalar_rel (r : rel) (a b : val) : option bool :=
    if is_scalar a && is_scalar b then
      let? x := num_of a in let? y := num_of b in Some (rel_holds r x y)
    else None.
  Definition scalar_not_refuted (r : rel) (a b : val) : option bool :=
    if is_scalar a && is_scalar b then
      let? x := num_of a in let? y := num_of b in Some (negb (rel_refuted r x y))
    else None.

  Definition sem_rel (r : rel) (a b : val) : option bool :=
    match a, b with
    | VJ (JArr xs), VJ (JArr ys) => all_opt (fun x => all_opt (fun y => scalar_not_refuted r x y) ys) xs
    | VJ (JArr xs), _ => if is_scalar b then any_opt (fun x => scalar_rel r x b) xs else None
    | _, VJ (JArr ys) => if is_scalar a then any_opt (fun y => scalar_rel r a y) ys else None
    | _, _ => scalar_rel r a b
    end.

  Definition rel_of (op : cop) : option rel :=
    match op with CGt => Some RGt | CGe => Some RGe | CLt => Some RLt | CLe => Some RLe | _ => None end.

  (* ---------------------------------------------------------------- unary *)
  Definition sem_unary (op : uop) (v : val) : option val :=
    match op with
    | UNot => match v with VRe _ => None | _ => let? b := truth_of v in Some (sv_bool (negb b)) end
    | UNeg => match v with
              | VJ (JFlt f) => Some (VJ (JFlt (f_neg f)))
              | VJ (JInt z) => Some (VJ (JInt (wrap64 (- z))))
              | _ => None
              end
    | UOther => None
    end.

  (* ---------------------------------------------------------------- helpers *)
  Definition decoded (s : bytes) : bytes := match b64dec s with Some d => d | None => s end.

  Definition of_matches (l : list jv) : den :=
    match l with [] => DMissing | [x] => DVal (VJ x) | _ => DVal (VJ (JArr l)) end.
  (* a helper sees false where its subject path has no match *)
  Definition subject_value (l : list jv) : val :=
    match of_matches l with DMissing => sv_bool false | DVal v => v end.

  Definition ms (ns : Z) : Z := Z.quot ns 1000000.

  Definition time_names : list bytes :=
    [n_now; n_seconds; n_minutes; n_hours; n_days; n_weeks; n_months; n_years].
  Definition name_in (n : bytes) (l : list bytes) : bool := existsb (bytes_eqb n) l.
  Definition known_helpers : list bytes :=
    [n_startsWith; n_endsWith; n_contains; n_datetime; n_limit; n_json; n_xml; n_redact] ++ time_names.

  (* the helpers that work on the value selected by the path: false when the path has no match *)
  Definition works_on_subject (name : bytes) : bool :=
    name_in name [n_startsWith; n_endsWith; n_contains; n_json; n_xml].

  (* value of helper `name` applied to the subject with the evaluated arguments *)
  Definition sem_helper (name : bytes) (subject : val) (args : list val) : option den :=
    if negb (name_in name known_helpers) then Some DMissing
    else if bytes_eqb name n_limit then Some (DVal (sv_bool true))
    else if bytes_eqb name n_redact then None
    else
      match args with
      | [] => None
      | a :: _ =>
          if bytes_eqb name n_startsWith || bytes_eqb name n_endsWith || bytes_eqb name n_contains then
            if is_scalar subject && is_scalar a then
              let? s := str_of subject in
              let? p := str_of a in
              Some (DVal (sv_bool (if bytes_eqb name n_startsWith then prefix_of p s
                                   else if bytes_eqb name n_endsWith then suffix_of p s
                                   else infix_of p s)))
            else None
          else if bytes_eqb name n_datetime then
            if is_scalar a then
              let? s := str_of a in
              Some (DVal (match parse_time s with Some ns => VJ (JInt (ms ns)) | None => sv_bool false end))
            else None
          else if name_in name time_names then
            match a with
            | VTime ns => Some (DVal (VJ (JInt (ms ns))))
            | _ => Some (DVal (sv_bool false))           (* the argument was not turned into a time *)
            end
          else if bytes_eqb name n_json then
            match a with
            | VPath p _ =>
                if is_scalar subject then
                  let? s := str_of subject in
                  match parse_json (decoded s) with
                  | None => Some (DVal (sv_bool false))
                  | Some doc => Some (DVal (subject_value (jget p doc)))
                  end
                else None
            | _ => Some (DVal (sv_bool false))
            end
          else if bytes_eqb name n_xml then
            match a with
            | VPath _ pstr =>
                if is_scalar subject then
                  let? s := str_of subject in
                  match xml_first (decoded s) pstr with
                  | XStr t => Some (DVal (VJ (JStr t)))
                  | XMap (Some t) => Some (DVal (VJ (JStr t)))
                  | _ => Some (DVal (sv_bool false))
                  end
                else None
            | _ => Some (DVal (sv_bool false))
            end
          else None
      end.

  (* ---------------------------------------------------------------- expressions *)
  (* value of a parenthesised / whole expression from the denotation of its body *)
  Definition close (d : option den) : option val :=
    match d with
    | Some DMissing => Some (sv_bool false)
    | Some (DVal v) => Some v
    | None => None
    end.

  Fixpoint sem_expr (e : expr) (r : jv) {struct e} : option val :=
    match e with
    | Expr LgNone => Some (sv_bool true)
    | Expr (LgSome l) => close (sem_logical l r)
    end

  with sem_logical (l : logical) (r : jv) {struct l} : option den :=
    match l with
    | Logical e op next =>
        dbind (sem_equality e r) (fun x =>
          match next with
          | LgNone =>
              (* no right operand (the parser then gives no operator either) *)
              match op with
              | LNone => Some (DVal x)
              | _ => None
              end
          | LgSome n =>
              let? bx := truth_of x in
              match op with
              | LAnd => if bx then dbind (sem_logical n r) (fun y => let? b := truth_of y in Some (DVal (sv_bool b)))
                        else Some (DVal (sv_bool false))
              | LOr => if bx then Some (DVal (sv_bool true))
                       else dbind (sem_logical n r) (fun y => let? b := truth_of y in Some (DVal (sv_bool b)))
              | _ => None
              end
          end)
    end

  with sem_equality (q : equality) (r : jv) {struct q} : option den :=
    match q with
    | Equality c op next =>
        dbind (sem_comparison c r) (fun x =>
          match next with
          | EqNone => Some (DVal x)
          | EqSome n =>
              dbind (sem_equality n r) (fun y =>
                match op with
                | EEq => let? b := sem_eq x y in Some (DVal (sv_bool b))
                | ENe => let? b := sem_eq x y in Some (DVal (sv_bool (negb b)))
                | _ => None
                end)
          end)
    end

  with sem_comparison (c : comparison) (r : jv) {struct c} : option den :=
    match c with
    | Comparison u op next =>
        dbind (sem_unary_e u r) (fun x =>
          match next with
          | CmNone => Some (DVal x)
          | CmSome n =>
              dbind (sem_comparison n r) (fun y =>
                let? rl := rel_of op in
                let? b := sem_rel rl x y in Some (DVal (sv_bool b)))
          end)
    end

  with sem_unary_e (u : unary) (r : jv) {struct u} : option den :=
    match u with
    | UnOp op u' => dbind (sem_unary_e u' r) (fun x => let? v := sem_unary op x in Some (DVal v))
    | UnPrim p => sem_primary p r
    end

  with sem_primary (p : primary) (r : jv) {struct p} : option den :=
    match p with
    | Primary num str _ bool_ nil_ call sub jsonpath regexp helper =>
        match bool_, num, str, jsonpath, regexp with
        | Some b, _, _, _, _ => Some (DVal (sv_bool b))
        | None, Some f, _, _, _ => Some (DVal (VJ (JFlt f)))
        | None, None, Some tok, _, _ => Some (DVal (VJ (JStr (literal_content tok))))
        | None, None, None, Some path, _ =>
            match helper, call with
            | None, _ => Some (of_matches (jget path r))
            | Some h, ClSome (CallExpr _ ps _) =>
                let? args := sem_paramsopt ps r in
                match jget path r with
                | [] => if works_on_subject h then Some (DVal (sv_bool false))      (* there is no value to work on *)
                        else sem_helper h (sv_bool false) args
                | l => sem_helper h (subject_value l) args
                end
            | Some _, ClNone => Some (DVal (subject_value (jget path r)))
            end
        | None, None, None, None, Some src => Some (DVal (VRe src))
        | None, None, None, None, None =>
            match sub, call with
            | ExSome e, _ => let? v := sem_expr e r in Some (DVal v)
            | ExNone, ClSome (CallExpr _ _ (SlSome _ _ _ (ExSome e))) =>
                (* a path that continues after a selector: the continuation is a nested expression *)
                let? v := sem_expr e r in Some (DVal v)
            | ExNone, ClSome _ => None
            | ExNone, ClNone => Some (DVal (if nil_ then VJ JNull else sv_bool false))
            end
        end
    end

  with sem_paramsopt (ps : paramsopt) (r : jv) {struct ps} : option (list val) :=
    match ps with
    | PsAbsent => Some []
    | PsList l => sem_params l r
    end

  with sem_params (ps : params) (r : jv) {struct ps} : option (list val) :=
    match ps with
    | PsNil => Some []
    | PsCons p rest =>
        let? v := sem_param p r in
        let? vs := sem_params rest r in
        Some (v :: vs)
    end

  with sem_param (p : param) (r : jv) {struct p} : option val :=
    match p with
    | Param _ e jsonpath timeset time_ns =>
        match jsonpath with
        | Some (path, s) => Some (VPath path s)
        | None => if timeset then Some (VTime time_ns)
                  else match e with ExSome e' => sem_expr e' r | ExNone => None end
        end
    end.

  (* the truth value of a query on a record *)
  Definition sem (e : expr) (r : jv) : option bool :=
    let? v := sem_expr e r in truth_of v.

End Sem.
