(* C13 on the model: evaluation of any tree the parser can produce, on any record and with any
   behaviour of the libraries, returns a value: never Panic (and there is no fuel: termination is
   the structural recursion accepted by Coq). *)
Require Import V.Base.Prelude V.Kfl.Num V.Kfl.Json V.Kfl.KflAst V.Kfl.Names V.Kfl.JPath V.Kfl.KflOps V.Kfl.KflEval V.Kfl.KflEvalEq V.Kfl.KflWf.
Local Open Scope Z_scope.

Section Total.
  Variable parse_float : bytes -> option fv.
  Variable re_match : bytes -> bytes -> bool.
  Variable parse_time : bytes -> option Z.
  Variable b64dec : bytes -> option bytes.
  Variable parse_json : bytes -> option jv.
  Variable xml_first : bytes -> bytes -> xres.
  Variable redact_apply : jv -> bytes -> jv.

  Notation ev_expr := (eval_expr parse_float re_match parse_time b64dec parse_json xml_first redact_apply).
  Notation ev_logical := (eval_logical parse_float re_match parse_time b64dec parse_json xml_first redact_apply).
  Notation ev_equality := (eval_equality parse_float re_match parse_time b64dec parse_json xml_first redact_apply).
  Notation ev_comparison := (eval_comparison parse_float re_match parse_time b64dec parse_json xml_first redact_apply).
  Notation ev_unary := (eval_unary parse_float re_match parse_time b64dec parse_json xml_first redact_apply).
  Notation ev_primary := (eval_primary parse_float re_match parse_time b64dec parse_json xml_first redact_apply).
  Notation ev_call := (eval_call parse_float re_match parse_time b64dec parse_json xml_first redact_apply).
  Notation ev_sel := (eval_sel parse_float re_match parse_time b64dec parse_json xml_first redact_apply).
  Notation ev_paramsopt := (eval_paramsopt parse_float re_match parse_time b64dec parse_json xml_first redact_apply).
  Notation ev_params := (eval_params parse_float re_match parse_time b64dec parse_json xml_first redact_apply).
  Notation ev_param := (eval_param parse_float re_match parse_time b64dec parse_json xml_first redact_apply).

  Definition returns {A} (r : res A) : Prop := exists a, r = Ok a.

  (* ---------------------------------------------------------------- helpers never panic *)
  Lemma arg_ok : forall args i site, (i < length args)%nat -> exists v, arg args i site = Ok v.
  Proof.
    intros args i site Hlt. unfold arg.
    destruct (nth_error args i) as [v|] eqn:Hn.
    - exists v. reflexivity.
    - apply nth_error_None in Hn. lia.
  Qed.

  Definition helper_total (hf : list val -> jv -> hres) : Prop := forall args st, returns (hf args st).

  Lemma str_helper_total : forall f, helper_total (str_helper f).
  Proof.
    intros f args st. unfold str_helper.
    destruct (length args <? 3)%nat eqn:Hl.
    - eexists. reflexivity.
    - apply Nat.ltb_ge in Hl.
      destruct (arg_ok args 1 395) as [a1 H1]; [lia|].
      destruct (arg_ok args 2 395) as [a2 H2]; [lia|].
      rewrite H1. cbn [bind]. rewrite H2. cbn [bind]. eexists. reflexivity.
  Qed.

  Lemma datetime_total : helper_total (h_datetime parse_time).
  Proof.
    intros args st. unfold h_datetime.
    destruct (length args <? 3)%nat eqn:Hl.
    - eexists. reflexivity.
    - apply Nat.ltb_ge in Hl.
      destruct (arg_ok args 2 417) as [a2 H2]; [lia|].
      rewrite H2. cbn [bind]. destruct (parse_time _); eexists; reflexivity.
  Qed.

  Lemma limit_total : helper_total h_limit.
  Proof. intros args st. eexists. reflexivity. Qed.

  Lemma json_total : helper_total (h_json b64dec parse_json).
  Proof.
    intros args st. unfold h_json.
    destruct (length args <? 3)%nat eqn:Hl.
    - eexists. reflexivity.
    - apply Nat.ltb_ge in Hl.
      destruct (arg_ok args 2 437) as [a2 H2]; [lia|].
      destruct (arg_ok args 1 441) as [a1 H1]; [lia|].
      rewrite H2. cbn [bind]. destruct a2; try (eexists; reflexivity).
      rewrite H1. cbn [bind].
      destruct (parse_json _) as [doc|]; [|eexists; reflexivity].
      destruct (jget p doc) as [|x [|y l]]; eexists; reflexivity.
  Qed.

  Lemma xml_total : helper_total (h_xml b64dec xml_first).
  Proof.
    intros args st. unfold h_xml.
    destruct (length args <? 3)%nat eqn:Hl.
    - eexists. reflexivity.
    - apply Nat.ltb_ge in Hl.
      destruct (arg_ok args 2 469) as [a2 H2]; [lia|].
      destruct (arg_ok args 1 473) as [a1 H1]; [lia|].
      rewrite H2. cbn [bind]. destruct a2; try (eexists; reflexivity).
      rewrite H1. cbn [bind].
      destruct (xml_first _ _) as [| |[t|]|]; eexists; reflexivity.
  Qed.

  Lemma redact_total : helper_total (h_redact redact_apply).
  Proof.
    intros args st. unfold h_redact.
    destruct (length args <? 2)%nat; eexists; reflexivity.
  Qed.

  Lemma time_total : helper_total h_time.
  Proof.
    intros args st. unfold h_time.
    destruct (length args <? 3)%nat eqn:Hl.
    - eexists. reflexivity.
    - apply Nat.ltb_ge in Hl.
      destruct (arg_ok args 2 655) as [a2 H2]; [lia|].
      rewrite H2. cbn [bind]. destruct a2; eexists; reflexivity.
  Qed.

  Notation table := (helper_table parse_time b64dec parse_json xml_first redact_apply).
  Notation lookup := (lookup_helper parse_time b64dec parse_json xml_first redact_apply).

  Lemma table_total : Forall (fun kh => helper_total (snd kh)) table.
  Proof.
    unfold helper_table.
    repeat (apply Forall_cons; [cbn [snd];
      first [apply str_helper_total | apply datetime_total | apply limit_total | apply json_total
            | apply xml_total | apply redact_total | apply time_total] |]).
    apply Forall_nil.
  Qed.

  Lemma lookup_in_total : forall t name hf,
      Forall (fun kh => helper_total (snd kh)) t -> lookup_helper_in t name = Some hf -> helper_total hf.
  Proof.
    induction t as [|[k h] r IH]; intros name hf HF Hl; cbn [lookup_helper_in] in Hl.
    - discriminate.
    - inversion HF as [|x l Hh Hr]; subst.
      destruct (bytes_eqb name k).
      + inversion Hl; subst. exact Hh.
      + eapply IH; eauto.
  Qed.

  Lemma lookup_total : forall name hf, lookup name = Some hf -> helper_total hf.
  Proof. intros name hf H. eapply lookup_in_total; [apply table_total | exact H]. Qed.

  (* ---------------------------------------------------------------- the evaluator never panics *)
  Definition T_expr (e : expr) := forall st, shape_expr e = true -> returns (ev_expr e st).
  Definition T_logical (l : logical) := forall st, shape_logical l = true -> returns (ev_logical l st).
  Definition T_logopt (l : logopt) := match l with LgNone => True | LgSome x => T_logical x end.
  Definition T_equality (q : equality) := forall st, shape_equality q = true -> returns (ev_equality q st).
  Definition T_eqopt (o : eqopt) := match o with EqNone => True | EqSome q => T_equality q end.
  Definition T_comparison (c : comparison) := forall st, shape_comparison c = true -> returns (ev_comparison c st).
  Definition T_cmpopt (o : cmpopt) := match o with CmNone => True | CmSome c => T_comparison c end.
  Definition T_unary (u : unary) := forall st, shape_unary u = true -> returns (ev_unary u st).
  Definition T_primary (p : primary) := forall st, shape_primary p = true -> returns (ev_primary p st).
  Definition T_expropt (o : expropt) := match o with ExNone => True | ExSome e => T_expr e end.
  Definition T_callexpr (c : callexpr) :=
    (forall st, shape_callexpr c = true -> returns (ev_call c st)) /\
    (forall st, shape_callexpr c = true -> match c with CallExpr _ ps _ => returns (ev_paramsopt ps st) end).
  Definition T_callopt (o : callopt) := match o with ClNone => True | ClSome c => T_callexpr c end.
  Definition T_paramsopt (o : paramsopt) := forall st, shape_paramsopt o = true -> returns (ev_paramsopt o st).
  Definition T_params (ps : params) := forall st, shape_params ps = true -> returns (ev_params ps st).
  Definition T_param (p : param) := forall st, shape_param p = true -> returns (ev_param p st).
  Definition T_selopt (s : selopt) := forall st, shape_selopt s = true -> returns (ev_sel s st).

  Ltac split_and H :=
    repeat match type of H with
           | (_ && _)%bool = true => let H1 := fresh H in apply andb_prop in H; destruct H as [H H1]
           end.

  Lemma eval_total_all :
    (forall e, T_expr e) /\ (forall l, T_logopt l) /\ (forall l, T_logical l) /\ (forall q, T_equality q) /\
    (forall o, T_eqopt o) /\ (forall c, T_comparison c) /\ (forall o, T_cmpopt o) /\ (forall u, T_unary u) /\
    (forall p, T_primary p) /\ (forall o, T_expropt o) /\ (forall o, T_callopt o) /\ (forall c, T_callexpr c) /\
    (forall o, T_paramsopt o) /\ (forall ps, T_params ps) /\ (forall p, T_param p) /\ (forall s, T_selopt s).
  Proof.
    apply ast_mutind.
    - (* Expr *)
      intros l IH st Hs. cbn [shape_expr] in Hs.
      destruct l as [|x]; [rewrite ev_expr_none; eexists; reflexivity|]. rewrite ev_expr_some.
      cbn [T_logopt] in IH. cbn [shape_logopt] in Hs. destruct (IH st Hs) as [[r st'] Hr]. rewrite Hr. cbn [bind].
      destruct r; eexists; reflexivity.
    - exact I.
    - intros l IH. exact IH.
    - (* Logical *)
      intros e IHe op next IHn st Hs. cbn [shape_logical] in Hs. apply andb_prop in Hs; destruct Hs as [Hs Hs1]. apply andb_prop in Hs; destruct Hs as [Hs Hs0].
      rewrite ev_logical_eq.
      destruct (IHe st Hs) as [[r st1] Hr]. rewrite Hr. cbn [bind].
      destruct r as [unar o|o]; [|eexists; reflexivity].
      destruct next as [|n].
      + destruct op; destruct (bool_operand unar); eexists; reflexivity.
      + cbn [T_logopt] in IHn. cbn [shape_logopt] in Hs0.
        assert (Hn : returns (ev_logical n st1)) by (apply IHn; exact Hs0).
        destruct Hn as [[r2 st2] Hr2].
        destruct op; cbn [lop_ok] in Hs1; try discriminate;
          destruct (bool_operand unar); try (eexists; reflexivity);
          rewrite Hr2; cbn [bind]; destruct r2; cbn [logical_op]; eexists; reflexivity.
    - (* Equality *)
      intros c IHc op next IHn st Hs. cbn [shape_equality] in Hs. apply andb_prop in Hs; destruct Hs as [Hs Hs1]. apply andb_prop in Hs; destruct Hs as [Hs Hs0].
      rewrite ev_equality_eq.
      destruct (IHc st Hs) as [[r st1] Hr]. rewrite Hr. cbn [bind].
      destruct r as [comp o|o]; [|eexists; reflexivity].
      destruct next as [|n]; [eexists; reflexivity|].
      cbn [T_eqopt] in IHn. cbn [shape_eqopt] in Hs0.
      destruct (IHn st1 Hs0) as [[r2 st2] Hr2]. rewrite Hr2. cbn [bind].
      destruct r2; [|eexists; reflexivity].
      destruct op; cbn [eop_ok] in Hs1; try discriminate; cbn [equality_op]; eexists; reflexivity.
    - exact I.
    - intros q IH. exact IH.
    - (* Comparison *)
      intros u IHu op next IHn st Hs. cbn [shape_comparison] in Hs. apply andb_prop in Hs; destruct Hs as [Hs Hs1]. apply andb_prop in Hs; destruct Hs as [Hs Hs0].
      rewrite ev_comparison_eq.
      destruct (IHu st Hs) as [[r st1] Hr]. rewrite Hr. cbn [bind].
      destruct r as [logic o|o]; [|eexists; reflexivity].
      destruct next as [|n]; [eexists; reflexivity|].
      cbn [T_cmpopt] in IHn. cbn [shape_cmpopt] in Hs0.
      destruct (IHn st1 Hs0) as [[r2 st2] Hr2]. rewrite Hr2. cbn [bind].
      destruct r2; [|eexists; reflexivity].
      destruct op; cbn [cop_ok] in Hs1; try discriminate; cbn [comparison_op]; eexists; reflexivity.
    - exact I.
    - intros c IH. exact IH.
    - (* UnOp *)
      intros op u IH st Hs. cbn [shape_unary] in Hs. rewrite ev_unary_op.
      destruct (IH st Hs) as [[r st1] Hr]. rewrite Hr. cbn [bind].
      destruct r; eexists; reflexivity.
    - (* UnPrim *)
      intros p IH st Hs. cbn [shape_unary] in Hs. rewrite ev_unary_prim. apply IH. exact Hs.
    - (* Primary *)
      intros num str regex bool_ nil_ call IHcall sub IHsub jsonpath regexp helper st Hs.
      cbn [shape_primary] in Hs. split_and Hs.
      rewrite ev_primary_eq.
      destruct bool_; [eexists; reflexivity|].
      destruct num; [eexists; reflexivity|].
      destruct str; [eexists; reflexivity|].
      destruct jsonpath as [jp|].
      + unfold path_branch. cbv zeta.
        assert (Hgen : forall v (nm : bool), returns
          (match helper, call with
           | Some h, ClSome (CallExpr _ ps _) =>
               let* r := ev_paramsopt ps st in
               let '(pvals, st1) := r in
               match lookup h with
               | Some hf => if nm && subject_helper h then Ok (EvVal vfalse ORef, st1)
                            else let* hr := hf (VJ st :: v :: pvals) st1 in let '(o, v', st2) := hr in Ok (EvVal v' o, st2)
               | None => Ok (EvCollapse ORef, st1)
               end
           | _, _ => Ok (EvVal v ORef, st)
           end)).
        { intros v nm. destruct helper as [h|]; [|eexists; reflexivity].
          destruct call as [|[ident ps sel]]; [eexists; reflexivity|].
          cbn [T_callopt T_callexpr] in IHcall. destruct IHcall as [_ IHps].
          cbn [shape_callopt] in Hs.
          destruct (IHps st Hs) as [[pvals st1] Hp]. rewrite Hp. cbn [bind].
          destruct (lookup h) as [hf|] eqn:Hl; [|eexists; reflexivity].
          destruct (nm && subject_helper h); [eexists; reflexivity|].
          destruct (lookup_total h hf Hl (VJ st :: v :: pvals) st1) as [[[o v'] st2] Hh].
          rewrite Hh. cbn [bind]. eexists; reflexivity. }
        destruct (jget jp st) as [|x l] eqn:Hj; cbn [no_match].
        * destruct helper; [apply (Hgen _ true) | eexists; reflexivity].
        * destruct helper; apply (Hgen _ false).
      + destruct regexp; [eexists; reflexivity|].
        destruct sub as [|e].
        * destruct call as [|c]; [eexists; reflexivity|].
          cbn [T_callopt T_callexpr] in IHcall. destruct IHcall as [IHc _].
          apply IHc. exact Hs.
        * cbn [T_expropt] in IHsub. apply IHsub. exact Hs0.
    - exact I.
    - intros e IH. exact IH.
    - exact I.
    - intros c IH. exact IH.
    - (* CallExpr *)
      intros ident ps IHps sel IHsel. split.
      + intros st Hs. cbn [shape_callexpr] in Hs. split_and Hs. rewrite ev_call_eq. apply IHsel. exact Hs0.
      + intros st Hs. cbn [shape_callexpr] in Hs. split_and Hs. apply IHps. exact Hs.
    - (* PsAbsent *) intros st _. eexists. reflexivity.
    - (* PsList *) intros ps IH st Hs. rewrite ev_paramsopt_list. apply IH. exact Hs.
    - (* PsNil *) intros st _. eexists. reflexivity.
    - (* PsCons *)
      intros p IHp ps IHps st Hs. cbn [shape_params] in Hs. split_and Hs.
      rewrite ev_params_cons.
      destruct (IHp st Hs) as [[v st1] Hv]. rewrite Hv. cbn [bind].
      destruct (IHps st1 Hs0) as [[vs st2] Hvs]. rewrite Hvs. cbn [bind]. eexists; reflexivity.
    - (* Param *)
      intros tag e IHe jsonpath timeset time_ns st Hs. cbn [shape_param] in Hs. split_and Hs.
      rewrite ev_param_eq.
      destruct jsonpath as [[jp s]|]; [eexists; reflexivity|].
      destruct timeset; [eexists; reflexivity|].
      destruct e as [|e']; [discriminate|].
      cbn [T_expropt] in IHe. cbn [shape_expropt] in Hs.
      destruct (IHe st Hs) as [[r st1] Hr]. rewrite Hr. cbn [bind].
      destruct r; eexists; reflexivity.
    - (* SlNone *) intros st _. eexists. reflexivity.
    - (* SlSome *)
      intros index key rd e IHe st Hs. cbn [shape_selopt] in Hs.
      destruct e as [|e']; [rewrite ev_sel_noexpr; eexists; reflexivity|].
      rewrite ev_sel_expr. cbn [T_expropt] in IHe. apply IHe. exact Hs.
  Qed.

  Theorem eval_expr_total : forall e st, shape_expr e = true -> returns (ev_expr e st).
  Proof. intros e st. apply (proj1 eval_total_all). Qed.

  (* C13: no query tree and no record make the evaluator panic *)
  Theorem eval_model_no_panic : forall e r, shape_expr e = true ->
      forall site, eval_model parse_float re_match parse_time b64dec parse_json xml_first redact_apply e r <> Panic site.
  Proof.
    intros e r Hs site. unfold eval_model.
    destruct (eval_expr_total e r Hs) as [[x st] Hx]. rewrite Hx. cbn [bind].
    destruct x; discriminate.
  Qed.

  Theorem eval_model_returns : forall e r, shape_expr e = true ->
      exists b r', eval_model parse_float re_match parse_time b64dec parse_json xml_first redact_apply e r = Ok (b, r').
  Proof.
    intros e r Hs. unfold eval_model.
    destruct (eval_expr_total e r Hs) as [[x st] Hx]. rewrite Hx. cbn [bind].
    destruct x; eexists; eexists; reflexivity.
  Qed.

End Total.
