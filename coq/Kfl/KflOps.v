(* eval.go: operand coercions (boolOperand / stringOperand / float64Operand) and the operator
   tables eql / neq / gtr / lss / geq / leq / and / or, case by case as the Go type switches are
   written (after the repairs: isNumber / scalarEqual / deepEqual).  Library behaviour
   (strconv.ParseFloat, regexp matching) enters as section variables. *)
Require Import V.Base.Prelude V.Kfl.Num V.Kfl.Json V.Kfl.KflAst V.Kfl.Names.
Local Open Scope Z_scope.

Definition vfalse : val := VJ (JBool false).
Definition vtrue : val := VJ (JBool true).
Definition vbool (b : bool) : val := VJ (JBool b).

Section Ops.
  Variable parse_float : bytes -> option fv.          (* strconv.ParseFloat(s, 64): None = error *)
  Variable re_match : bytes -> bytes -> bool.         (* regexp.MustCompile(src).MatchString(s) *)

  (* eval.go:27 *)
  Definition bool_operand (v : val) : bool :=
    match v with
    | VJ (JStr s) => match s with [] => false | _ => true end
    | VJ (JBool b) => b
    | VJ (JInt z) => 0 <? z
    | VJ (JFlt f) => f_gt f fzero
    | VJ JNull => false
    | VJ (JArr l) => match l with [] => false | _ => true end
    | _ => false
    end.

  (* eval.go:47 *)
  Definition string_operand (v : val) : bytes :=
    match v with
    | VJ (JStr s) => s
    | VJ (JInt z) => fmt_int z
    | VJ (JFlt f) => fmt_g6 f
    | VJ (JBool b) => if b then s_true else s_false
    | VJ JNull => s_null
    | _ => []
    end.

  (* eval.go:65 *)
  Definition float_operand (v : val) : fv :=
    match v with
    | VJ (JStr s) => match parse_float s with Some f => f | None => fzero end
    | VJ (JInt z) => f_of_Z z
    | VJ (JFlt f) => f
    | VJ (JBool b) => if b then fone else fzero
    | _ => fzero
    end.

  Definition op_and (a b : val) : bool := bool_operand a && bool_operand b.
  Definition op_or (a b : val) : bool := bool_operand a || bool_operand b.

  Definition is_number (v : val) : bool :=
    match v with VJ (JInt _) | VJ (JFlt _) => true | _ => false end.

  Definition scalar_equal (a b : val) : bool :=
    if is_number a && is_number b then f_eq (float_operand a) (float_operand b)
    else bytes_eqb (string_operand a) (string_operand b).

  (* deepEqual: reflect.DeepEqual with numbers compared numerically = JSON value equality *)
  Definition deep_equal (a b : jv) : bool := json_eq a b.

  (* eql, eval.go *)
  Definition eql (a b : val) : bool :=
    match a with
    | VRe src => re_match src (string_operand b)
    | VJ (JArr la) =>
        match b with
        | VJ (JArr lb) => deep_equal (JArr la) (JArr lb)
        | _ => existsb (fun i => scalar_equal (VJ i) b) la
        end
    | _ =>
        match b with
        | VRe src => re_match src (string_operand a)
        | VJ (JArr lb) => existsb (fun i => scalar_equal a (VJ i)) lb
        | _ => scalar_equal a b
        end
    end.

  Definition neq (a b : val) : bool :=
    match a with
    | VRe src => negb (re_match src (string_operand b))
    | VJ (JArr la) =>
        match b with
        | VJ (JArr lb) => negb (deep_equal (JArr la) (JArr lb))
        | _ => negb (existsb (fun i => scalar_equal (VJ i) b) la)
        end
    | _ =>
        match b with
        | VRe src => negb (re_match src (string_operand a))
        | VJ (JArr lb) => negb (existsb (fun i => scalar_equal a (VJ i)) lb)
        | _ => negb (scalar_equal a b)
        end
    end.

  (* the four comparison operators share one shape: rel is the Go comparison of the scalar case,
     fail is the comparison that makes the array/array loop return false *)
  Definition cmp_shape (rel fail : fv -> fv -> bool) (a b : val) : bool :=
    match a with
    | VJ (JArr la) =>
        match b with
        | VJ (JArr lb) =>
            forallb (fun i => forallb (fun j => negb (fail (float_operand (VJ i)) (float_operand (VJ j)))) lb) la
        | _ => existsb (fun i => rel (float_operand (VJ i)) (float_operand b)) la
        end
    | _ =>
        match b with
        | VJ (JArr lb) => existsb (fun i => rel (float_operand a) (float_operand (VJ i))) lb
        | _ => rel (float_operand a) (float_operand b)
        end
    end.

  Definition gtr := cmp_shape f_gt f_le.
  Definition lss := cmp_shape f_lt f_ge.
  Definition geq := cmp_shape f_ge f_lt.
  Definition leq := cmp_shape f_le f_gt.

  (* operator tables: None = the key is not in the Go map (the unchecked type assertion on the
     nil interface then panics) *)
  Definition logical_op (op : lop) : option (val -> val -> bool) :=
    match op with LAnd => Some op_and | LOr => Some op_or | _ => None end.
  Definition equality_op (op : eop) : option (val -> val -> bool) :=
    match op with EEq => Some eql | ENe => Some neq | _ => None end.
  Definition comparison_op (op : cop) : option (val -> val -> bool) :=
    match op with CGt => Some gtr | CLt => Some lss | CGe => Some geq | CLe => Some leq | _ => None end.

End Ops.
