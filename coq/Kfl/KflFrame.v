(* C14 on the model: a query that never dispatches to redact leaves the record as it was, whatever
   the libraries answer, on every evaluation path (collapse, short circuit, helper errors); and the
   object that is serialised is the record itself (not the nil interface) for every tree Precompute
   produces. *)
Require Import V.Base.Prelude V.Kfl.Num V.Kfl.Json V.Kfl.KflAst V.Kfl.Names V.Kfl.JPath V.Kfl.KflOps V.Kfl.KflEval
  V.Kfl.KflEvalEq V.Kfl.KflWf.
Local Open Scope Z_scope.

Definition ref_of (y : ev) : objref := match y with EvVal _ o => o | EvCollapse o => o end.

Section Frame.
  Variable parse_float : bytes -> option fv.
  Variable re_match : bytes -> bytes -> bool.
  Variable parse_time : bytes -> option Z.
  Variable b64dec : bytes -> option bytes.
  Variable parse_json : bytes -> option jv.
  Variable xml_first : bytes -> bytes -> xres.
  Variable redact_apply : jv -> bytes -> jv.

  Notation ev_expr := (eval_expr parse_float re_match parse_time b64dec parse_json xml_first redact_apply).
  Notation ev_logical := (eval_logical parse_float re_match parse_time b64dec parse_json xml_first redact_apply).
  Notation ev_equality := (eval_equality parse_float re_match parse_time b64dec parse_json xml_first redact_apply).
  Notation ev_comparison := (eval_comparison parse_float re_match parse_time b64dec parse_json xml_first redact_apply).
  Notation ev_unary := (eval_unary parse_float re_match parse_time b64dec parse_json xml_first redact_apply).
  Notation ev_primary := (eval_primary parse_float re_match parse_time b64dec parse_json xml_first redact_apply).
  Notation ev_call := (eval_call parse_float re_match parse_time b64dec parse_json xml_first redact_apply).
  Notation ev_sel := (eval_sel parse_float re_match parse_time b64dec parse_json xml_first redact_apply).
  Notation ev_paramsopt := (eval_paramsopt parse_float re_match parse_time b64dec parse_json xml_first redact_apply).
  Notation ev_params := (eval_params parse_float re_match parse_time b64dec parse_json xml_first redact_apply).
  Notation ev_param := (eval_param parse_float re_match parse_time b64dec parse_json xml_first redact_apply).
  Notation table := (helper_table parse_time b64dec parse_json xml_first redact_apply).
  Notation lookup := (lookup_helper parse_time b64dec parse_json xml_first redact_apply).

  (* ---------------------------------------------------------------- helpers other than redact *)
  Definition frame_helper (hf : list val -> jv -> hres) : Prop :=
    forall args st o v st', hf args st = Ok (o, v, st') -> st' = st /\ (args <> [] -> o = ORef).

  Lemma helper_obj_ref : forall args, args <> [] -> helper_obj args = ORef.
  Proof. intros [|a l] H; [contradiction|reflexivity]. Qed.

  Ltac frame_done :=
    match goal with
    | H : Ok _ = Ok _ |- _ => inversion H; subst; split; [reflexivity | intro; first [reflexivity | apply helper_obj_ref; assumption]]
    end.

  Lemma arg_cases : forall args i site, (exists v, arg args i site = Ok v) \/ arg args i site = Panic site.
  Proof. intros. unfold arg. destruct (nth_error args i); [left; eexists; reflexivity | right; reflexivity]. Qed.

  Lemma str_helper_frame : forall f, frame_helper (str_helper f).
  Proof.
    intros f args st o v st' H. unfold str_helper in H.
    destruct (length args <? 3)%nat; [frame_done|].
    destruct (arg_cases args 1 395) as [[a1 H1]|H1]; rewrite H1 in H; cbn [bind] in H; [|discriminate].
    destruct (arg_cases args 2 395) as [[a2 H2]|H2]; rewrite H2 in H; cbn [bind] in H; [|discriminate].
    frame_done.
  Qed.

  Lemma datetime_frame : frame_helper (h_datetime parse_time).
  Proof.
    intros args st o v st' H. unfold h_datetime in H.
    destruct (length args <? 3)%nat; [frame_done|].
    destruct (arg_cases args 2 417) as [[a2 H2]|H2]; rewrite H2 in H; cbn [bind] in H; [|discriminate].
    destruct (parse_time _); frame_done.
  Qed.

  Lemma limit_frame : frame_helper h_limit.
  Proof. intros args st o v st' H. unfold h_limit in H. frame_done. Qed.

  Lemma json_frame : frame_helper (h_json b64dec parse_json).
  Proof.
    intros args st o v st' H. unfold h_json in H.
    destruct (length args <? 3)%nat; [frame_done|].
    destruct (arg_cases args 2 437) as [[a2 H2]|H2]; rewrite H2 in H; cbn [bind] in H; [|discriminate].
    destruct a2; try frame_done.
    destruct (arg_cases args 1 441) as [[a1 H1]|H1]; rewrite H1 in H; cbn [bind] in H; [|discriminate].
    destruct (parse_json _) as [doc|]; [|frame_done].
    destruct (jget p doc) as [|x [|y l]]; frame_done.
  Qed.

  Lemma xml_frame : frame_helper (h_xml b64dec xml_first).
  Proof.
    intros args st o v st' H. unfold h_xml in H.
    destruct (length args <? 3)%nat; [frame_done|].
    destruct (arg_cases args 2 469) as [[a2 H2]|H2]; rewrite H2 in H; cbn [bind] in H; [|discriminate].
    destruct a2; try frame_done.
    destruct (arg_cases args 1 473) as [[a1 H1]|H1]; rewrite H1 in H; cbn [bind] in H; [|discriminate].
    destruct (xml_first _ _) as [| |[t|]|]; frame_done.
  Qed.

  Lemma time_frame : frame_helper h_time.
  Proof.
    intros args st o v st' H. unfold h_time in H.
    destruct (length args <? 3)%nat; [frame_done|].
    destruct (arg_cases args 2 655) as [[a2 H2]|H2]; rewrite H2 in H; cbn [bind] in H; [|discriminate].
    destruct a2; frame_done.
  Qed.

  Lemma table_frame : Forall (fun kh => fst kh = n_redact \/ frame_helper (snd kh)) table.
  Proof.
    unfold helper_table.
    repeat (apply Forall_cons; [cbn [fst snd];
      first [left; reflexivity
            | right; first [apply str_helper_frame | apply datetime_frame | apply limit_frame | apply json_frame
                           | apply xml_frame | apply time_frame]] |]).
    apply Forall_nil.
  Qed.

  Lemma lookup_in_frame : forall t name hf,
      Forall (fun kh => fst kh = n_redact \/ frame_helper (snd kh)) t ->
      bytes_eqb name n_redact = false ->
      lookup_helper_in t name = Some hf -> frame_helper hf.
  Proof.
    induction t as [|[k h] r IH]; intros name hf HF Hne Hl; cbn [lookup_helper_in] in Hl.
    - discriminate.
    - inversion HF as [|x l Hh Hr]; subst. cbn [fst snd] in Hh.
      destruct (bytes_eqb name k) eqn:Hk.
      + inversion Hl; subst. destruct Hh as [Hh|Hh]; [|exact Hh].
        subst k. rewrite Hk in Hne. discriminate.
      + eapply IH; eauto.
  Qed.

  Lemma lookup_frame : forall name hf, bytes_eqb name n_redact = false -> lookup name = Some hf -> frame_helper hf.
  Proof. intros name hf Hne H. eapply lookup_in_frame; [apply table_frame | exact Hne | exact H]. Qed.

  (* ---------------------------------------------------------------- the evaluator *)
  Definition frame_ev (nr pr : bool) (r : eres) (st : jv) : Prop :=
    forall y st', nr = true -> r = Ok (y, st') -> st' = st /\ (pr = true -> ref_of y = ORef).

  Definition F_expr (e : expr) := forall st, frame_ev (no_redact_expr e) (prepared_expr e) (ev_expr e st) st.
  Definition F_logical (l : logical) := forall st, frame_ev (no_redact_logical l) (prepared_logical l) (ev_logical l st) st.
  Definition F_logopt (l : logopt) := match l with LgNone => True | LgSome x => F_logical x end.
  Definition F_equality (q : equality) := forall st, frame_ev (no_redact_equality q) (prepared_equality q) (ev_equality q st) st.
  Definition F_eqopt (o : eqopt) := match o with EqNone => True | EqSome q => F_equality q end.
  Definition F_comparison (c : comparison) := forall st, frame_ev (no_redact_comparison c) (prepared_comparison c) (ev_comparison c st) st.
  Definition F_cmpopt (o : cmpopt) := match o with CmNone => True | CmSome c => F_comparison c end.
  Definition F_unary (u : unary) := forall st, frame_ev (no_redact_unary u) (prepared_unary u) (ev_unary u st) st.
  Definition F_primary (p : primary) := forall st, frame_ev (no_redact_primary p) (prepared_primary p) (ev_primary p st) st.
  Definition F_expropt (o : expropt) := match o with ExNone => True | ExSome e => F_expr e end.
  Definition F_paramsopt (o : paramsopt) :=
    forall st vs st', no_redact_paramsopt o = true -> ev_paramsopt o st = Ok (vs, st') -> st' = st.
  Definition F_params (ps : params) :=
    forall st vs st', no_redact_params ps = true -> ev_params ps st = Ok (vs, st') -> st' = st.
  Definition F_param (p : param) :=
    forall st v st', no_redact_param p = true -> ev_param p st = Ok (v, st') -> st' = st.
  (* a call expression: its parameters, and its select expression (no claim on the reference here) *)
  Definition F_selopt (s : selopt) :=
    match s with SlSome _ _ _ (ExSome e) => F_expr e | _ => True end.
  Definition F_callexpr (c : callexpr) :=
    match c with CallExpr _ ps sel => F_paramsopt ps /\ F_selopt sel end.
  Definition F_callopt (o : callopt) := match o with ClNone => True | ClSome c => F_callexpr c end.

  Ltac split_nr H :=
    repeat match type of H with
           | (_ && _)%bool = true => let H1 := fresh H in apply andb_prop in H; destruct H as [H H1]
           end.

  Lemma bind_ok : forall {A B} (r : res A) (f : A -> res B) b, bind r f = Ok b -> exists a, r = Ok a /\ f a = Ok b.
  Proof. intros A B [a| | |] f b H; cbn [bind] in H; try discriminate. exists a. auto. Qed.

  Lemma frame_all :
    (forall e, F_expr e) /\ (forall l, F_logopt l) /\ (forall l, F_logical l) /\ (forall q, F_equality q) /\
    (forall o, F_eqopt o) /\ (forall c, F_comparison c) /\ (forall o, F_cmpopt o) /\ (forall u, F_unary u) /\
    (forall p, F_primary p) /\ (forall o, F_expropt o) /\ (forall o, F_callopt o) /\ (forall c, F_callexpr c) /\
    (forall o, F_paramsopt o) /\ (forall ps, F_params ps) /\ (forall p, F_param p) /\ (forall s, F_selopt s).
  Proof.
    apply ast_mutind.
    - (* Expr *)
      intros l IH st y st' Hnr H. cbn [no_redact_expr] in Hnr.
      destruct l as [|x].
      + rewrite ev_expr_none in H. inversion H; subst. split; [reflexivity|intros _; reflexivity].
      + rewrite ev_expr_some in H. cbn [F_logopt] in IH. cbn [no_redact_logopt] in Hnr.
        apply bind_ok in H. destruct H as [[r st1] [Hr H]].
        destruct (IH st r st1 Hnr Hr) as [Hst Href].
        destruct r as [v o|o]; inversion H; subst; (split; [reflexivity|]); cbn [prepared_expr prepared_logopt ref_of] in *; exact Href.
    - exact I.
    - intros l IH. exact IH.
    - (* Logical *)
      intros e IHe op next IHn st y st' Hnr H. cbn [no_redact_logical] in Hnr. split_nr Hnr.
      rewrite ev_logical_eq in H.
      apply bind_ok in H. destruct H as [[r st1] [Hr H]].
      destruct (IHe st r st1 Hnr Hr) as [Hst Href]. subst st1.
      cbn [prepared_logical].
      destruct r as [unar o|o].
      2:{ inversion H; subst. split; [reflexivity|]. intro Hp. apply andb_prop in Hp. apply Href. apply Hp. }
      cbn [ref_of] in Href.
      assert (Hend : forall w, Ok (EvVal w o, st) = Ok (y, st') ->
                st' = st /\ ((prepared_equality e && prepared_logopt next)%bool = true -> ref_of y = ORef)).
      { intros w Hw. inversion Hw; subst. split; [reflexivity|]. intro Hp. apply andb_prop in Hp. apply Href. apply Hp. }
      assert (Hnext : forall n, next = LgSome n ->
                (let* r2 := ev_logical n st in
                 match r2 with
                 | (EvCollapse _, _) => Ok r2
                 | (EvVal nx o2, st2) =>
                     match logical_op op with
                     | Some f => Ok (EvVal (vbool (f unar nx)) o2, st2)
                     | None => Panic 900
                     end
                 end) = Ok (y, st') ->
                st' = st /\ ((prepared_equality e && prepared_logopt next)%bool = true -> ref_of y = ORef)).
      { intros n Hn Hb. subst next. cbn [F_logopt] in IHn. cbn [no_redact_logopt] in Hnr0.
        apply bind_ok in Hb. destruct Hb as [[r2 st2] [Hr2 Hb]].
        destruct (IHn st r2 st2 Hnr0 Hr2) as [Hst2 Href2]. subst st2.
        destruct r2 as [nx o2|o2].
        - destruct (logical_op op); [|discriminate]. inversion Hb; subst. split; [reflexivity|].
          intro Hp. apply andb_prop in Hp. apply Href2. apply Hp.
        - inversion Hb; subst. split; [reflexivity|]. intro Hp. apply andb_prop in Hp. apply Href2. apply Hp. }
      cbv zeta in H.
      destruct op; destruct (bool_operand unar); destruct next as [|n];
        first [ apply (Hend _ H) | apply (Hnext n eq_refl H) ].
    - (* Equality *)
      intros c IHc op next IHn st y st' Hnr H. cbn [no_redact_equality] in Hnr. split_nr Hnr.
      rewrite ev_equality_eq in H.
      apply bind_ok in H. destruct H as [[r st1] [Hr H]].
      destruct (IHc st r st1 Hnr Hr) as [Hst Href]. subst st1.
      cbn [prepared_equality].
      destruct r as [comp o|o].
      2:{ inversion H; subst. split; [reflexivity|]. intro Hp. apply andb_prop in Hp. apply Href. apply Hp. }
      destruct next as [|n].
      + inversion H; subst. split; [reflexivity|]. intro Hp. apply andb_prop in Hp. apply Href. apply Hp.
      + cbn [F_eqopt] in IHn. cbn [no_redact_eqopt] in Hnr0.
        apply bind_ok in H. destruct H as [[r2 st2] [Hr2 H]].
        destruct (IHn st r2 st2 Hnr0 Hr2) as [Hst2 Href2]. subst st2.
        destruct r2 as [nx o2|o2].
        * destruct (equality_op parse_float re_match op); [|discriminate]. inversion H; subst. split; [reflexivity|].
          intro Hp. apply andb_prop in Hp. apply Href2. apply Hp.
        * inversion H; subst. split; [reflexivity|]. intro Hp. apply andb_prop in Hp. apply Href2. apply Hp.
    - exact I.
    - intros q IH. exact IH.
    - (* Comparison *)
      intros u IHu op next IHn st y st' Hnr H. cbn [no_redact_comparison] in Hnr. split_nr Hnr.
      rewrite ev_comparison_eq in H.
      apply bind_ok in H. destruct H as [[r st1] [Hr H]].
      destruct (IHu st r st1 Hnr Hr) as [Hst Href]. subst st1.
      cbn [prepared_comparison].
      destruct r as [logic o|o].
      2:{ inversion H; subst. split; [reflexivity|]. intro Hp. apply andb_prop in Hp. apply Href. apply Hp. }
      destruct next as [|n].
      + inversion H; subst. split; [reflexivity|]. intro Hp. apply andb_prop in Hp. apply Href. apply Hp.
      + cbn [F_cmpopt] in IHn. cbn [no_redact_cmpopt] in Hnr0.
        apply bind_ok in H. destruct H as [[r2 st2] [Hr2 H]].
        destruct (IHn st r2 st2 Hnr0 Hr2) as [Hst2 Href2]. subst st2.
        destruct r2 as [nx o2|o2].
        * destruct (comparison_op parse_float op); [|discriminate]. inversion H; subst. split; [reflexivity|].
          intro Hp. apply andb_prop in Hp. apply Href2. apply Hp.
        * inversion H; subst. split; [reflexivity|]. intro Hp. apply andb_prop in Hp. apply Href2. apply Hp.
    - exact I.
    - intros c IH. exact IH.
    - (* UnOp *)
      intros op u IH st y st' Hnr H. cbn [no_redact_unary] in Hnr. rewrite ev_unary_op in H.
      apply bind_ok in H. destruct H as [[r st1] [Hr H]].
      destruct (IH st r st1 Hnr Hr) as [Hst Href]. subst st1. cbn [prepared_unary].
      destruct r; inversion H; subst; (split; [reflexivity|]); exact Href.
    - (* UnPrim *)
      intros p IH st y st' Hnr H. cbn [no_redact_unary] in Hnr. rewrite ev_unary_prim in H.
      cbn [prepared_unary]. eapply IH; eauto.
    - (* Primary *)
      intros num str regex bool_ nil_ call IHcall sub IHsub jsonpath regexp helper st y st' Hnr H.
      cbn [no_redact_primary] in Hnr. split_nr Hnr.
      rewrite ev_primary_eq in H. cbn [prepared_primary].
      destruct bool_; [inversion H; subst; split; [reflexivity|intros _; reflexivity]|].
      destruct num; [inversion H; subst; split; [reflexivity|intros _; reflexivity]|].
      destruct str; [inversion H; subst; split; [reflexivity|intros _; reflexivity]|].
      destruct jsonpath as [jp|].
      + (* path branch: the reference is always the record *)
        assert (Hgoal : st' = st /\ ref_of y = ORef); [|destruct Hgoal as [G1 G2]; split; [exact G1|intros _; exact G2]].
        unfold path_branch in H. cbv zeta in H.
        assert (Hgen : forall v (nm : bool),
          (match helper, call with
           | Some h, ClSome (CallExpr _ ps _) =>
               let* r := ev_paramsopt ps st in
               let '(pvals, st1) := r in
               match lookup h with
               | Some hf => if nm && subject_helper h then Ok (EvVal vfalse ORef, st1)
                            else let* hr := hf (VJ st :: v :: pvals) st1 in let '(o, v', st2) := hr in Ok (EvVal v' o, st2)
               | None => Ok (EvCollapse ORef, st1)
               end
           | _, _ => Ok (EvVal v ORef, st)
           end) = Ok (y, st') -> st' = st /\ ref_of y = ORef).
        { intros v nm Hv. destruct helper as [h|]; [|inversion Hv; subst; split; reflexivity].
          destruct call as [|[ident ps sel]]; [inversion Hv; subst; split; reflexivity|].
          cbn [F_callopt F_callexpr] in IHcall. destruct IHcall as [IHps _].
          cbn [no_redact_callopt no_redact_callexpr] in Hnr1. split_nr Hnr1.
          apply bind_ok in Hv. destruct Hv as [[pvals st1] [Hp Hv]].
          pose proof (IHps st pvals st1 Hnr1 Hp) as Hst1. subst st1.
          cbn [is_redact] in Hnr. apply negb_true_iff in Hnr.
          destruct (lookup h) as [hf|] eqn:Hl; [|inversion Hv; subst; split; reflexivity].
          destruct (nm && subject_helper h); [inversion Hv; subst; split; reflexivity|].
          apply bind_ok in Hv. destruct Hv as [[[o v'] st2] [Hh Hv]].
          destruct (lookup_frame h hf Hnr Hl _ _ _ _ _ Hh) as [Hst2 Ho]. subst st2.
          inversion Hv; subst. split; [reflexivity|]. cbn [ref_of]. apply Ho. discriminate. }
        destruct (jget jp st) as [|x l] eqn:Hj; cbn [no_match] in H.
        * destruct helper; [apply (Hgen _ true H) | inversion H; subst; split; reflexivity].
        * destruct helper; apply (Hgen _ false H).
      + destruct regexp; [inversion H; subst; split; [reflexivity|intros _; reflexivity]|].
        destruct sub as [|e].
        * destruct call as [|[ident ps sel]]; [inversion H; subst; split; [reflexivity|intros _; reflexivity]|].
          rewrite ev_call_eq in H.
          cbn [F_callopt F_callexpr] in IHcall. destruct IHcall as [_ IHsel].
          cbn [no_redact_callopt no_redact_callexpr] in Hnr1. split_nr Hnr1.
          destruct sel as [|i k rd [|e]].
          -- rewrite ev_sel_none in H. inversion H; subst. split; [reflexivity|discriminate].
          -- rewrite ev_sel_noexpr in H. inversion H; subst. split; [reflexivity|discriminate].
          -- rewrite ev_sel_expr in H. cbn [F_selopt] in IHsel. cbn [no_redact_selopt no_redact_expropt] in Hnr2.
             eapply IHsel; eauto.
        * cbn [F_expropt] in IHsub. cbn [no_redact_expropt] in Hnr0. eapply IHsub; eauto.
    - exact I.
    - intros e IH. exact IH.
    - exact I.
    - intros c IH. exact IH.
    - (* CallExpr *)
      intros ident ps IHps sel IHsel. cbn [F_callexpr]. split; [exact IHps|exact IHsel].
    - (* PsAbsent *) intros st vs st' _ H. rewrite ev_paramsopt_absent in H. inversion H; reflexivity.
    - (* PsList *) intros ps IH st vs st' Hnr H. rewrite ev_paramsopt_list in H. eapply IH; eauto.
    - (* PsNil *) intros st vs st' _ H. rewrite ev_params_nil in H. inversion H; reflexivity.
    - (* PsCons *)
      intros p IHp ps IHps st vs st' Hnr H. cbn [no_redact_params] in Hnr. split_nr Hnr.
      rewrite ev_params_cons in H.
      apply bind_ok in H. destruct H as [[v st1] [Hv H]].
      pose proof (IHp st v st1 Hnr Hv). subst st1.
      apply bind_ok in H. destruct H as [[vs' st2] [Hvs H]].
      pose proof (IHps st vs' st2 Hnr0 Hvs). subst st2.
      inversion H; reflexivity.
    - (* Param *)
      intros tag e IHe jsonpath timeset time_ns st v st' Hnr H. cbn [no_redact_param] in Hnr.
      rewrite ev_param_eq in H.
      destruct jsonpath as [[jp s]|]; [inversion H; reflexivity|].
      destruct timeset; [inversion H; reflexivity|].
      destruct e as [|e']; [discriminate|].
      cbn [F_expropt] in IHe. cbn [no_redact_expropt] in Hnr.
      apply bind_ok in H. destruct H as [[r st1] [Hr H]].
      destruct (IHe st r st1 Hnr Hr) as [Hst _]. subst st1.
      destruct r; inversion H; reflexivity.
    - (* SlNone *) exact I.
    - (* SlSome *)
      intros index key rd e IHe. cbn [F_selopt]. destruct e as [|e']; [exact I|]. exact IHe.
  Qed.

  (* C14: the record returned by the evaluation of a redact-free prepared query is the input record *)
  Theorem eval_model_record_unchanged : forall e r b r',
      no_redact_expr e = true -> prepared_expr e = true ->
      eval_model parse_float re_match parse_time b64dec parse_json xml_first redact_apply e r = Ok (b, r') -> r' = r.
  Proof.
    intros e r b r' Hnr Hp H. unfold eval_model in H.
    apply bind_ok in H. destruct H as [[y st] [Hy H]].
    destruct (proj1 frame_all e r y st Hnr Hy) as [Hst Href]. subst st.
    specialize (Href Hp).
    destruct y as [v o|o]; cbn [ref_of] in Href; subst o; inversion H; reflexivity.
  Qed.

  (* without the Precompute invariant: the record or, for a bare un-precomputed call, the nil interface *)
  Theorem eval_model_record_unchanged_or_nil : forall e r b r',
      no_redact_expr e = true ->
      eval_model parse_float re_match parse_time b64dec parse_json xml_first redact_apply e r = Ok (b, r') -> r' = r \/ r' = JNull.
  Proof.
    intros e r b r' Hnr H. unfold eval_model in H.
    apply bind_ok in H. destruct H as [[y st] [Hy H]].
    destruct (proj1 frame_all e r y st Hnr Hy) as [Hst _]. subst st.
    destruct y as [v [|]|[|]]; inversion H; subst; cbn [record_of_ref]; auto.
  Qed.

End Frame.
