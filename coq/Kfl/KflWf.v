(* Decidable shape predicates on the syntax tree (checked on every tree the real parser and
   Precompute produce, by the correspondence runs):
   - shape_*    : what the participle grammar guarantees: an operator from the table wherever there
                  is a right operand, and a parameter has an expression unless Precompute replaced it
                  by a compiled path or a time;
   - no_redact_*: no primary (anywhere, parameters included) dispatches to the redact helper;
   - prepared_* : what Precompute guarantees outside parameters: a call primary without a compiled
                  path has a select expression (computeCallExpression returns early only there). *)
Require Import V.Base.Prelude V.Kfl.Num V.Kfl.Json V.Kfl.KflAst V.Kfl.Names.

Definition lop_ok (op : lop) : bool := match op with LAnd | LOr => true | _ => false end.
Definition eop_ok (op : eop) : bool := match op with EEq | ENe => true | _ => false end.
Definition cop_ok (op : cop) : bool := match op with CGt | CGe | CLt | CLe => true | _ => false end.

Fixpoint shape_expr (e : expr) : bool :=
  match e with Expr l => shape_logopt l end
with shape_logopt (l : logopt) : bool :=
  match l with LgNone => true | LgSome x => shape_logical x end
with shape_logical (l : logical) : bool :=
  match l with
  | Logical e op next => shape_equality e && shape_logopt next && match next with LgNone => true | LgSome _ => lop_ok op end
  end
with shape_equality (q : equality) : bool :=
  match q with
  | Equality c op next => shape_comparison c && shape_eqopt next && match next with EqNone => true | EqSome _ => eop_ok op end
  end
with shape_eqopt (o : eqopt) : bool :=
  match o with EqNone => true | EqSome q => shape_equality q end
with shape_comparison (c : comparison) : bool :=
  match c with
  | Comparison u op next => shape_unary u && shape_cmpopt next && match next with CmNone => true | CmSome _ => cop_ok op end
  end
with shape_cmpopt (o : cmpopt) : bool :=
  match o with CmNone => true | CmSome c => shape_comparison c end
with shape_unary (u : unary) : bool :=
  match u with UnOp _ u' => shape_unary u' | UnPrim p => shape_primary p end
with shape_primary (p : primary) : bool :=
  match p with Primary _ _ _ _ _ call sub _ _ _ => shape_callopt call && shape_expropt sub end
with shape_expropt (o : expropt) : bool :=
  match o with ExNone => true | ExSome e => shape_expr e end
with shape_callopt (o : callopt) : bool :=
  match o with ClNone => true | ClSome c => shape_callexpr c end
with shape_callexpr (c : callexpr) : bool :=
  match c with CallExpr _ ps sel => shape_paramsopt ps && shape_selopt sel end
with shape_paramsopt (o : paramsopt) : bool :=
  match o with PsAbsent => true | PsList l => shape_params l end
with shape_params (ps : params) : bool :=
  match ps with PsNil => true | PsCons p r => shape_param p && shape_params r end
with shape_param (p : param) : bool :=
  match p with
  | Param _ e jsonpath timeset _ =>
      shape_expropt e &&
      match jsonpath, timeset, e with
      | None, false, ExNone => false
      | _, _, _ => true
      end
  end
with shape_selopt (s : selopt) : bool :=
  match s with SlNone => true | SlSome _ _ _ e => shape_expropt e end.

Definition is_redact (helper : option bytes) : bool :=
  match helper with Some h => bytes_eqb h n_redact | None => false end.

Fixpoint no_redact_expr (e : expr) : bool :=
  match e with Expr l => no_redact_logopt l end
with no_redact_logopt (l : logopt) : bool :=
  match l with LgNone => true | LgSome x => no_redact_logical x end
with no_redact_logical (l : logical) : bool :=
  match l with Logical e _ next => no_redact_equality e && no_redact_logopt next end
with no_redact_equality (q : equality) : bool :=
  match q with Equality c _ next => no_redact_comparison c && no_redact_eqopt next end
with no_redact_eqopt (o : eqopt) : bool :=
  match o with EqNone => true | EqSome q => no_redact_equality q end
with no_redact_comparison (c : comparison) : bool :=
  match c with Comparison u _ next => no_redact_unary u && no_redact_cmpopt next end
with no_redact_cmpopt (o : cmpopt) : bool :=
  match o with CmNone => true | CmSome c => no_redact_comparison c end
with no_redact_unary (u : unary) : bool :=
  match u with UnOp _ u' => no_redact_unary u' | UnPrim p => no_redact_primary p end
with no_redact_primary (p : primary) : bool :=
  match p with
  | Primary _ _ _ _ _ call sub _ _ helper => negb (is_redact helper) && no_redact_callopt call && no_redact_expropt sub
  end
with no_redact_expropt (o : expropt) : bool :=
  match o with ExNone => true | ExSome e => no_redact_expr e end
with no_redact_callopt (o : callopt) : bool :=
  match o with ClNone => true | ClSome c => no_redact_callexpr c end
with no_redact_callexpr (c : callexpr) : bool :=
  match c with CallExpr _ ps sel => no_redact_paramsopt ps && no_redact_selopt sel end
with no_redact_paramsopt (o : paramsopt) : bool :=
  match o with PsAbsent => true | PsList l => no_redact_params l end
with no_redact_params (ps : params) : bool :=
  match ps with PsNil => true | PsCons p r => no_redact_param p && no_redact_params r end
with no_redact_param (p : param) : bool :=
  match p with Param _ e _ _ _ => no_redact_expropt e end
with no_redact_selopt (s : selopt) : bool :=
  match s with SlNone => true | SlSome _ _ _ e => no_redact_expropt e end.

(* outside parameters: a primary that falls through to evalCallExpression has a select expression *)
Fixpoint prepared_expr (e : expr) : bool :=
  match e with Expr l => prepared_logopt l end
with prepared_logopt (l : logopt) : bool :=
  match l with LgNone => true | LgSome x => prepared_logical x end
with prepared_logical (l : logical) : bool :=
  match l with Logical e _ next => prepared_equality e && prepared_logopt next end
with prepared_equality (q : equality) : bool :=
  match q with Equality c _ next => prepared_comparison c && prepared_eqopt next end
with prepared_eqopt (o : eqopt) : bool :=
  match o with EqNone => true | EqSome q => prepared_equality q end
with prepared_comparison (c : comparison) : bool :=
  match c with Comparison u _ next => prepared_unary u && prepared_cmpopt next end
with prepared_cmpopt (o : cmpopt) : bool :=
  match o with CmNone => true | CmSome c => prepared_comparison c end
with prepared_unary (u : unary) : bool :=
  match u with UnOp _ u' => prepared_unary u' | UnPrim p => prepared_primary p end
with prepared_primary (p : primary) : bool :=
  match p with
  | Primary num str _ bool_ _ call sub jsonpath regexp _ =>
      match bool_, num, str, jsonpath, regexp with
      | None, None, None, None, None =>
          match sub with
          | ExSome e => prepared_expr e
          | ExNone => match call with
                      | ClSome (CallExpr _ _ (SlSome _ _ _ (ExSome e))) => prepared_expr e
                      | ClSome _ => false
                      | ClNone => true
                      end
          end
      | _, _, _, _, _ => true
      end
  end.

(* what Parse guarantees beyond shape_expr: identifiers present, parameters not yet rewritten *)
Fixpoint surf_expr (e : expr) : bool :=
  match e with Expr l => surf_logopt l end
with surf_logopt (l : logopt) : bool :=
  match l with LgNone => true | LgSome x => surf_logical x end
with surf_logical (l : logical) : bool :=
  match l with Logical e _ next => surf_equality e && surf_logopt next end
with surf_equality (q : equality) : bool :=
  match q with Equality c _ next => surf_comparison c && surf_eqopt next end
with surf_eqopt (o : eqopt) : bool :=
  match o with EqNone => true | EqSome q => surf_equality q end
with surf_comparison (c : comparison) : bool :=
  match c with Comparison u _ next => surf_unary u && surf_cmpopt next end
with surf_cmpopt (o : cmpopt) : bool :=
  match o with CmNone => true | CmSome c => surf_comparison c end
with surf_unary (u : unary) : bool :=
  match u with UnOp _ u' => surf_unary u' | UnPrim p => surf_primary p end
with surf_primary (p : primary) : bool :=
  match p with Primary _ _ _ _ _ call sub _ _ _ => surf_callopt call && surf_expropt sub end
with surf_expropt (o : expropt) : bool :=
  match o with ExNone => true | ExSome e => surf_expr e end
with surf_callopt (o : callopt) : bool :=
  match o with ClNone => true | ClSome c => surf_callexpr c end
with surf_callexpr (c : callexpr) : bool :=
  match c with
  | CallExpr ident ps sel => match ident with Some _ => true | None => false end && surf_paramsopt ps && surf_selopt sel
  end
with surf_paramsopt (o : paramsopt) : bool :=
  match o with PsAbsent => true | PsList l => surf_params l end
with surf_params (ps : params) : bool :=
  match ps with PsNil => true | PsCons p r => surf_param p && surf_params r end
with surf_param (p : param) : bool :=
  match p with
  | Param _ e jsonpath timeset _ =>
      match jsonpath with None => true | Some _ => false end && negb timeset &&
      match e with ExSome e' => surf_expr e' | ExNone => false end
  end
with surf_selopt (s : selopt) : bool :=
  match s with SlNone => true | SlSome _ _ _ e => surf_expropt e end.

