(* The KFL syntax tree exactly as parser.go declares it and as precompute.go leaves it
   (the harness dumps the real tree: harness/cmd/vh-kfl, mode `ast`).  Every Go pointer that may
   be nil is an option / a dedicated "absent" constructor; the recursive occurrences use dedicated
   option types (expropt, callopt, ...) so that the mutual induction principles are the plain
   generated ones. *)
Require Import V.Base.Prelude V.Kfl.Num V.Kfl.Json.
Local Open Scope Z_scope.

(* ojg/jp fragments (jp.Expr = list of fragments) *)
Inductive frag :=
| FRoot                 (* $ *)
| FChild (k : bytes)
| FNth (i : Z)
| FWild
| FDescent
| FBracket              (* marker fragment, selects its input *)
| FAt
| FOther.               (* Union / Slice / Filter: outside the modelled fragment *)
Definition jpath := list frag.

(* Op strings.  O?Other = a string that is not in the operator table (the parser cannot produce it) *)
Inductive lop := LNone | LAnd | LOr | LOther.
Inductive eop := ENone | EEq | ENe | EOther.
Inductive cop := CNone | CGt | CGe | CLt | CLe | COther.
Inductive uop := UNot | UNeg | UOther.

Inductive expr :=
| Expr (l : logopt)
with logopt :=                                  (* *Logical *)
| LgNone
| LgSome (l : logical)
with logical :=
| Logical (e : equality) (op : lop) (next : logopt)
with equality :=
| Equality (c : comparison) (op : eop) (next : eqopt)
with eqopt :=
| EqNone
| EqSome (e : equality)
with comparison :=
| Comparison (u : unary) (op : cop) (next : cmpopt)
with cmpopt :=
| CmNone
| CmSome (c : comparison)
with unary :=
| UnOp (op : uop) (u : unary)                   (* Unary != nil *)
| UnPrim (p : primary)
with primary :=
| Primary (num : option fv)                     (* Number *)
          (str : option bytes)                  (* String: token text, quotes included *)
          (regex : option bytes)                (* Regex: token text *)
          (bool_ : option bool)                 (* Bool *)
          (nil_ : bool)                         (* Nil *)
          (call : callopt)                      (* CallExpression *)
          (sub : expropt)                       (* SubExpression *)
          (jsonpath : option jpath)             (* JsonPath, filled by Precompute *)
          (regexp : option bytes)               (* Regexp (its source), filled by Precompute *)
          (helper : option bytes)               (* Helper, filled by Precompute *)
with expropt :=
| ExNone
| ExSome (e : expr)
with callopt :=
| ClNone
| ClSome (c : callexpr)
with callexpr :=
| CallExpr (ident : option bytes) (params : paramsopt) (sel : selopt)
with paramsopt :=                               (* Parameters == nil is "not a call" *)
| PsAbsent
| PsList (ps : params)
with params :=
| PsNil
| PsCons (p : param) (ps : params)
with param :=
| Param (tag : option bytes) (e : expropt)      (* Expression *)
        (jsonpath : option (jpath * bytes))     (* JsonPath and its String() rendering *)
        (timeset : bool) (time_ns : Z)          (* TimeSet, Time.UnixNano() *)
with selopt :=
| SlNone
| SlSome (index : option Z) (key : option bytes) (rdescent : option bytes) (e : expropt).

Scheme expr_mind := Induction for expr Sort Prop
  with logopt_mind := Induction for logopt Sort Prop
  with logical_mind := Induction for logical Sort Prop
  with equality_mind := Induction for equality Sort Prop
  with eqopt_mind := Induction for eqopt Sort Prop
  with comparison_mind := Induction for comparison Sort Prop
  with cmpopt_mind := Induction for cmpopt Sort Prop
  with unary_mind := Induction for unary Sort Prop
  with primary_mind := Induction for primary Sort Prop
  with expropt_mind := Induction for expropt Sort Prop
  with callopt_mind := Induction for callopt Sort Prop
  with callexpr_mind := Induction for callexpr Sort Prop
  with paramsopt_mind := Induction for paramsopt Sort Prop
  with params_mind := Induction for params Sort Prop
  with param_mind := Induction for param Sort Prop
  with selopt_mind := Induction for selopt Sort Prop.
Combined Scheme ast_mutind from expr_mind, logopt_mind, logical_mind, equality_mind, eqopt_mind,
  comparison_mind, cmpopt_mind, unary_mind, primary_mind, expropt_mind, callopt_mind, callexpr_mind,
  paramsopt_mind, params_mind, param_mind, selopt_mind.

(* the strings the evaluator compares against *)
Definition s_and : bytes := str_of [97; 110; 100]%N.
Definition s_or : bytes := str_of [111; 114]%N.

Fixpoint params_length (ps : params) : nat :=
  match ps with PsNil => O | PsCons _ r => S (params_length r) end.

(* the dynamic values the evaluator passes around (Go interface{}) *)
Inductive val :=
| VJ (j : jv)                        (* string, bool, int64, float64, nil, []interface{}, map *)
| VRe (src : bytes)                  (* *regexp.Regexp *)
| VPath (p : jpath) (s : bytes)      (* *jp.Expr and its String() *)
| VTime (ns : Z).                    (* time.Time (UnixNano) *)

(* what mxj gives for the first value at a path of an XML document *)
Inductive xres :=
| XFail                          (* NewMapXml error, ValuesForPath error or no value *)
| XStr (s : bytes)               (* a string *)
| XMap (text : option bytes)     (* an element with attributes/children: its #text if it is a string *)
| XOtherType.
