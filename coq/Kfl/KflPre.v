(* precompute.go: computeExpression ... computeCallExpression written function by function from the Go
   text (after the repairs).  Input: the tree as Parse leaves it; output: the tree as Eval reads it
   (JsonPath / Regexp / Helper of the primaries, rewritten Parameters), Propagate{Path, Limit} and the
   err result.  Library behaviour: jp.ParseString (with Expr.String() of the result), regexp.Compile,
   time.Now and the libraries of the evaluator (the compile-time helpers evaluate their first
   parameter with evalExpression).  Every slice / index / nil dereference that can panic is a Panic
   with the line of precompute.go. *)
Require Import V.Base.Prelude V.Kfl.Num V.Kfl.Json V.Kfl.KflAst V.Kfl.Names V.Kfl.JPath V.Kfl.KflOps V.Kfl.KflEval.
Local Open Scope Z_scope.

(* Propagate *)
Record prop := { p_path : bytes; p_limit : N }.
Definition prop0 : prop := {| p_path := []; p_limit := 0%N |}.

(* backpropagate (precompute.go:46) *)
Definition backpropagate (x y : prop) : prop :=
  {| p_path := match p_path x with [] => p_path y | _ => p_path x end;
     p_limit := if (p_limit x =? 0)%N then p_limit y else p_limit x |}.

Definition dot : byte := b_of_N 46.

(* the last element of strings.Split(s, ".") (Split never returns an empty slice) *)
Fixpoint last_segment_from (acc s : bytes) : bytes :=
  match s with
  | [] => rev acc
  | b :: r => if byte_eqb b dot then last_segment_from [] r else last_segment_from (b :: acc) r
  end.
Definition last_segment (s : bytes) : bytes := last_segment_from [] s.

Definition lbr : byte := b_of_N 91.
Definition rbr : byte := b_of_N 93.
Definition star : byte := b_of_N 42.

(* fmt.Sprintf("[%d]", i) *)
Definition index_selector (i : Z) : bytes := [lbr] ++ fmt_int i ++ [rbr].
(* ["key"] with the quotes of the token trimmed, or [*] for the unquoted star *)
Definition key_selector (key : bytes) : bytes :=
  if bytes_eqb key [star] then [lbr; star; rbr]
  else [lbr; quote] ++ trim_quotes key ++ [quote; rbr].

Definition compile_time_helpers : list bytes :=
  [n_limit; n_now; n_seconds; n_minutes; n_hours; n_days; n_weeks; n_months; n_years].
Definition str_contains (l : list bytes) (s : bytes) : bool := existsb (bytes_eqb s) l.

(* nanoseconds of the unit of a time helper *)
Definition unit_ns (h : bytes) : option Z :=
  if bytes_eqb h n_seconds then Some 1000000000
  else if bytes_eqb h n_minutes then Some 60000000000
  else if bytes_eqb h n_hours then Some 3600000000000
  else if bytes_eqb h n_days then Some 86400000000000
  else if bytes_eqb h n_weeks then Some 604800000000000
  else if bytes_eqb h n_months then Some 2592000000000000
  else if bytes_eqb h n_years then Some 31536000000000000
  else None.

(* int64(f): truncation; outside the int64 range the amd64 result (the "integer indefinite") *)
Definition f_to_int64 (f : fv) : Z :=
  match f_trunc f with
  | Some z => if (- 2 ^ 63 <=? z) && (z <? 2 ^ 63) then z else - 2 ^ 63
  | None => - 2 ^ 63
  end.
(* uint64(f) where Go defines it; None otherwise *)
Definition f_to_uint64_opt (f : fv) : option N :=
  match f_trunc f with
  | Some z => if (0 <=? z) && (z <? 2 ^ 64) then Some (Z.to_N z) else None
  | None => None
  end.

Section Pre.
  Variable parse_float : bytes -> option fv.
  Variable re_match : bytes -> bytes -> bool.
  Variable parse_time : bytes -> option Z.
  Variable b64dec : bytes -> option bytes.
  Variable parse_json : bytes -> option jv.
  Variable xml_first : bytes -> bytes -> xres.
  Variable redact_apply : jv -> bytes -> jv.
  Variable parse_path : bytes -> option (jpath * bytes).     (* jp.ParseString: the expression and its String() *)
  Variable re_compiles : bytes -> bool.                       (* regexp.Compile succeeds *)
  Variable now_ns : Z.                                        (* time.Now().UTC().UnixNano() *)
  Variable uint64_of : fv -> N.                               (* uint64(f) outside the defined range *)

  Notation ev_expr := (eval_expr parse_float re_match parse_time b64dec parse_json xml_first redact_apply).

  Definition path_param (p : jpath * bytes) : params :=
    PsCons (Param None ExNone (Some p) false 0) PsNil.
  Definition time_param (ns : Z) : params :=
    PsCons (Param None ExNone None true ns) PsNil.

  Definition to_uint64 (f : fv) : N := match f_to_uint64_opt f with Some n => n | None => uint64_of f end.

  (* result of the compute* functions: the rewritten node, Propagate, err <> nil *)
  Definition pres (A : Type) := res (A * prop * bool).

  (* computeCallExpression from `_jsonPath, err = jp.ParseString(prop.Path)` on (precompute.go:144..):
     ps are the parameters and path the final prop.Path *)
  Definition finish_tail (ident : option bytes) (ps1 : paramsopt) (sel : selopt) (path2 : bytes) (limit0 : N)
             (helper0 : option bytes) : pres (callexpr * option jpath * option bytes) :=
    let parsed := parse_path path2 in
    let err := match parsed with Some _ => false | None => true end in
    let jp0 : jpath := match parsed with Some (p, _) => p | None => [] end in
    let helper_name := last_segment path2 in
    match ps1 with
    | PsList l =>
        (* a function call *)
        let jp1 := match jp0 with [] => [] | _ => removelast jp0 end in
        if str_contains compile_time_helpers helper_name then
          match l with
          | PsNil => Ok (CallExpr ident ps1 sel, Some jp1, Some helper_name, {| p_path := path2; p_limit := limit0 |}, err)
          | PsCons (Param _ pe _ _ _) _ =>
              match pe with
              | ExNone => Panic 157
              | ExSome e =>
                  let* r := ev_expr e JNull in
                  let v := match r with (EvVal v _, _) => v | (EvCollapse _, _) => vfalse end in
                  let f := float_operand parse_float v in
                  if bytes_eqb helper_name n_limit then
                    Ok (CallExpr ident ps1 sel, Some jp1, Some helper_name, {| p_path := path2; p_limit := to_uint64 f |}, err)
                  else
                    match unit_ns helper_name with
                    | Some u =>
                        let d := wrap64 (f_to_int64 f * u) in
                        Ok (CallExpr ident (PsList (time_param (now_ns + d))) sel, Some jp1, Some helper_name,
                            {| p_path := path2; p_limit := limit0 |}, err)
                    | None => Ok (CallExpr ident ps1 sel, Some jp1, Some helper_name, {| p_path := path2; p_limit := limit0 |}, err)
                    end
              end
          end
        else Ok (CallExpr ident ps1 sel, Some jp1, Some helper_name, {| p_path := path2; p_limit := limit0 |}, err)
    | PsAbsent =>
        if bytes_eqb helper_name n_now then
          Ok (CallExpr ident (PsList (time_param now_ns)) sel, Some jp0, Some helper_name, {| p_path := path2; p_limit := limit0 |}, err)
        else Ok (CallExpr ident ps1 sel, Some jp0, helper0, {| p_path := path2; p_limit := limit0 |}, err)
    end.

  (* the part of computeCallExpression after the selector branches: prepend the path, and inside
     json() / xml() turn it into the compiled parameter of the helper (precompute.go:132..142) *)
  Definition finish_call (ident : option bytes) (ps : paramsopt) (sel : selopt) (path : bytes) (limit0 : N)
             (prepend json_helper_path : bytes) (helper0 : option bytes)
    : pres (callexpr * option jpath * option bytes) :=
    let path1 := prepend ++ [dot] ++ path in
    match json_helper_path with
    | [] => finish_tail ident ps sel path1 limit0 helper0
    | _ => finish_tail ident (match parse_path path1 with Some p => PsList (path_param p) | None => ps end) sel
                       json_helper_path limit0 helper0
    end.

  Fixpoint pre_expr (e : expr) (prepend jhp : bytes) {struct e} : pres expr :=
    match e with
    | Expr LgNone => Ok (e, prop0, false)
    | Expr (LgSome l) =>
        let* r := pre_logical l prepend jhp in
        let '(l', p, err) := r in Ok (Expr (LgSome l'), p, err)
    end

  with pre_logical (l : logical) (prepend jhp : bytes) {struct l} : pres logical :=
    match l with
    | Logical e op next =>
        let* r := pre_equality e prepend jhp in
        let '(e', p, err) := r in
        match next with
        | LgNone => Ok (Logical e' op LgNone, p, err)
        | LgSome n =>
            let* r2 := pre_logical n prepend jhp in
            let '(n', p2, err2) := r2 in
            Ok (Logical e' op (LgSome n'), backpropagate p p2, err2)
        end
    end

  with pre_equality (q : equality) (prepend jhp : bytes) {struct q} : pres equality :=
    match q with
    | Equality c op next =>
        let* r := pre_comparison c prepend jhp in
        let '(c', p, err) := r in
        match next with
        | EqNone => Ok (Equality c' op EqNone, p, err)
        | EqSome n =>
            let* r2 := pre_equality n prepend jhp in
            let '(n', p2, err2) := r2 in
            Ok (Equality c' op (EqSome n'), backpropagate p p2, err2)
        end
    end

  with pre_comparison (c : comparison) (prepend jhp : bytes) {struct c} : pres comparison :=
    match c with
    | Comparison u op next =>
        let* r := pre_unary u prepend jhp in
        let '(u', p, err) := r in
        match next with
        | CmNone => Ok (Comparison u' op CmNone, p, err)
        | CmSome n =>
            let* r2 := pre_comparison n prepend jhp in
            let '(n', p2, err2) := r2 in
            Ok (Comparison u' op (CmSome n'), backpropagate p p2, err2)
        end
    end

  with pre_unary (u : unary) (prepend jhp : bytes) {struct u} : pres unary :=
    match u with
    | UnOp op u' =>
        let* r := pre_unary u' prepend jhp in
        let '(u'', p, err) := r in Ok (UnOp op u'', p, err)
    | UnPrim pr =>
        let* r := pre_primary pr prepend jhp in
        let '(pr', p, err) := r in Ok (UnPrim pr', backpropagate prop0 p, err)
    end

  with pre_primary (pr : primary) (prepend jhp : bytes) {struct pr} : pres primary :=
    match pr with
    | Primary num str regex bool_ nil_ call sub jsonpath regexp helper =>
        match sub with
        | ExSome e =>
            let* r := pre_expr e prepend jhp in
            let '(e', p, err) := r in
            Ok (Primary num str regex bool_ nil_ call (ExSome e') jsonpath regexp helper, p, err)
        | ExNone =>
            match call with
            | ClSome c =>
                let* r := pre_call c prepend jhp in
                let '(c', jp, h, p, err) := r in
                Ok (Primary num str regex bool_ nil_ (ClSome c') ExNone jp regexp h, p, err)
            | ClNone =>
                match regex with
                | Some tok =>
                    let src := trim_quotes tok in
                    if re_compiles src then Ok (Primary num str regex bool_ nil_ ClNone ExNone jsonpath (Some src) helper, prop0, false)
                    else Ok (Primary num str regex bool_ nil_ ClNone ExNone jsonpath None helper, prop0, true)
                | None => Ok (pr, prop0, false)
                end
            end
        end
    end

  (* computeCallExpression *)
  with pre_call (c : callexpr) (prepend jhp : bytes) {struct c} : pres (callexpr * option jpath * option bytes) :=
    match c with
    | CallExpr ident ps sel =>
        match ps with
        | PsList _ =>
            (* a function call: prop.Path = *call.Identifier *)
            match ident with
            | None => Panic 127
            | Some id => finish_call ident ps sel id 0%N prepend jhp None
            end
        | PsAbsent =>
            let path0 := match ident with Some id => id | None => [] end in
            match sel with
            | SlNone => finish_call ident ps sel path0 0%N prepend jhp None
            | SlSome index key rd se =>
                let potential := last_segment path0 in
                let used := bytes_eqb potential n_json || bytes_eqb potential n_xml in
                let helper0 := if used then Some potential else None in
                let jhp1 := if used then path0 else jhp in
                let selector := match index with
                                | Some i => Some (index_selector i)
                                | None => match key with Some k => Some (key_selector k) | None => None end
                                end in
                let '(ps1, path1) :=
                    match selector with
                    | None => (ps, path0)
                    | Some s =>
                        if used then (match parse_path s with Some p => PsList (path_param p) | None => ps end, s)
                        else (ps, path0 ++ s)
                    end in
                match se with
                | ExSome e =>
                    let* r := pre_expr e (if used then [] else path1) jhp1 in
                    let '(e', p, err) := r in
                    Ok (CallExpr ident ps1 (SlSome index key rd (ExSome e')), None, helper0,
                        {| p_path := path1; p_limit := p_limit p |}, err)
                | ExNone =>
                    let path2 := match rd with
                                 | Some name => if used then [dot; dot] ++ name else path1
                                 | None => path1
                                 end in
                    finish_call ident ps1 sel path2 0%N prepend jhp1 helper0
                end
            end
        end
    end.

  (* Precompute *)
  Definition precompute_model (e : expr) : pres expr := pre_expr e [] [].

End Pre.
