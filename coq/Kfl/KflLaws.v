(* Structural laws of evaluation (property C12): short circuit of and / or, and the scope of the
   collapse caused by a missing path. *)
Require Import V.Base.Prelude V.Kfl.Num V.Kfl.Json V.Kfl.KflAst V.Kfl.Names V.Kfl.JPath V.Kfl.KflOps V.Kfl.KflEval V.Kfl.KflEvalEq.
Local Open Scope Z_scope.

Section Laws.
  Variable parse_float : bytes -> option fv.
  Variable re_match : bytes -> bytes -> bool.
  Variable parse_time : bytes -> option Z.
  Variable b64dec : bytes -> option bytes.
  Variable parse_json : bytes -> option jv.
  Variable xml_first : bytes -> bytes -> xres.
  Variable redact_apply : jv -> bytes -> jv.

  Notation ev_expr := (eval_expr parse_float re_match parse_time b64dec parse_json xml_first redact_apply).
  Notation ev_logical := (eval_logical parse_float re_match parse_time b64dec parse_json xml_first redact_apply).
  Notation ev_equality := (eval_equality parse_float re_match parse_time b64dec parse_json xml_first redact_apply).
  Notation ev_comparison := (eval_comparison parse_float re_match parse_time b64dec parse_json xml_first redact_apply).
  Notation ev_unary := (eval_unary parse_float re_match parse_time b64dec parse_json xml_first redact_apply).
  Notation ev_primary := (eval_primary parse_float re_match parse_time b64dec parse_json xml_first redact_apply).

  (* `x and rest` with x false: the result is false whatever `rest` is (rest is not evaluated: the
     result and the record state do not depend on it, even if it would redact, collapse or panic) *)
  Theorem and_short_circuit : forall e next st v o st1,
      ev_equality e st = Ok (EvVal v o, st1) -> bool_operand v = false ->
      ev_logical (Logical e LAnd next) st = Ok (EvVal vfalse o, st1).
  Proof. intros e next st v o st1 He Hb. rewrite ev_logical_eq, He. cbn [bind]. cbv zeta. rewrite Hb. reflexivity. Qed.

  Theorem or_short_circuit : forall e next st v o st1,
      ev_equality e st = Ok (EvVal v o, st1) -> bool_operand v = true ->
      ev_logical (Logical e LOr next) st = Ok (EvVal vtrue o, st1).
  Proof. intros e next st v o st1 He Hb. rewrite ev_logical_eq, He. cbn [bind]. cbv zeta. rewrite Hb. reflexivity. Qed.

  (* when the left operand does not decide, the result is the truth of the right operand *)
  Theorem and_right : forall e n st v o st1 w o2 st2,
      ev_equality e st = Ok (EvVal v o, st1) -> bool_operand v = true ->
      ev_logical n st1 = Ok (EvVal w o2, st2) ->
      ev_logical (Logical e LAnd (LgSome n)) st = Ok (EvVal (vbool (bool_operand w)) o2, st2).
  Proof.
    intros e n st v o st1 w o2 st2 He Hb Hn. rewrite ev_logical_eq, He. cbn [bind]. cbv zeta. rewrite Hb, Hn.
    cbn [bind logical_op]. unfold op_and. rewrite Hb. reflexivity.
  Qed.

  Theorem or_right : forall e n st v o st1 w o2 st2,
      ev_equality e st = Ok (EvVal v o, st1) -> bool_operand v = false ->
      ev_logical n st1 = Ok (EvVal w o2, st2) ->
      ev_logical (Logical e LOr (LgSome n)) st = Ok (EvVal (vbool (bool_operand w)) o2, st2).
  Proof.
    intros e n st v o st1 w o2 st2 He Hb Hn. rewrite ev_logical_eq, He. cbn [bind]. cbv zeta. rewrite Hb, Hn.
    cbn [bind logical_op]. unfold op_or. rewrite Hb. reflexivity.
  Qed.

  (* a path without a match (and without helper) is a collapse *)
  Theorem missing_path_collapses : forall num regex nil_ call sub jp regexp st,
      jget jp st = [] ->
      ev_primary (Primary num None regex None nil_ call sub (Some jp) regexp None) st =
      match num with Some f => Ok (EvVal (VJ (JFlt f)) ORef, st) | None => Ok (EvCollapse ORef, st) end.
  Proof.
    intros. rewrite ev_primary_eq. destruct num; [reflexivity|]. unfold path_branch. rewrite H. reflexivity.
  Qed.

  (* a collapse passes through every operator of the expression that contains it ... *)
  Theorem collapse_through_unary : forall op u st o st1,
      ev_unary u st = Ok (EvCollapse o, st1) -> ev_unary (UnOp op u) st = Ok (EvCollapse o, st1).
  Proof. intros. rewrite ev_unary_op, H. reflexivity. Qed.

  Theorem collapse_through_comparison_l : forall u op next st o st1,
      ev_unary u st = Ok (EvCollapse o, st1) -> ev_comparison (Comparison u op next) st = Ok (EvCollapse o, st1).
  Proof. intros. rewrite ev_comparison_eq, H. reflexivity. Qed.

  Theorem collapse_through_comparison_r : forall u op n st v o st1 o2 st2,
      ev_unary u st = Ok (EvVal v o, st1) -> ev_comparison n st1 = Ok (EvCollapse o2, st2) ->
      ev_comparison (Comparison u op (CmSome n)) st = Ok (EvCollapse o2, st2).
  Proof. intros. rewrite ev_comparison_eq, H. cbn [bind]. rewrite H0. reflexivity. Qed.

  Theorem collapse_through_equality_l : forall c op next st o st1,
      ev_comparison c st = Ok (EvCollapse o, st1) -> ev_equality (Equality c op next) st = Ok (EvCollapse o, st1).
  Proof. intros. rewrite ev_equality_eq, H. reflexivity. Qed.

  Theorem collapse_through_equality_r : forall c op n st v o st1 o2 st2,
      ev_comparison c st = Ok (EvVal v o, st1) -> ev_equality n st1 = Ok (EvCollapse o2, st2) ->
      ev_equality (Equality c op (EqSome n)) st = Ok (EvCollapse o2, st2).
  Proof. intros. rewrite ev_equality_eq, H. cbn [bind]. rewrite H0. reflexivity. Qed.

  Theorem collapse_through_logical_l : forall e op next st o st1,
      ev_equality e st = Ok (EvCollapse o, st1) -> ev_logical (Logical e op next) st = Ok (EvCollapse o, st1).
  Proof. intros. rewrite ev_logical_eq, H. reflexivity. Qed.

  (* ... unless and / or has already decided (see the short-circuit theorems), and stops at the
     innermost enclosing (sub)expression, which becomes false: *)
  Theorem collapse_scope : forall l st o st1,
      ev_logical l st = Ok (EvCollapse o, st1) -> ev_expr (Expr (LgSome l)) st = Ok (EvVal vfalse o, st1).
  Proof. intros. rewrite ev_expr_some, H. reflexivity. Qed.

  (* an expression never reports a collapse to what encloses it *)
  Theorem expr_never_collapses : forall e st o st1, ev_expr e st <> Ok (EvCollapse o, st1).
  Proof.
    intros [[|l]] st o st1.
    - rewrite ev_expr_none. discriminate.
    - rewrite ev_expr_some. destruct (ev_logical l st) as [[[v o'|o'] st']| | |]; cbn [bind]; discriminate.
  Qed.

  (* so a parenthesised sub-expression with a missing path is the value false for its context *)
  Theorem sub_expression_collapse_is_false : forall regex nil_ call l helper st o st1,
      ev_logical l st = Ok (EvCollapse o, st1) ->
      ev_primary (Primary None None regex None nil_ call (ExSome (Expr (LgSome l))) None None helper) st = Ok (EvVal vfalse o, st1).
  Proof. intros. rewrite ev_primary_eq. apply collapse_scope. exact H. Qed.

  (* limit(n) is true and leaves the record alone, whatever n is *)
  Theorem limit_is_true : forall args st, args <> [] -> h_limit args st = Ok (ORef, vtrue, st).
  Proof. intros [|a l] st H; [contradiction|reflexivity]. Qed.

End Laws.
