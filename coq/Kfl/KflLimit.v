(* Propagate.Limit of precompute.go as a function of the prepared tree.
   limit_of_* follow computeExpression ... computeCallExpression and their `backpropagate` calls
   (a zero limit is replaced by the limit of the right operand); limit_args_* list the limit(n)
   arguments in source order.  The value of an argument (uint64(float64Operand(v)) of the
   compile-time evaluation of the first parameter) enters through `argval`. *)
Require Import V.Base.Prelude V.Kfl.Num V.Kfl.Json V.Kfl.KflAst V.Kfl.Names.
Local Open Scope N_scope.

(* backpropagate (precompute.go:46), Limit component *)
Definition backprop (x y : N) : N := if x =? 0 then y else x.

Fixpoint first_nonzero (l : list N) : N :=
  match l with
  | [] => 0
  | x :: r => if x =? 0 then first_nonzero r else x
  end.

Section Limit.
  Variable argval : params -> N.

  Definition is_limit (helper : option bytes) : bool :=
    match helper with Some h => bytes_eqb h n_limit | None => false end.

  Fixpoint limit_of_expr (e : expr) : N :=
    match e with Expr l => limit_of_logopt l end
  with limit_of_logopt (l : logopt) : N :=
    match l with LgNone => 0 | LgSome x => limit_of_logical x end
  with limit_of_logical (l : logical) : N :=
    match l with
    | Logical e _ LgNone => limit_of_equality e
    | Logical e _ next => backprop (limit_of_equality e) (limit_of_logopt next)
    end
  with limit_of_equality (q : equality) : N :=
    match q with
    | Equality c _ EqNone => limit_of_comparison c
    | Equality c _ (EqSome n) => backprop (limit_of_comparison c) (limit_of_equality n)
    end
  with limit_of_comparison (c : comparison) : N :=
    match c with
    | Comparison u _ CmNone => limit_of_unary u
    | Comparison u _ (CmSome n) => backprop (limit_of_unary u) (limit_of_comparison n)
    end
  with limit_of_unary (u : unary) : N :=
    match u with
    | UnOp _ u' => limit_of_unary u'
    | UnPrim p => backprop 0 (limit_of_primary p)
    end
  with limit_of_primary (p : primary) : N :=
    match p with
    | Primary _ _ _ _ _ call sub jsonpath _ helper =>
        match sub with
        | ExSome e => limit_of_expr e
        | ExNone =>
            match call with
            | ClNone => 0
            | ClSome (CallExpr _ ps sel) =>
                match jsonpath with
                | None =>
                    (* computeCallExpression returned from the select expression *)
                    match sel with
                    | SlSome _ _ _ (ExSome e) => limit_of_expr e
                    | _ => 0
                    end
                | Some _ =>
                    if is_limit helper then
                      match ps with PsList l => argval l | PsAbsent => 0 end
                    else 0
                end
            end
        end
    end.

  Fixpoint limit_args_expr (e : expr) : list N :=
    match e with Expr l => limit_args_logopt l end
  with limit_args_logopt (l : logopt) : list N :=
    match l with LgNone => [] | LgSome x => limit_args_logical x end
  with limit_args_logical (l : logical) : list N :=
    match l with Logical e _ next => limit_args_equality e ++ limit_args_logopt next end
  with limit_args_equality (q : equality) : list N :=
    match q with
    | Equality c _ EqNone => limit_args_comparison c
    | Equality c _ (EqSome n) => limit_args_comparison c ++ limit_args_equality n
    end
  with limit_args_comparison (c : comparison) : list N :=
    match c with
    | Comparison u _ CmNone => limit_args_unary u
    | Comparison u _ (CmSome n) => limit_args_unary u ++ limit_args_comparison n
    end
  with limit_args_unary (u : unary) : list N :=
    match u with
    | UnOp _ u' => limit_args_unary u'
    | UnPrim p => limit_args_primary p
    end
  with limit_args_primary (p : primary) : list N :=
    match p with
    | Primary _ _ _ _ _ call sub jsonpath _ helper =>
        match sub with
        | ExSome e => limit_args_expr e
        | ExNone =>
            match call with
            | ClNone => []
            | ClSome (CallExpr _ ps sel) =>
                match jsonpath with
                | None => match sel with SlSome _ _ _ (ExSome e) => limit_args_expr e | _ => [] end
                | Some _ => if is_limit helper then match ps with PsList l => [argval l] | PsAbsent => [] end else []
                end
            end
        end
    end.

  (* the limit reported to the caller: the first limit(n) of the query with n <> 0 *)
  Definition first_limit (e : expr) : N := first_nonzero (limit_args_expr e).

End Limit.
