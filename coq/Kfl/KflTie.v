(* Instantiation of the library oracles by finite tables computed by Go (harness vh-kfl eval -k),
   used only by the generated correspondence files (work/Cxx/*.v). *)
Require Import V.Base.Prelude V.Kfl.Num V.Kfl.Json V.Kfl.KflAst V.Kfl.JPath V.Kfl.KflOps V.Kfl.KflEval.
Local Open Scope Z_scope.

Inductive tables :=
| Tables (floats : list (bytes * option fv))
         (res : list (bytes * bytes * bool))
         (times : list (bytes * option Z))
         (b64s : list (bytes * option bytes))
         (jsons : list (bytes * option jv))
         (xmls : list (bytes * bytes * xres)).

Fixpoint lookup1 {A} (l : list (bytes * A)) (k : bytes) : option A :=
  match l with
  | [] => None
  | (k', a) :: r => if bytes_eqb k k' then Some a else lookup1 r k
  end.
Fixpoint lookup2 {A} (l : list (bytes * bytes * A)) (k1 k2 : bytes) : option A :=
  match l with
  | [] => None
  | (k1', k2', a) :: r => if bytes_eqb k1 k1' && bytes_eqb k2 k2' then Some a else lookup2 r k1 k2
  end.

Definition t_float (t : tables) (s : bytes) : option fv :=
  match t with Tables f _ _ _ _ _ => match lookup1 f s with Some a => a | None => None end end.
Definition t_re (t : tables) (src s : bytes) : bool :=
  match t with Tables _ r _ _ _ _ => match lookup2 r src s with Some a => a | None => false end end.
Definition t_time (t : tables) (s : bytes) : option Z :=
  match t with Tables _ _ x _ _ _ => match lookup1 x s with Some a => a | None => None end end.
Definition t_b64 (t : tables) (s : bytes) : option bytes :=
  match t with Tables _ _ _ x _ _ => match lookup1 x s with Some a => a | None => None end end.
Definition t_json (t : tables) (s : bytes) : option jv :=
  match t with Tables _ _ _ _ x _ => match lookup1 x s with Some a => a | None => None end end.
Definition t_xml (t : tables) (doc path : bytes) : xres :=
  match t with Tables _ _ _ _ _ x => match lookup2 x doc path with Some a => a | None => XFail end end.

(* the model on one case; redaction is the business of another family: identity here *)
Definition run_model (t : tables) (e : expr) (r : jv) : res (bool * jv) :=
  eval_model (t_float t) (t_re t) (t_time t) (t_b64 t) (t_json t) (t_xml t) (fun st _ => st) e r.

(* observed outcome of the implementation: Some (truth) for ok, None for a panic *)
Definition agrees (t : tables) (e : expr) (r : jv) (obs : option bool) : bool :=
  match run_model t e r, obs with
  | Ok (b, r'), Some b' => Bool.eqb b b' && jv_eqb r' r
  | Panic _, None => true
  | _, _ => false
  end.

(* ---------------------------------------------------------------- Propagate.Limit *)
Require Import V.Kfl.KflLimit.

(* uint64(f) for 0 <= f < 2^64 (Go leaves the other cases to the implementation) *)
Definition f_to_uint64 (f : fv) : option N :=
  match f_trunc f with
  | Some z => if (0 <=? z) && (z <? 2 ^ 64) then Some (Z.to_N z) else None
  | None => None
  end.

Section LimitTie.
  Variable t : tables.
  (* evalExpression(call.Parameters[0].Expression, nil) then uint64(float64Operand(v)) *)
  Definition limit_arg (ps : params) : option N :=
    match ps with
    | PsCons (Param _ (ExSome e) _ _ _) _ =>
        match eval_expr (t_float t) (t_re t) (t_time t) (t_b64 t) (t_json t) (t_xml t) (fun st _ => st) e JNull with
        | Ok (EvVal v _, _) => f_to_uint64 (float_operand (t_float t) v)
        | _ => None
        end
    | _ => Some 0%N
    end.
  Definition limit_argval (ps : params) : N := match limit_arg ps with Some n => n | None => 0%N end.
  Definition limit_model (e : expr) : N := limit_of_expr limit_argval e.
  Definition limit_spec (e : expr) : N := first_limit limit_argval e.
End LimitTie.

(* every limit(n) argument of the query is in the range where Go defines uint64(float) *)
Definition limit_defined (t : tables) (e : expr) : bool :=
  N.eqb (limit_of_expr (fun ps => match limit_arg t ps with Some _ => 0%N | None => 1%N end) e) 0.

(* ---------------------------------------------------------------- dependence on Go's map order *)
(* The model visits the members of an object in the order of the association list; ojg visits them
   in Go's map order, which is unspecified.  A case is order dependent when the model's result
   changes if every object (of the record and of the nested documents) is visited in the opposite
   order; such cases are not compared (the implementation's answer varies from run to run). *)
Fixpoint jv_rev (v : jv) : jv :=
  match v with
  | JArr l => JArr (map jv_rev l)
  | JObj l => JObj (rev (map (fun kv => match kv with (k, x) => (k, jv_rev x) end) l))
  | _ => v
  end.

Definition run_model_rev (t : tables) (e : expr) (r : jv) : res (bool * jv) :=
  eval_model (t_float t) (t_re t) (t_time t) (t_b64 t)
             (fun s => match t_json t s with Some d => Some (jv_rev d) | None => None end)
             (t_xml t) (fun st _ => st) e (jv_rev r).

Definition order_dependent (t : tables) (e : expr) (r : jv) : bool :=
  match run_model t e r, run_model_rev t e r with
  | Ok (b, _), Ok (b', _) => negb (Bool.eqb b b')
  | Panic _, Panic _ => false
  | _, _ => true
  end.
