(* The operators and helpers as they were before the repairs (the pinned tree), kept only to state
   what was false of them: the witnesses below are the inputs that failed on the implementation. *)
Require Import V.Base.Prelude V.Kfl.Num V.Kfl.Json V.Kfl.KflAst V.Kfl.Names V.Kfl.JPath V.Kfl.KflOps V.Kfl.KflEval V.Kfl.KflNumLaws.
Local Open Scope Z_scope.

(* eql of the pinned tree on two scalars: always through the string form *)
Definition scalar_equal_old (a b : val) : bool := bytes_eqb (string_operand a) (string_operand b).

Definition one_million_int : jv := JInt 1000000.
Definition one_million_flt : jv := JFlt (FFin false 15625 6).          (* the literal 1000000 *)
Definition n1234567 : jv := JFlt (FFin false 1234567 0).
Definition n1234568 : jv := JFlt (FFin false 154321 3).

(* `a == 1000000` on {"a":1000000}: numerically equal, compared unequal ("1000000" vs "1e+06") *)
Lemma old_equality_misses_equal_numbers :
  exact_equal one_million_int one_million_flt = true /\ scalar_equal_old (VJ one_million_int) (VJ one_million_flt) = false.
Proof. vm_compute. split; reflexivity. Qed.

(* `1234567 == 1234568`: different numbers, compared equal (both "1.23457e+06") *)
Lemma old_equality_conflates_numbers :
  exact_equal n1234567 n1234568 = false /\ scalar_equal_old (VJ n1234567) (VJ n1234568) = true.
Proof. vm_compute. split; reflexivity. Qed.

(* _json of the pinned tree: the type assertion of args[2] to a compiled path is unchecked *)
Definition h_json_old (args : list val) (st : jv) : hres :=
  let* a1 := arg args 1 359 in
  let* a2 := arg args 2 371 in
  match a2 with
  | VPath _ _ => Ok (ORef, vfalse, st)          (* (the rest is irrelevant here) *)
  | _ => Panic 371
  end.

(* `a.json("x")`: the parameter is a string, the type assertion panics *)
Lemma old_json_helper_panics : forall st v, h_json_old [VJ st; v; VJ (JStr (bs [120]%N))] st = Panic 371.
Proof. reflexivity. Qed.

(* timeHelper of the pinned tree: args[2].(time.Time) unchecked; `now(1)` passes the number 1 *)
Definition h_time_old (args : list val) (st : jv) : hres :=
  let* a2 := arg args 2 547 in
  match a2 with VTime ns => Ok (ORef, VJ (JInt (ms_of_ns ns)), st) | _ => Panic 547 end.
Lemma old_time_helper_panics : forall st v, h_time_old [VJ st; v; VJ (JFlt fone)] st = Panic 547.
Proof. reflexivity. Qed.

(* evalUnary of the pinned tree: `-` on float64 only, `!` on bool only *)
Definition apply_unary_old (op : uop) (v : val) : val :=
  match v, op with
  | VJ (JBool b), UNot => VJ (JBool (negb b))
  | VJ (JFlt f), UNeg => VJ (JFlt (f_neg f))
  | _, _ => v
  end.
Lemma old_minus_ignores_integers : apply_unary_old UNeg (VJ (JInt 7)) = VJ (JInt 7).
Proof. reflexivity. Qed.
Lemma old_not_ignores_strings :
  bool_operand (VJ (JStr (bs [120]%N))) = true /\ bool_operand (apply_unary_old UNot (VJ (JStr (bs [120]%N)))) = true.
Proof. split; reflexivity. Qed.
