(* Model of the DNS extension's later stages (pkg/extensions/dns/main.go): Analyze's type
   assertions on the payloads, Summarize, Represent.  JSON values are modelled by their dynamic
   type after encoding/json unmarshalling into interface{} (nil, bool, float64, string,
   []interface{}, map[string]interface{}): the only thing an index or type assertion depends on.
   Every index expression and unchecked type assertion is a Panic site (Go line number). *)
From Coq Require Import List Bool String.
Require Import V.Base.Prelude.
Import ListNotations.
Local Open Scope string_scope.

Inductive sj := JN | JB | JF | JS | JA (l : list sj) | JO (l : list (string * sj)).

(* m["k"] on a map[string]interface{}: the zero value nil when the key is absent *)
Fixpoint fieldv (k : string) (o : list (string * sj)) : sj :=
  match o with
  | [] => JN
  | (k', v) :: r => if String.eqb k k' then v else fieldv k r
  end.

Definition as_obj (line : nat) (v : sj) : res (list (string * sj)) := match v with JO l => Ok l | _ => Panic line end.
Definition as_arr (line : nat) (v : sj) : res (list sj) := match v with JA l => Ok l | _ => Panic line end.
Definition as_str (line : nat) (v : sj) : res unit := match v with JS => Ok tt | _ => Panic line end.
Definition as_num (line : nat) (v : sj) : res unit := match v with JF => Ok tt | _ => Panic line end.

Fixpoint all_ok {A} (f : A -> res unit) (l : list A) : res unit :=
  match l with
  | [] => Ok tt
  | x :: r => let* _ := f x in all_ok f r
  end.

(* Summarize: entry.Request["questions"].([]interface{})[0].(map[string]interface{})["name"].(string),
   entry.Request["opCode"].(string) *)
Definition dns_summarize (req : list (string * sj)) : res unit :=
  let* qs := as_arr 62 (fieldv "questions" req) in
  match qs with
  | [] => Panic 62
  | q :: _ =>
      let* qo := as_obj 62 q in
      let* _ := as_str 62 (fieldv "name" qo) in
      as_str 64 (fieldv "opCode" req)
  end.

Definition rep_question (q : sj) : res unit :=
  let* o := as_obj 115 q in
  let* _ := as_str 116 (fieldv "name" o) in
  let* _ := as_str 121 (fieldv "type" o) in
  as_str 126 (fieldv "class" o).

Definition answer_strings : list string :=
  ["ip"; "ns"; "cname"; "ptr"; "txts"; "soa"; "srv"; "mx"; "opt"; "uri"].

Definition rep_answer (a : sj) : res unit :=
  let* o := as_obj 144 a in
  let* _ := as_str 145 (fieldv "name" o) in
  let* _ := as_str 150 (fieldv "type" o) in
  let* _ := as_str 155 (fieldv "class" o) in
  let* _ := as_num 160 (fieldv "ttl" o) in
  all_ok (fun k => as_str 165 (fieldv k o)) answer_strings.

(* number of sections produced, or a panic *)
Definition rep_answers (resp : list (string * sj)) (k : string) : res nat :=
  match fieldv k resp with
  | JN => Ok 0%nat                       (* if response["answers"] != nil *)
  | v => let* l := as_arr 240 v in
         let* _ := all_ok rep_answer l in Ok (length l)
  end.

Definition dns_represent (req resp : list (string * sj)) : res nat :=
  let* _ := as_str 102 (fieldv "opCode" req) in
  let* qs := as_arr 112 (fieldv "questions" req) in
  let* _ := all_ok rep_question qs in
  let* _ := as_str 229 (fieldv "code" resp) in
  let* n1 := rep_answers resp "answers" in
  let* n2 := rep_answers resp "authorities" in
  let* n3 := rep_answers resp "additionals" in
  Ok (1 + length qs + 1 + n1 + n2 + n3)%nat.

(* Analyze asserts both payloads to be maps; then Summarize and Represent run on them *)
Definition dns_stages (reqv respv : sj) : res nat :=
  let* req := as_obj 50 reqv in
  let* resp := as_obj 51 respv in
  let* _ := dns_summarize req in
  dns_represent req resp.

(* ---- the shape of a DNS entry *)
Definition is_str (v : sj) : bool := match v with JS => true | _ => false end.
Definition is_num (v : sj) : bool := match v with JF => true | _ => false end.

Definition question_ok (q : sj) : bool :=
  match q with
  | JO o => is_str (fieldv "name" o) && is_str (fieldv "type" o) && is_str (fieldv "class" o)
  | _ => false
  end.

Definition answer_ok (a : sj) : bool :=
  match a with
  | JO o => is_str (fieldv "name" o) && is_str (fieldv "type" o) && is_str (fieldv "class" o)
            && is_num (fieldv "ttl" o) && forallb (fun k => is_str (fieldv k o)) answer_strings
  | _ => false
  end.

Definition section_ok (resp : list (string * sj)) (k : string) : bool :=
  match fieldv k resp with
  | JN => true
  | JA l => forallb answer_ok l
  | _ => false
  end.

Definition dns_ok (reqv respv : sj) : bool :=
  match reqv, respv with
  | JO req, JO resp =>
      is_str (fieldv "opCode" req)
      && match fieldv "questions" req with
         | JA (q :: qs) => forallb question_ok (q :: qs)
         | _ => false
         end
      && is_str (fieldv "code" resp)
      && section_ok resp "answers" && section_ok resp "authorities" && section_ok resp "additionals"
  | _, _ => false
  end.
