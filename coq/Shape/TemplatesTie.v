(* C16, query clause, tie to the source: gen/Templates.v lists every KFL comparison template the
   Summarize functions build with fmt.Sprintf, clause by clause, with the entry path the
   interpolated value was read from (go/ast data flow inside Summarize).  Each clause must compare
   the very path its value came from; then, whatever the entry, the clause asks "is the field at p
   equal to the value that was just read at p". *)
From Coq Require Import List Bool String.
Require Import V.gen.Templates.
Import ListNotations.
Local Open Scope string_scope.

Fixpoint path_eqb (a b : list string) : bool :=
  match a, b with
  | [], [] => true
  | x :: a', y :: b' => String.eqb x y && path_eqb a' b'
  | _, _ => false
  end.

Lemma path_eqb_eq a b : path_eqb a b = true -> a = b.
Proof.
  revert b; induction a as [|x a IH]; intros [|y b] H; cbn in H; try discriminate; [reflexivity|].
  apply andb_true_iff in H as [H1 H2]. apply String.eqb_eq in H1. subst. f_equal. apply IH. exact H2.
Qed.

(* a resolved path has no "?" component (what the translator could not resolve) *)
Definition resolved (p : list string) : bool := forallb (fun s => negb (prefix "?" s)) p.

Definition clause_ok (c : list string * list string) : bool :=
  path_eqb (fst c) (snd c) && resolved (fst c) && match fst c with [] => false | _ => true end.

Definition template_ok (t : string * string * list (list string * list string)) : bool :=
  match snd t with [] => false | cs => forallb clause_ok cs end.

Definition templates_ok (ts : list (string * string * list (list string * list string))) : bool :=
  forallb template_ok ts.

Lemma templates_src_ok : templates_ok templates_src = true.
Proof. vm_compute. reflexivity. Qed.

(* abstract reading of an entry: any function from paths to values.  For every clause of every
   template found in the source, the value interpolated into the query is the value the query's
   path denotes in the same entry. *)
Lemma template_reads_back (V : Type) (value_at : list string -> V) :
  forall t c, In t templates_src -> In c (snd t) -> value_at (fst c) = value_at (snd c).
Proof.
  intros t c Ht Hc. pose proof templates_src_ok as H. unfold templates_ok in H.
  rewrite forallb_forall in H. specialize (H t Ht). unfold template_ok in H.
  destruct (snd t) as [|c0 cs] eqn:E; [contradiction|]. rewrite forallb_forall in H. specialize (H c Hc).
  unfold clause_ok in H. apply andb_true_iff in H as [H _]. apply andb_true_iff in H as [H _].
  apply path_eqb_eq in H. rewrite H. reflexivity.
Qed.
