From Coq Require Import List Bool String.
Require Import V.Base.Prelude V.Shape.Dns.
Import ListNotations.
Local Open Scope string_scope.

Lemma as_str_ok n v : is_str v = true -> as_str n v = Ok tt.
Proof. destruct v; cbn; intros H; try discriminate; reflexivity. Qed.
Lemma as_num_ok n v : is_num v = true -> as_num n v = Ok tt.
Proof. destruct v; cbn; intros H; try discriminate; reflexivity. Qed.

Lemma all_ok_forall {A} (f : A -> res unit) (p : A -> bool) l :
  (forall x, p x = true -> f x = Ok tt) -> forallb p l = true -> all_ok f l = Ok tt.
Proof.
  intros Hf. induction l as [|x l IH]; cbn [forallb all_ok]; intros H; [reflexivity|].
  apply andb_true_iff in H as [H1 H2]. rewrite (Hf x H1). cbn [bind]. exact (IH H2).
Qed.

Lemma question_ok_rep q : question_ok q = true -> rep_question q = Ok tt.
Proof.
  destruct q as [| | | | |o]; cbn [question_ok]; intros H; try discriminate.
  apply andb_true_iff in H as [H H3]. apply andb_true_iff in H as [H1 H2].
  unfold rep_question. cbn [as_obj bind]. rewrite (as_str_ok _ _ H1), (as_str_ok _ _ H2). cbn [bind]. exact (as_str_ok _ _ H3).
Qed.

Lemma answer_ok_rep a : answer_ok a = true -> rep_answer a = Ok tt.
Proof.
  destruct a as [| | | | |o]; cbn [answer_ok]; intros H; try discriminate.
  apply andb_true_iff in H as [H H5]. apply andb_true_iff in H as [H H4]. apply andb_true_iff in H as [H H3].
  apply andb_true_iff in H as [H1 H2].
  unfold rep_answer. cbn [as_obj bind]. rewrite (as_str_ok _ _ H1), (as_str_ok _ _ H2), (as_str_ok _ _ H3), (as_num_ok _ _ H4). cbn [bind].
  apply (all_ok_forall _ (fun k => is_str (fieldv k o))); [|exact H5]. intros k Hk. exact (as_str_ok _ _ Hk).
Qed.

Lemma section_ok_rep resp k : section_ok resp k = true -> exists n, rep_answers resp k = Ok n.
Proof.
  unfold section_ok, rep_answers. destruct (fieldv k resp) as [| | | |l|o]; intros H; try discriminate.
  - exists 0%nat. reflexivity.
  - exists (length l). cbn [as_arr bind]. rewrite (all_ok_forall _ answer_ok l answer_ok_rep H). reflexivity.
Qed.

(* a DNS entry of the stated shape goes through Analyze's assertions, Summarize and Represent
   without a panic, and the representation has 2 + |questions| + |records| sections *)
Lemma dns_ok_no_panic reqv respv : dns_ok reqv respv = true -> exists n, dns_stages reqv respv = Ok n.
Proof.
  destruct reqv as [| | | | |req]; try discriminate. destruct respv as [| | | | |resp]; try discriminate.
  cbn [dns_ok]. intros H.
  apply andb_true_iff in H as [H S3]. apply andb_true_iff in H as [H S2]. apply andb_true_iff in H as [H S1].
  apply andb_true_iff in H as [H Hc]. apply andb_true_iff in H as [Ho Hq].
  destruct (fieldv "questions" req) as [| | | |qs|] eqn:Eq; try discriminate.
  destruct qs as [|q qs]; [discriminate|].
  pose proof Hq as Hq'. cbn [forallb] in Hq'. apply andb_true_iff in Hq' as [Hq1 _].
  unfold dns_stages. cbn [as_obj bind].
  assert (Hs : dns_summarize req = Ok tt).
  { unfold dns_summarize. rewrite Eq. cbn [as_arr bind].
    destruct q as [| | | | |qo]; try discriminate. cbn [question_ok] in Hq1.
    apply andb_true_iff in Hq1 as [Hq1 _]. apply andb_true_iff in Hq1 as [Hn _].
    cbn [as_obj bind]. rewrite (as_str_ok _ _ Hn). cbn [bind]. exact (as_str_ok _ _ Ho). }
  rewrite Hs. cbn [bind]. unfold dns_represent. rewrite (as_str_ok _ _ Ho), Eq. cbn [bind as_arr].
  rewrite (all_ok_forall _ question_ok (q :: qs) question_ok_rep Hq). cbn [bind].
  rewrite (as_str_ok _ _ Hc). cbn [bind].
  destruct (section_ok_rep _ _ S1) as [n1 ->]. destruct (section_ok_rep _ _ S2) as [n2 ->]. destruct (section_ok_rep _ _ S3) as [n3 ->].
  cbn [bind]. eexists. reflexivity.
Qed.

(* the shape is necessary for the questions: an entry without a question panics in Summarize *)
Lemma dns_no_question_panics resp :
  dns_stages (JO [("opCode", JS); ("questions", JA [])]) (JO resp) = Panic 62.
Proof. reflexivity. Qed.

Example dns_ok_example :
  dns_ok (JO [("opCode", JS); ("questions", JA [JO [("name", JS); ("type", JS); ("class", JS)]])])
         (JO [("code", JS); ("answers", JN); ("authorities", JA [])]) = true.
Proof. reflexivity. Qed.
