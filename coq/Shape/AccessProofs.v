(* Soundness of the access checker: a program accepted for an abstract environment runs without
   a panic (neither an assertion site nor the ill-typed site 0) in every concrete environment
   that conforms to it. *)
From Coq Require Import List Bool String ZArith.
Require Import V.Base.Prelude V.Shape.Access.
Import ListNotations.
Local Open Scope string_scope.

(* ---------------------------------------------------------------- association lists *)
Lemma lookup_In {A} k (o : list (string * A)) v : lookup k o = Some v -> In (k, v) o.
Proof.
  induction o as [|[k' v'] o IH]; cbn [lookup]; [discriminate|].
  destruct (String.eqb_spec k k') as [->|Hne]; intros H.
  - injection H as ->. left. reflexivity.
  - right. exact (IH H).
Qed.

Lemma mem_In k l : mem k l = true <-> In k l.
Proof.
  induction l as [|x l IH]; cbn [mem In]; [split; [discriminate|tauto]|].
  rewrite orb_true_iff, IH. destruct (String.eqb_spec k x) as [->|Hne]; split; intros H; auto.
  - destruct H as [H|H]; [discriminate|auto].
  - destruct H as [H|H]; [congruence|auto].
Qed.

Lemma lookup_None_mem {A} k (o : list (string * A)) : lookup k o = None <-> mem k (map fst o) = false.
Proof.
  induction o as [|[k' v'] o IH]; cbn [lookup map fst mem]; [tauto|].
  destruct (String.eqb_spec k k') as [->|Hne]; cbn [orb]; [split; discriminate|exact IH].
Qed.

Lemma nodup_lookup {A} k (o : list (string * A)) v :
  nodupb (map fst o) = true -> In (k, v) o -> lookup k o = Some v.
Proof.
  induction o as [|[k' v'] o IH]; cbn [map fst nodupb lookup In]; [tauto|].
  intros Hn [Heq|Hin]; apply andb_true_iff in Hn as [Hm Hn].
  - injection Heq as -> ->. rewrite String.eqb_refl. reflexivity.
  - destruct (String.eqb_spec k k') as [->|Hne]; [|exact (IH Hn Hin)].
    apply negb_true_iff in Hm. assert (Hk : mem k' (map fst o) = true).
    { apply mem_In. apply in_map_iff. exists (k', v). split; [reflexivity|exact Hin]. }
    congruence.
Qed.

Lemma remove_key_In {A} k (o : list (string * A)) k' v : In (k', v) (remove_key k o) -> In (k', v) o /\ k' <> k.
Proof.
  induction o as [|[k0 v0] o IH]; cbn [remove_key In]; [tauto|].
  destruct (String.eqb_spec k k0) as [->|Hne].
  - intros H. destruct (IH H) as [H1 H2]. auto.
  - cbn [In]. intros [H|H].
    + injection H as -> ->. split; [left; reflexivity|congruence].
    + destruct (IH H) as [H1 H2]. auto.
Qed.

Lemma remove_key_lookup_same {A} k (o : list (string * A)) : lookup k (remove_key k o) = None.
Proof.
  induction o as [|[k0 v0] o IH]; cbn [remove_key lookup]; [reflexivity|].
  destruct (String.eqb_spec k k0) as [->|Hne]; [exact IH|]. cbn [lookup].
  destruct (String.eqb_spec k k0); [contradiction|exact IH].
Qed.

Lemma remove_key_lookup_other {A} k k' (o : list (string * A)) : k' <> k -> lookup k' (remove_key k o) = lookup k' o.
Proof.
  intros Hne. induction o as [|[k0 v0] o IH]; cbn [remove_key lookup]; [reflexivity|].
  destruct (String.eqb_spec k k0) as [->|Hne0].
  - destruct (String.eqb_spec k' k0); [contradiction|exact IH].
  - cbn [lookup]. destruct (String.eqb_spec k' k0); [reflexivity|exact IH].
Qed.

Lemma remove_key_mem {A} k x (o : list (string * A)) :
  mem x (map fst (remove_key k o)) = true -> mem x (map fst o) = true.
Proof.
  rewrite !mem_In, !in_map_iff. intros [[k' v] [<- H]]. apply remove_key_In in H as [H _]. exists (k', v). auto.
Qed.

Lemma remove_key_nodup {A} k (o : list (string * A)) : nodupb (map fst o) = true -> nodupb (map fst (remove_key k o)) = true.
Proof.
  induction o as [|[k0 v0] o IH]; cbn [remove_key map fst nodupb]; [auto|].
  intros H. apply andb_true_iff in H as [Hm Hn]. destruct (String.eqb k k0); [exact (IH Hn)|].
  cbn [map fst nodupb]. apply andb_true_iff. split; [|exact (IH Hn)].
  apply negb_true_iff. apply negb_true_iff in Hm. destruct (mem k0 (map fst (remove_key k o))) eqn:E; [|reflexivity].
  apply remove_key_mem in E. congruence.
Qed.

Lemma aset_In k s fs k' s' : In (k', s') (aset k s fs) -> (k' = k /\ s' = s) \/ In (k', s') fs.
Proof.
  induction fs as [|[k0 s0] fs IH]; cbn [aset In].
  - intros [H|[]]. injection H as <- <-. auto.
  - destruct (String.eqb_spec k k0) as [->|Hne]; cbn [In].
    + intros [H|H]; [injection H as <- <-; auto|auto].
    + intros [H|H]; [auto|]. destruct (IH H); auto.
Qed.

Lemma aset_mem k s fs x : mem x (map fst fs) = true -> mem x (map fst (aset k s fs)) = true.
Proof.
  induction fs as [|[k0 s0] fs IH]; cbn [aset map fst mem]; [discriminate|].
  destruct (String.eqb_spec k k0) as [->|Hne]; cbn [map fst mem]; [auto|].
  intros H. apply orb_true_iff in H as [H|H]; apply orb_true_iff; [left; exact H|right; exact (IH H)].
Qed.

(* ---------------------------------------------------------------- conforms *)
Lemma conforms_obj fs rest v :
  conforms (ShObj fs rest) v = true <->
  exists o, v = VObj o /\ nodupb (map fst o) = true
            /\ (forall k s, In (k, s) fs -> conforms s (fieldv k o) = true)
            /\ (forall k v', In (k, v') o -> mem k (map fst fs) = true \/ exists r, rest = Some r /\ conforms r v' = true).
Proof.
  cbn [conforms]. destruct v as [| | | | |o]; try (split; [discriminate|intros [o' [H _]]; discriminate]).
  rewrite !andb_true_iff, !forallb_forall. split.
  - intros [[Hn Hf] Ho]. exists o. split; [reflexivity|]. split; [exact Hn|]. split.
    + intros k s Hin. exact (Hf (k, s) Hin).
    + intros k v' Hin. specialize (Ho (k, v') Hin). cbn in Ho. apply orb_true_iff in Ho as [Ho|Ho]; [left; exact Ho|].
      right. destruct rest as [r|]; [exists r; auto|discriminate].
  - intros [o' [Heq [Hn [Hf Ho]]]]. injection Heq as <-. split; [split; [exact Hn|]|].
    + intros [k s] Hin. exact (Hf k s Hin).
    + intros [k v'] Hin. apply orb_true_iff. destruct (Ho k v' Hin) as [H|[r [-> H]]]; [left; exact H|right; exact H].
Qed.

Lemma conforms_opt_null s v : is_null v = true -> conforms (opt s) v = true.
Proof.
  intros H. destruct v; try discriminate. destruct s; reflexivity.
Qed.

Lemma conforms_ShOpt s v : conforms (ShOpt s) v = is_null v || conforms s v.
Proof. reflexivity. Qed.

Lemma conforms_opt s v : conforms s v = true -> conforms (opt s) v = true.
Proof.
  intros H. destruct s; cbn [opt]; try exact H; rewrite conforms_ShOpt, H; apply orb_true_r.
Qed.

Lemma conforms_strip s v : conforms s v = true -> is_null v = false -> conforms (strip s) v = true.
Proof.
  intros H Hn. destruct s; cbn [strip]; try exact H. rewrite conforms_ShOpt, Hn in H. exact H.
Qed.

Lemma sure_ty_has t s v : sure_ty t s = true -> conforms s v = true -> has_ty t v = true.
Proof.
  destruct t, s; cbn [sure_ty]; try discriminate; intros _; cbn [conforms];
    destruct v as [| |n|n| |]; try discriminate; try reflexivity; destruct n; try discriminate; reflexivity.
Qed.

Lemma never_ty_has t s v : never_ty t s = true -> conforms s v = true -> has_ty t v = false.
Proof.
  destruct s; cbn [never_ty]; try discriminate; intros Hn Hc;
    try (apply negb_true_iff in Hn);
    destruct t; cbn [sure_ty] in Hn; try discriminate; cbn [conforms] in Hc;
    destruct v as [| |n|n| |]; try discriminate; try reflexivity; destruct n; try discriminate; reflexivity.
Qed.

Lemma forallb_any l : forallb (conforms ShAny) l = true.
Proof. apply forallb_forall. intros x _. reflexivity. Qed.

Lemma refine_ty_sound t s v : conforms s v = true -> has_ty t v = true -> conforms (refine_ty t s) v = true.
Proof.
  intros Hc Hh. destruct s as [| | | | | | |e0|fs rest|s1|ea]; cbn [refine_ty]; try exact Hc.
  - destruct t; destruct v; try discriminate; try reflexivity. cbn [conforms]. apply forallb_any.
  - destruct (sure_ty t s1) eqn:Es1; [|exact Hc]. rewrite conforms_ShOpt in Hc. destruct v; try exact Hc. destruct t; discriminate.
Qed.

Lemma zero_conf t : conforms (zero_sh t) (zero t) = true.
Proof. destruct t; reflexivity. Qed.

Lemma afield_obj_sound fs rest o k :
  conforms (ShObj fs rest) (VObj o) = true -> conforms (afield_obj fs rest k) (fieldv k o) = true.
Proof.
  intros H. apply conforms_obj in H as [o' [Heq [Hn [Hf Ho]]]]. injection Heq as <-.
  unfold afield_obj. destruct (lookup k fs) as [s|] eqn:El.
  - exact (Hf k s (lookup_In _ _ _ El)).
  - apply lookup_None_mem in El. unfold fieldv. destruct (lookup k o) as [v'|] eqn:Eo.
    + destruct (Ho k v' (lookup_In _ _ _ Eo)) as [H|[r [-> H]]]; [congruence|]. exact (conforms_opt _ _ H).
    + destruct rest as [r|]; [apply conforms_opt_null|]; reflexivity.
Qed.

Lemma conforms_aset fs rest o k s :
  conforms (ShObj fs rest) (VObj o) = true -> conforms s (fieldv k o) = true ->
  conforms (ShObj (aset k s fs) rest) (VObj o) = true.
Proof.
  intros H Hs. apply conforms_obj in H as [o' [Heq [Hn [Hf Ho]]]]. injection Heq as <-.
  apply conforms_obj. exists o. split; [reflexivity|]. split; [exact Hn|]. split.
  - intros k' s' Hin. destruct (aset_In _ _ _ _ _ Hin) as [[-> ->]|Hin']; [exact Hs|exact (Hf _ _ Hin')].
  - intros k' v' Hin. destruct (Ho k' v' Hin) as [H|H]; [left; exact (aset_mem _ _ _ _ H)|right; exact H].
Qed.

Lemma remove_key_mem_other {A} k x (o : list (string * A)) :
  x <> k -> mem x (map fst o) = true -> mem x (map fst (remove_key k o)) = true.
Proof.
  intros Hne. induction o as [|[k0 v0] o IH]; cbn [remove_key map fst mem]; [auto|].
  intros H. apply orb_true_iff in H as [H|H].
  - apply String.eqb_eq in H as <-. destruct (String.eqb_spec k x); [congruence|].
    cbn [map fst mem]. rewrite String.eqb_refl. reflexivity.
  - destruct (String.eqb k k0); [exact (IH H)|]. cbn [map fst mem]. rewrite (IH H). apply orb_true_r.
Qed.

Lemma conforms_del fs rest o k :
  conforms (ShObj fs rest) (VObj o) = true ->
  conforms (ShObj ((k, ShNull) :: remove_key k fs) rest) (VObj (remove_key k o)) = true.
Proof.
  intros H. apply conforms_obj in H as [o' [Heq [Hn [Hf Ho]]]]. injection Heq as <-.
  apply conforms_obj. exists (remove_key k o). split; [reflexivity|]. split; [exact (remove_key_nodup _ _ Hn)|]. split.
  - intros k' s' [Hin|Hin].
    + injection Hin as <- <-. unfold fieldv. rewrite remove_key_lookup_same. reflexivity.
    + apply remove_key_In in Hin as [Hin Hne]. unfold fieldv. rewrite (remove_key_lookup_other _ _ _ Hne). exact (Hf _ _ Hin).
  - intros k' v' Hin. apply remove_key_In in Hin as [Hin Hne].
    destruct (Ho k' v' Hin) as [H|H]; [left|right; exact H].
    cbn [map fst mem]. rewrite (remove_key_mem_other _ _ _ Hne H). apply orb_true_r.
Qed.

Lemma conforms_not_obj s v k ks :
  conforms s v = true -> match s with ShObj _ _ | ShAny | ShOpt _ => False | _ => True end ->
  path_get v (k :: ks) = [].
Proof.
  intros H Hs. destruct s; try contradiction; cbn [conforms] in H;
    destruct v as [| |n|n| |]; try discriminate; reflexivity.
Qed.

Lemma apath_obj_sound ks (IH : forall s v, conforms s v = true -> forallb (conforms (apath s ks)) (path_get v ks) = true)
      fs rest v k :
  conforms (ShObj fs rest) v = true ->
  forallb (conforms match lookup k fs with
                    | Some s' => apath s' ks
                    | None => match rest with Some r => apath r ks | None => ShNull end
                    end) (path_get v (k :: ks)) = true.
Proof.
  intros H. apply conforms_obj in H as [o [-> [Hn [Hf Ho]]]]. cbn [path_get].
  destruct (lookup k o) as [v'|] eqn:Eo; [|reflexivity].
  destruct (lookup k fs) as [s'|] eqn:El.
  - apply IH. specialize (Hf k s' (lookup_In _ _ _ El)). unfold fieldv in Hf. rewrite Eo in Hf. exact Hf.
  - apply lookup_None_mem in El. destruct (Ho k v' (lookup_In _ _ _ Eo)) as [H|[r [-> H]]]; [congruence|].
    apply IH. exact H.
Qed.

Lemma apath_sound ks : forall s v, conforms s v = true -> forallb (conforms (apath s ks)) (path_get v ks) = true.
Proof.
  induction ks as [|k ks IH]; intros s v H.
  - cbn [apath path_get forallb]. rewrite H. reflexivity.
  - cbn [apath].
    destruct s as [| | | | | | |e|fs rest|s1|ea]; cbn [strip];
      try (rewrite (conforms_not_obj _ _ k ks H I); reflexivity).
    + apply forallb_forall. intros x _. reflexivity.
    + apply (apath_obj_sound ks IH); exact H.
    + rewrite conforms_ShOpt in H. destruct (is_null v) eqn:En.
      { destruct v; try discriminate. cbn [path_get]. destruct s1 as [| | | | | | |e|fs rest|s2|eb]; reflexivity. }
      cbn [orb] in H.
      destruct s1 as [| | | | | | |e|fs rest|s2|eb];
        try (rewrite (conforms_not_obj _ _ k ks H I); reflexivity);
        try (apply forallb_forall; intros x _; reflexivity).
      apply (apath_obj_sound ks IH); exact H.
Qed.

Lemma afield_sound s k s' v :
  afield s k = Some s' -> conforms s v = true ->
  exists v', match v with VObj o => Ok (fieldv k o) | VNull => Ok VNull | _ => Panic 0 end = Ok v' /\ conforms s' v' = true.
Proof.
  destruct s as [| | | | | | |e|fs rest|s1|ea]; cbn [afield]; try discriminate.
  - intros H Hc. injection H as <-. destruct v; try discriminate. exists VNull. auto.
  - intros H Hc. injection H as <-. pose proof Hc as Hc'. apply conforms_obj in Hc' as [o [-> _]].
    exists (fieldv k o). split; [reflexivity|exact (afield_obj_sound _ _ _ _ Hc)].
  - destruct s1 as [| | | | | | |e|fs rest|s2|eb]; try discriminate.
    intros H Hc. injection H as <-. rewrite conforms_ShOpt in Hc. destruct (is_null v) eqn:En.
    + destruct v; try discriminate. exists VNull. split; [reflexivity|apply conforms_opt_null; reflexivity].
    + cbn [orb] in Hc. pose proof Hc as Hc'. apply conforms_obj in Hc' as [o [-> _]].
      exists (fieldv k o). split; [reflexivity|]. apply conforms_opt. exact (afield_obj_sound _ _ _ _ Hc).
Qed.

Lemma aeval_sound e : forall G r s, aeval e G = Some s -> env_conf G r ->
  exists v, eval e r = Ok v /\ conforms s v = true.
Proof.
  induction e as [x|e IH k|line e IH t|e IH t|e IH ks|e IH k|str|line e IH n]; intros G r s Ha He; cbn [aeval] in Ha; cbn [eval].
  - destruct (He x s Ha) as [v [Hl Hc]]. exists v. rewrite Hl. auto.
  - destruct (aeval e G) as [s0|] eqn:Ea; [|discriminate]. destruct (IH G r s0 Ea He) as [v [-> Hc]]. cbn [bind].
    exact (afield_sound _ _ _ _ Ha Hc).
  - destruct (aeval e G) as [s0|] eqn:Ea; [|discriminate]. destruct (IH G r s0 Ea He) as [v [-> Hc]]. cbn [bind].
    destruct (sure_ty t s0) eqn:Es; [|discriminate]. injection Ha as <-.
    rewrite (sure_ty_has _ _ _ Es Hc). exists v. auto.
  - destruct (aeval e G) as [s0|] eqn:Ea; [|discriminate]. destruct (IH G r s0 Ea He) as [v [-> Hc]]. cbn [bind].
    eexists. split; [reflexivity|].
    destruct (sure_ty t s0) eqn:Es.
    { injection Ha as <-. rewrite (sure_ty_has _ _ _ Es Hc). exact Hc. }
    destruct (never_ty t s0) eqn:En.
    { injection Ha as <-. rewrite (never_ty_has _ _ _ En Hc). apply zero_conf. }
    destruct s0 as [| | | | | | |e0|fs rest|s1|ea].
    { destruct t; injection Ha as <-; destruct v; try reflexivity. cbn [has_ty conforms is_null orb]. apply forallb_any. }
    all: destruct t; try (injection Ha as <-; reflexivity);
      destruct s1 as [| | | | | | |e1|fs1 rest1|s2|eb]; injection Ha as <-; try reflexivity;
      rewrite conforms_ShOpt in Hc |- *; destruct v; try discriminate; cbn [has_ty zero is_null orb] in *; try reflexivity; exact Hc.
  - destruct (aeval e G) as [s0|] eqn:Ea; [|discriminate]. destruct (IH G r s0 Ea He) as [v [-> Hc]]. cbn [bind].
    injection Ha as <-. eexists. split; [reflexivity|]. cbn [conforms]. exact (apath_sound ks _ _ Hc).
  - destruct (aeval e G) as [s0|] eqn:Ea; [|discriminate]. destruct (IH G r s0 Ea He) as [v [-> Hc]]. cbn [bind].
    destruct s0 as [| | | | | | |e0|fs rest|s1|ea]; try discriminate; injection Ha as <-.
    + destruct v; try discriminate. exists VNull. auto.
    + pose proof Hc as Hc'. apply conforms_obj in Hc' as [o [-> _]]. eexists. split; [reflexivity|exact (conforms_del _ _ _ _ Hc)].
  - injection Ha as <-. eexists. split; [reflexivity|]. cbn [conforms]. apply String.eqb_refl.
  - destruct (aeval e G) as [s0|] eqn:Ea; [|discriminate]. destruct (IH G r s0 Ea He) as [v [-> Hc]]. cbn [bind].
    destruct s0 as [| | | | | | |e0|fs rest|s1|ea]; try discriminate. destruct n as [|n]; [|discriminate]. injection Ha as <-.
    cbn [conforms] in Hc. destruct v as [| | | |[|v0 l]|]; try discriminate. apply andb_true_iff in Hc as [H0 _].
    exists v0. split; [reflexivity|exact H0].
Qed.

Lemma env_conf_cons G r x sh v : env_conf G r -> conforms sh v = true -> env_conf ((x, sh) :: G) ((x, v) :: r).
Proof.
  intros He Hc y s. cbn [lookup]. destruct (String.eqb y x); [|apply He].
  intros H. injection H as <-. exists v. auto.
Qed.

Lemma env_conf_refine G r x sh v : env_conf G r -> lookup x r = Some v -> conforms sh v = true -> env_conf ((x, sh) :: G) r.
Proof.
  intros He Hl Hc y s. cbn [lookup]. destruct (String.eqb_spec y x) as [->|Hne]; [|apply He].
  intros H. injection H as <-. exists v. auto.
Qed.

Lemma refine_nonnil_sound e G r v :
  env_conf G r -> eval e r = Ok v -> is_null v = false -> env_conf (refine_nonnil e G) r.
Proof.
  intros He Hv Hn. destruct e as [x|e k| | | | | |]; cbn [refine_nonnil]; try exact He.
  - destruct (lookup x G) as [s|] eqn:El; [|exact He]. destruct (He x s El) as [v' [Hl Hc]].
    cbn [eval] in Hv. rewrite Hl in Hv. injection Hv as <-.
    exact (env_conf_refine _ _ _ _ _ He Hl (conforms_strip _ _ Hc Hn)).
  - destruct e as [x| | | | | | |]; try exact He.
    destruct (lookup x G) as [s|] eqn:El; [|exact He]. destruct (He x s El) as [vx [Hl Hc]].
    cbn [eval] in Hv. rewrite Hl in Hv. cbn [bind] in Hv.
    destruct (strip s) as [| | | | | | |e0|fs rest|s1|ea] eqn:Es; try exact He.
    destruct vx as [| | | | |o]; try discriminate.
    + injection Hv as <-. discriminate.
    + injection Hv as <-.
      assert (Hc' : conforms (ShObj fs rest) (VObj o) = true) by (rewrite <- Es; apply conforms_strip; [exact Hc|reflexivity]).
      apply (env_conf_refine _ _ _ _ _ He Hl). apply conforms_aset; [exact Hc'|].
      apply conforms_strip; [exact (afield_obj_sound _ _ _ _ Hc')|exact Hn].
Qed.

Lemma arr_elem_sound sh v :
  conforms sh v = true ->
  match arr_elem sh with
  | Some (Some el) => v = VNull \/ exists l, v = VArr l /\ forallb (conforms el) l = true
  | Some None => v = VNull
  | None => True
  end.
Proof.
  intros H. destruct sh as [| | | | | | |e|fs rest|s1|ea]; cbn [arr_elem]; try exact I.
  - destruct v; try discriminate. reflexivity.
  - destruct v as [| | | |l|]; try discriminate. right. exists l. auto.
  - destruct s1 as [| | | | | | |e|fs rest|s2|eb]; try exact I; rewrite conforms_ShOpt in H.
    + destruct v as [| | | |l|]; try discriminate; [left; reflexivity|right; exists l; auto].
    + destruct v as [| | | |[|v0 l]|]; try discriminate; [left; reflexivity|]. right. exists (v0 :: l). auto.
  - destruct v as [| | | |[|v0 l]|]; try discriminate. right. exists (v0 :: l). auto.
Qed.

Lemma obj_parts_sound sh v :
  conforms sh v = true ->
  match obj_parts sh with
  | Some (Some (fs, rest)) => v = VNull \/ conforms (ShObj fs rest) v = true
  | Some None => v = VNull
  | None => True
  end.
Proof.
  intros H. destruct sh as [| | | | | | |e|fs rest|s1|ea]; cbn [obj_parts]; try exact I.
  - destruct v; try discriminate. reflexivity.
  - right. exact H.
  - destruct s1 as [| | | | | | |e|fs rest|s2|eb]; try exact I. rewrite conforms_ShOpt in H.
    destruct (is_null v) eqn:En; [left; destruct v; try discriminate; reflexivity|right; exact H].
Qed.

Theorem check_sound s : forall G r, check s G = true -> env_conf G r -> exec s r = Ok tt.
Proof.
  induction s as [|a IHa b IHb|e|x e k IHk|e a IHa b IHb|x e t a IHa b IHb|e lit a IHa b IHb|e z a IHa b IHb
                  |x e a IHa b IHb|x e body IHb|k v e body IHb]; intros G r Hc He; cbn [check] in Hc; cbn [exec].
  - reflexivity.
  - apply andb_true_iff in Hc as [H1 H2]. rewrite (IHa G r H1 He). cbn [bind]. exact (IHb G r H2 He).
  - destruct (aeval e G) as [sh|] eqn:Ea; [|discriminate]. destruct (aeval_sound _ _ _ _ Ea He) as [v [-> _]]. reflexivity.
  - destruct (aeval e G) as [sh|] eqn:Ea; [|discriminate]. destruct (aeval_sound _ _ _ _ Ea He) as [v [-> Hv]]. cbn [bind].
    exact (IHk _ _ Hc (env_conf_cons _ _ _ _ _ He Hv)).
  - destruct (aeval e G) as [sh|] eqn:Ea; [|discriminate]. destruct (aeval_sound _ _ _ _ Ea He) as [v [Hev Hv]].
    rewrite Hev. cbn [bind]. apply andb_true_iff in Hc as [H1 H2]. destruct (is_null v) eqn:En.
    + assert (Hn : can_be_null sh = true).
      { destruct v; try discriminate. destruct sh; try reflexivity; discriminate. }
      rewrite Hn in H1. exact (IHa G r H1 He).
    + apply (IHb (refine_nonnil e G) r); [|exact (refine_nonnil_sound _ _ _ _ He Hev En)].
      destruct sh; try exact H2. destruct v; discriminate.
  - destruct (aeval e G) as [sh|] eqn:Ea; [|discriminate]. destruct (aeval_sound _ _ _ _ Ea He) as [v [-> Hv]]. cbn [bind].
    destruct (sure_ty t sh) eqn:Es.
    { rewrite (sure_ty_has _ _ _ Es Hv). exact (IHa _ _ Hc (env_conf_cons _ _ _ _ _ He Hv)). }
    destruct (never_ty t sh) eqn:En.
    { rewrite (never_ty_has _ _ _ En Hv). exact (IHb _ _ Hc (env_conf_cons _ _ _ _ _ He (zero_conf t))). }
    apply andb_true_iff in Hc as [H1 H2]. destruct (has_ty t v) eqn:Eh.
    + apply (IHa _ _ H1). apply env_conf_cons; [exact He|]. exact (refine_ty_sound _ _ _ Hv Eh).
    + exact (IHb _ _ H2 (env_conf_cons _ _ _ _ _ He (zero_conf t))).
  - destruct (aeval e G) as [sh|] eqn:Ea; [|discriminate]. destruct (aeval_sound _ _ _ _ Ea He) as [v [-> Hv]]. cbn [bind].
    destruct sh as [| | | | |  |t| | | |]; try discriminate.
    + destruct v as [| | |[s'|]| |]; try discriminate; apply andb_true_iff in Hc as [H1 H2].
      * destruct (String.eqb s' lit); [exact (IHa _ _ H1 He)|exact (IHb _ _ H2 He)].
      * exact (IHb _ _ H2 He).
    + destruct v as [| | |[s'|]| |]; try discriminate. cbn [conforms] in Hv. apply String.eqb_eq in Hv as ->.
      destruct (String.eqb t lit); [exact (IHa _ _ Hc He)|exact (IHb _ _ Hc He)].
  - destruct (aeval e G) as [sh|] eqn:Ea; [|discriminate]. destruct (aeval_sound _ _ _ _ Ea He) as [v [-> Hv]]. cbn [bind].
    destruct sh as [| | | |t| | | | | |]; try discriminate.
    + destruct v as [| |[z'|]| | |]; try discriminate; apply andb_true_iff in Hc as [H1 H2].
      * destruct (Z.eqb z' z); [exact (IHa _ _ H1 He)|exact (IHb _ _ H2 He)].
      * exact (IHb _ _ H2 He).
    + destruct v as [| |[z'|]| | |]; try discriminate. cbn [conforms] in Hv. apply Z.eqb_eq in Hv as ->.
      destruct (Z.eqb t z); [exact (IHa _ _ Hc He)|exact (IHb _ _ Hc He)].
  - destruct (aeval e G) as [sh|] eqn:Ea; [|discriminate]. destruct (aeval_sound _ _ _ _ Ea He) as [v [-> Hv]]. cbn [bind].
    pose proof (arr_elem_sound _ _ Hv) as Hs. destruct (arr_elem sh) as [[el|]|]; [| |discriminate].
    + apply andb_true_iff in Hc as [H1 H2]. destruct Hs as [->|[l [-> Hl]]]; [exact (IHb _ _ H2 He)|].
      destruct l as [|v0 l]; [exact (IHb _ _ H2 He)|]. cbn [forallb] in Hl. apply andb_true_iff in Hl as [Hv0 _].
      exact (IHa _ _ H1 (env_conf_cons _ _ _ _ _ He Hv0)).
    + subst v. exact (IHb _ _ Hc He).
  - destruct (aeval e G) as [sh|] eqn:Ea; [|discriminate]. destruct (aeval_sound _ _ _ _ Ea He) as [v [-> Hv]]. cbn [bind].
    pose proof (arr_elem_sound _ _ Hv) as Hs. destruct (arr_elem sh) as [[el|]|]; [| |discriminate].
    + destruct Hs as [->|[l [-> Hl]]]; [reflexivity|]. clear Hv.
      induction l as [|v0 l IHl]; [reflexivity|]. cbn [forallb] in Hl. apply andb_true_iff in Hl as [Hv0 Hl].
      rewrite (IHb _ _ Hc (env_conf_cons _ _ _ _ _ He Hv0)). cbn [bind]. exact (IHl Hl).
    + subst v. reflexivity.
  - destruct (aeval e G) as [sh|] eqn:Ea; [|discriminate]. destruct (aeval_sound _ _ _ _ Ea He) as [o [-> Hv]]. cbn [bind].
    pose proof (obj_parts_sound _ _ Hv) as Hs. destruct (obj_parts sh) as [[[fs rest]|]|]; [| |discriminate].
    + destruct Hs as [->|Ho]; [reflexivity|]. apply andb_true_iff in Hc as [H1 H2].
      apply conforms_obj in Ho as [l [-> [Hn [Hf Ho]]]].
      assert (Hall : forall k0 v0, In (k0, v0) l -> lookup k0 l = Some v0) by (intros k0 v0 Hin; exact (nodup_lookup _ _ _ Hn Hin)).
      assert (Hsub : forall k0 v0, In (k0, v0) l -> In (k0, v0) l) by auto.
      revert Hsub. generalize l at 1 3. intros l0. induction l0 as [|[k0 v0] l0 IHl]; intros Hsub; [reflexivity|].
      assert (Hin : In (k0, v0) l) by (apply Hsub; left; reflexivity).
      assert (Hbody : exec body ((v, v0) :: (k, VStr (Some k0)) :: r) = Ok tt).
      { destruct (Ho k0 v0 Hin) as [Hm|[rs [-> Hr]]].
        - apply mem_In in Hm. apply in_map_iff in Hm as [[k1 s1] [Hk Hin1]]. cbn [fst] in Hk. subst k1.
          rewrite forallb_forall in H1. specialize (H1 (k0, s1) Hin1). cbn [fst snd] in H1.
          apply (IHb _ _ H1). apply env_conf_cons.
          + apply env_conf_cons; [exact He|]. cbn [conforms]. apply String.eqb_refl.
          + specialize (Hf k0 s1 Hin1). unfold fieldv in Hf. rewrite (Hall _ _ Hin) in Hf. exact Hf.
        - apply (IHb _ _ H2). apply env_conf_cons; [|exact Hr]. apply env_conf_cons; [exact He|reflexivity]. }
      rewrite Hbody. cbn [bind]. apply IHl. intros k1 v1 Hin1. apply Hsub. right. exact Hin1.
    + subst o. reflexivity.
Qed.

(* the form used by the property: a stage program accepted for every alternative runs without a
   panic on every request/response pair that conforms to one of them *)
Corollary check_alts_sound p alts req resp :
  check_alts p alts = true -> existsb (fun a => alt_conf a req resp) alts = true -> stage_run p req resp = Ok tt.
Proof.
  intros Hc Hex. apply existsb_exists in Hex as [a [Hin Ha]]. unfold check_alts in Hc. rewrite forallb_forall in Hc.
  specialize (Hc a Hin). apply (check_sound p _ _ Hc). unfold alt_conf in Ha. apply andb_true_iff in Ha as [H1 H2].
  unfold stage_env. apply env_conf_cons; [|exact H1]. apply env_conf_cons; [|exact H2]. intros x sh H. discriminate.
Qed.

(* the premises are satisfiable and the checker discriminates: the Redis representGeneric
   pattern on its shape, on a map whose "key" is missing, and a guarded optional field *)
Example access_example :
  let p := SSeq (SEval (EAs 41 (EField (EVar "request") "type") TyStr))
                (SIfNil (EField (EVar "request") "key") SSkip (SEval (EAs 51 (EField (EVar "request") "key") TyStr))) in
  let sh := ShObj [("type", ShStr); ("key", ShOpt ShStr)] None in
  check p [("request", sh)] = true
  /\ conforms sh (VObj [("type", VStr None)]) = true
  /\ exec p [("request", VObj [("type", VStr None)])] = Ok tt
  /\ check (SEval (EAs 51 (EField (EVar "request") "key") TyStr)) [("request", sh)] = false
  /\ exec (SEval (EAs 51 (EField (EVar "request") "key") TyStr)) [("request", VObj [("type", VStr None)])] = Panic 51.
Proof. repeat split; reflexivity. Qed.
