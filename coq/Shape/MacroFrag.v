(* Protocol variants, macro table and the KFL fragment the macro definitions are written in
   (comparisons of a protocol.* path with a string literal, joined by and/or).  The tables are
   generated (gen/MacroTable.v): variants from the api.Protocol literals of the extensions
   (go/ast), macros from Dissector.Macros() of every registered extension parsed by the real
   kfl.Parse. *)
From Coq Require Import List Bool String.
Import ListNotations.
Local Open Scope string_scope.

Record pvariant := { pv_name : string; pv_version : string; pv_abbr : string; pv_macro : string }.

Inductive frag :=
| FEq (path lit : string)
| FNeq (path lit : string)
| FAnd (a b : frag)
| FOr (a b : frag)
| FUnknown.

Definition pfield (v : pvariant) (path : string) : option string :=
  if String.eqb path "protocol.name" then Some (pv_name v)
  else if String.eqb path "protocol.version" then Some (pv_version v)
  else if String.eqb path "protocol.abbr" then Some (pv_abbr v)
  else if String.eqb path "protocol.macro" then Some (pv_macro v)
  else None.

(* None = the fragment evaluator does not cover the definition *)
Fixpoint feval (v : pvariant) (f : frag) : option bool :=
  match f with
  | FEq p l => match pfield v p with Some s => Some (String.eqb s l) | None => None end
  | FNeq p l => match pfield v p with Some s => Some (negb (String.eqb s l)) | None => None end
  | FAnd a b => match feval v a, feval v b with Some x, Some y => Some (x && y) | _, _ => None end
  | FOr a b => match feval v a, feval v b with Some x, Some y => Some (x || y) | _, _ => None end
  | FUnknown => None
  end.

Definition macro_row (variants : list pvariant) (m : string * frag) : bool :=
  forallb (fun v => match feval v (snd m) with
                    | Some b => Bool.eqb b (String.eqb (pv_macro v) (fst m))
                    | None => false end) variants.

(* every macro is true on exactly the variants that name it as their macro; every variant's
   macro is defined *)
Definition macro_table_ok (variants : list pvariant) (macros : list (string * frag)) : bool :=
  forallb (macro_row variants) macros
  && forallb (fun v => existsb (fun m => String.eqb (fst m) (pv_macro v)) macros) variants.

Definition pvariant_eqb (a b : pvariant) : bool :=
  String.eqb (pv_name a) (pv_name b) && String.eqb (pv_version a) (pv_version b)
  && String.eqb (pv_abbr a) (pv_abbr b) && String.eqb (pv_macro a) (pv_macro b).
