(* The later stages (Summarize / Represent and their helpers) of the stream dissectors as
   ACCESS PROGRAMS over JSON values, and a checker of such programs against the SHAPE of the
   values they are run on.

   A JSON value is modelled by what an index expression, a type assertion, a nil test, a range
   loop or a switch on a tag can observe of it after encoding/json unmarshalling into
   interface{}: its dynamic type, the keys of objects, the elements of arrays, and the VALUE of
   short strings and integral numbers (tags such as the AMQP method name or the Kafka api key;
   None = "not recorded": longer than any literal of the program / not integral).

   The programs are produced from the Go source by harness/cmd/vh-translate/stages.go
   (coq/gen/StagesSrc.v); the shapes from the Go types the dissectors emit
   (coq/gen/StageShapes.v).  exec is the executable semantics (run against the implementation
   on real and on deviating items by the correspondence check); check is the abstract
   interpreter; AccessProofs.check_sound: check s G = true -> every environment conforming to
   G runs s without a panic. *)
From Coq Require Import List Bool String ZArith.
Require Import V.Base.Prelude.
Import ListNotations.
Local Open Scope string_scope.

(* ---------------------------------------------------------------- values *)
Inductive jv :=
| VNull
| VBool
| VNum (t : option Z)
| VStr (t : option string)
| VArr (l : list jv)
| VObj (l : list (string * jv)).

Inductive ty := TyBool | TyNum | TyStr | TyArr | TyObj.

Definition has_ty (t : ty) (v : jv) : bool :=
  match t, v with
  | TyBool, VBool | TyNum, VNum _ | TyStr, VStr _ | TyArr, VArr _ | TyObj, VObj _ => true
  | _, _ => false
  end.

Definition is_null (v : jv) : bool := match v with VNull => true | _ => false end.

Fixpoint lookup {A} (k : string) (o : list (string * A)) : option A :=
  match o with
  | [] => None
  | (k', v) :: r => if String.eqb k k' then Some v else lookup k r
  end.

(* m["k"] on a map[string]interface{}: nil when the key is absent *)
Definition fieldv (k : string) (o : list (string * jv)) : jv :=
  match lookup k o with Some v => v | None => VNull end.

Fixpoint remove_key {A} (k : string) (o : list (string * A)) : list (string * A) :=
  match o with
  | [] => []
  | (k', v) :: r => if String.eqb k k' then remove_key k r else (k', v) :: remove_key k r
  end.

Fixpoint mem (k : string) (l : list string) : bool :=
  match l with [] => false | x :: r => String.eqb k x || mem k r end.

Fixpoint nodupb (l : list string) : bool :=
  match l with [] => true | x :: r => negb (mem x r) && nodupb r end.

(* the zero value a failed "v, ok := x.(T)" leaves in v (a nil map / nil slice is VNull) *)
Definition zero (t : ty) : jv :=
  match t with
  | TyBool => VBool
  | TyNum => VNum (Some 0%Z)
  | TyStr => VStr (Some "")
  | TyArr | TyObj => VNull
  end.

(* jp "a.b.c" Get: the values reached through present keys of objects (none or one) *)
Fixpoint path_get (v : jv) (ks : list string) : list jv :=
  match ks with
  | [] => [v]
  | k :: ks' => match v with
                | VObj o => match lookup k o with Some v' => path_get v' ks' | None => [] end
                | _ => []
                end
  end.

(* ---------------------------------------------------------------- programs *)
Inductive expr :=
| EVar (x : string)
| EField (e : expr) (k : string)          (* e["k"], e of static type map[string]interface{} *)
| EAs (line : nat) (e : expr) (t : ty)    (* e.(T): the panicking form *)
| EAsOk (e : expr) (t : ty)               (* v, _ := e.(T) *)
| EPath (e : expr) (ks : list string)     (* jp.ParseString("k1.k2").Get(e), as a list *)
| EDel (e : expr) (k : string)            (* the map after delete(m, "k") *)
| EStr (s : string)                       (* a string constant assigned to an interface{} variable *)
| EIdx (line : nat) (e : expr) (n : nat). (* e[n], e of static type []interface{}: panics when len(e) <= n *)

Inductive stmt :=
| SSkip
| SSeq (a b : stmt)
| SEval (e : expr)
| SLet (x : string) (e : expr) (k : stmt)                 (* x := e; k *)
| SIfNil (e : expr) (a b : stmt)                          (* if e == nil {a} else {b} *)
| SIfOk (x : string) (e : expr) (t : ty) (a b : stmt)     (* if x, ok := e.(T); ok {a} else {b} *)
| SIfStrEq (e : expr) (s : string) (a b : stmt)           (* if e == "s" {a} else {b}, e a string *)
| SIfNumEq (e : expr) (z : Z) (a b : stmt)
| SFirst (x : string) (e : expr) (a b : stmt)             (* if len(e) > 0 {x := e[0]; a} else {b} *)
| SForArr (x : string) (e : expr) (body : stmt)           (* for _, x := range e *)
| SForObj (k v : string) (e : expr) (body : stmt).        (* for k, v := range e *)

Definition env := list (string * jv).

(* Panic 0 = the program is ill-typed for this value (cannot happen in Go: the static type of
   the expression excludes it); every other site is the Go line of the assertion *)
Fixpoint eval (e : expr) (r : env) : res jv :=
  match e with
  | EVar x => match lookup x r with Some v => Ok v | None => Panic 0 end
  | EField e' k =>
      let* v := eval e' r in
      match v with
      | VObj o => Ok (fieldv k o)
      | VNull => Ok VNull                     (* index of a nil map *)
      | _ => Panic 0
      end
  | EAs line e' t => let* v := eval e' r in if has_ty t v then Ok v else Panic line
  | EAsOk e' t => let* v := eval e' r in Ok (if has_ty t v then v else zero t)
  | EPath e' ks => let* v := eval e' r in Ok (VArr (path_get v ks))
  | EDel e' k =>
      let* v := eval e' r in
      match v with
      | VObj o => Ok (VObj (remove_key k o))
      | VNull => Ok VNull
      | _ => Panic 0
      end
  | EStr s => Ok (VStr (Some s))
  | EIdx line e' n =>
      let* v := eval e' r in
      match v with
      | VArr l => match nth_error l n with Some v' => Ok v' | None => Panic line end
      | VNull => Panic line                   (* index of a nil slice *)
      | _ => Panic 0
      end
  end.

Fixpoint exec (s : stmt) (r : env) : res unit :=
  match s with
  | SSkip => Ok tt
  | SSeq a b => let* _ := exec a r in exec b r
  | SEval e => let* _ := eval e r in Ok tt
  | SLet x e k => let* v := eval e r in exec k ((x, v) :: r)
  | SIfNil e a b => let* v := eval e r in if is_null v then exec a r else exec b r
  | SIfOk x e t a b =>
      let* v := eval e r in
      if has_ty t v then exec a ((x, v) :: r) else exec b ((x, zero t) :: r)
  | SIfStrEq e s a b =>
      let* v := eval e r in
      match v with
      | VStr (Some s') => if String.eqb s' s then exec a r else exec b r
      | VStr None => exec b r
      | _ => Panic 0
      end
  | SIfNumEq e z a b =>
      let* v := eval e r in
      match v with
      | VNum (Some z') => if Z.eqb z' z then exec a r else exec b r
      | VNum None => exec b r
      | _ => Panic 0
      end
  | SFirst x e a b =>
      let* v := eval e r in
      match v with
      | VArr (v0 :: _) => exec a ((x, v0) :: r)
      | VArr [] | VNull => exec b r
      | _ => Panic 0
      end
  | SForArr x e body =>
      let* v := eval e r in
      match v with
      | VArr l => (fix go (l : list jv) : res unit :=
                     match l with
                     | [] => Ok tt
                     | v0 :: l' => let* _ := exec body ((x, v0) :: r) in go l'
                     end) l
      | VNull => Ok tt
      | _ => Panic 0
      end
  | SForObj k v e body =>
      let* o := eval e r in
      match o with
      | VObj l => (fix go (l : list (string * jv)) : res unit :=
                     match l with
                     | [] => Ok tt
                     | (k0, v0) :: l' => let* _ := exec body ((v, v0) :: (k, VStr (Some k0)) :: r) in go l'
                     end) l
      | VNull => Ok tt
      | _ => Panic 0
      end
  end.

(* ---------------------------------------------------------------- shapes *)
Inductive shape :=
| ShAny
| ShNull
| ShBool
| ShNum
| ShNumTag (z : Z)
| ShStr
| ShStrTag (s : string)
| ShArr (e : shape)
| ShObj (fs : list (string * shape)) (rest : option shape)   (* listed keys (absent = null); other keys: rest, or none *)
| ShOpt (s : shape)                                          (* null, or s *)
| ShArr1 (e : shape).                                        (* an array with at least one element *)

Fixpoint conforms (s : shape) (v : jv) {struct s} : bool :=
  match s with
  | ShAny => true
  | ShNull => is_null v
  | ShBool => has_ty TyBool v
  | ShNum => has_ty TyNum v
  | ShNumTag z => match v with VNum (Some z') => Z.eqb z' z | _ => false end
  | ShStr => has_ty TyStr v
  | ShStrTag t => match v with VStr (Some t') => String.eqb t' t | _ => false end
  | ShArr e => match v with VArr l => forallb (conforms e) l | _ => false end
  | ShObj fs rest =>
      match v with
      | VObj o =>
          nodupb (map fst o)
          && forallb (fun ks => match ks with (k, s') => conforms s' (fieldv k o) end) fs
          && forallb (fun kv => match kv with (k, v') =>
                                  mem k (map fst fs)
                                  || match rest with Some r => conforms r v' | None => false end
                                end) o
      | _ => false
      end
  | ShOpt s' => is_null v || conforms s' v
  | ShArr1 e => match v with VArr (v0 :: l) => conforms e v0 && forallb (conforms e) l | _ => false end
  end.

Definition aenv := list (string * shape).

Definition sure_ty (t : ty) (s : shape) : bool :=
  match t, s with
  | TyBool, ShBool | TyNum, ShNum | TyNum, ShNumTag _ | TyStr, ShStr | TyStr, ShStrTag _
  | TyArr, ShArr _ | TyArr, ShArr1 _ | TyObj, ShObj _ _ => true
  | _, _ => false
  end.

Definition never_ty (t : ty) (s : shape) : bool :=
  match s with
  | ShNull => true
  | ShAny | ShOpt _ => false
  | _ => negb (sure_ty t s)
  end.

Definition zero_sh (t : ty) : shape :=
  match t with
  | TyBool => ShBool
  | TyNum => ShNumTag 0%Z
  | TyStr => ShStrTag ""
  | TyArr | TyObj => ShNull
  end.

(* what is known about a value of shape s once it is known to have type t *)
Definition refine_ty (t : ty) (s : shape) : shape :=
  match s with
  | ShOpt s' => if sure_ty t s' then s' else s
  | ShAny => match t with
             | TyArr => ShArr ShAny
             | TyStr => ShStr
             | TyNum => ShNum
             | TyBool => ShBool
             | TyObj => ShAny                (* the keys of an arbitrary object are not known to be distinct *)
             end
  | _ => s
  end.

Definition strip (s : shape) : shape := match s with ShOpt s' => s' | _ => s end.

Definition can_be_null (s : shape) : bool :=
  match s with ShAny | ShNull | ShOpt _ => true | _ => false end.

Definition opt (s : shape) : shape :=
  match s with ShAny | ShNull | ShOpt _ => s | _ => ShOpt s end.

(* shape of m["k"] for m of shape (ShObj fs rest) *)
Definition afield_obj (fs : list (string * shape)) (rest : option shape) (k : string) : shape :=
  match lookup k fs with
  | Some s => s
  | None => match rest with Some r => opt r | None => ShNull end
  end.

Definition afield (s : shape) (k : string) : option shape :=
  match s with
  | ShObj fs rest => Some (afield_obj fs rest k)
  | ShNull => Some ShNull
  | ShOpt (ShObj fs rest) => Some (opt (afield_obj fs rest k))
  | _ => None
  end.

Fixpoint aset (k : string) (s : shape) (fs : list (string * shape)) : list (string * shape) :=
  match fs with
  | [] => [(k, s)]
  | (k', s') :: r => if String.eqb k k' then (k, s) :: r else (k', s') :: aset k s r
  end.

(* shape of the elements of jp.Get(v) for v of shape s *)
Fixpoint apath (s : shape) (ks : list string) : shape :=
  match ks with
  | [] => s
  | k :: ks' =>
      match strip s with
      | ShObj fs rest =>
          match lookup k fs with
          | Some s' => apath s' ks'
          | None => match rest with Some r => apath r ks' | None => ShNull end
          end
      | ShAny | ShOpt _ => ShAny
      | _ => ShNull                      (* no results *)
      end
  end.

Fixpoint aeval (e : expr) (G : aenv) : option shape :=
  match e with
  | EVar x => lookup x G
  | EField e' k => match aeval e' G with Some s => afield s k | None => None end
  | EAs _ e' t => match aeval e' G with Some s => if sure_ty t s then Some s else None | None => None end
  | EAsOk e' t =>
      match aeval e' G with
      | Some s => if sure_ty t s then Some s
                  else if never_ty t s then Some (zero_sh t)
                  else match t, s with
                       | TyArr, ShOpt (ShArr _) | TyArr, ShOpt (ShArr1 _) | TyObj, ShOpt (ShObj _ _) => Some s
                       | TyArr, ShAny => Some (ShOpt (ShArr ShAny))
                       | TyStr, ShAny => Some ShStr
                       | TyNum, ShAny => Some ShNum
                       | TyBool, ShAny => Some ShBool
                       | _, _ => Some ShAny
                       end
      | None => None
      end
  | EPath e' ks => match aeval e' G with Some s => Some (ShArr (apath s ks)) | None => None end
  | EDel e' k =>
      match aeval e' G with
      | Some (ShObj fs rest) => Some (ShObj ((k, ShNull) :: remove_key k fs) rest)
      | Some ShNull => Some ShNull
      | _ => None
      end
  | EStr s => Some (ShStrTag s)
  | EIdx _ e' n =>
      match aeval e' G with
      | Some (ShArr1 el) => match n with O => Some el | S _ => None end
      | _ => None
      end
  end.

(* what "e != nil" adds to the knowledge about the variables of e *)
Definition refine_nonnil (e : expr) (G : aenv) : aenv :=
  match e with
  | EVar x => match lookup x G with Some s => (x, strip s) :: G | None => G end
  | EField (EVar x) k =>
      match lookup x G with
      | Some s => match strip s with
                  | ShObj fs rest => (x, ShObj (aset k (strip (afield_obj fs rest k)) fs) rest) :: G
                  | _ => G
                  end
      | None => G
      end
  | _ => G
  end.

Definition arr_elem (s : shape) : option (option shape) :=   (* Some None: surely nil/empty *)
  match s with
  | ShArr e | ShOpt (ShArr e) | ShArr1 e | ShOpt (ShArr1 e) => Some (Some e)
  | ShNull => Some None
  | _ => None
  end.

Definition obj_parts (s : shape) : option (option (list (string * shape) * option shape)) :=
  match s with
  | ShObj fs rest | ShOpt (ShObj fs rest) => Some (Some (fs, rest))
  | ShNull => Some None
  | _ => None
  end.

Fixpoint check (s : stmt) (G : aenv) : bool :=
  match s with
  | SSkip => true
  | SSeq a b => check a G && check b G
  | SEval e => match aeval e G with Some _ => true | None => false end
  | SLet x e k => match aeval e G with Some sh => check k ((x, sh) :: G) | None => false end
  | SIfNil e a b =>
      match aeval e G with
      | Some sh => (if can_be_null sh then check a G else true)
                   && (match sh with ShNull => true | _ => check b (refine_nonnil e G) end)
      | None => false
      end
  | SIfOk x e t a b =>
      match aeval e G with
      | Some sh =>
          if sure_ty t sh then check a ((x, sh) :: G)
          else if never_ty t sh then check b ((x, zero_sh t) :: G)
          else check a ((x, refine_ty t sh) :: G)
               && check b ((x, zero_sh t) :: G)
      | None => false
      end
  | SIfStrEq e lit a b =>
      match aeval e G with
      | Some (ShStrTag t) => if String.eqb t lit then check a G else check b G
      | Some ShStr => check a G && check b G
      | _ => false
      end
  | SIfNumEq e z a b =>
      match aeval e G with
      | Some (ShNumTag z') => if Z.eqb z' z then check a G else check b G
      | Some ShNum => check a G && check b G
      | _ => false
      end
  | SFirst x e a b =>
      match aeval e G with
      | Some sh => match arr_elem sh with
                   | Some (Some el) => check a ((x, el) :: G) && check b G
                   | Some None => check b G
                   | None => false
                   end
      | None => false
      end
  | SForArr x e body =>
      match aeval e G with
      | Some sh => match arr_elem sh with
                   | Some (Some el) => check body ((x, el) :: G)
                   | Some None => true
                   | None => false
                   end
      | None => false
      end
  | SForObj k v e body =>
      match aeval e G with
      | Some sh => match obj_parts sh with
                   | Some (Some (fs, rest)) =>
                       forallb (fun ks => check body ((v, snd ks) :: (k, ShStrTag (fst ks)) :: G)) fs
                       && match rest with Some r => check body ((v, r) :: (k, ShStr) :: G) | None => true end
                   | Some None => true
                   | None => false
                   end
      | None => false
      end
  end.

(* every variable the checker knows about is bound to a conforming value *)
Definition env_conf (G : aenv) (r : env) : Prop :=
  forall x sh, lookup x G = Some sh -> exists v, lookup x r = Some v /\ conforms sh v = true.

(* ---------------------------------------------------------------- stage programs *)
(* A stage function takes the request and response maps.  Its items fall into alternatives
   (AMQP: one per method pair, Kafka: one per api key and version): the shapes of both. *)
Record alt := { alt_name : string; alt_req : shape; alt_resp : shape }.

Definition stage_env (a : alt) : aenv := [("request", alt_req a); ("response", alt_resp a)].
Definition stage_run (p : stmt) (req resp : jv) : res unit := exec p [("request", req); ("response", resp)].
Definition alt_conf (a : alt) (req resp : jv) : bool := conforms (alt_req a) req && conforms (alt_resp a) resp.
Definition check_alts (p : stmt) (alts : list alt) : bool := forallb (fun a => check p (stage_env a)) alts.
