(* The static part of C11 for the redis, amqp, kafka, http and dns extensions: the access programs the
   translator produced from Summarize / Represent (gen/StagesSrc.v) are accepted by the shape
   checker for every alternative of the shapes derived from the emitted Go values
   (gen/StageShapes.v); by AccessProofs.check_alts_sound they then run without a panic on every
   request / response pair that conforms to an alternative. *)
From Coq Require Import List Bool String ZArith.
Require Import V.Base.Prelude V.Shape.Access V.Shape.AccessProofs V.gen.StagesSrc V.gen.StageShapes.
Import ListNotations.

Lemma static_redis_summarize : check_alts prog_redis_summarize alts_redis = true.
Proof. vm_compute. reflexivity. Qed.
Lemma static_redis_represent : check_alts prog_redis_represent alts_redis = true.
Proof. vm_compute. reflexivity. Qed.
Lemma static_amqp_summarize : check_alts prog_amqp_summarize alts_amqp = true.
Proof. vm_compute. reflexivity. Qed.
Lemma static_amqp_represent : check_alts prog_amqp_represent alts_amqp = true.
Proof. vm_compute. reflexivity. Qed.
Lemma static_kafka_summarize : check_alts prog_kafka_summarize alts_kafka = true.
Proof. vm_compute. reflexivity. Qed.
Lemma static_kafka_represent : check_alts prog_kafka_represent alts_kafka = true.
Proof. vm_compute. reflexivity. Qed.

Lemma static_http_summarize : check_alts prog_http_summarize alts_http = true.
Proof. vm_compute. reflexivity. Qed.
Lemma static_http_represent : check_alts prog_http_represent alts_http = true.
Proof. vm_compute. reflexivity. Qed.
Lemma static_dns_summarize : check_alts prog_dns_summarize alts_dns = true.
Proof. vm_compute. reflexivity. Qed.
Lemma static_dns_represent : check_alts prog_dns_represent alts_dns = true.
Proof. vm_compute. reflexivity. Qed.

Definition no_panic (p : stmt) (alts : list alt) : Prop :=
  forall req resp, existsb (fun a => alt_conf a req resp) alts = true -> stage_run p req resp = Ok tt.

Lemma no_panic_of_static p alts : check_alts p alts = true -> no_panic p alts.
Proof. intros H req resp Hc. exact (check_alts_sound p alts req resp H Hc). Qed.

Lemma no_panic_redis_summarize : no_panic prog_redis_summarize alts_redis.
Proof. exact (no_panic_of_static _ _ static_redis_summarize). Qed.
Lemma no_panic_redis_represent : no_panic prog_redis_represent alts_redis.
Proof. exact (no_panic_of_static _ _ static_redis_represent). Qed.
Lemma no_panic_amqp_summarize : no_panic prog_amqp_summarize alts_amqp.
Proof. exact (no_panic_of_static _ _ static_amqp_summarize). Qed.
Lemma no_panic_amqp_represent : no_panic prog_amqp_represent alts_amqp.
Proof. exact (no_panic_of_static _ _ static_amqp_represent). Qed.
Lemma no_panic_kafka_summarize : no_panic prog_kafka_summarize alts_kafka.
Proof. exact (no_panic_of_static _ _ static_kafka_summarize). Qed.
Lemma no_panic_kafka_represent : no_panic prog_kafka_represent alts_kafka.
Proof. exact (no_panic_of_static _ _ static_kafka_represent). Qed.

Lemma no_panic_http_summarize : no_panic prog_http_summarize alts_http.
Proof. exact (no_panic_of_static _ _ static_http_summarize). Qed.
Lemma no_panic_http_represent : no_panic prog_http_represent alts_http.
Proof. exact (no_panic_of_static _ _ static_http_represent). Qed.
Lemma no_panic_dns_summarize : no_panic prog_dns_summarize alts_dns.
Proof. exact (no_panic_of_static _ _ static_dns_summarize). Qed.
Lemma no_panic_dns_represent : no_panic prog_dns_represent alts_dns.
Proof. exact (no_panic_of_static _ _ static_dns_represent). Qed.

(* nothing was refused by the translator, nothing went wrong while deriving the shapes, and every
   extension has at least one alternative (the statements above are not vacuous) *)
Lemma static_complete : untranslated = [].
Proof. reflexivity. Qed.
Lemma shapes_derived : shape_problems = [] /\ alts_redis <> [] /\ alts_amqp <> [] /\ alts_kafka <> [] /\ alts_http <> [] /\ alts_dns <> [].
Proof. repeat split; try reflexivity; discriminate. Qed.
