From Coq Require Import List Bool String.
Require Import V.Shape.MacroFrag V.gen.MacroTable.

Lemma macro_table_holds : macro_table_ok variants_src macros_src = true.
Proof. vm_compute. reflexivity. Qed.

(* unfolded statement: for every registered macro and every protocol variant, the macro's
   definition is true of an entry of that variant iff the variant names the macro *)
Lemma macro_truth : forall m v, In m macros_src -> In v variants_src ->
  feval v (snd m) = Some (String.eqb (pv_macro v) (fst m)).
Proof.
  intros m v Hm Hv. pose proof macro_table_holds as H. unfold macro_table_ok in H.
  apply andb_true_iff in H as [H _]. rewrite forallb_forall in H. specialize (H m Hm).
  unfold macro_row in H. rewrite forallb_forall in H. specialize (H v Hv).
  destruct (feval v (snd m)) as [b|]; [|discriminate]. apply Bool.eqb_prop in H. subst b. reflexivity.
Qed.
