(* The chunked reader refines the flat reader: under
       abs st = unread st ++ concat (rest st)
   every primitive of the chunked instance CH computes what the flat instance FL computes, and
   so does everything built on top of them (process, Read, the Dissect loop).  Consequently the
   result of dissecting depends only on the concatenation of the reads (RespC08.v). *)
Require Import V.Base.Prelude V.Resp.RespBase V.Resp.RespModel.
Local Open Scope nat_scope.

Definition abs (st : rst) : bytes := unread st ++ concat (rest st).
Definition absf (st : rst) : fstate := (abs st, tl st).
Definition sz (s : fstate) : nat := length (fst s).

Definition rmap {A S1 S2} (g : S1 -> S2) (r : res (A * S1)) : res (A * S2) :=
  match r with
  | Ok (a, s) => Ok (a, g s)
  | Err e => Err e
  | Panic n => Panic n
  | OutOfFuel => OutOfFuel
  end.

Lemma bind_sim {A B S1 S2} (g : S1 -> S2) (r1 : res (A * S1)) (k1 : A * S1 -> res (B * S1))
      (k2 : A * S2 -> res (B * S2)) :
  (forall a s, rmap g (k1 (a, s)) = k2 (a, g s)) ->
  rmap g (bind r1 k1) = bind (rmap g r1) k2.
Proof. intro H. destruct r1 as [[a s]|e|n|]; cbn [bind rmap]; auto. Qed.

Lemma frev_rev {A} (l : list A) : frev l = rev l.
Proof. unfold frev. symmetry. apply rev_alt. Qed.

Lemma REFILL_pos : 0 < REFILL.
Proof. unfold REFILL. lia. Qed.

(* ------------------------------------------------------------------ ensureFill / refill *)
Lemma refill_abs cs t :
  match refill cs t with
  | Ok st => unread st <> [] /\ abs st = concat cs /\ tl st = t
  | Err e => concat cs = [] /\ e = tail_err t
  | _ => False
  end.
Proof.
  induction cs as [|c cs IH]; cbn [refill].
  - split; reflexivity.
  - destruct c as [|b c'].
    + cbn [concat app]. exact IH.
    + destruct (length (b :: c') <=? REFILL) eqn:E.
      * unfold abs. cbn [unread rest tl concat]. split; [discriminate|]. split; reflexivity.
      * unfold abs. cbn [unread rest tl]. split; [|split; [|reflexivity]].
        -- pose proof REFILL_pos as Hp. destruct REFILL as [|r]; [lia|]. cbn [firstn]. discriminate.
        -- cbn [concat]. rewrite app_assoc. rewrite firstn_skipn. reflexivity.
Qed.

Lemma ensure_fill_abs st :
  match ensure_fill st with
  | Ok st' => unread st' <> [] /\ abs st' = abs st /\ tl st' = tl st
  | Err e => abs st = [] /\ e = tail_err (tl st)
  | _ => False
  end.
Proof.
  unfold ensure_fill. destruct (unread st) as [|b u] eqn:Eu.
  - pose proof (refill_abs (rest st) (tl st)) as H.
    destruct (refill (rest st) (tl st)) as [st'|e|n|]; try exact H.
    + destruct H as (H1 & H2 & H3). split; [exact H1|]. split; [|exact H3].
      rewrite H2. unfold abs. rewrite Eu. reflexivity.
    + destruct H as (H1 & H2). split; [|exact H2]. unfold abs. rewrite Eu, H1. reflexivity.
  - split; [rewrite Eu; discriminate|]. split; reflexivity.
Qed.

(* ------------------------------------------------------------------ primitives *)
Lemma next_sim st : rmap absf (read_byte st) = fl_next (absf st).
Proof.
  unfold read_byte, fl_next. pose proof (ensure_fill_abs st) as H.
  destruct (ensure_fill st) as [st1|e|n|]; cbn [bind]; try contradiction.
  - destruct H as (H1 & H2 & H3). destruct (unread st1) as [|b u] eqn:Eu; [contradiction|].
    cbn [rmap]. unfold absf. cbn [fst snd]. rewrite <- H2, <- H3.
    unfold abs, set_unread. cbn [unread rest tl]. rewrite Eu. reflexivity.
  - destruct H as (H1 & H2). cbn [rmap]. unfold absf. cbn [fst snd]. rewrite H1, H2. reflexivity.
Qed.

Lemma peek_sim st : rmap absf (ch_peek_minus st) = fl_peek_minus (absf st).
Proof.
  unfold ch_peek_minus, fl_peek_minus. pose proof (ensure_fill_abs st) as H.
  destruct (ensure_fill st) as [st1|e|n|]; cbn [bind]; try contradiction.
  - destruct H as (H1 & H2 & H3). destruct (unread st1) as [|b u] eqn:Eu; [contradiction|].
    unfold absf. cbn [fst snd]. rewrite <- H2, <- H3.
    unfold abs, set_unread. rewrite Eu. cbn [app].
    destruct (beq b MINUS); cbn [rmap unread rest tl]; unfold absf, abs; cbn [unread rest tl]; try rewrite Eu; reflexivity.
  - destruct H as (H1 & H2). cbn [rmap]. unfold absf. cbn [fst snd]. rewrite H1, H2. reflexivity.
Qed.

(* the byte loops use p_next only *)
Lemma line_go_sim k : forall acc st, rmap absf (line_go CH k acc st) = line_go FL k acc (absf st).
Proof.
  induction k as [|k IH]; intros acc st; cbn [line_go]; [reflexivity|].
  change (p_next FL (absf st)) with (fl_next (absf st)). rewrite <- next_sim.
  change (p_next CH st) with (read_byte st).
  apply bind_sim. intros b st1. cbn beta iota.
  destruct (beq b CR).
  - change (p_next FL (absf st1)) with (fl_next (absf st1)). rewrite <- next_sim.
    change (p_next CH st1) with (read_byte st1).
    apply bind_sim. intros c st2. cbn beta iota. destruct (beq c LF); [reflexivity|apply IH].
  - apply IH.
Qed.

Lemma line_go_base k acc st : line_go ch_base k acc st = line_go CH k acc st.
Proof. reflexivity. Qed.

Lemma int_go_sim k : forall v st, rmap absf (int_go CH k v st) = int_go FL k v (absf st).
Proof.
  induction k as [|k IH]; intros v st; cbn [int_go]; [reflexivity|].
  change (p_next FL (absf st)) with (fl_next (absf st)). rewrite <- next_sim.
  change (p_next CH st) with (read_byte st).
  apply bind_sim. intros b st1. cbn beta iota.
  destruct (beq b CR).
  - change (p_next FL (absf st1)) with (fl_next (absf st1)). rewrite <- next_sim.
    change (p_next CH st1) with (read_byte st1).
    apply bind_sim. intros c st2. cbn beta iota. destruct (beq c LF); reflexivity.
  - apply IH.
Qed.

Lemma take_go_sim k : forall n acc st, rmap absf (take_go CH k n acc st) = take_go FL k n acc (absf st).
Proof.
  induction k as [|k IH]; intros n acc st; cbn [take_go]; destruct (n <=? 0)%Z; try reflexivity.
  change (p_next FL (absf st)) with (fl_next (absf st)). rewrite <- next_sim.
  change (p_next CH st) with (read_byte st).
  apply bind_sim. intros b st1. cbn beta iota. apply IH.
Qed.

Lemma read_line_sim lf st : rmap absf (read_line CH lf st) = read_line FL lf (absf st).
Proof.
  unfold read_line. rewrite <- line_go_sim. apply bind_sim. intros l st1. cbn beta iota.
  destruct l; reflexivity.
Qed.

Lemma read_int_sim lf st : rmap absf (read_int CH lf st) = read_int FL lf (absf st).
Proof.
  unfold read_int. change (p_peek_minus FL (absf st)) with (fl_peek_minus (absf st)).
  rewrite <- peek_sim. change (p_peek_minus CH st) with (ch_peek_minus st).
  apply bind_sim. intros neg st1. cbn beta iota.
  rewrite <- int_go_sim. apply bind_sim. intros v st2. reflexivity.
Qed.

Lemma process_bulk_sim lf st : rmap absf (process_bulk CH lf st) = process_bulk FL lf (absf st).
Proof.
  unfold process_bulk. rewrite <- read_int_sim. apply bind_sim. intros l st1. cbn beta iota.
  destruct (l =? -1)%Z; [reflexivity|]. destruct (l <? 0)%Z; [reflexivity|].
  rewrite <- take_go_sim. apply bind_sim. intros body st2. cbn beta iota.
  change (p_next FL (absf st2)) with (fl_next (absf st2)). rewrite <- next_sim.
  change (p_next CH st2) with (read_byte st2).
  apply bind_sim. intros b1 st3. cbn beta iota. destruct (negb (beq b1 CR)); [reflexivity|].
  change (p_next FL (absf st3)) with (fl_next (absf st3)). rewrite <- next_sim.
  change (p_next CH st3) with (read_byte st3).
  apply bind_sim. intros b2 st4. cbn beta iota. destruct (negb (beq b2 LF)); reflexivity.
Qed.

Lemma process_error_sim lf st : rmap absf (process_error CH lf st) = process_error FL lf (absf st).
Proof.
  unfold process_error. rewrite <- read_line_sim. apply bind_sim. intros msg st1. cbn beta iota.
  destruct (format_error msg); reflexivity.
Qed.

(* ------------------------------------------------------------------ readLineBytes *)
(* the scan of a buffer that contains the end of the line gives the same line when more bytes follow *)
Lemma scan_crlf_app more : forall l acc line r,
  scan_crlf acc l = Some (line, r) -> scan_crlf acc (l ++ more) = Some (line, r ++ more).
Proof.
  induction l as [l IH] using (well_founded_induction (Wf_nat.well_founded_ltof _ (@length byte))).
  intros acc line r H. destruct l as [|p l1]; cbn [scan_crlf] in H; [discriminate|].
  cbn [app scan_crlf]. destruct (beq p CR).
  - destruct l1 as [|q l2]; [discriminate|]. cbn [app]. destruct (beq q LF).
    + inversion H. reflexivity.
    + apply IH; [unfold ltof; cbn [length]; lia|exact H].
  - apply IH; [unfold ltof; cbn [length]; lia|exact H].
Qed.

(* on the flat stream the loop of the slow path computes the scan (enough loop fuel) *)
Lemma line_go_flat k : forall l acc t, length l < k ->
  line_go FL k acc (l, t) =
  match scan_crlf acc l with Some (ln, r) => Ok (ln, (r, t)) | None => Err (tail_err t) end.
Proof.
  induction k as [|k IH]; intros l acc t Hk; [lia|].
  cbn [line_go]. change (p_next FL (l, t)) with (fl_next (l, t)). unfold fl_next. cbn [fst snd].
  destruct l as [|p l1]; cbn [bind scan_crlf]; [reflexivity|].
  destruct (beq p CR).
  - change (p_next FL (l1, t)) with (fl_next (l1, t)). unfold fl_next. cbn [fst snd].
    destruct l1 as [|q l2]; cbn [bind]; [reflexivity|].
    destruct (beq q LF); [reflexivity|]. apply IH. cbn [length] in Hk. lia.
  - apply IH. cbn [length] in Hk. lia.
Qed.

Lemma line_bytes_sim lf st : sz (absf st) < lf ->
  rmap absf (ch_line_bytes lf st) = fl_line_bytes lf (absf st).
Proof.
  intro Hlf. unfold ch_line_bytes, fl_line_bytes. pose proof (ensure_fill_abs st) as H.
  destruct (ensure_fill st) as [st1|e|n|]; cbn [bind]; try contradiction.
  - destruct H as (H1 & H2 & H3). cbn [absf fst snd]. rewrite <- H2, <- H3.
    destruct (scan_crlf [] (unread st1)) as [[line u']|] eqn:Es.
    + unfold abs at 1. rewrite (scan_crlf_app _ _ _ _ _ Es). cbn [rmap].
      unfold absf, abs, set_unread. cbn [unread rest tl]. reflexivity.
    + unfold read_line_slow. rewrite line_go_base, line_go_sim.
      unfold absf. rewrite line_go_flat; [reflexivity|].
      unfold sz, absf in Hlf. cbn [fst] in Hlf. rewrite H2. exact Hlf.
  - destruct H as (H1 & H2). cbn [rmap absf fst snd]. rewrite H1, H2. reflexivity.
Qed.

(* ------------------------------------------------------------------ sizes on the flat side *)
Lemma fl_next_sz s b s' : fl_next s = Ok (b, s') -> S (sz s') = sz s /\ snd s' = snd s.
Proof.
  unfold fl_next, sz. destruct s as [l t]. cbn [fst snd]. destruct l as [|x l']; [discriminate|].
  intro H. inversion H. cbn [fst snd length]. split; reflexivity.
Qed.

Lemma fl_peek_sz s b s' : fl_peek_minus s = Ok (b, s') -> sz s' <= sz s /\ snd s' = snd s.
Proof.
  unfold fl_peek_minus, sz. destruct s as [l t]. cbn [fst snd]. destruct l as [|x l']; [discriminate|].
  destruct (beq x MINUS); intro H; inversion H; cbn [fst snd length]; split; try reflexivity; lia.
Qed.

Lemma scan_crlf_len : forall l acc ln r, scan_crlf acc l = Some (ln, r) -> length r < length l.
Proof.
  induction l as [l IH] using (well_founded_induction (Wf_nat.well_founded_ltof _ (@length byte))).
  intros acc ln r H. destruct l as [|p l1]; cbn [scan_crlf] in H; [discriminate|].
  destruct (beq p CR).
  - destruct l1 as [|q l2]; [discriminate|]. destruct (beq q LF).
    + inversion H. cbn [length]. lia.
    + apply IH in H; [|unfold ltof; cbn [length]; lia]. cbn [length]. lia.
  - apply IH in H; [|unfold ltof; cbn [length]; lia]. cbn [length]. lia.
Qed.

Lemma fl_line_bytes_sz lf s ln s' : fl_line_bytes lf s = Ok (ln, s') -> sz s' < sz s /\ snd s' = snd s.
Proof.
  unfold fl_line_bytes, sz. destruct s as [l t]. cbn [fst snd].
  destruct (scan_crlf [] l) as [[x r]|] eqn:E; [|discriminate].
  intro H. inversion H. cbn [fst snd]. split; [|reflexivity]. eapply scan_crlf_len. subst. exact E.
Qed.

Lemma line_go_sz k : forall acc s ln s', line_go FL k acc s = Ok (ln, s') -> sz s' < sz s /\ snd s' = snd s.
Proof.
  induction k as [|k IH]; intros acc s ln s' H; cbn [line_go] in H; [discriminate|].
  change (p_next FL s) with (fl_next s) in H.
  destruct (fl_next s) as [[b s1]|e|n|] eqn:E1; cbn [bind] in H; try discriminate.
  apply fl_next_sz in E1. destruct E1 as [E1 T1].
  destruct (beq b CR).
  - change (p_next FL s1) with (fl_next s1) in H.
    destruct (fl_next s1) as [[c s2]|e|n|] eqn:E2; cbn [bind] in H; try discriminate.
    apply fl_next_sz in E2. destruct E2 as [E2 T2].
    destruct (beq c LF).
    + inversion H. subst. split; [lia|congruence].
    + apply IH in H. destruct H as [H T]. split; [lia|congruence].
  - apply IH in H. destruct H as [H T]. split; [lia|congruence].
Qed.

Lemma int_go_sz k : forall v s z s', int_go FL k v s = Ok (z, s') -> sz s' < sz s /\ snd s' = snd s.
Proof.
  induction k as [|k IH]; intros v s z s' H; cbn [int_go] in H; [discriminate|].
  change (p_next FL s) with (fl_next s) in H.
  destruct (fl_next s) as [[b s1]|e|n|] eqn:E1; cbn [bind] in H; try discriminate.
  apply fl_next_sz in E1. destruct E1 as [E1 T1].
  destruct (beq b CR).
  - change (p_next FL s1) with (fl_next s1) in H.
    destruct (fl_next s1) as [[c s2]|e|n|] eqn:E2; cbn [bind] in H; try discriminate.
    apply fl_next_sz in E2. destruct E2 as [E2 T2].
    destruct (beq c LF); [|discriminate]. inversion H. subst. split; [lia|congruence].
  - apply IH in H. destruct H as [H T]. split; [lia|congruence].
Qed.

Lemma take_go_sz k : forall n acc s x s', take_go FL k n acc s = Ok (x, s') -> sz s' <= sz s /\ snd s' = snd s.
Proof.
  induction k as [|k IH]; intros n acc s x s' H; cbn [take_go] in H; destruct (n <=? 0)%Z;
    try (inversion H; subst; split; [lia|reflexivity]); try discriminate.
  change (p_next FL s) with (fl_next s) in H.
  destruct (fl_next s) as [[b s1]|e|m|] eqn:E1; cbn [bind] in H; try discriminate.
  apply fl_next_sz in E1. destruct E1 as [E1 T1].
  apply IH in H. destruct H as [H T]. split; [lia|congruence].
Qed.

Lemma read_int_sz lf s z s' : read_int FL lf s = Ok (z, s') -> sz s' < sz s /\ snd s' = snd s.
Proof.
  unfold read_int. change (p_peek_minus FL s) with (fl_peek_minus s).
  destruct (fl_peek_minus s) as [[neg s1]|e|n|] eqn:E1; cbn [bind]; try discriminate.
  apply fl_peek_sz in E1. destruct E1 as [E1 T1].
  destruct (int_go FL lf 0%Z s1) as [[v s2]|e|n|] eqn:E2; cbn [bind]; try discriminate.
  apply int_go_sz in E2. destruct E2 as [E2 T2]. intro H. inversion H. subst. split; [lia|congruence].
Qed.

Lemma read_line_sz lf s l s' : read_line FL lf s = Ok (l, s') -> sz s' < sz s /\ snd s' = snd s.
Proof.
  unfold read_line. destruct (line_go FL lf [] s) as [[x s1]|e|n|] eqn:E1; cbn [bind]; try discriminate.
  apply line_go_sz in E1. destruct x; [discriminate|]. intro H. inversion H. subst. exact E1.
Qed.

Lemma process_bulk_sz lf s v s' : process_bulk FL lf s = Ok (v, s') -> sz s' < sz s /\ snd s' = snd s.
Proof.
  unfold process_bulk. destruct (read_int FL lf s) as [[l s1]|e|n|] eqn:E1; cbn [bind]; try discriminate.
  apply read_int_sz in E1. destruct E1 as [E1 T1].
  destruct (l =? -1)%Z; [intro H; inversion H; subst; split; [lia|congruence]|].
  destruct (l <? 0)%Z; [discriminate|].
  destruct (take_go FL lf l [] s1) as [[body s2]|e|n|] eqn:E2; cbn [bind]; try discriminate.
  apply take_go_sz in E2. destruct E2 as [E2 T2].
  change (p_next FL s2) with (fl_next s2).
  destruct (fl_next s2) as [[b1 s3]|e|n|] eqn:E3; cbn [bind]; try discriminate.
  apply fl_next_sz in E3. destruct E3 as [E3 T3].
  destruct (negb (beq b1 CR)); [discriminate|].
  change (p_next FL s3) with (fl_next s3).
  destruct (fl_next s3) as [[b2 s4]|e|n|] eqn:E4; cbn [bind]; try discriminate.
  apply fl_next_sz in E4. destruct E4 as [E4 T4].
  destruct (negb (beq b2 LF)); [discriminate|].
  intro H. inversion H. subst. split; [lia|congruence].
Qed.

Lemma process_error_sz lf s v s' : process_error FL lf s = Ok (v, s') -> sz s' < sz s /\ snd s' = snd s.
Proof.
  unfold process_error. destruct (read_line FL lf s) as [[msg s1]|e|n|] eqn:E1; cbn [bind]; try discriminate.
  apply read_line_sz in E1. destruct (format_error msg); cbn [bind]; try discriminate.
  intro H. inversion H. subst. exact E1.
Qed.

Lemma elems_go_sz (pr : fstate -> res (rval * rtype * fstate)) :
  (forall s v t s', pr s = Ok (v, t, s') -> sz s' < sz s /\ snd s' = snd s) ->
  forall k n acc s x s', elems_go pr k n acc s = Ok (x, s') -> sz s' <= sz s /\ snd s' = snd s.
Proof.
  intros Hpr. induction k as [|k IH]; intros n acc s x s' H; cbn [elems_go] in H; destruct (n <=? 0)%Z;
    try (inversion H; subst; split; [lia|reflexivity]); try discriminate.
  destruct (pr s) as [[[v t] s1]|e|m|] eqn:E1; cbn [bind] in H; try discriminate.
  apply Hpr in E1. destruct E1 as [E1 T1]. apply IH in H. destruct H as [H T]. split; [lia|congruence].
Qed.

Lemma process_sz f lf : forall s v t s', process FL f lf s = Ok (v, t, s') -> sz s' < sz s /\ snd s' = snd s.
Proof.
  induction f as [|f IH]; intros s v t s' H; cbn [process] in H; [discriminate|].
  change (p_next FL s) with (fl_next s) in H.
  destruct (fl_next s) as [[b s1]|e|n|] eqn:E1; cbn [bind] in H; try discriminate.
  apply fl_next_sz in E1. destruct E1 as [E1 T1].
  destruct (beq b PLUS).
  { change (p_line_bytes FL lf s1) with (fl_line_bytes lf s1) in H.
    destruct (fl_line_bytes lf s1) as [[l s2]|e|n|] eqn:E2; cbn [bind] in H; try discriminate.
    apply fl_line_bytes_sz in E2. inversion H. subst. destruct E2. split; [lia|congruence]. }
  destruct (beq b DOLLAR).
  { destruct (process_bulk FL lf s1) as [[x s2]|e|n|] eqn:E2; cbn [bind] in H; try discriminate.
    apply process_bulk_sz in E2. inversion H. subst. destruct E2. split; [lia|congruence]. }
  destruct (beq b STAR).
  { destruct (read_int FL lf s1) as [[l s2]|e|n|] eqn:E2; cbn [bind] in H; try discriminate.
    apply read_int_sz in E2. destruct E2 as [E2 T2].
    destruct (l =? -1)%Z; [inversion H; subst; split; [lia|congruence]|].
    destruct (elems_go (process FL f lf) lf l [] s2) as [[els s3]|e|n|] eqn:E3; cbn [bind] in H; try discriminate.
    apply (elems_go_sz _ IH) in E3. inversion H. subst. destruct E3. split; [lia|congruence]. }
  destruct (beq b COLON).
  { destruct (read_int FL lf s1) as [[z s2]|e|n|] eqn:E2; cbn [bind] in H; try discriminate.
    apply read_int_sz in E2. inversion H. subst. destruct E2. split; [lia|congruence]. }
  destruct (beq b MINUS); [|discriminate].
  destruct (process_error FL lf s1) as [[x s2]|e|n|] eqn:E2; cbn [bind] in H; try discriminate.
  apply process_error_sz in E2. inversion H. subst. destruct E2. split; [lia|congruence].
Qed.

(* ------------------------------------------------------------------ process, Read, Dissect *)
Lemma elems_go_sim lf (pr1 : rst -> res (rval * rtype * rst)) (pr2 : fstate -> res (rval * rtype * fstate)) :
  (forall st, sz (absf st) < lf -> rmap absf (pr1 st) = pr2 (absf st)) ->
  (forall s v t s', pr2 s = Ok (v, t, s') -> sz s' < sz s /\ snd s' = snd s) ->
  forall k n acc st, sz (absf st) < lf ->
    rmap absf (elems_go pr1 k n acc st) = elems_go pr2 k n acc (absf st).
Proof.
  intros Hpr Hsz. induction k as [|k IH]; intros n acc st Hlf; cbn [elems_go]; destruct (n <=? 0)%Z; try reflexivity.
  rewrite <- (Hpr st Hlf).
  destruct (pr1 st) as [[[v t] st1]|e|m|] eqn:E1; cbn [bind rmap]; try reflexivity.
  apply IH. pose proof (Hpr st Hlf) as H1. rewrite E1 in H1. cbn [rmap] in H1. symmetry in H1.
  apply Hsz in H1. lia.
Qed.

Lemma process_sim f lf : forall st, sz (absf st) < lf ->
  rmap absf (process CH f lf st) = process FL f lf (absf st).
Proof.
  induction f as [|f IH]; intros st Hlf; cbn [process]; [reflexivity|].
  change (p_next FL (absf st)) with (fl_next (absf st)). rewrite <- next_sim.
  change (p_next CH st) with (read_byte st).
  destruct (read_byte st) as [[b st1]|e|m|] eqn:E1; cbn [bind rmap]; try reflexivity.
  assert (Hlf1 : sz (absf st1) < lf).
  { pose proof (next_sim st) as H1. rewrite E1 in H1. cbn [rmap] in H1. symmetry in H1.
    apply fl_next_sz in H1. lia. }
  destruct (beq b PLUS).
  { change (p_line_bytes FL lf (absf st1)) with (fl_line_bytes lf (absf st1)).
    rewrite <- (line_bytes_sim lf st1 Hlf1). change (p_line_bytes CH lf st1) with (ch_line_bytes lf st1).
    apply bind_sim. intros l st2. reflexivity. }
  destruct (beq b DOLLAR).
  { rewrite <- process_bulk_sim. apply bind_sim. intros v st2. reflexivity. }
  destruct (beq b STAR).
  { rewrite <- read_int_sim.
    destruct (read_int CH lf st1) as [[l st2]|e|m|] eqn:E2; cbn [bind rmap]; try reflexivity.
    assert (Hlf2 : sz (absf st2) < lf).
    { pose proof (read_int_sim lf st1) as H2. rewrite E2 in H2. cbn [rmap] in H2. symmetry in H2.
      apply read_int_sz in H2. lia. }
    destruct (l =? -1)%Z; [reflexivity|].
    rewrite <- (elems_go_sim lf (process CH f lf) (process FL f lf) IH (process_sz f lf) lf l [] st2 Hlf2).
    apply bind_sim. intros els st3. reflexivity. }
  destruct (beq b COLON).
  { rewrite <- read_int_sim. apply bind_sim. intros z st2. reflexivity. }
  destruct (beq b MINUS); [|reflexivity].
  rewrite <- process_error_sim. apply bind_sim. intros v st2. reflexivity.
Qed.

Lemma read_packet_sim fuel st : sz (absf st) < fuel ->
  rmap absf (read_packet CH fuel st) = read_packet FL fuel (absf st).
Proof.
  intro Hlf. unfold read_packet. rewrite <- (process_sim fuel fuel st Hlf).
  apply bind_sim. intros [x t] st1. cbn beta iota. destruct (shape x t); reflexivity.
Qed.

Lemma read_packet_sz fuel s p s' : read_packet FL fuel s = Ok (p, s') -> sz s' < sz s /\ snd s' = snd s.
Proof.
  unfold read_packet. destruct (process FL fuel fuel s) as [[[x t] s1]|e|n|] eqn:E1; cbn [bind]; try discriminate.
  apply process_sz in E1. destruct (shape x t); cbn [bind]; try discriminate.
  intro H. inversion H. subst. exact E1.
Qed.

Lemma dissect_loop_sim fuel : forall k st acc, sz (absf st) < fuel ->
  dissect_loop CH k fuel st acc = dissect_loop FL k fuel (absf st) acc.
Proof.
  induction k as [|k IH]; intros st acc Hlf; cbn [dissect_loop]; [reflexivity|].
  rewrite <- (read_packet_sim fuel st Hlf).
  destruct (read_packet CH fuel st) as [[p st1]|e|n|] eqn:E1; cbn [rmap]; try reflexivity.
  apply IH. pose proof (read_packet_sim fuel st Hlf) as H1. rewrite E1 in H1. cbn [rmap] in H1.
  symmetry in H1. apply read_packet_sz in H1. lia.
Qed.

Lemma size_st_abs st : size_st st = sz (absf st).
Proof. unfold size_st, sz, absf, abs. cbn [fst]. rewrite app_length. reflexivity. Qed.

(* the chunked model computes what the flat model computes on the concatenation *)
Theorem dissect_refines st : dissect CH st = dissect FL (absf st).
Proof.
  unfold dissect, dissect_fuel, fuel_of.
  change (p_size CH st) with (size_st st). change (p_size FL (absf st)) with (sz (absf st)).
  rewrite size_st_abs. apply dissect_loop_sim. lia.
Qed.
