(* Arithmetic facts of the RESP family: decimal text round trip, digits as bytes, int64 wrap. *)
Require Import V.Base.Prelude V.Resp.RespBase.
Local Open Scope Z_scope.

Lemma b2n_b_of_N n : (n <= 255)%N -> b2n (b_of_N n) = n.
Proof.
  intro H. unfold b2n, b_of_N. pose proof (Byte.to_of_N_option_map n) as E.
  destruct (Byte.of_N n) as [y|] eqn:Ey.
  - apply Byte.to_of_N. exact Ey.
  - cbn [option_map] in E. destruct (n <=? 255)%N eqn:L; [discriminate|]. apply N.leb_gt in L. lia.
Qed.

Lemma b2n_inj a b : b2n a = b2n b -> a = b.
Proof.
  unfold b2n. intro H. pose proof (Byte.of_to_N a) as Ha. pose proof (Byte.of_to_N b) as Hb.
  rewrite H in Ha. rewrite Ha in Hb. inversion Hb. reflexivity.
Qed.

Lemma b2n_digit k : (k < 10)%N -> b2n (digit k) = (48 + k)%N.
Proof. intro H. unfold digit. apply b2n_b_of_N. lia. Qed.

Lemma b2z_digit k : (k < 10)%N -> b2z (digit k) = 48 + Z.of_N k.
Proof. intro H. unfold b2z. fold (b2n (digit k)). rewrite b2n_digit by exact H. lia. Qed.

Lemma is_digit_digit k : (k < 10)%N -> is_digit_b (digit k) = true.
Proof.
  intro H. unfold is_digit_b. rewrite b2n_digit by exact H.
  apply andb_true_iff. split; apply N.leb_le; lia.
Qed.

Lemma is_digit_b_range b : is_digit_b b = true -> (48 <= b2n b <= 57)%N.
Proof. unfold is_digit_b. intro H. apply andb_true_iff in H. destruct H as [H1 H2]. apply N.leb_le in H1, H2. lia. Qed.

Lemma digit_not b c : is_digit_b b = true -> (b2n c < 48 \/ 57 < b2n c)%N -> beq b c = false.
Proof.
  intros H Hc. apply beq_neq. intro E. subst c. apply is_digit_b_range in H. lia.
Qed.

Lemma digit_not_CR b : is_digit_b b = true -> beq b CR = false.
Proof. intro H. apply digit_not; [exact H|]. left. vm_compute. reflexivity. Qed.
Lemma digit_not_MINUS b : is_digit_b b = true -> beq b MINUS = false.
Proof. intro H. apply digit_not; [exact H|]. left. vm_compute. reflexivity. Qed.
Lemma digit_not_PLUS b : is_digit_b b = true -> beq b PLUS = false.
Proof. intro H. apply digit_not; [exact H|]. left. vm_compute. reflexivity. Qed.
Lemma digit_not_SPACE b : is_digit_b b = true -> beq b SPACE = false.
Proof. intro H. apply digit_not; [exact H|]. left. vm_compute. reflexivity. Qed.
Lemma digit_not_COLON b : is_digit_b b = true -> beq b COLON = false.
Proof. intro H. apply digit_not; [exact H|]. right. vm_compute. reflexivity. Qed.

(* ---- dec_digits ---- *)
Lemma dec_digits_app f : forall n acc, dec_digits f n acc = dec_digits f n [] ++ acc.
Proof.
  induction f as [|f IH]; intros n acc; cbn [dec_digits]; [reflexivity|].
  destruct (n <? 10)%N; [reflexivity|].
  rewrite IH. rewrite (IH _ [digit (n mod 10)]). rewrite <- app_assoc. reflexivity.
Qed.

Lemma digits_val_app l1 l2 v : digits_val (l1 ++ l2) v = digits_val l2 (digits_val l1 v).
Proof. unfold digits_val. apply fold_left_app. Qed.

Lemma dec_digits_val f : forall n, (n < 10 ^ N.of_nat f)%N -> digits_val (dec_digits f n []) 0 = Z.of_N n.
Proof.
  induction f as [|f IH]; intros n Hn.
  - cbn in Hn. assert (n = 0%N) by lia. subst. reflexivity.
  - cbn [dec_digits]. assert (Hm : (n mod 10 < 10)%N) by (apply N.mod_lt; lia).
    destruct (n <? 10)%N eqn:L.
    + apply N.ltb_lt in L. cbn [digits_val fold_left]. rewrite b2z_digit by exact Hm.
      rewrite N.mod_small by exact L. lia.
    + apply N.ltb_ge in L. rewrite dec_digits_app, digits_val_app.
      rewrite IH.
      * cbn [digits_val fold_left]. rewrite b2z_digit by exact Hm.
        pose proof (N.div_mod n 10). lia.
      * rewrite Nat2N.inj_succ, N.pow_succ_r' in Hn. apply N.div_lt_upper_bound; lia.
Qed.

Lemma dec_digits_all_digits f : forall n acc, forallb is_digit_b acc = true -> forallb is_digit_b (dec_digits f n acc) = true.
Proof.
  induction f as [|f IH]; intros n acc Ha; cbn [dec_digits]; [exact Ha|].
  assert (Hm : (n mod 10 < 10)%N) by (apply N.mod_lt; lia).
  assert (Hd : forallb is_digit_b (digit (n mod 10) :: acc) = true).
  { cbn [forallb]. rewrite is_digit_digit by exact Hm. exact Ha. }
  destruct (n <? 10)%N; [exact Hd|]. apply IH. exact Hd.
Qed.

Lemma dec_digits_nonempty f n acc : dec_digits (S f) n acc <> [].
Proof.
  cbn [dec_digits]. destruct (n <? 10)%N; [discriminate|].
  rewrite dec_digits_app. intro H. apply app_eq_nil in H. destruct H; discriminate.
Qed.

Definition pow40 : N := (10 ^ 40)%N.

Lemma dec_N_val n : (n < pow40)%N -> digits_val (dec_N n) 0 = Z.of_N n.
Proof. intro H. unfold dec_N. apply dec_digits_val. exact H. Qed.

Lemma dec_N_digits n : forallb is_digit_b (dec_N n) = true.
Proof. unfold dec_N. apply dec_digits_all_digits. reflexivity. Qed.

Lemma dec_N_cons n : exists d ds, dec_N n = d :: ds /\ is_digit_b d = true /\ forallb is_digit_b ds = true.
Proof.
  pose proof (dec_N_digits n) as H. pose proof (dec_digits_nonempty 39 n []) as Hne.
  change (dec_digits 40 n []) with (dec_N n) in Hne.
  destruct (dec_N n) as [|d ds]; [contradiction|].
  cbn [forallb] in H. apply andb_true_iff in H. destruct H as [H1 H2].
  exists d, ds. split; [reflexivity|]. split; assumption.
Qed.

(* ---- int64 wrap ---- *)
Lemma wrap64_small z : int64_min <= z <= int64_max -> wrap64 z = z.
Proof. unfold wrap64, int64_min, int64_max. intro H. rewrite Z.mod_small; lia. Qed.

Lemma wrap64_step a c : wrap64 (wrap64 a * 10 + c) = wrap64 (a * 10 + c).
Proof. unfold wrap64. Z.div_mod_to_equations. lia. Qed.

Lemma wrap64_neg a : wrap64 (- wrap64 a) = wrap64 (- a).
Proof. unfold wrap64. Z.div_mod_to_equations. lia. Qed.

Lemma wrap64_idem a : wrap64 (wrap64 a) = wrap64 a.
Proof. unfold wrap64. Z.div_mod_to_equations. lia. Qed.

(* the accumulation of readIntCrLf (wrapping at every step) *)
Definition wrap_digits (l : bytes) (v : Z) : Z := fold_left (fun v b => wrap64 (v * 10 + b2z b - 48)) l v.

Lemma wrap_digits_val l : forall v, wrap_digits l (wrap64 v) = wrap64 (digits_val l v).
Proof.
  induction l as [|d l IH]; intro v; cbn [wrap_digits digits_val fold_left]; [reflexivity|].
  fold (wrap_digits l (wrap64 (wrap64 v * 10 + b2z d - 48))). fold (digits_val l (v * 10 + (b2z d - 48))).
  replace (wrap64 v * 10 + b2z d - 48) with (wrap64 v * 10 + (b2z d - 48)) by lia.
  rewrite wrap64_step. apply IH.
Qed.

Lemma wrap_digits_dec n : (Z.of_N n <= 9223372036854775808) -> wrap_digits (dec_N n) 0 = wrap64 (Z.of_N n).
Proof.
  intro H. change 0 with (wrap64 0) at 1. rewrite wrap_digits_val. rewrite dec_N_val; [reflexivity|].
  unfold pow40. apply N2Z.inj_lt. eapply Z.le_lt_trans; [exact H|]. vm_compute. reflexivity.
Qed.
