(* C01, Redis share: for every input (any bytes, any segmentation, any end-of-stream kind, either
   direction) Dissect ends with an error result - it never panics and never runs out of fuel - and
   the packets of everything that was completely received in front of the bad point are emitted. *)
Require Import V.Base.Prelude V.Resp.RespBase V.Resp.RespModel V.Resp.RespSpec V.Resp.RespRefine.
Require Import V.Resp.RespFlat V.Resp.RespC08 V.Resp.RespC07 V.gen.RedisTables.
Local Open Scope nat_scope.

(* the outcome of a modelled function is a value or an error: no panic site reached, fuel sufficient *)
Definition fine {A} (r : res A) : Prop :=
  match r with Ok _ | Err _ => True | Panic _ | OutOfFuel => False end.

Lemma fine_next s : fine (fl_next s).
Proof. unfold fl_next. destruct (fst s); exact I. Qed.

Lemma fine_peek s : fine (fl_peek_minus s).
Proof. unfold fl_peek_minus. destruct (fst s) as [|b l]; [exact I|]. destruct (beq b MINUS); exact I. Qed.

Lemma fine_line_bytes lf s : fine (fl_line_bytes lf s).
Proof. unfold fl_line_bytes. destruct (scan_crlf [] (fst s)) as [[a b]|]; exact I. Qed.

Lemma fine_line_go k acc s : sz s < k -> fine (line_go FL k acc s).
Proof.
  destruct s as [l t]. unfold sz. cbn [fst]. intro H. rewrite line_go_flat by exact H.
  destruct (scan_crlf acc l) as [[a b]|]; exact I.
Qed.

Lemma fine_int_go k : forall v s, sz s < k -> fine (int_go FL k v s).
Proof.
  induction k as [|k IH]; intros v s H; [lia|]. cbn [int_go].
  change (p_next FL s) with (fl_next s).
  destruct (fl_next s) as [[b s1]|e|n|] eqn:E1; cbn [bind]; try exact I;
    try (pose proof (fine_next s) as F; rewrite E1 in F; exact F).
  apply fl_next_sz in E1. destruct E1 as [E1 _].
  destruct (beq b CR).
  - change (p_next FL s1) with (fl_next s1).
    destruct (fl_next s1) as [[c s2]|e|n|] eqn:E2; cbn [bind]; try exact I;
      try (pose proof (fine_next s1) as F; rewrite E2 in F; exact F).
    destruct (beq c LF); exact I.
  - apply IH. lia.
Qed.

Lemma fine_take_go k : forall n acc s, sz s < k -> fine (take_go FL k n acc s).
Proof.
  induction k as [|k IH]; intros n acc s H; [lia|]. cbn [take_go]. destruct (n <=? 0)%Z; [exact I|].
  change (p_next FL s) with (fl_next s).
  destruct (fl_next s) as [[b s1]|e|m|] eqn:E1; cbn [bind]; try exact I;
    try (pose proof (fine_next s) as F; rewrite E1 in F; exact F).
  apply fl_next_sz in E1. destruct E1 as [E1 _]. apply IH. lia.
Qed.

Lemma fine_read_int lf s : sz s < lf -> fine (read_int FL lf s).
Proof.
  intro H. unfold read_int. change (p_peek_minus FL s) with (fl_peek_minus s).
  destruct (fl_peek_minus s) as [[neg s1]|e|n|] eqn:E1; cbn [bind]; try exact I;
    try (pose proof (fine_peek s) as F; rewrite E1 in F; exact F).
  apply fl_peek_sz in E1. destruct E1 as [E1 _].
  pose proof (fine_int_go lf 0%Z s1 ltac:(lia)) as F.
  destruct (int_go FL lf 0%Z s1) as [[v s2]|e|n|]; cbn [bind]; try exact I; exact F.
Qed.

Lemma fine_read_line lf s : sz s < lf -> fine (read_line FL lf s).
Proof.
  intro H. unfold read_line. pose proof (fine_line_go lf [] s H) as F.
  destruct (line_go FL lf [] s) as [[l s1]|e|n|]; cbn [bind]; try exact I; try exact F.
  destruct l; exact I.
Qed.

Lemma fine_parse_target msg : fine (parse_target msg).
Proof.
  unfold parse_target. destruct (split_sp [] msg) as [|a0 [|a1 [|a2 rest]]]; try exact I.
  destruct (extract_parts a2) as [host port]. destruct (atoi port) as [po ok]. destruct ok; exact I.
Qed.

Lemma fine_format_error msg : fine (format_error msg).
Proof.
  unfold format_error. pose proof (fine_parse_target msg) as F.
  destruct (has_prefix s_moved msg).
  { destruct (parse_target msg) as [[[h p] s]|e|n|]; cbn [bind]; try exact I; exact F. }
  destruct (has_prefix s_ask msg).
  { destruct (parse_target msg) as [[[h p] s]|e|n|]; cbn [bind]; try exact I; exact F. }
  destruct (has_prefix s_clusterdown msg); [exact I|].
  destruct (has_prefix s_busy msg); [exact I|].
  destruct (has_prefix s_noscript msg); exact I.
Qed.

Lemma fine_process_error lf s : sz s < lf -> fine (process_error FL lf s).
Proof.
  intro H. unfold process_error. pose proof (fine_read_line lf s H) as F.
  destruct (read_line FL lf s) as [[msg s1]|e|n|]; cbn [bind]; try exact I; try exact F.
  pose proof (fine_format_error msg) as G. destruct (format_error msg); cbn [bind]; try exact I; exact G.
Qed.

Lemma fine_process_bulk lf s : sz s < lf -> fine (process_bulk FL lf s).
Proof.
  intro H. unfold process_bulk. pose proof (fine_read_int lf s H) as F.
  destruct (read_int FL lf s) as [[l s1]|e|n|] eqn:E1; cbn [bind]; try exact I; try exact F.
  apply read_int_sz in E1. destruct E1 as [E1 _].
  destruct (l =? -1)%Z; [exact I|]. destruct (l <? 0)%Z; [exact I|].
  pose proof (fine_take_go lf l [] s1 ltac:(lia)) as G.
  destruct (take_go FL lf l [] s1) as [[body s2]|e|n|]; cbn [bind]; try exact I; try exact G.
  change (p_next FL s2) with (fl_next s2).
  pose proof (fine_next s2) as N2.
  destruct (fl_next s2) as [[b1 s3]|e|n|]; cbn [bind]; try exact I; try exact N2.
  destruct (negb (beq b1 CR)); [exact I|].
  change (p_next FL s3) with (fl_next s3).
  pose proof (fine_next s3) as N3.
  destruct (fl_next s3) as [[b2 s4]|e|n|]; cbn [bind]; try exact I; try exact N3.
  destruct (negb (beq b2 LF)); exact I.
Qed.

Lemma fine_elems_go (pr : fstate -> res (rval * rtype * fstate)) bound :
  (forall s, sz s <= bound -> fine (pr s)) ->
  (forall s v t s', pr s = Ok (v, t, s') -> sz s' < sz s /\ snd s' = snd s) ->
  forall k n acc s, sz s < k -> sz s <= bound -> fine (elems_go pr k n acc s).
Proof.
  intros Hf Hsz. induction k as [|k IH]; intros n acc s Hk Hb; [lia|].
  cbn [elems_go]. destruct (n <=? 0)%Z; [exact I|].
  pose proof (Hf s Hb) as F.
  destruct (pr s) as [[[v t] s1]|e|m|] eqn:E1; cbn [bind]; try exact I; try exact F.
  apply Hsz in E1. destruct E1 as [E1 _]. apply IH; lia.
Qed.

(* one fuel unit per nesting level and nesting costs at least one byte per level *)
Lemma fine_process f lf : forall s, sz s < f -> sz s < lf -> fine (process FL f lf s).
Proof.
  induction f as [|f IH]; intros s Hf Hlf; [lia|]. cbn [process].
  change (p_next FL s) with (fl_next s).
  pose proof (fine_next s) as N.
  destruct (fl_next s) as [[b s1]|e|n|] eqn:E1; cbn [bind]; try exact I; try exact N.
  apply fl_next_sz in E1. destruct E1 as [E1 _].
  destruct (beq b PLUS).
  { change (p_line_bytes FL lf s1) with (fl_line_bytes lf s1). pose proof (fine_line_bytes lf s1) as F.
    destruct (fl_line_bytes lf s1) as [[l s2]|e|n|]; cbn [bind]; try exact I; exact F. }
  destruct (beq b DOLLAR).
  { pose proof (fine_process_bulk lf s1 ltac:(lia)) as F.
    destruct (process_bulk FL lf s1) as [[v s2]|e|n|]; cbn [bind]; try exact I; exact F. }
  destruct (beq b STAR).
  { pose proof (fine_read_int lf s1 ltac:(lia)) as F.
    destruct (read_int FL lf s1) as [[l s2]|e|n|] eqn:E2; cbn [bind]; try exact I; try exact F.
    apply read_int_sz in E2. destruct E2 as [E2 _].
    destruct (l =? -1)%Z; [exact I|].
    pose proof (fine_elems_go (process FL f lf) (sz s2)
                  (fun s' H' => IH s' ltac:(lia) ltac:(lia)) (process_sz f lf) lf l [] s2 ltac:(lia) ltac:(lia)) as G.
    destruct (elems_go (process FL f lf) lf l [] s2) as [[els s3]|e|n|]; cbn [bind]; try exact I; exact G. }
  destruct (beq b COLON).
  { pose proof (fine_read_int lf s1 ltac:(lia)) as F.
    destruct (read_int FL lf s1) as [[z s2]|e|n|]; cbn [bind]; try exact I; exact F. }
  destruct (beq b MINUS); [|exact I].
  pose proof (fine_process_error lf s1 ltac:(lia)) as F.
  destruct (process_error FL lf s1) as [[v s2]|e|n|]; cbn [bind]; try exact I; exact F.
Qed.

Lemma fine_shape x t : fine (shape x t).
Proof.
  assert (C : forall p, fine (match p_cmd p with [] => Ok p | _ :: _ => if mem_bytes (p_cmd p) redis_commands then Ok p else Err EProto end)).
  { intro p. destruct (p_cmd p); [exact I|]. destruct (mem_bytes _ _); exact I. }
  assert (A : forall l, fine (shape (RArr l) t)).
  { intro l. cbn [shape]. destruct l as [|a0 l1]; [exact I|]. destruct a0; try exact I; apply C. }
  destruct x; try apply A; cbn [shape]; try exact I.
  - destruct t; try exact I. destruct (mem_bytes _ _); exact I.
  - destruct t; exact I.
Qed.

Lemma fine_read_packet fuel s : sz s < fuel -> fine (read_packet FL fuel s).
Proof.
  intro H. unfold read_packet. pose proof (fine_process fuel fuel s H H) as F.
  destruct (process FL fuel fuel s) as [[[x t] s1]|e|n|]; cbn [bind]; try exact I; try exact F.
  pose proof (fine_shape x t) as G. destruct (shape x t); cbn [bind]; try exact I; exact G.
Qed.

Lemma dissect_loop_ends fuel : forall k s acc, sz s < fuel -> sz s < k ->
  exists ps e, dissect_loop FL k fuel s acc = (ps, OErr e).
Proof.
  induction k as [|k IH]; intros s acc Hf Hk; [lia|]. cbn [dissect_loop].
  pose proof (fine_read_packet fuel s Hf) as F.
  destruct (read_packet FL fuel s) as [[p s1]|e|n|] eqn:E1; try contradiction.
  - apply read_packet_sz in E1. destruct E1 as [E1 _]. apply IH; lia.
  - eexists. eexists. reflexivity.
Qed.

(* never a panic, never out of fuel: the flat reader ... *)
Theorem resp_C01_flat : forall l t, exists ps e, dissect FL (l, t) = (ps, OErr e).
Proof.
  intros l t. unfold dissect, dissect_fuel, fuel_of. cbn [p_size FL fst].
  apply dissect_loop_ends; unfold sz; cbn [fst]; lia.
Qed.

(* ... and the code model, for every chunking, every end-of-stream kind, either direction
   (both directions run the same Dissect loop) *)
Theorem resp_C01_no_panic : forall i, exists ps e, dissect_half i = (ps, OErr e).
Proof. intro i. rewrite resp_C08_flat. apply resp_C01_flat. Qed.

Theorem resp_C01_pair : forall ci si, exists ec es items residue,
  dissect_pair ci si = (OErr ec, OErr es, items, residue).
Proof.
  intros ci si. unfold dissect_pair.
  destruct (resp_C01_no_panic ci) as (pc & ec & Hc). destruct (resp_C01_no_panic si) as (ps & es & Hs).
  rewrite Hc, Hs. cbn. eexists. eexists. eexists. eexists. reflexivity.
Qed.

(* ------------------------------------------------------------------ what was complete is emitted *)
Lemma dissect_loop_acc fuel : forall k s acc,
  dissect_loop FL k fuel s acc =
  (rev acc ++ fst (dissect_loop FL k fuel s []), snd (dissect_loop FL k fuel s [])).
Proof.
  induction k as [|k IH]; intros s acc; cbn [dissect_loop].
  - rewrite !frev_rev. cbn [fst snd rev]. rewrite app_nil_r. reflexivity.
  - destruct (read_packet FL fuel s) as [[p s1]|e|n|]; cbn [fst snd]; rewrite ?frev_rev; cbn [rev app]; rewrite ?app_nil_r; try reflexivity.
    rewrite (IH s1 (p :: acc)), (IH s1 [p]). cbn [fst snd rev app]. rewrite <- app_assoc. reflexivity.
Qed.

Lemma dissect_loop_prefix t fuel junk : forall vs ps,
  Forall2 (fun v p => wf v = true /\ shape (value_of v) (type_of v) = Ok p) vs ps ->
  forall k acc, length (concat (map enc vs) ++ junk) + 2 <= fuel -> length vs <= k ->
  dissect_loop FL k fuel (concat (map enc vs) ++ junk, t) acc
  = dissect_loop FL (k - length vs) fuel (junk, t) (rev ps ++ acc).
Proof.
  induction 1 as [|v p vs ps [Hw Hs] Hrest IH]; intros k acc Hf Hk.
  - cbn [map concat app length rev]. rewrite Nat.sub_0_r. reflexivity.
  - destruct k as [|k]; [cbn [length] in Hk; lia|].
    cbn [map concat dissect_loop]. rewrite <- app_assoc.
    cbn [map concat] in Hf. rewrite <- app_assoc in Hf.
    rewrite (read_packet_enc v p _ t fuel Hw Hs) by exact Hf.
    rewrite app_length in Hf.
    rewrite IH by (cbn [length] in Hk; lia). cbn [length rev]. rewrite <- app_assoc. reflexivity.
Qed.

(* whatever follows them (a cut value, corrupted bytes, anything): the packets of the values that
   were completely received are emitted, in order, in front of whatever else is emitted *)
Theorem resp_C01_prefix_flat : forall vs ps junk t,
  Forall2 (fun v p => wf v = true /\ shape (value_of v) (type_of v) = Ok p) vs ps ->
  exists more e, dissect FL (concat (map enc vs) ++ junk, t) = (ps ++ more, OErr e).
Proof.
  intros vs ps junk t H. unfold dissect, dissect_fuel, fuel_of. cbn [p_size FL fst].
  set (n := length (concat (map enc vs) ++ junk)).
  assert (Hl : length vs <= n).
  { unfold n. rewrite app_length. pose proof (concat_enc_length vs). lia. }
  rewrite (dissect_loop_prefix t (n + 2) junk vs ps H) by lia.
  rewrite dissect_loop_acc. rewrite app_nil_r, rev_involutive.
  destruct (dissect_loop_ends (n + 2) (n + 2 - length vs) (junk, t) []) as (more & e & Hd).
  - unfold sz, n. cbn [fst]. rewrite app_length. lia.
  - unfold sz, n. cbn [fst]. rewrite app_length. pose proof (concat_enc_length vs).
    assert (length vs <= length (concat (map enc vs))) by assumption. lia.
  - rewrite Hd. cbn [fst snd]. exists more, e. reflexivity.
Qed.

Theorem resp_C01_prefix : forall vs ps junk cs t,
  Forall2 (fun v p => wf v = true /\ shape (value_of v) (type_of v) = Ok p) vs ps ->
  concat cs = concat (map enc vs) ++ junk ->
  exists more e, dissect_half (mkin cs t) = (ps ++ more, OErr e).
Proof.
  intros vs ps junk cs t H Hc. rewrite resp_C08_flat. cbn [chunks tail]. rewrite Hc.
  apply resp_C01_prefix_flat. exact H.
Qed.

(* connection level: all commands received, the reply stream broken after the first m replies of
   the conversation: the first m exchanges are emitted as items, in order *)
Lemma combine_app_l {A B} (a1 a2 : list A) (b1 b2 : list B) : length a1 = length b1 ->
  combine (a1 ++ a2) (b1 ++ b2) = combine a1 b1 ++ combine a2 b2.
Proof.
  revert b1. induction a1 as [|x a1 IH]; intros [|y b1] H; cbn [length] in H; try discriminate; [reflexivity|].
  cbn [app combine]. rewrite IH by lia. reflexivity.
Qed.

Lemma firstn_In {A} (x : A) : forall m l, In x (firstn m l) -> In x l.
Proof.
  induction m as [|m IH]; intros l H; [contradiction|]. destruct l as [|y l]; [contradiction|].
  cbn [firstn] in H. destruct H as [H|H]; [left; exact H|right; apply IH; exact H].
Qed.

Theorem resp_C01_items : forall cv m junk cc cs tc ts, wf_conv cv = true -> excl cv = false ->
  concat cc = enc_cmds cv -> concat cs = enc_replies (firstn m cv) ++ junk ->
  exists more ec es residue,
    dissect_pair (mkin cc tc) (mkin cs ts) = (OErr ec, OErr es, items_of (firstn m cv) ++ more, residue).
Proof.
  intros cv m junk cc cs tc ts Hw He Hc Hs.
  assert (Hw' : wf_conv (firstn m cv) = true).
  { unfold wf_conv in *. rewrite forallb_forall in *. intros x Hx. apply Hw. eapply firstn_In. exact Hx. }
  assert (He' : excl (firstn m cv) = false).
  { unfold excl in *. destruct (existsb _ (firstn m cv)) eqn:E; [|reflexivity].
    apply existsb_exists in E. destruct E as (x & Hx & Px).
    assert (existsb (fun x => excl_cmd (fst x) || excl_reply (snd x)) cv = true).
    { apply existsb_exists. exists x. split; [eapply firstn_In; exact Hx|exact Px]. }
    congruence. }
  unfold dissect_pair.
  assert (Hcl : dissect_half (mkin cc tc) = (map (fun x => pk_cmd (fst x)) cv, OErr (tail_err tc))).
  { rewrite resp_C08_flat. cbn [chunks tail]. rewrite Hc. unfold enc_cmds.
    rewrite <- (map_map (fun x => cmd_value (fst x)) enc cv).
    apply dissect_values. apply conv_cmds; assumption. }
  rewrite Hcl.
  unfold enc_replies in Hs. rewrite <- (map_map snd enc (firstn m cv)) in Hs.
  destruct (resp_C01_prefix _ _ junk cs ts (conv_replies _ Hw' He') Hs) as (more & es & Hsv).
  rewrite Hsv. unfold pair_cs.
  replace (map (fun x : cmd * value => pk_cmd (fst x)) cv)
    with (map (fun x : cmd * value => pk_cmd (fst x)) (firstn m cv) ++ map (fun x : cmd * value => pk_cmd (fst x)) (skipn m cv))
    by (rewrite <- map_app, firstn_skipn; reflexivity).
  rewrite combine_app_l by (rewrite !map_length; reflexivity).
  rewrite combine_map. fold (items_of (firstn m cv)).
  eexists. eexists. eexists. eexists. reflexivity.
Qed.
