(* The flat instance FL on encoded input: what each reader function returns when the stream
   starts with the encoding of a well-formed value (used by RespC07.v). *)
Require Import V.Base.Prelude V.Resp.RespBase V.Resp.RespModel V.Resp.RespSpec V.Resp.RespRefine V.Resp.RespDec.
Local Open Scope nat_scope.

Lemma small_len_lt {A} (l : list A) : small_len l = true -> (Z.of_nat (length l) < two63)%Z.
Proof.
  unfold small_len, two63. intro H. apply N.leb_le in H.
  pose proof (N.size_gt (N.of_nat (length l))) as G.
  pose proof (N.pow_le_mono_r 2 _ _ ltac:(lia) H) as P.
  change (2 ^ 63)%N with 9223372036854775808%N in P. lia.
Qed.

Lemma fl_next_cons b l t : p_next FL (b :: l, t) = Ok (b, (l, t)).
Proof. reflexivity. Qed.

Lemma no_crlf_cons b s : no_crlf (b :: s) = true -> beq b CR = false /\ beq b LF = false /\ no_crlf s = true.
Proof.
  unfold no_crlf. cbn [forallb]. intro H. apply andb_true_iff in H. destruct H as [H1 H2].
  apply andb_true_iff in H1. destruct H1 as [H1 H3]. apply negb_true_iff in H1, H3. auto.
Qed.

Lemma no_crlf_app a b : no_crlf (a ++ b) = no_crlf a && no_crlf b.
Proof. unfold no_crlf. apply forallb_app. Qed.

(* L1: the scan stops at the first CRLF *)
Lemma scan_line s : forall acc r, no_crlf s = true ->
  scan_crlf acc (s ++ CR :: LF :: r) = Some (rev acc ++ s, r).
Proof.
  induction s as [|b s IH]; intros acc r H.
  - cbn [app scan_crlf]. rewrite !beq_refl. rewrite frev_rev, app_nil_r. reflexivity.
  - apply no_crlf_cons in H. destruct H as (H1 & _ & H3).
    cbn [app scan_crlf]. rewrite H1. rewrite IH by exact H3. cbn [rev]. rewrite <- app_assoc. reflexivity.
Qed.

(* L2: readLine / readLineBytesSlowly on a complete line *)
Lemma line_go_line k s acc r t : no_crlf s = true -> length (s ++ CR :: LF :: r) < k ->
  line_go FL k acc (s ++ CR :: LF :: r, t) = Ok (rev acc ++ s, (r, t)).
Proof. intros H Hk. rewrite line_go_flat by exact Hk. rewrite scan_line by exact H. reflexivity. Qed.

Lemma line_bytes_line lf s r t : no_crlf s = true ->
  p_line_bytes FL lf (s ++ CR :: LF :: r, t) = Ok (s, (r, t)).
Proof. intro H. cbn [p_line_bytes FL]. unfold fl_line_bytes. cbn [fst snd]. rewrite scan_line by exact H. reflexivity. Qed.

(* L3: the digit loop *)
Lemma int_go_digits ds : forall k v r t, forallb is_digit_b ds = true -> length ds < k ->
  int_go FL k v (ds ++ CR :: LF :: r, t) = Ok (wrap_digits ds v, (r, t)).
Proof.
  induction ds as [|d ds IH]; intros k v r t Hd Hk; (destruct k as [|k]; [lia|]).
  - cbn [app int_go]. rewrite fl_next_cons. cbn [bind]. rewrite beq_refl. rewrite fl_next_cons. cbn [bind].
    rewrite beq_refl. reflexivity.
  - cbn [forallb] in Hd. apply andb_true_iff in Hd. destruct Hd as [Hd1 Hd2].
    cbn [app int_go]. rewrite fl_next_cons. cbn [bind]. rewrite (digit_not_CR d Hd1).
    rewrite IH; [reflexivity|exact Hd2|cbn [length] in Hk; lia].
Qed.

(* L4: readIntCrLf on the decimal text of an int64 *)
Lemma read_int_dec lf z r t : (int64_min <= z <= int64_max)%Z -> length (dec_Z z) < lf ->
  read_int FL lf (dec_Z z ++ CR :: LF :: r, t) = Ok (z, (r, t)).
Proof.
  intros Hz Hlf. unfold read_int, dec_Z in *. destruct (z <? 0)%Z eqn:Neg.
  - apply Z.ltb_lt in Neg. cbn [app p_peek_minus FL]. unfold fl_peek_minus. cbn [fst snd]. rewrite beq_refl. cbn [bind].
    rewrite int_go_digits; [|apply dec_N_digits|cbn [length] in Hlf; lia]. cbn [bind].
    rewrite wrap_digits_dec by (unfold int64_min in Hz; lia).
    rewrite wrap64_neg. rewrite Z2N.id by lia. rewrite Z.opp_involutive. rewrite wrap64_small by exact Hz. reflexivity.
  - apply Z.ltb_ge in Neg. destruct (dec_N_cons (Z.to_N z)) as (d & ds & E & Hd & Hds).
    pose proof (wrap_digits_dec (Z.to_N z)) as W. rewrite E in *. cbn [app p_peek_minus FL]. unfold fl_peek_minus. cbn [fst snd].
    rewrite (digit_not_MINUS d Hd). cbn [bind].
    change (d :: ds ++ CR :: LF :: r) with ((d :: ds) ++ CR :: LF :: r).
    rewrite int_go_digits; [|cbn [forallb]; rewrite Hd; exact Hds|exact Hlf]. cbn [bind].
    rewrite W by (unfold int64_max in Hz; lia). rewrite Z2N.id by lia. rewrite wrap64_small by exact Hz. reflexivity.
Qed.

(* L5: the bulk body *)
Lemma take_go_body b : forall k acc r t, length b < k ->
  take_go FL k (Z.of_nat (length b)) acc (b ++ r, t) = Ok (rev acc ++ b, (r, t)).
Proof.
  induction b as [|x b IH]; intros k acc r t Hk; (destruct k as [|k]; [lia|]).
  - cbn [length app take_go]. cbn [Z.of_nat Z.leb Z.compare]. rewrite frev_rev, app_nil_r. reflexivity.
  - cbn [take_go]. destruct (Z.of_nat (length (x :: b)) <=? 0)%Z eqn:E; [apply Z.leb_le in E; cbn [length] in E; lia|].
    cbn [app]. rewrite fl_next_cons. cbn [bind].
    replace (Z.of_nat (length (x :: b)) - 1)%Z with (Z.of_nat (length b)) by (cbn [length]; lia).
    rewrite IH by (cbn [length] in Hk; lia). cbn [rev]. rewrite <- app_assoc. reflexivity.
Qed.

(* L6: processBulkString *)
Lemma process_bulk_enc lf b r t : (Z.of_nat (length b) < two63)%Z ->
  length (len_text b ++ crlf ++ b ++ crlf ++ r) < lf ->
  process_bulk FL lf (len_text b ++ crlf ++ b ++ crlf ++ r, t) = Ok (RBytes b, (r, t)).
Proof.
  intros Hb Hlf. unfold process_bulk, len_text, crlf in *. cbn [app] in *.
  rewrite app_length in Hlf.
  rewrite read_int_dec; [|unfold int64_min, int64_max, two63 in *; lia|lia]. cbn [bind].
  destruct (Z.of_nat (length b) =? -1)%Z eqn:E1; [apply Z.eqb_eq in E1; lia|].
  destruct (Z.of_nat (length b) <? 0)%Z eqn:E2; [apply Z.ltb_lt in E2; lia|].
  cbn [length] in Hlf. rewrite app_length in Hlf.
  rewrite take_go_body by lia. cbn [bind rev app].
  rewrite fl_next_cons. cbn [bind]. rewrite beq_refl. cbn [negb].
  rewrite fl_next_cons. cbn [bind]. rewrite beq_refl. reflexivity.
Qed.

Lemma process_bulk_null lf r t : 4 < lf ->
  process_bulk FL lf (dec_Z (-1) ++ crlf ++ r, t) = Ok (RNilBytes, (r, t)).
Proof.
  intro Hlf. unfold process_bulk, crlf. cbn [app].
  rewrite read_int_dec; [|unfold int64_min, int64_max; lia|]. 2:{ vm_compute. lia. }
  reflexivity.
Qed.

(* L7: processError on the error texts of the specification (redirections: see below) *)
Lemma has_prefix_app p t : has_prefix p (p ++ t) = true.
Proof. induction p as [|a p IH]; cbn [app has_prefix]; [reflexivity|]. rewrite beq_refl. exact IH. Qed.

Lemma reserved_false t : reserved_prefix t = false ->
  has_prefix s_moved t = false /\ has_prefix s_ask t = false /\ has_prefix s_clusterdown t = false
  /\ has_prefix s_busy t = false /\ has_prefix s_noscript t = false.
Proof.
  unfold reserved_prefix. intro H. repeat (apply orb_false_iff in H; destruct H as [H ?]). auto.
Qed.

Definition is_redirect (e : errv) : bool := match e with EMoved _ _ _ | EAsk _ _ _ => true | _ => false end.

Lemma format_error_plain e : wf_err e = true -> is_redirect e = false ->
  format_error (err_text e) = Ok (err_view e).
Proof.
  intros Hw Hr. destruct e as [t|? ? ?|? ? ?|t|t|t]; try discriminate; cbn [err_text err_view].
  - cbn [wf_err] in Hw. apply andb_true_iff in Hw. destruct Hw as [_ Hw]. apply negb_true_iff in Hw.
    apply reserved_false in Hw. destruct Hw as (H1 & H2 & H3 & H4 & H5).
    unfold format_error. rewrite H1, H2, H3, H4, H5. reflexivity.
  - unfold format_error.
    replace (has_prefix s_moved (t_clusterdown ++ t)) with false by reflexivity.
    replace (has_prefix s_ask (t_clusterdown ++ t)) with false by reflexivity.
    change s_clusterdown with t_clusterdown. rewrite has_prefix_app. reflexivity.
  - unfold format_error.
    replace (has_prefix s_moved (t_busy ++ t)) with false by reflexivity.
    replace (has_prefix s_ask (t_busy ++ t)) with false by reflexivity.
    replace (has_prefix s_clusterdown (t_busy ++ t)) with false by reflexivity.
    change s_busy with t_busy. rewrite has_prefix_app. reflexivity.
  - unfold format_error.
    replace (has_prefix s_moved (t_noscript ++ t)) with false by reflexivity.
    replace (has_prefix s_ask (t_noscript ++ t)) with false by reflexivity.
    replace (has_prefix s_clusterdown (t_noscript ++ t)) with false by reflexivity.
    replace (has_prefix s_busy (t_noscript ++ t)) with false by reflexivity.
    change s_noscript with t_noscript. rewrite has_prefix_app. reflexivity.
Qed.

Lemma err_text_line e : wf_err e = true -> is_redirect e = false ->
  no_crlf (err_text e) = true /\ err_text e <> [].
Proof.
  intros Hw Hr. destruct e as [t|? ? ?|? ? ?|t|t|t]; try discriminate; cbn [err_text wf_err] in *.
  - apply andb_true_iff in Hw. destruct Hw as [Hw _]. apply andb_true_iff in Hw. destruct Hw as [H1 H2].
    split; [exact H1|]. destruct t; [discriminate|discriminate].
  - rewrite no_crlf_app, Hw. split; [reflexivity|discriminate].
  - rewrite no_crlf_app, Hw. split; [reflexivity|discriminate].
  - rewrite no_crlf_app, Hw. split; [reflexivity|discriminate].
Qed.

(* ---- redirections: "MOVED <slot> <host>:<port>" ---- *)
Lemma split_sp_seg s : forall cur rest, no_space s = true ->
  split_sp cur (s ++ SPACE :: rest) = (rev cur ++ s) :: split_sp [] rest.
Proof.
  induction s as [|b s IH]; intros cur rest H.
  - cbn [app split_sp]. rewrite beq_refl, frev_rev, app_nil_r. reflexivity.
  - unfold no_space in H. cbn [forallb] in H. apply andb_true_iff in H. destruct H as [H1 H2].
    apply negb_true_iff in H1. cbn [app split_sp]. rewrite H1. rewrite IH by exact H2.
    cbn [rev]. rewrite <- app_assoc. reflexivity.
Qed.

Lemma split_sp_last s : forall cur, no_space s = true -> split_sp cur s = [rev cur ++ s].
Proof.
  induction s as [|b s IH]; intros cur H.
  - cbn [split_sp]. rewrite frev_rev, app_nil_r. reflexivity.
  - unfold no_space in H. cbn [forallb] in H. apply andb_true_iff in H. destruct H as [H1 H2].
    apply negb_true_iff in H1. cbn [split_sp]. rewrite H1. rewrite IH by exact H2.
    cbn [rev]. rewrite <- app_assoc. reflexivity.
Qed.

Definition no_colon (s : bytes) : bool := forallb (fun b => negb (beq b COLON)) s.

Lemma split_last_colon_none p : no_colon p = true -> split_last_colon p = None.
Proof.
  induction p as [|b p IH]; intro H; [reflexivity|].
  unfold no_colon in H. cbn [forallb] in H. apply andb_true_iff in H. destruct H as [H1 H2].
  apply negb_true_iff in H1. cbn [split_last_colon]. rewrite IH by exact H2. rewrite H1. reflexivity.
Qed.

Lemma split_last_colon_app h p : no_colon p = true -> split_last_colon (h ++ COLON :: p) = Some (h, p).
Proof.
  intro Hp. induction h as [|b h IH].
  - cbn [app split_last_colon]. rewrite split_last_colon_none by exact Hp. rewrite beq_refl. reflexivity.
  - cbn [app split_last_colon]. rewrite IH. reflexivity.
Qed.

Lemma digits_forall (P : byte -> bool) ds :
  (forall b, is_digit_b b = true -> P b = true) -> forallb is_digit_b ds = true -> forallb P ds = true.
Proof.
  intros HP. induction ds as [|d ds IH]; intro H; [reflexivity|].
  cbn [forallb] in *. apply andb_true_iff in H. destruct H as [H1 H2]. rewrite (HP d H1), (IH H2). reflexivity.
Qed.

Lemma dec_N_no_space n : no_space (dec_N n) = true.
Proof. apply (digits_forall _ _ (fun b H => eq_trans (f_equal negb (digit_not_SPACE b H)) eq_refl)), dec_N_digits. Qed.
Lemma dec_N_no_colon n : no_colon (dec_N n) = true.
Proof. apply (digits_forall _ _ (fun b H => eq_trans (f_equal negb (digit_not_COLON b H)) eq_refl)), dec_N_digits. Qed.
Lemma dec_N_no_crlf n : no_crlf (dec_N n) = true.
Proof.
  apply (digits_forall (fun b => negb (beq b CR) && negb (beq b LF))); [|apply dec_N_digits].
  intros b H. rewrite (digit_not_CR b H). rewrite (digit_not b LF H); [reflexivity|]. left. vm_compute. reflexivity.
Qed.

Lemma atoi_dec n : (Z.of_N n <= int64_max)%Z -> atoi (dec_N n) = (Z.of_N n, true).
Proof.
  intro H. destruct (dec_N_cons n) as (d & ds & E & Hd & Hds).
  pose proof (dec_N_val n) as V. rewrite E in *. unfold atoi.
  rewrite (digit_not_MINUS d Hd), (digit_not_PLUS d Hd). cbn [forallb]. rewrite Hd, Hds. cbn [andb].
  rewrite V.
  - destruct (int64_max <? Z.of_N n)%Z eqn:L; [apply Z.ltb_lt in L; lia|reflexivity].
  - unfold pow40. apply N2Z.inj_lt. unfold int64_max in H. eapply Z.le_lt_trans; [exact H|]. vm_compute. reflexivity.
Qed.

Lemma dec_Z_of_N n : dec_Z (Z.of_N n) = dec_N n.
Proof.
  unfold dec_Z. destruct (Z.of_N n <? 0)%Z eqn:L; [apply Z.ltb_lt in L; lia|]. rewrite N2Z.id. reflexivity.
Qed.

Lemma parse_target_redirect pre slot host port :
  no_space pre = true -> no_space host = true ->
  (Z.of_N slot < two63)%Z -> (Z.of_N port < two63)%Z ->
  parse_target (pre ++ SPACE :: redirect_text slot host port) = Ok (host, Z.of_N port, Z.of_N slot).
Proof.
  intros Hpre Hh Hs Hp. unfold parse_target, redirect_text.
  rewrite split_sp_seg by exact Hpre. cbn [rev app].
  rewrite split_sp_seg by apply dec_N_no_space. cbn [rev app].
  rewrite split_sp_last.
  2:{ unfold no_space. rewrite forallb_app. fold (no_space host). rewrite Hh. cbn [app forallb andb].
      replace (beq COLON SPACE) with false by reflexivity. cbn [negb andb]. apply dec_N_no_space. }
  cbn [rev app]. unfold extract_parts. rewrite split_last_colon_app by apply dec_N_no_colon.
  rewrite !atoi_dec by (unfold two63, int64_max in *; lia). cbn [fst]. reflexivity.
Qed.

Lemma format_error_redirect e : wf_err e = true -> is_redirect e = true ->
  format_error (err_text e) = Ok (err_view e).
Proof.
  intros Hw Hr. destruct e as [t|slot host port|slot host port|t|t|t]; try discriminate; cbn [wf_err] in Hw;
    repeat (apply andb_true_iff in Hw; destruct Hw as [Hw ?]);
    match goal with H1 : (_ <? _)%Z = true, H2 : (_ <? _)%Z = true |- _ => apply Z.ltb_lt in H1, H2 end.
  - cbn [err_text err_view]. unfold format_error. change s_moved with t_moved. rewrite has_prefix_app. 
    change t_moved with (bs [77;79;86;69;68]%N ++ [SPACE]). rewrite <- app_assoc. cbn [app].
    rewrite parse_target_redirect by (try assumption; reflexivity). cbn [bind].
    rewrite !dec_Z_of_N. unfold target_view. reflexivity.
  - cbn [err_text err_view]. unfold format_error.
    replace (has_prefix s_moved (t_ask ++ redirect_text slot host port)) with false by reflexivity.
    change s_ask with t_ask. rewrite has_prefix_app.
    change t_ask with (bs [65;83;75]%N ++ [SPACE]). rewrite <- app_assoc. cbn [app].
    rewrite parse_target_redirect by (try assumption; reflexivity). cbn [bind].
    rewrite !dec_Z_of_N. unfold target_view. reflexivity.
Qed.

Lemma err_text_line_redirect e : wf_err e = true -> is_redirect e = true ->
  no_crlf (err_text e) = true /\ err_text e <> [].
Proof.
  intros Hw Hr. destruct e as [t|slot host port|slot host port|t|t|t]; try discriminate; cbn [wf_err] in Hw;
    repeat (apply andb_true_iff in Hw; destruct Hw as [Hw ?]); cbn [err_text]; unfold redirect_text;
    (split; [|discriminate]); rewrite !no_crlf_app, !dec_N_no_crlf, Hw; reflexivity.
Qed.

Lemma format_error_ok e : wf_err e = true -> format_error (err_text e) = Ok (err_view e).
Proof.
  intro Hw. destruct (is_redirect e) eqn:R; [apply format_error_redirect|apply format_error_plain]; assumption.
Qed.

Lemma err_text_ok e : wf_err e = true -> no_crlf (err_text e) = true /\ err_text e <> [].
Proof.
  intro Hw. destruct (is_redirect e) eqn:R; [apply err_text_line_redirect|apply err_text_line]; assumption.
Qed.

(* processError on a well-formed error line *)
Lemma process_error_enc lf e r t : wf_err e = true -> length (err_text e ++ CR :: LF :: r) < lf ->
  process_error FL lf (err_text e ++ CR :: LF :: r, t) = Ok (RStr (err_view e), (r, t)).
Proof.
  intros Hw Hlf. destruct (err_text_ok e Hw) as [H1 H2].
  unfold process_error, read_line. rewrite line_go_line by assumption. cbn [bind rev app].
  destruct (err_text e) as [|x xs] eqn:E; [contradiction|]. cbn [bind]. rewrite <- E.
  rewrite format_error_ok by exact Hw. reflexivity.
Qed.
