(* Small shared vocabulary of the RESP family: byte constants, decimal text, ASCII upper-casing,
   table membership.  Used by the model (RespModel.v) and, independently, by the specification
   (RespSpec.v); contains no protocol logic. *)
Require Import V.Base.Prelude.
Local Open Scope Z_scope.

Definition CR : byte := x0d.
Definition LF : byte := x0a.
Definition PLUS : byte := x2b.
Definition DOLLAR : byte := x24.
Definition STAR : byte := x2a.
Definition COLON : byte := x3a.
Definition MINUS : byte := x2d.
Definition SPACE : byte := x20.
Definition COMMA : byte := x2c.
Definition LBRACK : byte := x5b.
Definition RBRACK : byte := x5d.

Definition beq (a b : byte) : bool := Byte.eqb a b.

Lemma beq_true a b : beq a b = true -> a = b.
Proof. apply byte_dec_bl. Qed.
Lemma beq_false a b : beq a b = false -> a <> b.
Proof. apply eqb_false. Qed.
Lemma beq_refl a : beq a a = true.
Proof. apply byte_dec_lb. reflexivity. Qed.
Lemma beq_neq a b : a <> b -> beq a b = false.
Proof.
  intro H. destruct (beq a b) eqn:E; [|reflexivity]. apply beq_true in E. contradiction.
Qed.

Fixpoint bytes_eqb (x y : bytes) : bool :=
  match x, y with
  | [], [] => true
  | a :: x', b :: y' => beq a b && bytes_eqb x' y'
  | _, _ => false
  end.

Lemma bytes_eqb_true x : forall y, bytes_eqb x y = true -> x = y.
Proof.
  induction x as [|a x IH]; intros [|b y] H; cbn [bytes_eqb] in H; try discriminate; [reflexivity|].
  apply andb_true_iff in H. destruct H as [H1 H2]. apply beq_true in H1. rewrite (IH _ H2), H1. reflexivity.
Qed.
Lemma bytes_eqb_refl x : bytes_eqb x x = true.
Proof. induction x as [|a x IH]; cbn [bytes_eqb]; [reflexivity|]. rewrite beq_refl, IH. reflexivity. Qed.

Definition mem_bytes (x : bytes) (tbl : list bytes) : bool := existsb (bytes_eqb x) tbl.

(* does l start with p? *)
Fixpoint has_prefix (p l : bytes) : bool :=
  match p, l with
  | [], _ => true
  | a :: p', b :: l' => beq a b && has_prefix p' l'
  | _ :: _, [] => false
  end.

(* ASCII upper-casing (the model of strings.ToUpper on ASCII text) *)
Definition upper_b (b : byte) : byte :=
  let n := b2n b in
  if ((97 <=? n) && (n <=? 122))%N then b_of_N (n - 32)%N else b.
Definition upper (l : bytes) : bytes := map upper_b l.

(* ---- decimal text ---- *)
Definition digit (n : N) : byte := b_of_N (48 + n)%N.
Definition is_digit_b (b : byte) : bool := ((48 <=? b2n b) && (b2n b <=? 57))%N.

Fixpoint dec_digits (fuel : nat) (n : N) (acc : bytes) : bytes :=
  match fuel with
  | O => acc
  | S f => let d := digit (n mod 10)%N in
           if (n <? 10)%N then d :: acc else dec_digits f (n / 10)%N (d :: acc)
  end.
(* 40 digits: enough for every number below 10^40 *)
Definition dec_N (n : N) : bytes := dec_digits 40 n [].
Definition dec_Z (z : Z) : bytes :=
  if z <? 0 then MINUS :: dec_N (Z.to_N (- z)) else dec_N (Z.to_N z).

(* the value a left-to-right digit accumulation computes (no wrap) *)
Definition digits_val (l : bytes) (v : Z) : Z := fold_left (fun v b => v * 10 + (b2z b - 48)) l v.

(* Go int64 wrap-around *)
Definition wrap64 (z : Z) : Z := (z + 9223372036854775808) mod 18446744073709551616 - 9223372036854775808.
Definition int64_min : Z := -9223372036854775808.
Definition int64_max : Z := 9223372036854775807.

