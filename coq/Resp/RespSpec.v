(* Specification side of the RESP family, written from the RESP2 wire format and from the text
   of property C07.  It does not import the model.

     value, enc          RESP2 values and their wire encoding (bulk strings by declared length)
     wf                  well-formedness (what an independent encoder may produce)
     cmd, conversation   a command is a name with arguments; a conversation is a list of
                         (command, reply) exchanges
     report              what must be reported for a conversation
     excl                the reply / command shapes that are recorded findings (known/resp.json) *)
Require Import V.Base.Prelude V.Resp.RespBase V.gen.RedisTables.
Local Open Scope Z_scope.

Definition crlf : bytes := [CR; LF].

(* error replies: plain, or one of the cluster / script prefixes the report classifies *)
Inductive errv :=
| EPlain (text : bytes)
| EMoved (slot : N) (host : bytes) (port : N)
| EAsk (slot : N) (host : bytes) (port : N)
| EClusterDown (text : bytes)
| EBusy (text : bytes)
| ENoScript (text : bytes).

Inductive value :=
| VSimple (s : bytes)
| VError (e : errv)
| VInt (z : Z)
| VBulk (b : bytes)
| VNullBulk
| VArray (l : list value)
| VNullArray.

Definition t_moved : bytes := bs [77;79;86;69;68;32]%N.                          (* "MOVED " *)
Definition t_ask : bytes := bs [65;83;75;32]%N.                                  (* "ASK " *)
Definition t_clusterdown : bytes := bs [67;76;85;83;84;69;82;68;79;87;78;32]%N.  (* "CLUSTERDOWN " *)
Definition t_busy : bytes := bs [66;85;83;89;32]%N.                              (* "BUSY " *)
Definition t_noscript : bytes := bs [78;79;83;67;82;73;80;84;32]%N.              (* "NOSCRIPT " *)

Definition redirect_text (slot : N) (host : bytes) (port : N) : bytes :=
  dec_N slot ++ [SPACE] ++ host ++ [COLON] ++ dec_N port.

Definition err_text (e : errv) : bytes :=
  match e with
  | EPlain t => t
  | EMoved slot host port => t_moved ++ redirect_text slot host port
  | EAsk slot host port => t_ask ++ redirect_text slot host port
  | EClusterDown t => t_clusterdown ++ t
  | EBusy t => t_busy ++ t
  | ENoScript t => t_noscript ++ t
  end.

Definition len_text {A} (l : list A) : bytes := dec_Z (Z.of_nat (length l)).

Fixpoint enc (v : value) : bytes :=
  match v with
  | VSimple s => PLUS :: s ++ crlf
  | VError e => MINUS :: err_text e ++ crlf
  | VInt z => COLON :: dec_Z z ++ crlf
  | VBulk b => DOLLAR :: len_text b ++ crlf ++ b ++ crlf
  | VNullBulk => DOLLAR :: dec_Z (-1) ++ crlf
  | VArray l => STAR :: len_text l ++ crlf ++ concat (map enc l)
  | VNullArray => STAR :: dec_Z (-1) ++ crlf
  end.

(* ---- well-formedness ---- *)
Definition no_crlf (s : bytes) : bool := forallb (fun b => negb (beq b CR) && negb (beq b LF)) s.
Definition no_space (s : bytes) : bool := forallb (fun b => negb (beq b SPACE)) s.
Definition nonempty (s : bytes) : bool := match s with [] => false | _ :: _ => true end.
Definition reserved_prefix (t : bytes) : bool :=
  has_prefix t_moved t || has_prefix t_ask t || has_prefix t_clusterdown t || has_prefix t_busy t
  || has_prefix t_noscript t.
Definition two63 : Z := 9223372036854775808.
(* the length fits an int64 (written with the bit size so that no proof step ever has to reduce a
   comparison of a symbolic length with a 64-bit literal) *)
Definition small_len {A} (l : list A) : bool := (N.size (N.of_nat (length l)) <=? 63)%N.

Definition wf_err (e : errv) : bool :=
  match e with
  | EPlain t => no_crlf t && nonempty t && negb (reserved_prefix t)
  | EMoved slot host port | EAsk slot host port =>
      no_crlf host && no_space host && (Z.of_N slot <? two63) && (Z.of_N port <? two63)
  | EClusterDown t | EBusy t | ENoScript t => no_crlf t
  end.

Fixpoint wf (v : value) : bool :=
  match v with
  | VSimple s => no_crlf s
  | VError e => wf_err e
  | VInt z => (- two63 <=? z) && (z <? two63)
  | VBulk b => small_len b
  | VNullBulk => true
  | VArray l => small_len l && forallb wf l
  | VNullArray => true
  end.

(* ---- conversations ---- *)
Definition cmd : Type := bytes * list bytes.                  (* name, arguments *)
Definition cmd_value (c : cmd) : value := VArray (map VBulk (fst c :: snd c)).
Definition conversation : Type := list (cmd * value).
Definition wf_conv (cv : conversation) : bool := forallb (fun x => wf (cmd_value (fst x)) && wf (snd x)) cv.

Definition enc_cmds (cv : conversation) : bytes := concat (map (fun x => enc (cmd_value (fst x))) cv).
Definition enc_replies (cv : conversation) : bytes := concat (map (fun x => enc (snd x)) cv).

(* ---- what must be reported ---- *)
Inductive rty := TySimple | TyError | TyInt | TyBulk | TyArray | TyNull.
Record pview := mkview { v_ty : rty; v_cmd : bytes; v_key : bytes; v_val : bytes; v_kw : bytes }.

(* a command: its name (commands are case-insensitive; reported in upper case), its key, and the
   further arguments: one argument as it is, several as the list "[a, b, c]" *)
Definition args_view (args : list bytes) : bytes :=
  match args with
  | [] => []
  | [_] => []
  | [_; v] => v
  | _ :: v :: more => [LBRACK] ++ v ++ concat (map (fun a => [COMMA; SPACE] ++ a) more) ++ [RBRACK]
  end.
Definition cmd_view (c : cmd) : pview :=
  mkview TyArray (upper (fst c)) (match snd c with k :: _ => k | [] => [] end) (args_view (snd c)) [].

(* the text reported for an error: its class, the message as sent, and for redirections the
   target that was parsed out of it *)
Definition v_MovedDataError : bytes := bs [77;111;118;101;100;68;97;116;97;69;114;114;111;114;58;32]%N.
Definition v_AskDataError : bytes := bs [65;115;107;68;97;116;97;69;114;114;111;114;58;32]%N.
Definition v_ClusterError : bytes := bs [67;108;117;115;116;101;114;69;114;114;111;114;58;32]%N.
Definition v_BusyError : bytes := bs [66;117;115;121;69;114;114;111;114;58;32]%N.
Definition v_NoScriptError : bytes := bs [78;111;83;99;114;105;112;116;69;114;114;111;114;58;32]%N.
Definition v_DataError : bytes := bs [68;97;116;97;69;114;114;111;114;58;32]%N.
Definition v_host : bytes := bs [32;104;111;115;116;58;32]%N.
Definition v_port : bytes := bs [32;112;111;114;116;58;32]%N.
Definition v_slot : bytes := bs [32;115;108;111;116;58;32]%N.

Definition target_view (slot : N) (host : bytes) (port : N) : bytes :=
  v_host ++ host ++ v_port ++ dec_N port ++ v_slot ++ dec_N slot.

Definition err_view (e : errv) : bytes :=
  match e with
  | EPlain _ => v_DataError ++ err_text e
  | EMoved slot host port => v_MovedDataError ++ err_text e ++ target_view slot host port
  | EAsk slot host port => v_AskDataError ++ err_text e ++ target_view slot host port
  | EClusterDown _ => v_ClusterError ++ err_text e
  | EBusy _ => v_BusyError ++ err_text e
  | ENoScript _ => v_NoScriptError ++ err_text e
  end.

(* a reply: its type and its content exactly as sent.  Non-empty arrays have no rendering in a
   packet (they are under [excl]); their view here only records the type. *)
Definition reply_view (v : value) : pview :=
  match v with
  | VSimple s => mkview TySimple [] [] [] s
  | VError e => mkview TyError [] [] (err_view e) []
  | VInt z => mkview TyInt [] [] (dec_Z z) []
  | VBulk b => mkview TyBulk [] [] b []
  | VNullBulk => mkview TyNull [] [] [] []
  | VArray _ => mkview TyArray [] [] [] []
  | VNullArray => mkview TyNull [] [] [] []
  end.

(* the k-th item pairs the k-th command with the k-th reply *)
Definition report (cv : conversation) : list (pview * pview) :=
  map (fun x => (cmd_view (fst x), reply_view (snd x))) cv.

(* ---- recorded findings (known/resp.json): shapes outside the proved report ---- *)
Definition excl_reply (v : value) : bool :=
  match v with
  | VSimple s => negb (mem_bytes s redis_keywords)      (* D14 unknown keyword, R2 lower case *)
  | VNullBulk | VNullArray => true                      (* R1 null reported as empty *)
  | VArray (_ :: _) => true                             (* D15 / D16 non-empty reply arrays *)
  | _ => false
  end.
Definition excl_cmd (c : cmd) : bool := negb (mem_bytes (upper (fst c)) redis_commands).
Definition excl (cv : conversation) : bool := existsb (fun x => excl_cmd (fst x) || excl_reply (snd x)) cv.
