(* Executable model of pkg/extensions/redis (read.go, main.go, handlers.go) AFTER the fix commits,
   written function by function.  No proofs in this file.

   The reader state of RedisInputStream is represented by the unread part of the refill buffer
   Buf[count:limit] plus the reads that are still to come; every `r.Read(r.Buf)` hands through
   exactly one read of the underlying connection (at most 8192 bytes).

   Layout:
     1. chunked reader: ensureFill, readByte, readLineBytes (fast path inside the buffer)
     2. generic part (Section Generic), parameterised by the four reader primitives
        [prims]: the byte loops (readLine, readLineBytesSlowly, readIntCrLf, bulk body), process*,
        RedisProtocol.Read (packet shaping), the Dissect loop
     3. the chunked instance [CH] (= the model of the code) and the flat instance [FL]
        (the same upper layer over a plain byte list; used by the proofs, see RespRefine.v)
   Panic n = the Go expression at read.go line n would panic. *)
Require Import V.Base.Prelude V.Resp.RespBase V.gen.RedisTables.
Local Open Scope Z_scope.

(* ------------------------------------------------------------------ input *)
Inductive tailk := TEof | TErrOnce | TErrForever.
Definition tail_err (t : tailk) : errclass := match t with TEof => EEOF | _ => EIO end.

Record rst := mkst { unread : bytes; rest : list bytes; tl : tailk }.
Definition set_unread (st : rst) (u : bytes) : rst := mkst u (rest st) (tl st).

Definition REFILL : nat := N.to_nat 8192.

(* list reversal in linear time (List.rev is quadratic when computed) *)
Definition frev {A} (l : list A) : list A := rev_append l [].

(* r.limit, err = r.Read(r.Buf): one read of the connection; reads of zero bytes do not occur
   (the reader delivers a non-empty chunk or an error), a chunk longer than Buf is delivered in
   pieces of len(Buf) *)
Fixpoint refill (cs : list bytes) (t : tailk) : res rst :=
  match cs with
  | [] => Err (tail_err t)
  | c :: cs' =>
      match c with
      | [] => refill cs' t
      | _ :: _ => if (length c <=? REFILL)%nat then Ok (mkst c cs' t)
                  else Ok (mkst (firstn REFILL c) (skipn REFILL c :: cs') t)
      end
  end.

(* ensureFill, read.go:45 *)
Definition ensure_fill (st : rst) : res rst :=
  match unread st with
  | [] => refill (rest st) (tl st)
  | _ :: _ => Ok st
  end.

(* readByte, read.go:35 (and every `ensureFill(); b := r.Buf[r.count]; r.count++` sequence) *)
Definition read_byte (st : rst) : res (byte * rst) :=
  let* st1 := ensure_fill st in
  match unread st1 with
  | [] => Panic 40
  | b :: u => Ok (b, set_unread st1 u)
  end.

(* the scan of readLineBytes inside the buffer, read.go:98-114: None = `pos == r.limit` was reached *)
Fixpoint scan_crlf (acc : bytes) (l : bytes) : option (bytes * bytes) :=
  match l with
  | [] => None
  | p :: l1 =>
      if beq p CR then
        match l1 with
        | [] => None
        | q :: l2 => if beq q LF then Some (frev acc, l2) else scan_crlf (q :: p :: acc) l2
        end
      else scan_crlf (p :: acc) l1
  end.

Definition size_st (st : rst) : nat := length (unread st) + length (concat (rest st)).

(* ------------------------------------------------------------------ values and packets *)
Inductive rval :=
| RBytes (b : bytes)        (* []uint8 *)
| RNilBytes                 (* []uint8(nil): null bulk string *)
| RInt (z : Z)              (* int64 *)
| RStr (s : bytes)          (* string: formatted error *)
| RArr (l : list rval)      (* []interface{} *)
| RNilArr.                  (* []interface{}(nil): null array *)

Inductive rtype := TSimple | TBulk | TArray | TInt | TError | TNA.
Definition rtype_code (t : rtype) : nat :=
  match t with TSimple => 0 | TBulk => 1 | TArray => 2 | TInt => 3 | TError => 4 | TNA => 5 end%nat.

Record packet := mkpk { p_ty : rtype; p_cmd : bytes; p_key : bytes; p_val : bytes; p_kw : bytes }.

(* text constants of processError *)
Definition s_moved : bytes := bs [77;79;86;69;68;32]%N.                       (* "MOVED " *)
Definition s_ask : bytes := bs [65;83;75;32]%N.                               (* "ASK " *)
Definition s_clusterdown : bytes := bs [67;76;85;83;84;69;82;68;79;87;78;32]%N.  (* "CLUSTERDOWN " *)
Definition s_busy : bytes := bs [66;85;83;89;32]%N.                           (* "BUSY " *)
Definition s_noscript : bytes := bs [78;79;83;67;82;73;80;84;32]%N.           (* "NOSCRIPT " *)
Definition s_MovedDataError : bytes := bs [77;111;118;101;100;68;97;116;97;69;114;114;111;114;58;32]%N.
Definition s_AskDataError : bytes := bs [65;115;107;68;97;116;97;69;114;114;111;114;58;32]%N.
Definition s_ClusterError : bytes := bs [67;108;117;115;116;101;114;69;114;114;111;114;58;32]%N.
Definition s_BusyError : bytes := bs [66;117;115;121;69;114;114;111;114;58;32]%N.
Definition s_NoScriptError : bytes := bs [78;111;83;99;114;105;112;116;69;114;114;111;114;58;32]%N.
Definition s_DataError : bytes := bs [68;97;116;97;69;114;114;111;114;58;32]%N.
Definition s_host : bytes := bs [32;104;111;115;116;58;32]%N.                 (* " host: " *)
Definition s_port : bytes := bs [32;112;111;114;116;58;32]%N.                 (* " port: " *)
Definition s_slot : bytes := bs [32;115;108;111;116;58;32]%N.                 (* " slot: " *)
Definition s_sep : bytes := [COMMA; SPACE].

(* strings.Split(s, " ") *)
Fixpoint split_sp (cur : bytes) (l : bytes) : list bytes :=
  match l with
  | [] => [frev cur]
  | b :: l' => if beq b SPACE then frev cur :: split_sp [] l' else split_sp (b :: cur) l'
  end.

(* extractParts, read.go:416: split at the last ':' *)
Fixpoint split_last_colon (l : bytes) : option (bytes * bytes) :=
  match l with
  | [] => None
  | b :: l' =>
      match split_last_colon l' with
      | Some (h, p) => Some (b :: h, p)
      | None => if beq b COLON then Some ([], l') else None
      end
  end.
Definition extract_parts (from : bytes) : bytes * bytes :=
  match split_last_colon from with Some (h, p) => (h, p) | None => (from, []) end.

(* strconv.Atoi (modelled, not verified): optional sign, decimal digits; the value and whether
   it was accepted; out of range = clamped value and not accepted *)
Definition atoi (s : bytes) : Z * bool :=
  let '(neg, ds) := match s with
                    | b :: s' => if beq b MINUS then (true, s') else if beq b PLUS then (false, s') else (false, s)
                    | [] => (false, [])
                    end in
  match ds with
  | [] => (0, false)
  | _ :: _ =>
      if forallb is_digit_b ds then
        let v := digits_val ds 0 in
        if neg then (if - v <? int64_min then (int64_min, false) else (- v, true))
        else (if int64_max <? v then (int64_max, false) else (v, true))
      else (0, false)
  end.

(* parseTargetHostAndSlot, read.go:404 (after the fix: fewer than three fields is an error) *)
Definition parse_target (msg : bytes) : res (bytes * Z * Z) :=
  match split_sp [] msg with
  | _ :: a1 :: a2 :: _ =>
      let '(host, port) := extract_parts a2 in
      let slot := fst (atoi a1) in
      let '(po, ok) := atoi port in
      if ok then Ok (host, po, slot) else Err EProto
  | _ => Err EProto
  end.

(* the classification part of processError, read.go:382-401 *)
Definition format_error (msg : bytes) : res bytes :=
  if has_prefix s_moved msg then
    let* (host, po, slot) := parse_target msg in
    Ok (s_MovedDataError ++ msg ++ s_host ++ host ++ s_port ++ dec_Z po ++ s_slot ++ dec_Z slot)
  else if has_prefix s_ask msg then
    let* (host, po, slot) := parse_target msg in
    Ok (s_AskDataError ++ msg ++ s_host ++ host ++ s_port ++ dec_Z po ++ s_slot ++ dec_Z slot)
  else if has_prefix s_clusterdown msg then Ok (s_ClusterError ++ msg)
  else if has_prefix s_busy msg then Ok (s_BusyError ++ msg)
  else if has_prefix s_noscript msg then Ok (s_NoScriptError ++ msg)
  else Ok (s_DataError ++ msg).

(* how an array element is rendered in the key / value slot: []uint8 and int64 only *)
Definition elem_text (v : rval) : option bytes :=
  match v with
  | RBytes b => Some b
  | RNilBytes => Some []
  | RInt z => Some (dec_Z z)
  | _ => None
  end.
Definition elem_text_or_empty (v : rval) : bytes := match elem_text v with Some b => b | None => [] end.

(* the value list of a command with more than two arguments, read.go:234-249 *)
Definition join_rest (first : bytes) (items : list rval) : bytes :=
  [LBRACK] ++ first
  ++ concat (map (fun it => match elem_text it with Some b => s_sep ++ b | None => [] end) items)
  ++ [RBRACK].

(* RedisProtocol.Read after process(), read.go:209-283: packet shaping and validation *)
Definition shape (x : rval) (t : rtype) : res packet :=
  let check_cmd (p : packet) : res packet :=
    match p_cmd p with
    | [] => Ok p
    | _ :: _ => if mem_bytes (p_cmd p) redis_commands then Ok p else Err EProto
    end in
  let arr (l : list rval) : res packet :=
    match l with
    | [] => Ok (mkpk t [] [] [] [])
    | a0 :: l1 =>
        let cmd0 := match a0 with RBytes b => Some b | RNilBytes => Some [] | _ => None end in
        match cmd0 with
        | None => Err EProto                                   (* "Unrecognized element in Redis array" *)
        | Some c =>
            let key := match l1 with k :: _ => elem_text_or_empty k | [] => [] end in
            let val := match l1 with _ :: v :: _ => elem_text_or_empty v | _ => [] end in
            let val' := match l1 with _ :: _ :: (_ :: _) as more => join_rest val more | _ => val end in
            check_cmd (mkpk t (upper c) key val' [])
        end
    end in
  match x with
  | RArr l => arr l
  | RNilArr => arr []
  | RBytes b =>
      match t with
      | TSimple => let kw := upper b in
                   if mem_bytes kw redis_keywords then Ok (mkpk t [] [] [] kw) else Err EProto
      | _ => Ok (mkpk t [] [] b [])
      end
  | RNilBytes =>
      match t with
      | TSimple => if mem_bytes [] redis_keywords then Ok (mkpk t [] [] [] []) else Err EProto
      | _ => Ok (mkpk t [] [] [] [])
      end
  | RStr s => Ok (mkpk t [] [] s [])
  | RInt z => Ok (mkpk t [] [] (dec_Z z) [])
  end.

Inductive outcome := OErr (e : errclass) | OPanic (site : nat) | ONoFuel.

(* ------------------------------------------------------------------ generic part *)
Record prims (S : Type) := mkprims {
  p_size : S -> nat;                          (* bytes still to come (measure only) *)
  p_next : S -> res (byte * S);               (* ensureFill; b := Buf[count]; count++ *)
  p_line_bytes : nat -> S -> res (bytes * S); (* readLineBytes (loop fuel) *)
  p_peek_minus : S -> res (bool * S)          (* ensureFill; if Buf[count] == '-' { count++ } *)
}.
Arguments p_size {S}. Arguments p_next {S}. Arguments p_line_bytes {S}. Arguments p_peek_minus {S}.

(* Fuel: [lf] bounds the iterations of one byte loop (each iteration consumes a byte, so any
   lf > bytes still to come is never exhausted); it is handed down unchanged.  [fuel] of
   [process] is the nesting depth still allowed. *)
Section Generic.
  Variable S : Type.
  Variable P : prims S.

  (* the loop of readLine (read.go:63-84) and of readLineBytesSlowly (read.go:124-146) *)
  Fixpoint line_go (k : nat) (acc : bytes) (st : S) : res (bytes * S) :=
    match k with
    | O => OutOfFuel
    | Datatypes.S k' =>
        let* (b, st1) := p_next P st in
        if beq b CR then
          let* (c, st2) := p_next P st1 in
          if beq c LF then Ok (frev acc, st2) else line_go k' (c :: b :: acc) st2
        else line_go k' (b :: acc) st1
    end.

  (* readLineBytesSlowly, read.go:122 *)
  Definition read_line_slow (lf : nat) (st : S) : res (bytes * S) := line_go lf [] st.

  (* readLine, read.go:61 *)
  Definition read_line (lf : nat) (st : S) : res (bytes * S) :=
    let* (l, st1) := line_go lf [] st in
    match l with
    | [] => Err EProto
    | _ :: _ => Ok (l, st1)
    end.

  (* the digit loop of readIntCrLf, read.go:164-186 *)
  Fixpoint int_go (k : nat) (v : Z) (st : S) : res (Z * S) :=
    match k with
    | O => OutOfFuel
    | Datatypes.S k' =>
        let* (b, st1) := p_next P st in
        if beq b CR then
          let* (c, st2) := p_next P st1 in
          if beq c LF then Ok (v, st2) else Err EProto
        else int_go k' (wrap64 (v * 10 + b2z b - 48)) st1
    end.

  (* readIntCrLf, read.go:150 *)
  Definition read_int (lf : nat) (st : S) : res (Z * S) :=
    let* (neg, st1) := p_peek_minus P st in
    let* (v, st2) := int_go lf 0 st1 in
    Ok (if neg : bool then wrap64 (- v) else v, st2).

  (* the body loop of processBulkString, read.go:334-341 *)
  Fixpoint take_go (k : nat) (n : Z) (acc : bytes) (st : S) : res (bytes * S) :=
    if n <=? 0 then Ok (frev acc, st) else
    match k with
    | O => OutOfFuel
    | Datatypes.S k' =>
        let* (b, st1) := p_next P st in
        take_go k' (n - 1) (b :: acc) st1
    end.

  (* processBulkString, read.go:322 *)
  Definition process_bulk (lf : nat) (st : S) : res (rval * S) :=
    let* (l, st1) := read_int lf st in
    if l =? -1 then Ok (RNilBytes, st1)
    else if l <? 0 then Err EProto
    else
      let* (body, st2) := take_go lf l [] st1 in
      let* (b1, st3) := p_next P st2 in
      if negb (beq b1 CR) then Err EProto else
      let* (b2, st4) := p_next P st3 in
      if negb (beq b2 LF) then Err EProto else Ok (RBytes body, st4).

  (* processError, read.go:377 *)
  Definition process_error (lf : nat) (st : S) : res (rval * S) :=
    let* (msg, st1) := read_line lf st in
    let* s := format_error msg in
    Ok (RStr s, st1).

  (* the element loop of processArray, read.go:363-369 (after the fix: the first element that
     cannot be read ends the array with its error); [pr] reads one element *)
  Fixpoint elems_go (pr : S -> res (rval * rtype * S)) (k : nat) (n : Z) (acc : list rval) (st : S)
    : res (list rval * S) :=
    if n <=? 0 then Ok (frev acc, st) else
    match k with
    | O => OutOfFuel
    | Datatypes.S k' =>
        let* (v, _, st') := pr st in
        elems_go pr k' (n - 1) (v :: acc) st'
    end.

  (* process / processArray, read.go:287 and 354.  One unit of [fuel] per nesting level; the
     element loop of one array runs on the loop fuel (at most one element per byte) *)
  Fixpoint process (fuel lf : nat) (st : S) : res (rval * rtype * S) :=
    match fuel with
    | O => OutOfFuel
    | Datatypes.S f =>
        let* (b, st1) := p_next P st in
        if beq b PLUS then
          let* (l, st2) := p_line_bytes P lf st1 in Ok (RBytes l, TSimple, st2)
        else if beq b DOLLAR then
          let* (v, st2) := process_bulk lf st1 in Ok (v, TBulk, st2)
        else if beq b STAR then
          let* (l, st2) := read_int lf st1 in
          if l =? -1 then Ok (RNilArr, TArray, st2) else
          let* (els, st3) := elems_go (process f lf) lf l [] st2 in
          Ok (RArr els, TArray, st3)
        else if beq b COLON then
          let* (z, st2) := read_int lf st1 in Ok (RInt z, TInt, st2)
        else if beq b MINUS then
          let* (v, st2) := process_error lf st1 in Ok (v, TError, st2)
        else Err EProto
    end.

  (* RedisProtocol.Read, read.go:202 *)
  Definition read_packet (fuel : nat) (st : S) : res (packet * S) :=
    let* (x, t, st1) := process fuel fuel st in
    let* p := shape x t in
    Ok (p, st1).

  (* the loop of Dissect, main.go:40: the packets handed to the handlers, and how it ended
     (Dissect never returns nil) *)
  Fixpoint dissect_loop (k fuel : nat) (st : S) (acc : list packet) : list packet * outcome :=
    match k with
    | O => (frev acc, ONoFuel)
    | Datatypes.S k' =>
        match read_packet fuel st with
        | Ok (p, st') => dissect_loop k' fuel st' (p :: acc)
        | Err e => (frev acc, OErr e)
        | Panic n => (frev acc, OPanic n)
        | OutOfFuel => (frev acc, ONoFuel)
        end
    end.

  Definition dissect_fuel (fuel : nat) (st : S) : list packet * outcome := dissect_loop fuel fuel st [].
  Definition fuel_of (st : S) : nat := p_size P st + 2.
  Definition dissect (st : S) : list packet * outcome := dissect_fuel (fuel_of st) st.
End Generic.

Arguments line_go {S}. Arguments read_line_slow {S}. Arguments read_line {S}. Arguments int_go {S}.
Arguments read_int {S}. Arguments take_go {S}. Arguments process_bulk {S}. Arguments process_error {S}.
Arguments elems_go {S}. Arguments process {S}. Arguments read_packet {S}. Arguments dissect_loop {S}. Arguments dissect_fuel {S}.
Arguments fuel_of {S}. Arguments dissect {S}.

(* ------------------------------------------------------------------ chunked instance = the code *)
(* readIntCrLf's first lines, read.go:151-162 *)
Definition ch_peek_minus (st : rst) : res (bool * rst) :=
  let* st1 := ensure_fill st in
  match unread st1 with
  | [] => Panic 157
  | b :: u => if beq b MINUS then Ok (true, set_unread st1 u) else Ok (false, st1)
  end.

Definition ch_base : prims rst := mkprims rst size_st read_byte (fun _ _ => Err EProto) ch_peek_minus.

(* readLineBytes, read.go:91: scan inside the buffer, else the slow path from the same position *)
Definition ch_line_bytes (lf : nat) (st : rst) : res (bytes * rst) :=
  let* st1 := ensure_fill st in
  match scan_crlf [] (unread st1) with
  | Some (line, u') => Ok (line, set_unread st1 u')
  | None => read_line_slow ch_base lf st1
  end.

Definition CH : prims rst := mkprims rst size_st read_byte ch_line_bytes ch_peek_minus.

(* ------------------------------------------------------------------ flat instance *)
Definition fstate : Type := bytes * tailk.
Definition fl_next (s : fstate) : res (byte * fstate) :=
  match fst s with
  | [] => Err (tail_err (snd s))
  | b :: l => Ok (b, (l, snd s))
  end.
Definition fl_line_bytes (lf : nat) (s : fstate) : res (bytes * fstate) :=
  match scan_crlf [] (fst s) with
  | Some (line, r) => Ok (line, (r, snd s))
  | None => Err (tail_err (snd s))
  end.
Definition fl_peek_minus (s : fstate) : res (bool * fstate) :=
  match fst s with
  | [] => Err (tail_err (snd s))
  | b :: l => if beq b MINUS then Ok (true, (l, snd s)) else Ok (false, s)
  end.
Definition FL : prims fstate := mkprims fstate (fun s => length (fst s)) fl_next fl_line_bytes fl_peek_minus.

(* ------------------------------------------------------------------ one connection *)
Record input := mkin { chunks : list bytes; tail : tailk }.
Definition start (i : input) : rst := mkst [] (chunks i) (tail i).

(* Dissect on one half: the packets and the way it ended *)
Definition dissect_half (i : input) : list packet * outcome := dissect CH (start i).

(* handlers.go + matcher.go for the order the test-suite uses (client half to completion, then
   server half): the k-th reply meets the k-th stored command; what has no partner stays in the map *)
Definition pair_cs (reqs resps : list packet) : list (packet * packet) * nat :=
  (combine reqs resps, (length reqs - length resps) + (length resps - length reqs))%nat.

Definition dissect_pair (ci si : input) : outcome * outcome * list (packet * packet) * nat :=
  let '(reqs, oc) := dissect_half ci in
  let '(resps, os) := dissect_half si in
  let '(items, residue) := pair_cs reqs resps in
  (oc, os, items, residue).
