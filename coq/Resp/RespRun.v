(* Glue for the model / implementation correspondence (K): the shape of one recorded case
   (inputs and the observables the harness printed) and the check the case files evaluate.
   Case files carry long byte strings packed seven bytes per primitive integer (only a compact
   literal format; nothing in the model or in the proofs depends on it). *)
Require Import V.Base.Prelude V.Resp.RespBase V.Resp.RespModel.
From Coq Require Import Uint63.

Definition byte_of_int (i : int) : byte :=
  Byte.of_bits (bit i 0, (bit i 1, (bit i 2, (bit i 3, (bit i 4, (bit i 5, (bit i 6, bit i 7))))))).
Definition unpack7 (i : int) : bytes :=
  [byte_of_int i; byte_of_int (i >> 8); byte_of_int (i >> 16); byte_of_int (i >> 24);
   byte_of_int (i >> 32); byte_of_int (i >> 40); byte_of_int (i >> 48)]%uint63.
(* pk7 ints tail: 7 bytes per integer (little endian), then the remaining bytes *)
Definition pk7 (l : list int) (t : list N) : bytes := flat_map unpack7 l ++ bs t.

(* cut a stream into reads of the given lengths (the rest, if any, is the last read) *)
Fixpoint split_lens (lens : list N) (d : bytes) : list bytes :=
  match lens with
  | [] => match d with [] => [] | _ :: _ => [d] end
  | n :: ls => firstn (N.to_nat n) d :: split_lens ls (skipn (N.to_nat n) d)
  end.

Definition pk : Type := nat * bytes * bytes * bytes * bytes.
Definition kside : Type := bytes * list N * nat.          (* stream, read lengths, tail kind *)
Definition kcase : Type := (kside * kside) * (nat * nat * list (pk * pk) * nat).

Definition tail_of_nat (n : nat) : tailk :=
  match n with O => TEof | S O => TErrOnce | _ => TErrForever end.

(* outcome class as printed by vh-redis: 0 eof | 1 error | 2 panic | 3 no termination within fuel *)
Definition out_code (o : outcome) : nat :=
  match o with
  | OErr EEOF => 0
  | OErr _ => 1
  | OPanic _ => 2
  | ONoFuel => 3
  end.

Definition pk_of (p : packet) : pk := (rtype_code (p_ty p), p_cmd p, p_key p, p_val p, p_kw p).

Definition pk_eqb (a b : pk) : bool :=
  let '(t1, c1, k1, v1, w1) := a in
  let '(t2, c2, k2, v2, w2) := b in
  Nat.eqb t1 t2 && bytes_eqb c1 c2 && bytes_eqb k1 k2 && bytes_eqb v1 v2 && bytes_eqb w1 w2.

Definition item_eqb (a b : pk * pk) : bool := pk_eqb (fst a) (fst b) && pk_eqb (snd a) (snd b).

Definition input_of (s : kside) : input :=
  let '(d, lens, t) := s in mkin (split_lens lens d) (tail_of_nat t).

Definition kcheck (c : kcase) : bool :=
  let '((cs, ss), (oc, os, items, residue)) := c in
  let '(moc, mos, mitems, mres) := dissect_pair (input_of cs) (input_of ss) in
  Nat.eqb (out_code moc) oc && Nat.eqb (out_code mos) os
  && list_eqb item_eqb (map (fun it => (pk_of (fst it), pk_of (snd it))) mitems) items
  && Nat.eqb mres residue.

(* ---- the specification against the independent encoder / oracle of tools/fam/resp.py ----
   one case = an abstract conversation, the two streams the Python encoder produced, whether the
   Python classifier put it into a recorded finding class, and (when it did not) the views the
   Python oracle expects *)
Require Import V.Resp.RespSpec.

Definition rty_code (t : rty) : nat :=
  match t with TySimple => 0 | TyBulk => 1 | TyArray => 2 | TyInt => 3 | TyError => 4 | TyNull => 6 end.
Definition pk_of_view (v : pview) : pk := (rty_code (v_ty v), v_cmd v, v_key v, v_val v, v_kw v).

Definition scase : Type := conversation * (bytes * bytes * bool * list (pk * pk)).

Definition scheck (c : scase) : bool :=
  let '(cv, (cb, sb, pyexcl, views)) := c in
  bytes_eqb (enc_cmds cv) cb && bytes_eqb (enc_replies cv) sb
  && Bool.eqb (negb (wf_conv cv) || excl cv) pyexcl
  && (pyexcl || list_eqb item_eqb (map (fun it => (pk_of_view (fst it), pk_of_view (snd it))) (report cv)) views).
