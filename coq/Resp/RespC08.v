(* C08, Redis share: what the dissector emits and how it ends depends only on the bytes of each
   direction, not on how they were cut into reads (any chunking, including empty reads and reads
   longer than the refill buffer, any end-of-stream kind). *)
Require Import V.Base.Prelude V.Resp.RespBase V.Resp.RespModel V.Resp.RespRefine.

Lemma absf_start i : absf (start i) = (concat (chunks i), tail i).
Proof. reflexivity. Qed.

(* one half = the flat model on the concatenation of its reads *)
Theorem resp_C08_flat : forall i, dissect_half i = dissect FL (concat (chunks i), tail i).
Proof. intro i. unfold dissect_half. rewrite dissect_refines. reflexivity. Qed.

(* same bytes, same end of stream, different segmentation: same packets, same outcome *)
Theorem resp_C08_half : forall cs1 cs2 t, concat cs1 = concat cs2 ->
  dissect_half (mkin cs1 t) = dissect_half (mkin cs2 t).
Proof. intros cs1 cs2 t H. rewrite !resp_C08_flat. cbn [chunks tail]. rewrite H. reflexivity. Qed.

(* both directions of a connection: same items, same outcome classes, same matcher residue *)
Theorem resp_C08_pair : forall c1 c2 s1 s2 tc ts, concat c1 = concat c2 -> concat s1 = concat s2 ->
  dissect_pair (mkin c1 tc) (mkin s1 ts) = dissect_pair (mkin c2 tc) (mkin s2 ts).
Proof.
  intros c1 c2 s1 s2 tc ts Hc Hs. unfold dissect_pair.
  rewrite (resp_C08_half c1 c2 tc Hc), (resp_C08_half s1 s2 ts Hs). reflexivity.
Qed.

(* in particular: all at once, or one byte at a time *)
Corollary resp_C08_single_bytes : forall d t,
  dissect_half (mkin (map (fun b => [b]) d) t) = dissect_half (mkin [d] t).
Proof.
  intros d t. apply resp_C08_half. cbn [concat]. rewrite app_nil_r.
  induction d as [|b d IH]; cbn [map concat app]; [reflexivity|]. rewrite IH. reflexivity.
Qed.

Example resp_C08_example :
  dissect_half (mkin [bs [43;80;79]%N; bs [78;71;13;10]%N] TEof) = dissect_half (mkin [bs [43;80;79;78;71;13;10]%N] TEof).
Proof. apply resp_C08_half. reflexivity. Qed.
