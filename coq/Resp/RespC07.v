(* C07: values are read back exactly (bulk strings by declared length, any bytes), and a
   well-formed conversation outside the recorded finding classes is reported exchange by
   exchange, whatever the segmentation of either direction. *)
Require Import V.Base.Prelude V.Resp.RespBase V.Resp.RespModel V.Resp.RespSpec V.Resp.RespRefine V.Resp.RespDec.
Require Import V.Resp.RespFlat V.Resp.RespC08 V.gen.RedisTables.
Local Open Scope nat_scope.

(* the Go value process() returns for a RESP value *)
Fixpoint value_of (v : value) : rval :=
  match v with
  | VSimple s => RBytes s
  | VError e => RStr (err_view e)
  | VInt z => RInt z
  | VBulk b => RBytes b
  | VNullBulk => RNilBytes
  | VArray l => RArr (map value_of l)
  | VNullArray => RNilArr
  end.
Definition type_of (v : value) : rtype :=
  match v with
  | VSimple _ => TSimple | VError _ => TError | VInt _ => TInt
  | VBulk _ | VNullBulk => TBulk | VArray _ | VNullArray => TArray
  end.

Fixpoint vdepth (v : value) : nat :=
  match v with
  | VArray l => S (fold_right Nat.max 0 (map vdepth l))
  | _ => 1
  end.

(* induction over values with the elements of an array as hypotheses *)
Section ValueInd.
  Variable P : value -> Prop.
  Hypothesis Hsimple : forall s, P (VSimple s).
  Hypothesis Herror : forall e, P (VError e).
  Hypothesis Hint : forall z, P (VInt z).
  Hypothesis Hbulk : forall b, P (VBulk b).
  Hypothesis Hnullbulk : P VNullBulk.
  Hypothesis Harray : forall l, Forall P l -> P (VArray l).
  Hypothesis Hnullarray : P VNullArray.
  Fixpoint value_ind' (v : value) : P v :=
    match v with
    | VSimple s => Hsimple s
    | VError e => Herror e
    | VInt z => Hint z
    | VBulk b => Hbulk b
    | VNullBulk => Hnullbulk
    | VArray l => Harray l ((fix go (l : list value) : Forall P l :=
                               match l with
                               | [] => Forall_nil P
                               | x :: l' => Forall_cons x (value_ind' x) (go l')
                               end) l)
    | VNullArray => Hnullarray
    end.
End ValueInd.

Lemma enc_nonempty v : 1 <= length (enc v).
Proof. destruct v; cbn [enc length]; lia. Qed.

Lemma concat_enc_length l : length l <= length (concat (map enc l)).
Proof.
  induction l as [|x l IH]; cbn [map concat length]; [lia|]. rewrite app_length.
  pose proof (enc_nonempty x). lia.
Qed.

(* the element loop on the encodings of the elements *)
Lemma elems_enc f lf t (l : list value) :
  Forall (fun v => wf v = true -> forall fuel r, vdepth v <= fuel -> length (enc v ++ r) < lf ->
            process FL fuel lf (enc v ++ r, t) = Ok (value_of v, type_of v, (r, t))) l ->
  forallb wf l = true -> (forall v, In v l -> vdepth v <= f) ->
  forall k acc r, length l <= k -> length (concat (map enc l) ++ r) < lf ->
    elems_go (process FL f lf) k (Z.of_nat (length l)) acc (concat (map enc l) ++ r, t)
    = Ok (rev acc ++ map value_of l, (r, t)).
Proof.
  induction 1 as [|x l Hx Hl IH]; intros Hwf Hdep k acc r Hk Hlf.
  - destruct k; cbn [length map concat app elems_go]; cbn [Z.of_nat Z.leb Z.compare]; rewrite frev_rev, app_nil_r; reflexivity.
  - cbn [forallb] in Hwf. apply andb_true_iff in Hwf. destruct Hwf as [Hwx Hwl].
    destruct k as [|k]; [cbn [length] in Hk; lia|]. cbn [elems_go].
    destruct (Z.of_nat (length (x :: l)) <=? 0)%Z eqn:E; [apply Z.leb_le in E; cbn [length] in E; lia|].
    cbn [map concat]. rewrite <- app_assoc.
    rewrite (Hx Hwx f (concat (map enc l) ++ r)).
    + cbn [bind].
      replace (Z.of_nat (length (x :: l)) - 1)%Z with (Z.of_nat (length l)) by (cbn [length]; lia).
      rewrite IH.
      * cbn [rev map]. rewrite <- app_assoc. reflexivity.
      * exact Hwl.
      * intros v Hv. apply Hdep. right. exact Hv.
      * cbn [length] in Hk. lia.
      * cbn [map concat] in Hlf. rewrite <- app_assoc in Hlf. rewrite app_length in Hlf. lia.
    + apply Hdep. left. reflexivity.
    + cbn [map concat] in Hlf. rewrite <- app_assoc in Hlf. exact Hlf.
Qed.

Lemma vdepth_elems l v : In v l -> vdepth v <= fold_right Nat.max 0 (map vdepth l).
Proof.
  induction l as [|x l IH]; intro H; [contradiction|]. cbn [map fold_right].
  destruct H as [H|H]; [subst; lia|]. apply IH in H. lia.
Qed.

(* C07_values on the flat reader: the encoding of a well-formed value, followed by anything, is
   read back as that value and leaves exactly what followed *)
Theorem process_enc : forall v, wf v = true -> forall fuel lf r t,
  vdepth v <= fuel -> length (enc v ++ r) < lf ->
  process FL fuel lf (enc v ++ r, t) = Ok (value_of v, type_of v, (r, t)).
Proof.
  intros v Hw fuel lf r t. revert v Hw fuel r.
  refine (value_ind' _ _ _ _ _ _ _ _); [intros s|intros e|intros z|intros b| |intros l IHl| ];
    intros Hw fuel r Hd Hlf; (destruct fuel as [|f]; [cbn [vdepth] in Hd; lia|]);
    cbn [enc] in *; cbn [app process]; rewrite fl_next_cons; cbn [bind].
  - rewrite beq_refl. unfold crlf. rewrite <- app_assoc. cbn [app].
    rewrite line_bytes_line by exact Hw. reflexivity.
  - replace (beq MINUS PLUS) with false by reflexivity. replace (beq MINUS DOLLAR) with false by reflexivity.
    replace (beq MINUS STAR) with false by reflexivity. replace (beq MINUS COLON) with false by reflexivity.
    rewrite beq_refl. unfold crlf in *. rewrite <- app_assoc. cbn [app].
    rewrite process_error_enc; [reflexivity|exact Hw|].
    cbn [app length] in Hlf. rewrite <- app_assoc in Hlf. cbn [app] in Hlf. lia.
  - replace (beq COLON PLUS) with false by reflexivity. replace (beq COLON DOLLAR) with false by reflexivity.
    replace (beq COLON STAR) with false by reflexivity. rewrite beq_refl.
    unfold crlf in *. rewrite <- app_assoc. cbn [app].
    cbn [wf] in Hw. apply andb_true_iff in Hw. destruct Hw as [H1 H2]. apply Z.leb_le in H1. apply Z.ltb_lt in H2.
    rewrite read_int_dec; [reflexivity|unfold int64_min, int64_max, two63 in *; lia|].
    cbn [app length] in Hlf. rewrite <- app_assoc in Hlf. rewrite app_length in Hlf. lia.
  - replace (beq DOLLAR PLUS) with false by reflexivity. rewrite beq_refl.
    cbn [wf] in Hw. apply small_len_lt in Hw.
    rewrite <- !app_assoc.
    rewrite process_bulk_enc; [reflexivity|exact Hw|].
    cbn [app length] in Hlf. rewrite <- !app_assoc in Hlf. lia.
  - replace (beq DOLLAR PLUS) with false by reflexivity. rewrite beq_refl.
    rewrite <- app_assoc.
    rewrite process_bulk_null; [reflexivity|]. cbn [app length] in Hlf. rewrite !app_length in Hlf.
    replace (length (dec_Z (-1))) with 2 in Hlf by reflexivity. unfold crlf in Hlf. cbn [length] in Hlf. lia.
  - replace (beq STAR PLUS) with false by reflexivity. replace (beq STAR DOLLAR) with false by reflexivity.
    rewrite beq_refl. cbn [wf] in Hw. apply andb_true_iff in Hw. destruct Hw as [H1 H2]. apply small_len_lt in H1.
    unfold crlf, len_text in *. rewrite <- !app_assoc. cbn [app].
    cbn [app length] in Hlf. rewrite <- !app_assoc in Hlf. cbn [app] in Hlf. rewrite app_length in Hlf. cbn [length] in Hlf.
    rewrite read_int_dec; [|unfold int64_min, int64_max, two63 in *; lia|lia]. cbn [bind].
    destruct (Z.of_nat (length l) =? -1)%Z eqn:E; [apply Z.eqb_eq in E; lia|].
    rewrite (elems_enc f lf t l IHl H2).
    + reflexivity.
    + intros v Hv. cbn [vdepth] in Hd. pose proof (vdepth_elems l v Hv). lia.
    + pose proof (concat_enc_length l). rewrite app_length in Hlf. lia.
    + lia.
  - replace (beq STAR PLUS) with false by reflexivity. replace (beq STAR DOLLAR) with false by reflexivity.
    rewrite beq_refl. unfold crlf in *. rewrite <- app_assoc. cbn [app].
    rewrite read_int_dec; [reflexivity|unfold int64_min, int64_max; lia|].
    cbn [app length] in Hlf. rewrite <- app_assoc in Hlf. rewrite app_length in Hlf. lia.
Qed.

Lemma vdepth_le_enc : forall v, vdepth v <= length (enc v).
Proof.
  refine (value_ind' _ _ _ _ _ _ _ _); intros; cbn [vdepth enc length]; try lia.
  rewrite !app_length.
  assert (Hm : fold_right Nat.max 0 (map vdepth l) <= length (concat (map enc l))).
  { match goal with H : Forall _ ?l |- _ => induction H as [|x l' Hx Hl IH] end.
    - cbn [map fold_right concat length]. lia.
    - cbn [map fold_right concat]. rewrite app_length. lia. }
  lia.
Qed.

(* ------------------------------------------------------------------ C07_values on the code model *)
Lemma fuel_enough v r : vdepth v <= length (enc v ++ r) + 2 /\ length (enc v ++ r) < length (enc v ++ r) + 2.
Proof. pose proof (vdepth_le_enc v). rewrite app_length. lia. Qed.

(* whatever the segmentation: a reader positioned in front of the encoding of a well-formed value
   returns that value (bulk strings by their declared length, whatever bytes they contain) and is
   left in front of what followed *)
Theorem C07_values_chunked : forall v st r, wf v = true -> abs st = enc v ++ r ->
  exists st', process CH (fuel_of CH st) (fuel_of CH st) st = Ok (value_of v, type_of v, st')
              /\ abs st' = r /\ tl st' = tl st.
Proof.
  intros v st r Hw Ha. unfold fuel_of. change (p_size CH st) with (size_st st). rewrite size_st_abs.
  assert (Hab : absf st = (enc v ++ r, tl st)) by (unfold absf; rewrite Ha; reflexivity).
  rewrite Hab. unfold sz. cbn [fst].
  destruct (fuel_enough v r) as [F1 F2].
  pose proof (process_sim (length (enc v ++ r) + 2) (length (enc v ++ r) + 2) st) as Hs.
  rewrite Hab in Hs. unfold sz in Hs. cbn [fst] in Hs. specialize (Hs F2).
  rewrite (process_enc v Hw _ _ r (tl st) F1 F2) in Hs.
  destruct (process CH _ _ st) as [[[x ty] st']|e|n|]; cbn [rmap] in Hs; try discriminate.
  inversion Hs. subst. exists st'. split; [reflexivity|]. split; reflexivity.
Qed.

(* ------------------------------------------------------------------ packets and views *)
Definition view_ty (t : rtype) : option rty :=
  match t with
  | TSimple => Some TySimple | TBulk => Some TyBulk | TArray => Some TyArray
  | TInt => Some TyInt | TError => Some TyError | TNA => None
  end.
Definition view_of (p : packet) : option pview :=
  match view_ty (p_ty p) with
  | Some t => Some (mkview t (p_cmd p) (p_key p) (p_val p) (p_kw p))
  | None => None
  end.
Definition item_view (it : packet * packet) : option (pview * pview) :=
  match view_of (fst it), view_of (snd it) with
  | Some a, Some b => Some (a, b)
  | _, _ => None
  end.

(* the packet the dissector builds for a command / for a reply outside the excluded shapes *)
Definition pk_cmd (c : cmd) : packet :=
  mkpk TArray (upper (fst c)) (match snd c with k :: _ => k | [] => [] end) (args_view (snd c)) [].
Definition pk_reply (v : value) : packet :=
  match v with
  | VSimple s => mkpk TSimple [] [] [] s
  | VError e => mkpk TError [] [] (err_view e) []
  | VInt z => mkpk TInt [] [] (dec_Z z) []
  | VBulk b => mkpk TBulk [] [] b []
  | _ => mkpk TArray [] [] [] []
  end.

Lemma view_pk_cmd c : view_of (pk_cmd c) = Some (cmd_view c).
Proof. reflexivity. Qed.

Lemma view_pk_reply v : excl_reply v = false -> view_of (pk_reply v) = Some (reply_view v).
Proof. intro He. destruct v as [s|e|z|b| |l| ]; try reflexivity; discriminate. Qed.

(* the generated tables are in upper case (checked against the tables of the current source) *)
Lemma keywords_upper : forallb (fun k => bytes_eqb (upper k) k) redis_keywords = true.
Proof. vm_compute. reflexivity. Qed.

Lemma keyword_upper s : mem_bytes s redis_keywords = true -> upper s = s.
Proof.
  unfold mem_bytes. intro H. apply existsb_exists in H. destruct H as (k & Hin & He).
  apply bytes_eqb_true in He. subst k.
  pose proof keywords_upper as U. rewrite forallb_forall in U. apply U in Hin. apply bytes_eqb_true in Hin. exact Hin.
Qed.

Lemma value_of_cmd name args :
  value_of (cmd_value (name, args)) = RArr (RBytes name :: map RBytes args).
Proof. unfold cmd_value. cbn [fst snd value_of map]. rewrite map_map. reflexivity. Qed.

Lemma shape_cmd c : excl_cmd c = false -> shape (value_of (cmd_value c)) TArray = Ok (pk_cmd c).
Proof.
  destruct c as [name args]. unfold excl_cmd. cbn [fst]. intro He. apply negb_false_iff in He.
  rewrite value_of_cmd. unfold pk_cmd. cbn [fst snd].
  assert (Hc : forall p, p_cmd p = upper name ->
                 match p_cmd p with [] => Ok p | _ :: _ => if mem_bytes (p_cmd p) redis_commands then Ok p else Err EProto end = Ok p).
  { intros p Hp. rewrite Hp, He. destruct (upper name); reflexivity. }
  destruct args as [|k [|v [|w more]]]; cbn [shape map elem_text_or_empty elem_text args_view].
  - apply Hc. reflexivity.
  - apply Hc. reflexivity.
  - apply Hc. reflexivity.
  - rewrite Hc by reflexivity. unfold join_rest. cbn [map elem_text]. rewrite map_map. reflexivity.
Qed.

Lemma shape_reply v : wf v = true -> excl_reply v = false ->
  shape (value_of v) (type_of v) = Ok (pk_reply v).
Proof.
  intros Hw He. destruct v as [s|e|z|b| |l| ]; cbn [value_of type_of shape pk_reply]; try reflexivity; try discriminate.
  - cbn [excl_reply] in He. apply negb_false_iff in He. rewrite (keyword_upper s He), He. reflexivity.
  - destruct l; [reflexivity|discriminate].
Qed.

(* ------------------------------------------------------------------ the Dissect loop on a stream of values *)
Lemma read_packet_enc v p r t fuel : wf v = true -> shape (value_of v) (type_of v) = Ok p ->
  length (enc v ++ r) + 2 <= fuel ->
  read_packet FL fuel (enc v ++ r, t) = Ok (p, (r, t)).
Proof.
  intros Hw Hs Hf. unfold read_packet. pose proof (vdepth_le_enc v) as Hd. rewrite app_length in Hf.
  rewrite (process_enc v Hw fuel fuel r t) by (try rewrite app_length; lia).
  cbn [bind]. rewrite Hs. reflexivity.
Qed.

Lemma dissect_loop_values t fuel : forall vs ps, 
  Forall2 (fun v p => wf v = true /\ shape (value_of v) (type_of v) = Ok p) vs ps ->
  forall k acc, length (concat (map enc vs)) + 2 <= fuel -> length vs < k ->
  dissect_loop FL k fuel (concat (map enc vs), t) acc = (rev acc ++ ps, OErr (tail_err t)).
Proof.
  induction 1 as [|v p vs ps [Hw Hs] Hrest IH]; intros k acc Hf Hk; (destruct k as [|k]; [lia|]).
  - cbn [map concat dissect_loop]. unfold read_packet. destruct fuel as [|f]; [lia|]. cbn [process].
    change (p_next FL ([], t)) with (fl_next ([], t)). unfold fl_next. cbn [fst snd bind].
    rewrite frev_rev, app_nil_r. reflexivity.
  - cbn [map concat dissect_loop]. cbn [map concat] in Hf. rewrite app_length in Hf.
    rewrite (read_packet_enc v p _ t fuel Hw Hs) by (rewrite app_length; lia).
    rewrite IH by (cbn [length] in Hk; lia). cbn [rev]. rewrite <- app_assoc. reflexivity.
Qed.

Lemma dissect_values t vs ps :
  Forall2 (fun v p => wf v = true /\ shape (value_of v) (type_of v) = Ok p) vs ps ->
  dissect FL (concat (map enc vs), t) = (ps, OErr (tail_err t)).
Proof.
  intro H. unfold dissect, dissect_fuel, fuel_of. cbn [p_size FL fst].
  rewrite (dissect_loop_values t _ vs ps H); [reflexivity|lia|].
  pose proof (concat_enc_length vs). lia.
Qed.

(* ------------------------------------------------------------------ C07_report *)
Lemma conv_cmds cv : wf_conv cv = true -> excl cv = false ->
  Forall2 (fun v p => wf v = true /\ shape (value_of v) (type_of v) = Ok p)
          (map (fun x => cmd_value (fst x)) cv) (map (fun x => pk_cmd (fst x)) cv).
Proof.
  induction cv as [|[c v] cv IH]; intros Hw He; cbn [map]; [constructor|].
  cbn [wf_conv forallb fst snd] in Hw. apply andb_true_iff in Hw. destruct Hw as [Hw1 Hw2].
  apply andb_true_iff in Hw1. destruct Hw1 as [Hc Hv].
  cbn [excl existsb fst snd] in He. apply orb_false_iff in He. destruct He as [He1 He2].
  apply orb_false_iff in He1. destruct He1 as [Hec Hev].
  constructor; [|apply IH; assumption].
  cbn [fst snd]. split; [exact Hc|]. change (type_of (cmd_value c)) with TArray. apply shape_cmd. exact Hec.
Qed.

Lemma conv_replies cv : wf_conv cv = true -> excl cv = false ->
  Forall2 (fun v p => wf v = true /\ shape (value_of v) (type_of v) = Ok p)
          (map snd cv) (map (fun x => pk_reply (snd x)) cv).
Proof.
  induction cv as [|[c v] cv IH]; intros Hw He; cbn [map]; [constructor|].
  cbn [wf_conv forallb fst snd] in Hw. apply andb_true_iff in Hw. destruct Hw as [Hw1 Hw2].
  apply andb_true_iff in Hw1. destruct Hw1 as [Hc Hv].
  cbn [excl existsb fst snd] in He. apply orb_false_iff in He. destruct He as [He1 He2].
  apply orb_false_iff in He1. destruct He1 as [Hec Hev].
  constructor; [|apply IH; assumption].
  cbn [fst snd]. split; [exact Hv|]. apply shape_reply; assumption.
Qed.

Definition items_of (cv : conversation) : list (packet * packet) :=
  map (fun x => (pk_cmd (fst x), pk_reply (snd x))) cv.

Lemma items_views cv : excl cv = false -> map item_view (items_of cv) = map Some (report cv).
Proof.
  induction cv as [|[c v] cv IH]; intro He; [reflexivity|].
  cbn [excl existsb fst snd] in He. apply orb_false_iff in He. destruct He as [He1 He2].
  apply orb_false_iff in He1. destruct He1 as [Hec Hev].
  unfold items_of, report in *. cbn [map fst snd]. rewrite (IH He2).
  unfold item_view. cbn [fst snd]. rewrite view_pk_cmd, (view_pk_reply v Hev). reflexivity.
Qed.

Lemma combine_map {A B C} (f : A -> B) (g : A -> C) (l : list A) :
  combine (map f l) (map g l) = map (fun x => (f x, g x)) l.
Proof. induction l as [|x l IH]; cbn [map combine]; [reflexivity|]. rewrite IH. reflexivity. Qed.

(* For every well-formed conversation outside the recorded finding classes, every segmentation of
   the two directions and every end-of-stream kind: both halves run to the end of their stream,
   the k-th item pairs the k-th command with the k-th reply, each reported with its type and
   content as sent, and nothing is left in the matcher. *)
Theorem C07_report : forall cv cc cs tc ts, wf_conv cv = true -> excl cv = false ->
  concat cc = enc_cmds cv -> concat cs = enc_replies cv ->
  dissect_pair (mkin cc tc) (mkin cs ts) = (OErr (tail_err tc), OErr (tail_err ts), items_of cv, 0)
  /\ map item_view (items_of cv) = map Some (report cv).
Proof.
  intros cv cc cs tc ts Hw He Hc Hs. split; [|apply items_views; exact He].
  unfold dissect_pair. rewrite !resp_C08_flat. cbn [chunks tail]. rewrite Hc, Hs.
  unfold enc_cmds, enc_replies.
  rewrite <- (map_map (fun x => cmd_value (fst x)) enc cv).
  rewrite <- (map_map snd enc cv).
  rewrite (dissect_values tc _ _ (conv_cmds cv Hw He)).
  rewrite (dissect_values ts _ _ (conv_replies cv Hw He)).
  unfold pair_cs. rewrite !map_length, Nat.sub_diag. rewrite combine_map. reflexivity.
Qed.

(* the k-th item is the k-th command with the k-th reply *)
Corollary C07_kth : forall cv k x, excl cv = false -> nth_error cv k = Some x ->
  exists it, nth_error (items_of cv) k = Some it
             /\ item_view it = Some (cmd_view (fst x), reply_view (snd x)).
Proof.
  intros cv k x He Hk. exists (pk_cmd (fst x), pk_reply (snd x)). split.
  - unfold items_of. rewrite nth_error_map, Hk. reflexivity.
  - pose proof (items_views cv He) as Hv.
    apply (f_equal (fun l => nth_error l k)) in Hv. rewrite !nth_error_map in Hv.
    unfold items_of, report in Hv. rewrite !nth_error_map, Hk in Hv. cbn [option_map] in Hv.
    inversion Hv. reflexivity.
Qed.

(* the hypotheses are satisfiable: GET k -> "a\r\nb" (a bulk string containing CRLF), PING -> PONG *)
Definition example_conv : conversation :=
  [ ((bs [71;69;84]%N, [bs [107]%N]), VBulk (bs [97;13;10;98]%N));
    ((bs [80;73;78;71]%N, []), VSimple (bs [80;79;78;71]%N)) ].
Example C07_example_hyps : wf_conv example_conv = true /\ excl example_conv = false.
Proof. split; vm_compute; reflexivity. Qed.
Example C07_example_run :
  dissect_pair (mkin [enc_cmds example_conv] TEof)
               (mkin (map (fun b => [b]) (enc_replies example_conv)) TEof)
  = (OErr EEOF, OErr EEOF, items_of example_conv, 0).
Proof. vm_compute. reflexivity. Qed.

(* the null replies are where the report loses information (finding R1): the value level
   distinguishes them, the packet does not *)
Example C07_null_values : value_of VNullBulk <> value_of (VBulk []) /\
  shape (value_of VNullBulk) TBulk = shape (value_of (VBulk [])) TBulk.
Proof. split; [discriminate|reflexivity]. Qed.

(* ------------------------------------------------------------------ the full statement and why it is refuted
   Without the exclusion of the recorded finding classes the statement is false on the model of
   the code: each witness below, replayed on the implementation, is one of the findings of
   known/resp.json (D14, R1, D15/D16). *)
Definition C07_statement : Prop := forall cv cc cs tc ts, wf_conv cv = true ->
  concat cc = enc_cmds cv -> concat cs = enc_replies cv ->
  exists items, dissect_pair (mkin cc tc) (mkin cs ts) = (OErr (tail_err tc), OErr (tail_err ts), items, 0)
                /\ map item_view items = map Some (report cv).

Definition get_k : cmd := (bs [71;69;84]%N, [bs [107]%N]).
Definition witness_keyword : conversation := [(get_k, VSimple (bs [70;79;79]%N))].            (* +FOO *)
Definition witness_null : conversation := [(get_k, VNullBulk)].                              (* $-1 *)
Definition witness_array : conversation := [(get_k, VArray [VBulk (bs [97]%N); VBulk (bs [98]%N)])].

Lemma refute_with (cv : conversation) : wf_conv cv = true ->
  (forall items, dissect_pair (mkin [enc_cmds cv] TEof) (mkin [enc_replies cv] TEof) = (OErr EEOF, OErr EEOF, items, 0) ->
                 map item_view items = map Some (report cv) -> False) ->
  ~ C07_statement.
Proof.
  intros Hw Hno H. destruct (H cv [enc_cmds cv] [enc_replies cv] TEof TEof Hw) as (items & H1 & H2).
  - cbn [concat]. apply app_nil_r.
  - cbn [concat]. apply app_nil_r.
  - exact (Hno items H1 H2).
Qed.

(* D14: a legal status reply outside the keyword table stops the server half *)
Theorem C07_refuted : ~ C07_statement.
Proof.
  apply (refute_with witness_keyword); [vm_compute; reflexivity|].
  intros items H _. vm_compute in H. discriminate.
Qed.

(* R1: a null bulk string is reported as a bulk string *)
Theorem C07_refuted_null : ~ C07_statement.
Proof.
  apply (refute_with witness_null); [vm_compute; reflexivity|].
  intros items H Hv. vm_compute in H. inversion H. subst items. vm_compute in Hv. discriminate.
Qed.

(* D16: a reply array of bulk strings is validated as a command and stops the server half *)
Theorem C07_refuted_array : ~ C07_statement.
Proof.
  apply (refute_with witness_array); [vm_compute; reflexivity|].
  intros items H _. vm_compute in H. discriminate.
Qed.
