(* C02, Redis share.  Proved here, for every input, segmentation, end-of-stream kind and direction:
     resp_C02_terminates   fuel 1*|input| + 2 suffices (any larger fuel too): Dissect ends with an
                           error result, in particular when the reader fails on every read
     resp_C02_progress     every packet handed to the handlers consumed at least one byte, so the
                           number of packets (and of matcher entries) is at most |input|
     resp_C02_value_size   the bytes held by a value that process() returns (line and bulk slices,
                           array element slots) were all consumed from the input: no length or
                           count field makes the reader hold more than the bytes that are present
   Not proved (no instrumented semantics of Go allocation / time in this model): the constant
   factors of append growth, the length of the formatted error text (prefix + message + parsed
   target), and the 8 KiB refill buffer; these are covered by the measured budget of the check. *)
Require Import V.Base.Prelude V.Resp.RespBase V.Resp.RespModel V.Resp.RespRefine.
Require Import V.Resp.RespC08 V.Resp.RespC01.
Local Open Scope nat_scope.

(* ------------------------------------------------------------------ termination within linear fuel *)
Theorem resp_C02_terminates_flat : forall l t fuel, length l + 2 <= fuel ->
  exists ps e, dissect_fuel FL fuel (l, t) = (ps, OErr e).
Proof.
  intros l t fuel H. unfold dissect_fuel. apply dissect_loop_ends; unfold sz; cbn [fst]; lia.
Qed.

Theorem resp_C02_terminates : forall i fuel, length (concat (chunks i)) + 2 <= fuel ->
  exists ps e, dissect_fuel CH fuel (start i) = (ps, OErr e).
Proof.
  intros i fuel H. unfold dissect_fuel.
  rewrite dissect_loop_sim by (rewrite absf_start; unfold sz; cbn [fst]; lia).
  rewrite absf_start. apply dissect_loop_ends; unfold sz; cbn [fst]; lia.
Qed.

(* a reader that fails on every read: still an error result, after at most |input| packets *)
Corollary resp_C02_err_forever : forall cs, exists ps e, dissect_half (mkin cs TErrForever) = (ps, OErr e).
Proof. intro cs. apply resp_C01_no_panic. Qed.

(* ------------------------------------------------------------------ progress *)
Lemma dissect_loop_count fuel : forall k s acc ps o,
  dissect_loop FL k fuel s acc = (ps, o) -> length ps <= length acc + sz s.
Proof.
  induction k as [|k IH]; intros s acc ps o H; cbn [dissect_loop] in H.
  - inversion H. rewrite frev_rev, rev_length. lia.
  - destruct (read_packet FL fuel s) as [[p s1]|e|n|] eqn:E1;
      try (inversion H; rewrite frev_rev, rev_length; lia).
    apply read_packet_sz in E1. destruct E1 as [E1 _]. apply IH in H. cbn [length] in H. lia.
Qed.

Theorem resp_C02_progress : forall i ps o, dissect_half i = (ps, o) -> length ps <= length (concat (chunks i)).
Proof.
  intros i ps o H. rewrite resp_C08_flat in H. unfold dissect, dissect_fuel in H.
  apply dissect_loop_count in H. cbn [length] in H. unfold sz in H. cbn [fst] in H. lia.
Qed.

(* ------------------------------------------------------------------ the bytes a value holds were consumed *)
Fixpoint rsize (v : rval) : nat :=
  match v with
  | RBytes b => length b
  | RArr l => length l + fold_right (fun x a => rsize x + a) 0 l
  | _ => 0
  end.
Definition rsum (l : list rval) : nat := fold_right (fun x a => rsize x + a) 0 l.

Lemma rsum_cons x a : rsum (x :: a) = rsize x + rsum a.
Proof. reflexivity. Qed.
Lemma rsum_app a b : rsum (a ++ b) = rsum a + rsum b.
Proof. induction a as [|x a IH]; [reflexivity|]. cbn [app]. rewrite !rsum_cons, IH. lia. Qed.
Lemma rsum_rev a : rsum (rev a) = rsum a.
Proof. induction a as [|x a IH]; [reflexivity|]. cbn [rev]. rewrite rsum_app, IH, !rsum_cons. cbn [rsum fold_right]. lia. Qed.

Lemma scan_crlf_exact : forall l acc ln r, scan_crlf acc l = Some (ln, r) -> length ln + 2 + length r = length acc + length l.
Proof.
  induction l as [l IH] using (well_founded_induction (Wf_nat.well_founded_ltof _ (@length byte))).
  intros acc ln r H. destruct l as [|p l1]; cbn [scan_crlf] in H; [discriminate|].
  destruct (beq p CR).
  - destruct l1 as [|q l2]; [discriminate|]. destruct (beq q LF).
    + inversion H. rewrite frev_rev, rev_length. cbn [length]. lia.
    + apply IH in H; [|unfold ltof; cbn [length]; lia]. cbn [length] in *. lia.
  - apply IH in H; [|unfold ltof; cbn [length]; lia]. cbn [length] in *. lia.
Qed.

Lemma take_go_exact k : forall n acc s x s', take_go FL k n acc s = Ok (x, s') -> length x + sz s' = length acc + sz s.
Proof.
  induction k as [|k IH]; intros n acc s x s' H; cbn [take_go] in H; destruct (n <=? 0)%Z;
    try (inversion H; subst; rewrite frev_rev, rev_length; reflexivity); try discriminate.
  change (p_next FL s) with (fl_next s) in H.
  destruct (fl_next s) as [[b s1]|e|m|] eqn:E1; cbn [bind] in H; try discriminate.
  apply fl_next_sz in E1. destruct E1 as [E1 _]. apply IH in H. cbn [length] in H. lia.
Qed.

Lemma process_bulk_size lf s v s' : process_bulk FL lf s = Ok (v, s') -> rsize v + sz s' <= sz s.
Proof.
  unfold process_bulk. destruct (read_int FL lf s) as [[l s1]|e|n|] eqn:E1; cbn [bind]; try discriminate.
  apply read_int_sz in E1. destruct E1 as [E1 _].
  destruct (l =? -1)%Z; [intro H; inversion H; subst; cbn [rsize]; lia|].
  destruct (l <? 0)%Z; [discriminate|].
  destruct (take_go FL lf l [] s1) as [[body s2]|e|n|] eqn:E2; cbn [bind]; try discriminate.
  apply take_go_exact in E2. cbn [length] in E2.
  change (p_next FL s2) with (fl_next s2).
  destruct (fl_next s2) as [[b1 s3]|e|n|] eqn:E3; cbn [bind]; try discriminate.
  apply fl_next_sz in E3. destruct E3 as [E3 _].
  destruct (negb (beq b1 CR)); [discriminate|].
  change (p_next FL s3) with (fl_next s3).
  destruct (fl_next s3) as [[b2 s4]|e|n|] eqn:E4; cbn [bind]; try discriminate.
  apply fl_next_sz in E4. destruct E4 as [E4 _].
  destruct (negb (beq b2 LF)); [discriminate|].
  intro H. inversion H. subst. cbn [rsize]. lia.
Qed.

Lemma process_error_str lf s x s' : process_error FL lf s = Ok (x, s') -> rsize x = 0.
Proof.
  unfold process_error. destruct (read_line FL lf s) as [[msg s1]|e|n|]; cbn [bind]; try discriminate.
  destruct (format_error msg); cbn [bind]; try discriminate. intro H. inversion H. reflexivity.
Qed.

Lemma elems_go_size (pr : fstate -> res (rval * rtype * fstate)) :
  (forall s v t s', pr s = Ok (v, t, s') -> rsize v + 1 + sz s' <= sz s) ->
  forall k n acc s x s', elems_go pr k n acc s = Ok (x, s') ->
    length x + rsum x + sz s' <= length acc + rsum acc + sz s.
Proof.
  intro Hpr. induction k as [|k IH]; intros n acc s x s' H; cbn [elems_go] in H; destruct (n <=? 0)%Z;
    try (inversion H; subst; rewrite frev_rev, rev_length, rsum_rev; lia); try discriminate.
  destruct (pr s) as [[[v t] s1]|e|m|] eqn:E1; cbn [bind] in H; try discriminate.
  apply Hpr in E1. apply IH in H. rewrite rsum_cons in H. cbn [length] in H. lia.
Qed.

(* every byte a returned value holds (line / bulk slices, one slot per array element), plus one,
   was consumed from the input *)
Theorem resp_C02_value_size_flat f lf : forall s v t s',
  process FL f lf s = Ok (v, t, s') -> rsize v + 1 + sz s' <= sz s.
Proof.
  induction f as [|f IH]; intros s v t s' H; cbn [process] in H; [discriminate|].
  change (p_next FL s) with (fl_next s) in H.
  destruct (fl_next s) as [[b s1]|e|n|] eqn:E1; cbn [bind] in H; try discriminate.
  apply fl_next_sz in E1. destruct E1 as [E1 _].
  destruct (beq b PLUS).
  { change (p_line_bytes FL lf s1) with (fl_line_bytes lf s1) in H. unfold fl_line_bytes in H.
    destruct (scan_crlf [] (fst s1)) as [[ln r]|] eqn:E2; cbn [bind] in H; try discriminate.
    apply scan_crlf_exact in E2. inversion H. subst. cbn [rsize length] in *. unfold sz in *. cbn [fst]. lia. }
  destruct (beq b DOLLAR).
  { destruct (process_bulk FL lf s1) as [[x s2]|e|n|] eqn:E2; cbn [bind] in H; try discriminate.
    apply process_bulk_size in E2. inversion H. subst. lia. }
  destruct (beq b STAR).
  { destruct (read_int FL lf s1) as [[l s2]|e|n|] eqn:E2; cbn [bind] in H; try discriminate.
    apply read_int_sz in E2. destruct E2 as [E2 _].
    destruct (l =? -1)%Z; [inversion H; subst; cbn [rsize]; lia|].
    destruct (elems_go (process FL f lf) lf l [] s2) as [[els s3]|e|n|] eqn:E3; cbn [bind] in H; try discriminate.
    apply (elems_go_size _ IH) in E3. inversion H. subst. cbn [rsize]. fold (rsum els). cbn [length rsum fold_right] in E3. lia. }
  destruct (beq b COLON).
  { destruct (read_int FL lf s1) as [[z s2]|e|n|] eqn:E2; cbn [bind] in H; try discriminate.
    apply read_int_sz in E2. inversion H. subst. cbn [rsize]. lia. }
  destruct (beq b MINUS); [|discriminate].
  destruct (process_error FL lf s1) as [[x s2]|e|n|] eqn:E2; cbn [bind] in H; try discriminate.
  pose proof (process_error_str lf s1 x s2 E2) as Hx.
  apply process_error_sz in E2. inversion H. subst. lia.
Qed.

Theorem resp_C02_value_size : forall st v t st',
  process CH (fuel_of CH st) (fuel_of CH st) st = Ok (v, t, st') ->
  rsize v + 1 + length (abs st') <= length (abs st).
Proof.
  intros st v t st' H. unfold fuel_of in H. change (p_size CH st) with (size_st st) in H.
  rewrite size_st_abs in H.
  pose proof (process_sim (sz (absf st) + 2) (sz (absf st) + 2) st ltac:(lia)) as Hs.
  rewrite H in Hs. cbn [rmap] in Hs. symmetry in Hs.
  apply resp_C02_value_size_flat in Hs. unfold sz, absf in Hs. cbn [fst] in Hs. exact Hs.
Qed.

(* the witness of the repaired defect D12: a huge element count with nothing behind it ends at once *)
Example resp_C02_huge_count :
  dissect_half (mkin [bs [42;50;49;52;55;52;56;51;54;52;55;13;10]%N] TErrForever) = ([], OErr EIO).
Proof. vm_compute. reflexivity. Qed.
